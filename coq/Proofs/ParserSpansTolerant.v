(** C01 — tolerant mode: whatever [Parser.run] returns with [tol = true] is in
    range, and arguments / bodies / node lists nest in document order inside
    their parent's span (the recovery placeholder of a missing required
    delimited argument sits where the reader is rewound to, repo fix d89cd3a).
    Same structure as [ParserSpansStrict]: per-task postconditions, now also
    for parse errors (their recovery nodes and recovery position), one step
    with the recursive calls abstracted, induction on the fuel. *)
From Coq Require Import NArith List Bool Arith Lia.
From PLV Require Import Base.PyStr Tok.PState Tok.Tokenizer Parse.Nodes Parse.Parser Parse.ParseWire
  Proofs.PyStrFacts Proofs.TokProofs Proofs.PStateProofs
  Proofs.ParserSpansDefs Proofs.ParserSpansTok Proofs.ParserSpansStep Proofs.ParserSpansStrict.
Import ListNotations.

(** * Well-formedness in tolerant mode *)
Section TN.
  Variable s : str.
  Fixpoint tol_node (n : node) {struct n} : Prop :=
    let tol_items := fix ti (l : list (option node)) : Prop :=
        match l with
        | [] => True
        | None :: r => ti r
        | Some x :: r => tol_node x /\ ti r
        end in
    match n with
    | NChars p e _ _ | NComment p e _ _ _ => p <= e /\ e <= length s
    | NGroup p e _ _ _ b | NMath p e _ _ _ _ b =>
        p <= e /\ e <= length s /\ chain p e (body_items b) /\ body_in p e b /\
        match b with None => True | Some x => tol_node x end
    | NMacro p e _ _ _ a | NSpecials p e _ _ a =>
        p <= e /\ e <= length s /\ match a with None => True | Some (_, l) => chain p e l /\ tol_items l end
    | NEnv p e _ _ a b =>
        p <= e /\ e <= length s /\ chain p e (body_items b) /\ body_in p e b /\
        match a with None => True | Some (_, l) => chain p e l /\ tol_items l end /\
        match b with None => True | Some x => tol_node x end
    | NList a b items =>
        match a, b with
        | Some x, Some y => x <= y /\ y <= length s /\ chain x y items
        | None, None => True
        | _, _ => False
        end /\ tol_items items
    end.
  Fixpoint tol_items (l : list (option node)) : Prop :=
    match l with
    | [] => True
    | None :: r => tol_items r
    | Some x :: r => tol_node x /\ tol_items r
    end.
End TN.

Definition tol_onode (s : str) (o : option node) : Prop :=
  match o with Some n => tol_node s n | None => True end.

Lemma tn_macro s p e m nm po a :
  tol_node s (NMacro p e m nm po a) =
  (p <= e /\ e <= length s /\ match a with None => True | Some (_, l) => chain p e l /\ tol_items s l end).
Proof. reflexivity. Qed.
Lemma tn_specials s p e m c a :
  tol_node s (NSpecials p e m c a) =
  (p <= e /\ e <= length s /\ match a with None => True | Some (_, l) => chain p e l /\ tol_items s l end).
Proof. reflexivity. Qed.
Lemma tn_env s p e m nm a b :
  tol_node s (NEnv p e m nm a b) =
  (p <= e /\ e <= length s /\ chain p e (body_items b) /\ body_in p e b /\
   match a with None => True | Some (_, l) => chain p e l /\ tol_items s l end /\
   match b with None => True | Some x => tol_node s x end).
Proof. reflexivity. Qed.
Lemma tn_list s a b items :
  tol_node s (NList a b items) =
  (match a, b with
   | Some x, Some y => x <= y /\ y <= length s /\ chain x y items
   | None, None => True
   | _, _ => False
   end /\ tol_items s items).
Proof. reflexivity. Qed.
Lemma tn_group s p e m dl dr b :
  tol_node s (NGroup p e m dl dr b) =
  (p <= e /\ e <= length s /\ chain p e (body_items b) /\ body_in p e b /\
   match b with None => True | Some x => tol_node s x end).
Proof. reflexivity. Qed.
Lemma tn_math s p e m d dl dr b :
  tol_node s (NMath p e m d dl dr b) =
  (p <= e /\ e <= length s /\ chain p e (body_items b) /\ body_in p e b /\
   match b with None => True | Some x => tol_node s x end).
Proof. reflexivity. Qed.

Lemma tol_items_app s l1 l2 : tol_items s (l1 ++ l2) <-> tol_items s l1 /\ tol_items s l2.
Proof. induction l1 as [|[x|] l1 IH]; cbn [app tol_items]; tauto. Qed.

Lemma tol_items_snoc s l o : tol_items s l -> tol_onode s o -> tol_items s (l ++ [o]).
Proof. intros A B. apply tol_items_app. destruct o; cbn [tol_items tol_onode] in *; tauto. Qed.

Lemma tol_items_in s l o : tol_items s l -> In o l -> tol_onode s o.
Proof.
  induction l as [|[x|] l IH]; cbn [tol_items In]; [tauto| |].
  - intros [A B] [E|E]; [subst o; exact A | auto].
  - intros A [E|E]; [subst o; exact I | auto].
Qed.

Lemma tol_span_le s n a b : tol_node s n -> nspan n = Some (a, b) -> a <= b /\ b <= length s.
Proof.
  destruct n; unfold nspan; cbn [node_pos node_end].
  - intros H E; injection E as <- <-. cbn [tol_node] in H. lia.
  - intros H E; injection E as <- <-. cbn [tol_node] in H. lia.
  - intros H E; injection E as <- <-. rewrite tn_group in H. lia.
  - intros H E; injection E as <- <-. rewrite tn_macro in H. lia.
  - intros H E; injection E as <- <-. rewrite tn_env in H. lia.
  - intros H E; injection E as <- <-. rewrite tn_specials in H. lia.
  - intros H E; injection E as <- <-. rewrite tn_math in H. lia.
  - rewrite tn_list. destruct p as [x|], e as [y|]; intros [H _] E; try discriminate.
    injection E as <- <-. lia.
Qed.

(** * The node list built over an ordered item list *)
Fixpoint all_none (l : list (option node)) : Prop :=
  match l with [] => True | None :: r => all_none r | Some _ :: _ => False end.

Lemma first_end_snoc_none l : first_end (l ++ [None]) = first_end l.
Proof. induction l as [|[n|] l IH]; cbn [app first_end]; auto. Qed.

Lemma all_none_app l1 l2 : all_none l1 -> all_none l2 -> all_none (l1 ++ l2).
Proof. induction l1 as [|[n|] l1 IH]; cbn [app all_none]; tauto. Qed.

Lemma all_none_rev l : all_none l -> all_none (rev l).
Proof.
  induction l as [|[n|] l IH]; cbn [rev all_none]; auto; [tauto|].
  intros H. apply all_none_app; [auto | exact I].
Qed.

Lemma first_end_all_none_app l1 l2 : all_none l1 -> first_end (l1 ++ l2) = first_end l2.
Proof. induction l1 as [|[n|] l1 IH]; cbn [app all_none first_end]; tauto. Qed.

Lemma chain_all_none lo hi l : all_none l -> lo <= hi -> chain lo hi l.
Proof. induction l as [|[n|] l IH]; cbn [all_none chain]; tauto. Qed.

Lemma chain_ends x y l : chain x y l ->
  (all_none l /\ first_pos l = None /\ last_end l = None) \/
  (exists a b, first_pos l = Some a /\ last_end l = Some b /\ x <= a /\ a <= b /\ b <= y /\ chain a b l).
Proof.
  revert x. induction l as [|[n|] l IH]; intros x; cbn [chain].
  - intros _. left. cbn. auto.
  - unfold nspan.
    destruct (node_pos n) as [a0|] eqn:Ea.
    2: tauto.
    destruct (node_end n) as [b0|] eqn:Eb.
    2: tauto.
    intros (A & B & C). right. pose proof (chain_le _ _ _ C) as LE.
    destruct (IH b0 C) as [(N1 & N2 & N3)|(a1 & b1 & P1 & P2 & Q1 & Q2 & Q3 & Q4)].
    + exists a0, b0. cbn [first_pos]. unfold last_end. cbn [rev].
      rewrite first_end_all_none_app by (apply all_none_rev; exact N1). cbn [first_end].
      repeat split; auto; try lia. apply chain_all_none; auto.
    + exists a0, b1. cbn [first_pos]. unfold last_end in *. cbn [rev].
      rewrite (first_end_app_some _ _ _ P2).
      repeat split; auto; try lia. eapply chain_weaken; eauto.
  - intros C. destruct (IH x C) as [(N1 & N2 & N3)|(a1 & b1 & P1 & P2 & Q)].
    + left. cbn [all_none first_pos]. unfold last_end in *. cbn [rev]. rewrite first_end_snoc_none. auto.
    + right. exists a1, b1. cbn [first_pos chain]. unfold last_end in *. cbn [rev].
      rewrite first_end_snoc_none. auto.
Qed.

(** [mk_nodelist None None l] with missing ends replaced by [x], over a chain inside [x, y] *)
Lemma nodelist_chain s x y l : chain x y l -> tol_items s l -> y <= length s ->
  exists a b,
    (match first_pos l with Some _ => first_pos l | None => Some x end) = Some a /\
    (match last_end l with Some _ => last_end l | None => Some x end) = Some b /\
    x <= a /\ a <= b /\ b <= y /\ tol_node s (NList (Some a) (Some b) l).
Proof.
  intros C T Y. pose proof (chain_le _ _ _ C) as LE.
  destruct (chain_ends x y l C) as [(N1 & N2 & N3)|(a1 & b1 & P1 & P2 & Q1 & Q2 & Q3 & Q4)].
  - exists x, x. rewrite N2, N3. do 5 (split; [first [reflexivity|lia]|]).
    rewrite tn_list. split; [|exact T]. repeat split; try lia. apply chain_all_none; auto.
  - exists a1, b1. rewrite P1, P2. do 5 (split; [first [reflexivity|lia]|]).
    rewrite tn_list. split; [|exact T]. repeat split; auto; lia.
Qed.

Section Tolerant.
  Variable s : str.
  Variable cx : context.
  Notation L := (length s).

  (** [LatexWalker.parse_content] in tolerant mode: where the reader is put after a recovered error *)
  Definition rpos (e : perr) (p : nat) : nat :=
    match pe_at e with
    | Some t => tpos t - length (tpre t)
    | None => match pe_past e with Some t => tend t | None => p end
    end.

  Lemma parse_content_tol (x : res out) :
    parse_content true x = match x with
                           | REOS p => Ok (ONode None) p
                           | PErr e p => Ok (ONode (pe_nodes e)) (rpos e p)
                           | y => y end.
  Proof. destruct x; reflexivity. Qed.

  Definition task_pre_t (t : task) : Prop :=
    task_pos t <= L /\
    match t with
    | TCollect ps o _ _ | TGeneral ps o _ => good ps /\ good_opts o
    | TGroup ps _ _ _ _ | TMath ps _ _ | TEnvBody ps _ _ | TExpr ps _ _ _ _ _ _ | TLegacyArgs ps _ _
    | TChars ps _ _ _ _ | TStdArg ps _ _ | TArgs ps _ _ _ | TCall ps _ _ _ => good ps
    | TVerbDelim _ _ _ => True
    end.

  (** a node with a span inside [lo, hi] *)
  Definition within (lo hi : nat) (n : node) : Prop :=
    tol_node s n /\ exists a b, nspan n = Some (a, b) /\ lo <= a /\ b <= hi.
  Definition owithin (lo hi : nat) (o : option node) : Prop :=
    match o with Some n => within lo hi n | None => True end.

  (** generic error: the recovery position is in [lo, L], the recovery nodes are inside [lo, it] *)
  Definition errG (lo : nat) (e : perr) (p : nat) : Prop :=
    lo <= rpos e p /\ rpos e p <= L /\ owithin lo (rpos e p) (pe_nodes e).
  (** a missing opening math delimiter: an empty list at the offending token, reader back at the
      start (the two coincide when the parser is started at a non-space character, as it always is) *)
  Definition errD (pos : nat) (e : perr) (p : nat) : Prop :=
    rpos e p = pos /\ exists q, pos <= q /\ q <= L /\
      pe_nodes e = Some (NList (Some q) (Some q) []) /\
      (nonspace_at s pos -> q = pos).
  (** a missing opening group delimiter: the empty list sits exactly where the reader is rewound to *)
  Definition errD0 (pos : nat) (e : perr) (p : nat) : Prop :=
    rpos e p = pos /\ pe_nodes e = Some (NList (Some pos) (Some pos) []).
  Definition errF (_ : perr) (_ : nat) : Prop := False.

  Definition res_post_t (lo : nat) (okP : out -> nat -> Prop) (errP : perr -> nat -> Prop)
             (eosP : nat -> Prop) (r : res out) : Prop :=
    match r with
    | Ok o p => lo <= p /\ p <= L /\ okP o p
    | PErr e p => errP e p
    | REOS p => eosP p
    | _ => True
    end.

  Lemma res_post_t_weaken lo lo' P (E E' : perr -> nat -> Prop) Q r :
    res_post_t lo' P E Q r -> lo <= lo' -> (forall e p, E e p -> E' e p) -> res_post_t lo P E' Q r.
  Proof.
    destruct r; cbn [res_post_t]; intros H A B; auto. destruct H as (X & Y & Z). repeat split; auto; lia.
  Qed.

  (** the collector while running *)
  Definition cinvw_t (start : nat) (st : collstate) (pos : nat) : Prop :=
    exists q, chain start q (cs_acc st) /\ tol_items s (cs_acc st) /\ q <= pos /\
      (cs_pend st <> [] -> cs_ppos st = Some q /\ q + length (cs_pend st) <= pos).
  Definition cinv_t (start : nat) (st : collstate) (pos : nat) : Prop :=
    cinvw_t start st pos /\ (cs_pend st = [] -> cs_ppos st = None \/ pos = L).
  Definition cdone_t (start : nat) (st : collstate) (p : nat) : Prop :=
    chain start p (cs_acc st) /\ tol_items s (cs_acc st).

  Definition coll_ok_t (start : nat) (o : out) (p : nat) : Prop :=
    match o with
    | OColl st' stopped _ _ =>
        cdone_t start st' p /\ match stopped with Some t => p <= tend t /\ tend t <= L | None => True end
    | _ => False
    end.
  Definition coll_err (start lo : nat) (e : perr) (p : nat) : Prop :=
    lo <= p /\ p <= L /\ exists items, pe_nodes e = Some (NList None None items) /\
                                       chain start p items /\ tol_items s items.

  Definition gen_ok (pos : nat) (o : out) (p : nat) : Prop :=
    exists n, o = ONode (Some n) /\ within pos p n.
  Definition gen_err (pos : nat) (e : perr) (p : nat) : Prop :=
    pe_at e = None /\ pe_past e = None /\ pos <= p /\ p <= L /\ exists n, pe_nodes e = Some n /\ within pos p n.

  Definition onode_t (lo : nat) (o : out) (p : nat) : Prop := exists n, o = ONode n /\ owithin lo p n.

  Definition post_t (t : task) (r : res out) : Prop :=
    match t with
    | TCollect ps og st pos =>
        forall start, cinv_t start st pos -> res_post_t pos (coll_ok_t start) (coll_err start pos) never r
    | TGeneral ps og pos => res_post_t pos (gen_ok pos) (gen_err pos) never r
    | TGroup ps d optional aps pos =>
        res_post_t pos
          (fun o p => match o with
                      | ONode None => True
                      | ONode (Some n) => tol_node s n /\ exists a, nspan n = Some (a, p) /\ pos <= a /\
                                                                    (aps = false -> a = pos)
                      | _ => False end)
          (errD0 pos) (fun p => p = pos) r
    | TMath ps d pos =>
        res_post_t pos
          (fun o p => match o with
                      | ONode (Some n) => tol_node s n /\ nspan n = Some (pos, p)
                      | _ => False end)
          (errD pos) (fun p => p = pos) r
    | TEnvBody ps name pos =>
        res_post_t pos
          (fun o p => exists n, o = ONode (Some n) /\ tol_node s n /\
                                chain pos p (body_items (Some n)) /\ body_in pos p (Some n)) errF never r
    | TExpr ps aps apc full sterr acc pos =>
        full = false -> forall lo, chain lo pos acc -> tol_items s acc ->
        res_post_t pos (onode_t lo) (errG pos) (in_range s pos) r
    | TChars ps ch aps full pos => res_post_t pos (onode_t pos) errF (in_range s pos) r
    | TVerbDelim ps d pos => res_post_t pos (onode_t pos) (errG pos) (in_range s pos) r
    | TStdArg ps k pos => res_post_t pos (onode_t pos) errF never r
    | TArgs ps specs acc pos =>
        forall lo, chain lo pos acc -> tol_items s acc ->
        res_post_t pos (fun o p => exists l, o = OArgs (Some ([], l)) /\ chain lo p l /\ tol_items s l) errF never r
    | TLegacyArgs ps k pos =>
        res_post_t pos (fun o p => exists sp l, o = OArgs (Some (sp, l)) /\ chain pos p l /\ tol_items s l)
                   (errG pos) never r
    | TCall ps t sp pos =>
        tpos t <= pos ->
        res_post_t pos (fun o p => match o with
                                   | ONode (Some n) => tol_node s n /\ nspan n = Some (tpos t, p)
                                   | _ => False end) errF never r
    end.


  Lemma res_post_t_mono lo lo' (P P' : out -> nat -> Prop) (E E' : perr -> nat -> Prop) (Q Q' : nat -> Prop) r :
    res_post_t lo' P E Q r -> lo <= lo' ->
    (forall o p, P o p -> P' o p) -> (forall e p, E e p -> E' e p) -> (forall p, Q p -> Q' p) ->
    res_post_t lo P' E' Q' r.
  Proof.
    destruct r; cbn [res_post_t]; intros H A B C D; auto. destruct H as (X & Y & Z). repeat split; auto; lia.
  Qed.

  Lemma errG_weaken lo lo' e p : errG lo' e p -> lo <= lo' -> errG lo e p.
  Proof.
    unfold errG. intros (A & B & C) H. split; [lia|]. split; [exact B|].
    destruct (pe_nodes e) as [n|]; cbn [owithin] in *; auto.
    destruct C as (T & a & b & SP & X & Y). split; [exact T|]. exists a, b. repeat split; auto; lia.
  Qed.

  Lemma match92 {A} (P : A -> Prop) (x : str) (a b : A) :
    P a -> P b -> P (match x with 92%N :: _ => a | _ => b end).
  Proof.
    intros Ha Hb. destruct x as [|c r]; [exact Hb|]. destruct c as [|q]; [exact Hb|].
    repeat (destruct q as [q|q|]; try exact Hb). exact Ha.
  Qed.

  (** a body inside [lo, hi] *)
  Lemma body_chain lo hi n : within lo hi n -> chain lo hi (body_items (Some n)) /\ body_in lo hi (Some n).
  Proof.
    intros (T & a & b & SP & A & B). destruct (tol_span_le s n a b T SP) as [AB BL].
    split; [|cbn [body_in]; rewrite SP; lia].
    destruct n; cbn [body_items chain]; try (rewrite SP; lia).
    rewrite tn_list in T. unfold nspan in SP. cbn [node_pos node_end] in SP.
    destruct p as [x|], e as [y|]; try discriminate. injection SP as <- <-.
    destruct T as [(_ & _ & C) _]. eapply chain_weaken; eauto.
  Qed.

  (** every present item of an ordered, well-formed list lies inside the list's range *)
  Lemma chain_in_within lo hi l o : chain lo hi l -> tol_items s l -> In o l -> owithin lo hi o.
  Proof.
    revert lo. induction l as [|[x|] l IH]; intros lo; cbn [chain tol_items In]; [tauto| |].
    - destruct (nspan x) as [[a b]|] eqn:SP; [|tauto]. intros (A & B & C) [TX TL] [E|E].
      + subst o. cbn [owithin]. split; [exact TX|]. exists a, b. pose proof (chain_le _ _ _ C). repeat split; auto; lia.
      + specialize (IH b C TL E). destruct o as [n|]; cbn [owithin] in *; [|exact I].
        destruct IH as (T & a' & b' & SP' & X & Y). split; [exact T|]. exists a', b'. repeat split; auto; lia.
    - intros C TL [E|E]; [subst o; exact I | eauto].
  Qed.

  (** appending one more parsed item (or an empty slot) to an ordered list *)
  Lemma chain_snoc_within lo mid hi l o : chain lo mid l -> owithin mid hi o -> mid <= hi ->
    chain lo hi (l ++ [o]).
  Proof.
    intros C W H. destruct o as [n|]; cbn [owithin] in W.
    - destruct W as (T & a & b & SP & X & Y). destruct (tol_span_le s n a b T SP) as [AB _].
      eapply chain_snoc; eauto.
    - apply chain_snoc_none. eapply chain_weaken; [exact C|lia|exact H].
  Qed.

  Lemma owithin_tol lo hi o : owithin lo hi o -> tol_onode s o.
  Proof. destruct o; cbn [owithin tol_onode]; [intros H; apply H | auto]. Qed.

  Lemma owithin_weaken lo hi lo' hi' o : owithin lo hi o -> lo' <= lo -> hi <= hi' -> owithin lo' hi' o.
  Proof.
    destruct o as [n|]; cbn [owithin]; [|auto]. intros (T & a & b & SP & X & Y) H1 H2.
    split; [exact T|]. exists a, b. repeat split; auto; lia.
  Qed.

  (** * The collector *)
  Lemma cinv_t_empty pos : cinv_t pos cs_empty pos.
  Proof.
    split; [|left; reflexivity]. exists pos. cbn. repeat split; auto; congruence.
  Qed.

  Lemma flush_done_t ps start st pos : cinvw_t start st pos -> pos <= L ->
    cdone_t start (flush ps st) pos /\ cs_pend (flush ps st) = [] /\
    (cs_pend st <> [] -> cs_ppos (flush ps st) = None) /\ (cs_pend st = [] -> flush ps st = st).
  Proof.
    intros (q & C & T & Q & P) H. unfold flush.
    destruct (cs_pend st) as [|c r] eqn:E.
    - repeat split; auto; try congruence. eapply chain_weaken; eauto.
    - destruct P as [P1 P2]; [discriminate|]. rewrite P1. cbn [cs_acc cs_pend cs_ppos].
      repeat split; auto; try congruence.
      + eapply chain_snoc; [exact C|reflexivity| | |]; lia.
      + apply tol_items_snoc; [exact T|]. cbn [tol_onode mk_chars tol_node]. lia.
  Qed.

  Lemma cdone_cinv_t start st p : cdone_t start st p -> cs_pend st = [] -> cs_ppos st = None ->
    cinv_t start st p.
  Proof.
    intros [C T] E N. split; [|auto]. exists p. repeat split; auto; congruence.
  Qed.

  Lemma push_cinv_t start st pos c pos' : cinv_t start st pos -> pos + length c <= pos' -> pos' <= L ->
    cinvw_t start (push_pending st c pos) pos' /\ ((c = [] -> pos' = L) -> cinv_t start (push_pending st c pos) pos').
  Proof.
    intros [(q & C & T & Q & P) N] H1 H2.
    assert (X : cinvw_t start (push_pending st c pos) pos').
    { unfold push_pending. destruct (cs_pend st) as [|x r] eqn:EP.
      - destruct (N eq_refl) as [N1|N1].
        + exists pos. cbn [cs_acc cs_pend cs_ppos]. rewrite N1. cbn [app].
          repeat split; auto; try lia. eapply chain_weaken; eauto.
        + exists q. cbn [cs_acc cs_pend cs_ppos]. cbn [app].
          repeat split; auto; try lia; destruct c; try congruence; cbn [length] in *; lia.
      - destruct P as [P1 P2]; [discriminate|]. exists q. cbn [cs_acc cs_pend cs_ppos]. rewrite P1.
        rewrite app_length. repeat split; auto; lia. }
    split; [exact X|]. intros CE. split; [exact X|].
    unfold push_pending. cbn [cs_pend cs_ppos]. intros Z. apply app_eq_nil in Z. destruct Z as [_ Z].
    right. auto.
  Qed.

  Lemma pre_result_ok_t ps o start st pos t : cinv_t start st pos -> tokfacts_t s pos t ->
    let st1 := fst (c_pre_result ps o st t) in
    cdone_t start st1 (tpos t) /\ cs_pend st1 = [] /\ cs_ppos st1 = None.
  Proof.
    intros CI [F1 F3 F4 _ _]. cbn zeta. unfold c_pre_result.
    assert (PL : pos < L) by lia.
    destruct (cs_pend st) as [|c r] eqn:EP.
    - destruct CI as [(q & C & T & Q & P) N].
      assert (NN : cs_ppos st = None) by (destruct (N EP) as [N1|N1]; [exact N1|lia]).
      destruct (tpre t) as [|c r] eqn:ET.
      + cbn [fst]. repeat split; auto. eapply chain_weaken; eauto. lia.
      + cbn [fst]. unfold push_node. cbn [cs_acc cs_pend cs_ppos].
        assert (X : tpos t - length (c :: r) = pos) by lia. rewrite X.
        repeat split; auto.
        * eapply chain_snoc; [exact C|reflexivity| | |]; lia.
        * apply tol_items_snoc; [exact T|]. cbn [tol_onode mk_chars tol_node]. lia.
    - cbn [fst]. rewrite <- EP.
      assert (X : cinvw_t start {| cs_acc := cs_acc st; cs_pend := cs_pend st ++ tpre t; cs_ppos := cs_ppos st |}
                          (tpos t)).
      { destruct CI as [(q & C & T & Q & P) N]. exists q. cbn [cs_acc cs_pend cs_ppos].
        destruct P as [P1 P2]; [rewrite EP; discriminate|].
        rewrite app_length. repeat split; auto; lia. }
      destruct (flush_done_t ps start _ (tpos t) X) as (D & E1 & E2 & _); [lia|].
      repeat split; auto; try apply D. apply E2. cbn [cs_pend]. rewrite EP. discriminate.
  Qed.

  Section WithRecT.
    Variable rec : task -> res out.
    Hypothesis IH : forall t, task_pre_t t -> post_t t (rec t).

    Lemma push_check_t ps o start st1 q n p :
      good ps -> good_opts o -> cdone_t start st1 q -> cs_pend st1 = [] -> cs_ppos st1 = None ->
      owithin q p n -> q <= p -> p <= L ->
      res_post_t q (coll_ok_t start) (coll_err start q) never (c_push_check rec ps o st1 n p p).
    Proof.
      intros G GO [C T] E N W QP PL.
      assert (D : cdone_t start (push_node st1 n) p).
      { split; unfold push_node; cbn [cs_acc].
        - destruct n as [nd|]; cbn [owithin] in W.
          + destruct W as (TN & a & b & SP & A & B). destruct (tol_span_le s nd a b TN SP) as [AB _].
            eapply chain_snoc; eauto.
          + apply chain_snoc_none. eapply chain_weaken; eauto.
        - apply tol_items_snoc; [exact T|]. destruct n; cbn [owithin tol_onode] in *; [apply W|exact I]. }
      unfold c_push_check. cbn zeta.
      destruct (nl_stop_met (g_nl o) (cs_acc (push_node st1 n))).
      - unfold c_finish. cbn [res_post_t coll_ok_t]. repeat split; auto; apply D.
      - assert (PRE : task_pre_t (TCollect ps o (push_node st1 n) p)) by (split; cbn; auto).
        pose proof (IH _ PRE) as P. cbn [post_t] in P.
        eapply res_post_t_weaken; [apply P|exact QP|].
        + apply cdone_cinv_t; auto.
        + unfold coll_err. intros e p0 (A & B & X). repeat split; auto; lia.
    Qed.

    Section DispatchT.
      Variables (ps : pstate) (o : genopts) (start : nat) (st1 : collstate) (pos : nat) (t : token).
      Hypothesis G : good ps.
      Hypothesis GO : good_opts o.
      Hypothesis PL : pos <= L.
      Hypothesis TF : tokfacts_t s pos t.
      Hypothesis D1 : cdone_t start st1 (tpos t).
      Hypothesis E1 : cs_pend st1 = [].
      Hypothesis N1 : cs_ppos st1 = None.

      Lemma pos_le_tpos_t : pos <= tpos t.
      Proof. destruct TF. lia. Qed.

      Lemma weaken_coll r : res_post_t (tpos t) (coll_ok_t start) (coll_err start (tpos t)) never r ->
        res_post_t pos (coll_ok_t start) (coll_err start pos) never r.
      Proof.
        intros H. pose proof pos_le_tpos_t. eapply res_post_t_weaken; [exact H|assumption|].
        unfold coll_err. intros e p (A & B & X). repeat split; auto; lia.
      Qed.

      Lemma fail_ok what : res_post_t pos (coll_ok_t start) (coll_err start pos) never (c_fail ps st1 t what).
      Proof.
        pose proof pos_le_tpos_t. destruct TF as [F1 F3 F4 _ _]. destruct D1 as [C T].
        unfold c_fail. cbn [res_post_t]. unfold coll_err. cbn [mkerr pe_nodes].
        split; [lia|]. split; [exact F4|]. eexists. split; [reflexivity|].
        unfold flush. rewrite E1. split; [|exact T]. eapply chain_weaken; eauto. lia.
      Qed.

      Lemma continue_ok p : tpos t <= p -> p <= L ->
        res_post_t pos (coll_ok_t start) (coll_err start pos) never (rec (TCollect ps o st1 p)).
      Proof.
        intros H1 H2. pose proof pos_le_tpos_t.
        assert (PRE : task_pre_t (TCollect ps o st1 p)) by (split; cbn; auto).
        pose proof (IH _ PRE) as P. cbn [post_t] in P.
        eapply res_post_t_weaken; [apply P| lia |].
        - apply cdone_cinv_t; auto. destruct D1 as [C T]. split; [|exact T]. eapply chain_weaken; eauto.
        - unfold coll_err. intros e p0 (A & B & X). repeat split; auto; lia.
      Qed.

      Lemma call_case_t sp :
        res_post_t pos (coll_ok_t start) (coll_err start pos) never
          match parse_content true (rec (TCall (child_state o ps t) (c_tok0 t) sp (tend t))) with
          | Ok (ONode (Some n)) p => c_push_check rec ps o st1 (Some n) p p
          | Ok (ONode None) p => rec (TCollect ps o st1 p)
          | Ok _ p => RExn 9
          | PErr e p => PErr e p | REOS p => REOS p | RExn k => RExn k | OutOfFuel => OutOfFuel
          end.
      Proof.
        pose proof pos_le_tpos_t as PT. pose proof TF as [F1 F3 F4 _ _].
        assert (PRE : task_pre_t (TCall (child_state o ps t) (c_tok0 t) sp (tend t))).
        { split; cbn [task_pos]; [exact F4|]. apply good_child; assumption. }
        pose proof (IH _ PRE) as P. cbn [post_t] in P.
        assert (X : tpos (c_tok0 t) <= tend t) by (cbn; lia). specialize (P X). clear X.
        rewrite parse_content_tol.
        destruct (rec (TCall (child_state o ps t) (c_tok0 t) sp (tend t))) as [o1 p1|e p1|p1|k|];
          cbn [res_post_t] in P |- *; auto; try (destruct P; fail).
        destruct P as (A & B & C). destruct o1 as [[n|]| |]; try contradiction.
        destruct C as [WN SP]. cbn [c_tok0 mk tpos] in SP.
        apply weaken_coll. eapply push_check_t; eauto; [|lia].
        cbn [owithin]. split; [exact WN|]. exists (tpos t), p1. repeat split; auto; lia.
      Qed.

      (** a delimited construct started at the token position: node, recovered placeholder or nothing *)
      Lemma delim_push (n : option node) p :
        (match n with
         | Some nd => tol_node s nd /\ exists a b, nspan nd = Some (a, b) /\ tpos t <= a /\ b <= p
         | None => True end) -> tpos t <= p -> p <= L ->
        res_post_t pos (coll_ok_t start) (coll_err start pos) never (c_push_check rec ps o st1 n p p).
      Proof.
        intros H A B. apply weaken_coll. eapply push_check_t; eauto.
        all: destruct n; cbn [owithin]; auto.
      Qed.

      Lemma dispatch_ok_t : tk t <> TkChar ->
        res_post_t pos (coll_ok_t start) (coll_err start pos) never (c_dispatch true cx rec ps o st1 t).
      Proof.
        intros NC. pose proof pos_le_tpos_t as PT. pose proof TF as [F1 F3 F4 F5 F6].
        unfold c_dispatch. destruct (tk t) eqn:K; try exact I; try congruence; try apply fail_ok.
        - (* macro *)
          destruct (get_macro_spec cx (targ t)) as [sp|]; [apply call_case_t | apply continue_ok; lia].
        - (* environment *)
          destruct (get_env_spec cx (targ t)) as [sp|]; [apply call_case_t | apply continue_ok; lia].
        - (* comment *)
          apply delim_push; try lia. cbn [tol_node]. split; [lia|]. eexists _, _. split; [reflexivity|]. lia.
        - (* group *)
          assert (GC : good (child_state o ps t)) by (apply good_child; assumption).
          assert (PRE : task_pre_t (TGroup (child_state o ps t) (GDStr (targ t)) false false (tpos t))).
          { split; cbn [task_pos]; [lia | exact GC]. }
          pose proof (IH _ PRE) as P. cbn [post_t] in P.
          rewrite parse_content_tol.
          destruct (rec (TGroup (child_state o ps t) (GDStr (targ t)) false false (tpos t))) as [o1 p1|e p1|p1|k|];
            cbn [res_post_t] in P |- *; auto.
          + destruct P as (A & B & C). destruct o1 as [n| |]; try contradiction.
            apply delim_push; auto. destruct n as [n|]; [|exact I].
            destruct C as (WN & a & SP & LE & _). split; [exact WN|]. exists a, p1. auto.
          + destruct P as (RP & PN). rewrite PN, RP.
            apply delim_push; try lia. split.
            * rewrite tn_list. cbn [chain tol_items]. repeat split; lia.
            * eexists _, _. split; [reflexivity|]. lia.
          + subst p1. apply delim_push; auto; lia.
        - (* inline math *)
          destruct (negb (by_open_has ps (targ t))); [apply fail_ok|].
          assert (GC : good (child_state o ps t)) by (apply good_child; assumption).
          assert (PRE : task_pre_t (TMath (child_state o ps t) (targ t) (tpos t))).
          { split; cbn [task_pos]; [lia | exact GC]. }
          pose proof (IH _ PRE) as P. cbn [post_t] in P.
          rewrite parse_content_tol.
          destruct (rec (TMath (child_state o ps t) (targ t) (tpos t))) as [o1 p1|e p1|p1|k|];
            cbn [res_post_t] in P |- *; auto.
          + destruct P as (A & B & C). destruct o1 as [[n|]| |]; try contradiction.
            destruct C as (WN & SP). apply delim_push; auto. split; [exact WN|]. exists (tpos t), p1. auto.
          + destruct P as (RP & q & Q1 & Q2 & PN & NS). rewrite PN, RP.
            specialize (NS (F6 ltac:(congruence) ltac:(congruence))). subst q.
            apply delim_push; try lia. split.
            * rewrite tn_list. cbn [chain tol_items]. repeat split; lia.
            * eexists _, _. split; [reflexivity|]. lia.
          + subst p1. apply continue_ok; lia.
        - (* display math *)
          destruct (negb (by_open_has ps (targ t))); [apply fail_ok|].
          assert (GC : good (child_state o ps t)) by (apply good_child; assumption).
          assert (PRE : task_pre_t (TMath (child_state o ps t) (targ t) (tpos t))).
          { split; cbn [task_pos]; [lia | exact GC]. }
          pose proof (IH _ PRE) as P. cbn [post_t] in P.
          rewrite parse_content_tol.
          destruct (rec (TMath (child_state o ps t) (targ t) (tpos t))) as [o1 p1|e p1|p1|k|];
            cbn [res_post_t] in P |- *; auto.
          + destruct P as (A & B & C). destruct o1 as [[n|]| |]; try contradiction.
            destruct C as (WN & SP). apply delim_push; auto. split; [exact WN|]. exists (tpos t), p1. auto.
          + destruct P as (RP & q & Q1 & Q2 & PN & NS). rewrite PN, RP.
            specialize (NS (F6 ltac:(congruence) ltac:(congruence))). subst q.
            apply delim_push; try lia. split.
            * rewrite tn_list. cbn [chain tol_items]. repeat split; lia.
            * eexists _, _. split; [reflexivity|]. lia.
          + subst p1. apply continue_ok; lia.
        - (* specials *)
          destruct (get_specials_spec cx (targ t)) as [sp|]; [apply call_case_t | apply continue_ok; lia].
      Qed.
    End DispatchT.

    Lemma collect_ok_t ps o st pos : task_pre_t (TCollect ps o st pos) ->
      post_t (TCollect ps o st pos) (collect_step s true cx rec ps o st pos).
    Proof.
      intros (PL & G & GO). cbn [task_pos] in PL. cbn [post_t]. intros start CI.
      unfold collect_step. rewrite next_tok_tol.
      pose proof (good_peek_tol s ps pos G PL) as TF.
      assert (TOK : forall t, tokfacts_t s pos t ->
        res_post_t pos (coll_ok_t start) (coll_err start pos) never
          (if stop_matches (g_stop o) t then c_stop ps o st t
           else match tk t with
                | TkChar => rec (TCollect ps o (push_pending st (tpre t ++ targ t) (tpos t - length (tpre t))) (tend t))
                | _ => if snd (c_pre_result ps o st t) then c_finish (fst (c_pre_result ps o st t)) None true false (tpos t)
                       else c_dispatch true cx rec ps o (fst (c_pre_result ps o st t)) t
                end)).
      { intros t TT. pose proof TT as [F1 F3 F4 F5 F6].
        assert (X : tpos t - length (tpre t) = pos) by lia.
        destruct (stop_matches (g_stop o) t).
        - unfold c_stop, c_finish. cbn zeta. cbn [res_post_t coll_ok_t]. rewrite X.
          destruct (g_incl_pre o).
          + destruct (push_cinv_t start st pos (tpre t) (tpos t) CI) as [W _]; try lia.
            destruct (flush_done_t ps _ _ _ W) as (D & _); [lia|]. repeat split; auto; try lia; apply D.
          + destruct (flush_done_t ps _ _ _ (proj1 CI) PL) as (D & _). repeat split; auto; try lia; apply D.
        - destruct (tk t) eqn:K.
          1: { rewrite X. destruct (F5 K) as [LEN EMP].
               destruct (push_cinv_t start st pos (tpre t ++ targ t) (tend t) CI) as [_ W]; try lia.
               { rewrite app_length. lia. }
               assert (PRE : task_pre_t (TCollect ps o (push_pending st (tpre t ++ targ t) pos) (tend t)))
                 by (split; cbn; auto).
               pose proof (IH _ PRE) as P. cbn [post_t] in P.
               eapply res_post_t_weaken; [apply P; apply W | lia |].
               - intros Z. apply app_eq_nil in Z. destruct Z as [_ Z]. apply EMP in Z. lia.
               - unfold coll_err. intros e p0 (A & B & Y). repeat split; auto; lia. }
          all: destruct (pre_result_ok_t ps o start st pos t CI TT) as (D1 & E1 & N1); cbn zeta in *.
          all: destruct (snd (c_pre_result ps o st t));
            [ unfold c_finish; cbn [res_post_t coll_ok_t]; repeat split; auto; try lia; apply D1
            | eapply dispatch_ok_t; eauto; congruence ]. }
      destruct (impl_peek ps s pos) as [t|fin|e]; [apply TOK; exact TF| |apply TOK; exact TF].
      subst fin. destruct (skipn pos s) as [|c r] eqn:SK.
      - unfold c_finish. cbn [res_post_t coll_ok_t].
        destruct (flush_done_t ps _ _ _ (proj1 CI) PL) as (D & _). repeat split; auto; try lia; apply D.
      - assert (LEN : pos + length (c :: r) = L).
        { rewrite <- SK, skipn_length. apply skipn_cons_lt in SK. lia. }
        rewrite <- SK in *.
        destruct (push_cinv_t start st pos (skipn pos s) (pos + length (skipn pos s)) CI) as [_ W]; try lia.
        assert (PRE : task_pre_t (TCollect ps o (push_pending st (skipn pos s) pos) (pos + length (skipn pos s))))
          by (split; cbn; auto; lia).
        pose proof (IH _ PRE) as P. cbn [post_t] in P.
        eapply res_post_t_weaken; [apply P; apply W; lia | lia |].
        unfold coll_err. intros e p0 (A & B & Y). repeat split; auto; lia.
    Qed.
  End WithRecT.

  Section WithFuelT.
    Variable f : nat.
    Hypothesis IH : forall t, task_pre_t t -> post_t t (run s true cx f t).

    Lemma general_step_t ps o pos : task_pre_t (TGeneral ps o pos) ->
      post_t (TGeneral ps o pos) (run s true cx (S f) (TGeneral ps o pos)).
    Proof.
      intros (PL & G & GO). cbn [task_pos] in PL. cbn [post_t run].
      assert (PRE : task_pre_t (TCollect ps o cs_empty pos)) by (split; cbn; auto).
      pose proof (IH _ PRE pos (cinv_t_empty pos)) as P.
      destruct (run s true cx f (TCollect ps o cs_empty pos)) as [o1 p1|e p1|p1|k|];
        cbn [res_post_t] in P |- *; auto.
      - destruct P as (A & B & C). destruct o1 as [|st stopped nlmet eos|]; try exact I.
        destruct C as [[C T] SO].
        unfold mk_nodelist. destruct (nodelist_chain s pos p1 (cs_acc st) C T B) as (a & b & M1 & M2 & Q1 & Q2 & Q3 & TN).
        rewrite M1, M2.
        assert (W : within pos p1 (NList (Some a) (Some b) (cs_acc st))).
        { split; [exact TN|]. exists a, b. repeat split; auto. }
        match goal with |- context [if negb ?m then _ else _] => destruct (negb m) end.
        + cbn [res_post_t]. unfold gen_err. cbn [mkerr pe_at pe_past pe_nodes]. repeat split; auto. eauto.
        + cbn [res_post_t].
          assert (PP : match stopped with Some t => if g_handle_stop o then tend t else p1 | None => p1 end <= L
                       /\ p1 <= match stopped with Some t => if g_handle_stop o then tend t else p1 | None => p1 end).
          { destruct stopped as [t|]; [|lia]. destruct (g_handle_stop o); lia. }
          split; [lia|]. split; [lia|]. eexists. split; [reflexivity|].
          destruct W as (W1 & a' & b' & W2 & W3 & W4). split; [exact W1|]. exists a', b'. repeat split; auto; lia.
      - destruct P as (A & B & items & PN & C & T). rewrite PN. unfold mk_nodelist.
        destruct (nodelist_chain s pos p1 items C T B) as (a & b & M1 & M2 & Q1 & Q2 & Q3 & TN).
        rewrite M1, M2. unfold gen_err. cbn [mkerr pe_at pe_past pe_nodes]. repeat split; auto.
        eexists. split; [reflexivity|]. split; [exact TN|]. exists a, b. repeat split; auto.
    Qed.

    (** the body of a delimited construct, after [parse_content] *)
    Lemma general_pc ps og lo : task_pre_t (TGeneral ps og lo) ->
      match parse_content true (run s true cx f (TGeneral ps og lo)) with
      | Ok o p => lo <= p /\ p <= L /\ exists n, o = ONode (Some n) /\ within lo p n
      | PErr _ _ | REOS _ => False
      | _ => True
      end.
    Proof.
      intros PRE. pose proof (IH _ PRE) as P. cbn [post_t] in P. rewrite parse_content_tol.
      destruct (run s true cx f (TGeneral ps og lo)) as [o1 p1|e p1|p1|k|]; cbn [res_post_t] in P; auto.
      - destruct P as (A1 & A2 & A3 & A4 & n & PN & W). unfold rpos. rewrite A1, A2, PN. eauto.
      - destruct P.
    Qed.

    Lemma delim_tol p0 p1 p n : p0 <= p1 -> p <= L -> within p1 p n ->
      p0 <= p /\ p <= L /\ chain p0 p (body_items (Some n)) /\ body_in p0 p (Some n) /\ tol_node s n.
    Proof.
      intros H1 H2 W. destruct (body_chain _ _ _ W) as [BC BI]. pose proof (chain_le _ _ _ BC).
      split; [lia|]. split; [exact H2|]. split; [eapply chain_weaken; eauto|]. split; [|apply W].
      cbn [body_in] in *. destruct (nspan n) as [[a b]|]; auto. lia.
    Qed.

    Lemma group_step_t ps d optional aps pos : task_pre_t (TGroup ps d optional aps pos) ->
      post_t (TGroup ps d optional aps pos) (run s true cx (S f) (TGroup ps d optional aps pos)).
    Proof.
      intros (PL & G). cbn [task_pos] in PL. cbn [post_t run].
      change (match d with GDPair o c => ps_add_group ps o c | _ => ps end) with (group_gps ps d).
      assert (GG : good (group_gps ps d)) by (destruct d; cbn; auto using good_add_group).
      set (gps := group_gps ps d) in *. rewrite next_tok_tol.
      pose proof (good_peek_tol s gps pos GG PL) as TF.
      pose proof (good_peek_nonspace_tol s gps pos GG) as NS.
      assert (TOK : forall t, tokfacts_t s pos t -> (nonspace_at s pos -> tpre t = []) ->
        res_post_t pos
          (fun o p => match o with
                      | ONode None => True
                      | ONode (Some n) => tol_node s n /\ exists a, nspan n = Some (a, p) /\ pos <= a /\
                                                                    (aps = false -> a = pos)
                      | _ => False end)
          (errD0 pos) (fun p => p = pos)
          (let opening_ok :=
              tokkind_eqb (tk t) TkBraceOpen &&
              match d with
              | GDNone => true
              | GDStr o => str_eqb (targ t) o
              | GDPair o _ => str_eqb (targ t) o
              end in
           let ok := (aps || match tpre t with [] => true | _ => false end) && opening_ok in
           if negb ok then
             if optional then Ok (ONode None) (tpos t - length (tpre t))
             else PErr (mkerr (Some (tpos t)) 7
                              (Some (NList (Some (tpos t - length (tpre t))) (Some (tpos t - length (tpre t))) []))
                              true (Some t) None)
                       (tend t)
           else
           match match d with
                 | GDPair o c => Some (o, c)
                 | GDStr o => match group_close_of gps o with Some c => Some (o, c) | None => None end
                 | GDNone => match group_close_of gps (targ t) with Some c => Some (targ t, c) | None => None end
                 end with
           | None => RExn 2
           | Some (od, cd) =>
               match parse_content true
                       (run s true cx f
                          (TGeneral gps {| g_stop := SBraceClose cd; g_nl := NLNone; g_require := true;
                                           g_child := CPGroup gps ps od; g_incl_pre := true; g_handle_stop := true |}
                                    (tend t))) with
               | Ok (ONode body) p => Ok (ONode (Some (NGroup (tpos t) p (ps_mode gps) od cd body))) p
               | Ok _ p => RExn 9
               | PErr e p => PErr e p | REOS p => REOS p | RExn k => RExn k | OutOfFuel => OutOfFuel
               end
           end)).
      { intros t [F1 F3 F4 _ _] NSP. cbn zeta.
        assert (X : tpos t - length (tpre t) = pos) by lia.
        match goal with |- context [if negb ?m then _ else _] => destruct m eqn:OK end; cbn [negb].
        2: { destruct optional.
             - cbn [res_post_t]. rewrite X. repeat split; auto; lia.
             - cbn [res_post_t]. unfold errD0, rpos. cbn [mkerr pe_at pe_nodes]. rewrite X. split; reflexivity. }
        apply andb_true_iff in OK. destruct OK as [OK1 _].
        assert (AP : aps = false -> tpos t = pos).
        { intros ->. cbn [orb] in OK1. destruct (tpre t); [cbn [length] in F1; lia|discriminate]. }
        match goal with |- context [match ?m with Some _ => _ | None => RExn 2 end] => destruct m as [[od cd]|] end;
          [|exact I].
        match goal with |- context [TGeneral gps ?o _] => set (og := o) end.
        assert (PRE : task_pre_t (TGeneral gps og (tend t))).
        { split; cbn [task_pos]; [exact F4|]. split; [exact GG|]. unfold good_opts, og. cbn. auto. }
        pose proof (general_pc gps og (tend t) PRE) as P.
        destruct (parse_content true (run s true cx f (TGeneral gps og (tend t)))) as [o1 p1|e p1|p1|k|];
          try contradiction; try exact I.
        destruct P as (A & B & n & -> & W). cbn [res_post_t]. split; [lia|]. split; [exact B|]. split.
        - rewrite tn_group. apply (delim_tol (tpos t) (tend t) p1 n); auto; lia.
        - exists (tpos t). split; [reflexivity|]. split; [lia|exact AP]. }
      destruct (impl_peek gps s pos) as [t|fin|e]; [apply TOK; auto| |apply TOK; auto].
      cbn [res_post_t]. reflexivity.
    Qed.

    Lemma math_step_t ps d pos : task_pre_t (TMath ps d pos) ->
      post_t (TMath ps d pos) (run s true cx (S f) (TMath ps d pos)).
    Proof.
      intros (PL & G). cbn [task_pos] in PL. cbn [post_t run]. rewrite next_tok_tol.
      pose proof (good_peek_tol s ps pos G PL) as TF.
      pose proof (good_peek_nonspace_tol s ps pos G) as NS.
      assert (TOK : forall t, tokfacts_t s pos t -> (nonspace_at s pos -> tpre t = []) ->
        res_post_t pos
          (fun o p => match o with
                      | ONode (Some n) => tol_node s n /\ nspan n = Some (pos, p)
                      | _ => False end)
          (errD pos) (fun p => p = pos)
          (let ok := (match tpre t with [] => true | _ => false end) && mode_of_tok t && str_eqb (targ t) d in
           if negb ok then
             PErr (mkerr (Some (tpos t)) 8 (Some (NList (Some (tpos t)) (Some (tpos t)) [])) true (Some t) None) (tend t)
           else
           let mps := ps_enter_math ps (Some (targ t)) in
           match c_expect_close (ps_c mps) with
           | None => RExn 3
           | Some (cd, _) =>
               match parse_content true
                       (run s true cx f
                          (TGeneral mps {| g_stop := SMathClose (tk t) cd; g_nl := NLNone; g_require := true;
                                           g_child := CPSelf; g_incl_pre := true; g_handle_stop := true |}
                                    (tend t))) with
               | Ok (ONode body) p =>
                   Ok (ONode (Some (NMath (tpos t) p (ps_mode ps) (tokkind_eqb (tk t) TkMathDisplay)
                                          (targ t) cd body))) p
               | Ok _ p => RExn 9
               | PErr e p => PErr e p | REOS p => REOS p | RExn k => RExn k | OutOfFuel => OutOfFuel
               end
           end)).
      { intros t [F1 F3 F4 _ _] NSP. cbn zeta.
        assert (X : tpos t - length (tpre t) = pos) by lia.
        match goal with |- context [if negb ?m then _ else _] => destruct m eqn:OK end; cbn [negb].
        2: { cbn [res_post_t]. unfold errD, rpos. cbn [mkerr pe_at pe_nodes]. split; [exact X|].
             exists (tpos t). repeat split; auto; try lia.
             intros H. specialize (NSP H). rewrite NSP in F1. cbn [length] in F1. lia. }
        apply andb_true_iff in OK. destruct OK as [OK1 _]. apply andb_true_iff in OK1. destruct OK1 as [OK1 _].
        assert (TP : tpos t = pos) by (destruct (tpre t); [cbn [length] in F1; lia|discriminate]).
        set (mps := ps_enter_math ps (Some (targ t))).
        assert (GM : good mps) by (apply good_enter_math; exact G).
        destruct (c_expect_close (ps_c mps)) as [[cd k]|]; [|exact I].
        match goal with |- context [TGeneral mps ?o _] => set (og := o) end.
        assert (PRE : task_pre_t (TGeneral mps og (tend t))).
        { split; cbn [task_pos]; [exact F4|]. split; [exact GM|]. unfold good_opts, og. cbn. auto. }
        pose proof (general_pc mps og (tend t) PRE) as P.
        destruct (parse_content true (run s true cx f (TGeneral mps og (tend t)))) as [o1 p1|e p1|p1|k1|];
          try contradiction; try exact I.
        destruct P as (A & B & n & -> & W). cbn [res_post_t]. split; [lia|]. split; [exact B|]. split.
        - rewrite tn_math. apply (delim_tol (tpos t) (tend t) p1 n); auto; lia.
        - rewrite <- TP. reflexivity. }
      destruct (impl_peek ps s pos) as [t|fin|e]; [apply TOK; auto| |apply TOK; auto].
      cbn [res_post_t]. reflexivity.
    Qed.

    Lemma envbody_step_t ps name pos : task_pre_t (TEnvBody ps name pos) ->
      post_t (TEnvBody ps name pos) (run s true cx (S f) (TEnvBody ps name pos)).
    Proof.
      intros (PL & G). cbn [task_pos] in PL. cbn [post_t run].
      match goal with |- context [TGeneral ps ?o _] => set (og := o) end.
      assert (PRE : task_pre_t (TGeneral ps og pos)).
      { split; cbn [task_pos]; [exact PL|]. split; [exact G|]. unfold good_opts, og. cbn. auto. }
      pose proof (general_pc ps og pos PRE) as P.
      destruct (parse_content true (run s true cx f (TGeneral ps og pos))) as [o1 p1|e p1|p1|k1|];
        try contradiction; try exact I.
      destruct P as (A & B & n & -> & W). cbn [res_post_t]. split; [lia|]. split; [exact B|].
      exists n. split; [reflexivity|]. destruct (body_chain _ _ _ W). split; [apply W|]. auto.
    Qed.

    Lemma e_finish_t ps acc more p lo mid pos : chain lo mid acc -> chain mid p more ->
      tol_items s acc -> tol_items s more -> pos <= p -> p <= L ->
      res_post_t pos (onode_t lo) (errG pos) (in_range s pos) (e_finish ps false acc more p).
    Proof.
      intros CA CM TA TM H1 H2. unfold e_finish. cbn zeta.
      pose proof (chain_le _ _ _ CA) as LE1. pose proof (chain_le _ _ _ CM) as LE2.
      destruct (rev (acc ++ more)) as [|last r] eqn:R.
      - apply (f_equal (@rev _)) in R. rewrite rev_involutive in R. cbn [rev] in R. rewrite R.
        unfold mk_nodelist. cbn [res_post_t]. split; [exact H1|]. split; [exact H2|].
        eexists. split; [reflexivity|]. cbn [owithin]. split.
        + rewrite tn_group.
          cbn [body_items body_in chain nspan node_pos node_end]. rewrite tn_list. cbn [chain tol_items].
          repeat split; auto; lia.
        + exists p, p. split; [reflexivity|]. lia.
      - cbn [res_post_t]. split; [exact H1|]. split; [exact H2|]. exists last. split; [reflexivity|].
        apply (chain_in_within lo p (acc ++ more)).
        + eapply chain_app; eauto.
        + apply tol_items_app; auto.
        + apply in_rev. rewrite R. left. reflexivity.
    Qed.

    Lemma expr_step_t ps aps apc full sterr acc pos : task_pre_t (TExpr ps aps apc full sterr acc pos) ->
      post_t (TExpr ps aps apc full sterr acc pos) (run s true cx (S f) (TExpr ps aps apc full sterr acc pos)).
    Proof.
      intros (PL & G). cbn [task_pos] in PL. cbn [post_t]. intros -> lo CA TA. rewrite run_expr.
      unfold expr_step. cbn zeta.
      set (eps := sub_context ps [UEnEnvs false]).
      assert (GE : good eps) by (apply good_noenvs; exact G).
      rewrite next_tok_tol. pose proof (good_peek_tol s eps pos GE PL) as TF. unfold e_strict_err.
      pose proof (chain_le _ _ _ CA) as LOP.
      assert (REC : forall acc' p', chain lo p' acc' -> tol_items s acc' -> pos <= p' -> p' <= L ->
                    res_post_t pos (onode_t lo) (errG pos) (in_range s pos)
                               (run s true cx f (TExpr ps aps apc false sterr acc' p'))).
      { intros acc' p' CA' TA' H1 H2.
        assert (PRE : task_pre_t (TExpr ps aps apc false sterr acc' p')) by (split; cbn; auto).
        pose proof (IH _ PRE eq_refl lo CA' TA') as P.
        eapply res_post_t_mono; [exact P|exact H1|auto| |].
        - intros e p E. eapply errG_weaken; eauto.
        - unfold in_range. intros p. lia. }
      assert (TOK : forall t, tokfacts_t s pos t ->
        res_post_t pos (onode_t lo) (errG pos) (in_range s pos)
          match tk t with
          | TkMacro =>
              if sterr && (str_eqb (targ t) kw_begin || str_eqb (targ t) kw_end) then
                e_finish ps false acc [Some (NMacro (tpos t) (tend t) (ps_mode ps) (targ t) (tpost t) None)] (tend t)
              else
              match get_macro_spec cx (targ t) with
              | None =>
                  e_finish ps false acc [Some (NMacro (tpos t) (tend t) (ps_mode ps) (targ t) (tpost t) None)] (tend t)
              | Some sp =>
                  e_finish ps false acc
                    [Some (NMacro (tpos t) (tend t) (ps_mode ps) (targ t) (tpost t) (Some ([], [])))] (tend t)
              end
          | TkSpecials =>
              e_finish ps false acc [Some (NSpecials (tpos t) (tend t) (ps_mode ps) (targ t) (Some ([], [])))] (tend t)
          | _ =>
            match tpre t with
            | _ :: _ =>
                if aps then
                  run s true cx f (TExpr ps aps apc false sterr
                             (acc ++ [Some (mk_chars ps (tpos t - length (tpre t)) (tpos t) (tpre t))]) (tpos t))
                else run s true cx f (TExpr ps aps apc false sterr acc (tend t))
            | [] =>
              match tk t with
              | TkComment =>
                  if apc then
                    run s true cx f (TExpr ps aps apc false sterr
                               (acc ++ [Some (NComment (tpos t) (tend t) (ps_mode ps) (targ t) (tpost t))]) (tend t))
                  else run s true cx f (TExpr ps aps apc false sterr acc (tend t))
              | TkBraceOpen =>
                  match parse_content true (run s true cx f (TGroup ps (GDStr (targ t)) false false (tpos t))) with
                  | Ok (ONode n) p => e_finish ps false acc [n] p
                  | Ok _ p => RExn 9
                  | PErr e p => PErr e p | REOS p => REOS p | RExn k => RExn k | OutOfFuel => OutOfFuel
                  end
              | TkBraceClose =>
                  PErr (mkerr (Some (tpos t)) 14 (Some (mk_chars ps (tpos t) (tpos t) [])) true (Some t) None) (tpos t)
              | TkChar => e_finish ps false acc [Some (mk_chars ps (tpos t) (tend t) (targ t))] (tend t)
              | TkMathInline | TkMathDisplay =>
                  PErr (mkerr (Some (tpos t)) 15
                              (Some match targ t with
                                    | 92%N :: _ => NMacro (tpos t) (tend t) (ps_mode ps) (targ t) (tpost t) (Some ([], []))
                                    | _ => mk_chars ps (tpos t) (tend t) (targ t)
                                    end) true None (Some t)) (tend t)
              | _ => PErr (mkerr (Some (tpos t)) 16 None false None None) (tend t)
              end
            end
          end).
      { intros t [F1 F3 F4 _ _].
        assert (FIN1 : forall n a b p, tol_node s n -> nspan n = Some (a, b) -> pos <= a -> a <= b -> b <= p -> p <= L ->
                  res_post_t pos (onode_t lo) (errG pos) (in_range s pos) (e_finish ps false acc [Some n] p)).
        { intros n a b p TN SP X1 X2 X3 X4.
          apply (e_finish_t ps acc [Some n] p lo pos pos);
            [exact CA | cbn [chain]; rewrite SP; repeat split; lia | exact TA | cbn [tol_items]; auto | lia | lia]. }
        assert (FIN0 : forall p, pos <= p -> p <= L ->
                  res_post_t pos (onode_t lo) (errG pos) (in_range s pos) (e_finish ps false acc [None] p)).
        { intros p X1 X2.
          apply (e_finish_t ps acc [None] p lo pos pos);
            [exact CA | cbn [chain]; lia | exact TA | cbn [tol_items]; auto | lia | lia]. }
        assert (MAC : forall a, (match a with None => True
                                             | Some (_, l) => chain (tpos t) (tend t) l /\ tol_items s l end) ->
                      res_post_t pos (onode_t lo) (errG pos) (in_range s pos)
                        (e_finish ps false acc [Some (NMacro (tpos t) (tend t) (ps_mode ps) (targ t) (tpost t) a)] (tend t))).
        { intros a HA. apply (FIN1 _ (tpos t) (tend t)); try reflexivity; try lia.
          rewrite tn_macro. repeat split; auto; lia. }
        assert (OTHER :
          res_post_t pos (onode_t lo) (errG pos) (in_range s pos)
            match tpre t with
            | _ :: _ =>
                if aps then
                  run s true cx f (TExpr ps aps apc false sterr
                             (acc ++ [Some (mk_chars ps (tpos t - length (tpre t)) (tpos t) (tpre t))]) (tpos t))
                else run s true cx f (TExpr ps aps apc false sterr acc (tend t))
            | [] =>
              match tk t with
              | TkComment =>
                  if apc then
                    run s true cx f (TExpr ps aps apc false sterr
                               (acc ++ [Some (NComment (tpos t) (tend t) (ps_mode ps) (targ t) (tpost t))]) (tend t))
                  else run s true cx f (TExpr ps aps apc false sterr acc (tend t))
              | TkBraceOpen =>
                  match parse_content true (run s true cx f (TGroup ps (GDStr (targ t)) false false (tpos t))) with
                  | Ok (ONode n) p => e_finish ps false acc [n] p
                  | Ok _ p => RExn 9
                  | PErr e p => PErr e p | REOS p => REOS p | RExn k => RExn k | OutOfFuel => OutOfFuel
                  end
              | TkBraceClose =>
                  PErr (mkerr (Some (tpos t)) 14 (Some (mk_chars ps (tpos t) (tpos t) [])) true (Some t) None) (tpos t)
              | TkChar => e_finish ps false acc [Some (mk_chars ps (tpos t) (tend t) (targ t))] (tend t)
              | TkMathInline | TkMathDisplay =>
                  PErr (mkerr (Some (tpos t)) 15
                              (Some match targ t with
                                    | 92%N :: _ => NMacro (tpos t) (tend t) (ps_mode ps) (targ t) (tpost t) (Some ([], []))
                                    | _ => mk_chars ps (tpos t) (tend t) (targ t)
                                    end) true None (Some t)) (tend t)
              | _ => PErr (mkerr (Some (tpos t)) 16 None false None None) (tend t)
              end
            end).
        { assert (E16 : res_post_t pos (onode_t lo) (errG pos) (in_range s pos)
                          (PErr (mkerr (Some (tpos t)) 16 None false None None) (tend t))).
          { cbn [res_post_t]. unfold errG, rpos. cbn [mkerr pe_at pe_past pe_nodes owithin]. repeat split; auto; lia. }
          assert (E15 : res_post_t pos (onode_t lo) (errG pos) (in_range s pos)
                          (PErr (mkerr (Some (tpos t)) 15
                              (Some match targ t with
                                    | 92%N :: _ => NMacro (tpos t) (tend t) (ps_mode ps) (targ t) (tpost t) (Some ([], []))
                                    | _ => mk_chars ps (tpos t) (tend t) (targ t)
                                    end) true None (Some t)) (tend t))).
          { cbn [res_post_t]. unfold errG, rpos. cbn [mkerr pe_at pe_past pe_nodes owithin].
            split; [lia|]. split; [exact F4|].
            apply (match92 (fun n => within pos (tend t) n)).
            - split; [rewrite tn_macro; cbn [chain tol_items]; repeat split; auto; lia|].
              exists (tpos t), (tend t). repeat split; auto; lia.
            - split; [cbn [mk_chars tol_node]; lia|]. exists (tpos t), (tend t). repeat split; auto; lia. }
          destruct (tpre t) as [|c r] eqn:EP.
          - cbn [length] in F1. destruct (tk t) eqn:K; try exact E16; try exact E15.
            + apply (FIN1 _ (tpos t) (tend t)); try reflexivity; try lia. cbn [mk_chars tol_node]. lia.
            + destruct apc; apply REC; auto; try lia.
              * eapply chain_snoc; [exact CA|reflexivity| | |]; lia.
              * apply tol_items_snoc; [exact TA|]. cbn [tol_onode tol_node]. lia.
              * eapply chain_weaken; [exact CA| |]; lia.
            + assert (PRE : task_pre_t (TGroup ps (GDStr (targ t)) false false (tpos t))) by (split; cbn; auto; lia).
              pose proof (IH _ PRE) as P. cbn [post_t] in P. rewrite parse_content_tol.
              destruct (run s true cx f (TGroup ps (GDStr (targ t)) false false (tpos t))) as [o1 p1|e p1|p1|k1|];
                cbn [res_post_t] in P |- *; auto.
              * destruct P as (A & B & C). destruct o1 as [n| |]; try exact I.
                destruct n as [n|]; [|apply FIN0; lia].
                destruct C as (TN & a & SP & X & _).
                destruct (tol_span_le s n a p1 TN SP) as [AB _].
                apply (FIN1 _ a p1); auto; lia.
              * destruct P as (RP & PN). rewrite PN, RP.
                apply (FIN1 _ (tpos t) (tpos t)); try reflexivity; try lia.
                rewrite tn_list. cbn [chain tol_items]. repeat split; lia.
              * subst p1. apply FIN0; lia.
            + cbn [res_post_t]. unfold errG, rpos. cbn [mkerr pe_at pe_past pe_nodes owithin]. rewrite EP.
              cbn [length]. rewrite Nat.sub_0_r. split; [lia|]. split; [lia|].
              split; [cbn [mk_chars tol_node]; lia|]. exists (tpos t), (tpos t). repeat split; auto; lia.
          - destruct aps; apply REC; auto; try lia.
            + eapply chain_snoc; [exact CA|reflexivity| | |]; cbn [length] in *; lia.
            + apply tol_items_snoc; [exact TA|]. cbn [tol_onode mk_chars tol_node]. lia.
            + eapply chain_weaken; [exact CA| |]; lia. }
        destruct (tk t) eqn:K; try exact OTHER.
        - destruct (sterr && _); [apply MAC; exact I|].
          destruct (get_macro_spec cx (targ t)); apply MAC; cbn [chain tol_items]; try exact I. split; [lia|exact I].
        - apply (FIN1 _ (tpos t) (tend t)); try reflexivity; try lia.
          rewrite tn_specials. cbn [chain tol_items]. repeat split; auto; lia. }
      destruct (impl_peek eps s pos) as [t|fin|e]; [apply TOK; exact TF| |apply TOK; exact TF].
      apply (e_finish_t ps acc [] pos lo pos pos); [exact CA | cbn [chain]; lia | exact TA | exact I | lia | lia].
    Qed.

    Lemma chars_step_t ps ch aps full pos : task_pre_t (TChars ps ch aps full pos) ->
      post_t (TChars ps ch aps full pos) (run s true cx (S f) (TChars ps ch aps full pos)).
    Proof.
      intros (PL & G). cbn [task_pos] in PL. cbn [post_t run]. rewrite peek_tok_tol.
      pose proof (good_peek_tol s ps pos G PL) as TF.
      assert (TOK : forall t, tokfacts_t s pos t ->
        res_post_t pos (onode_t pos) errF (in_range s pos)
          (let back := tpos t - length (tpre t) in
           if (match tpre t with [] => false | _ => true end) && negb aps then Ok (ONode None) back
           else
           match match tk t with
                 | TkChar => Some (targ t)
                 | TkSpecials => Some (targ t)
                 | _ => None end with
           | Some [] => REOS back
           | Some a =>
               if str_eqb a ch then
                 Ok (ONode (Some (if full then mk_nodelist None None [Some (mk_chars ps (tpos t) (tend t) ch)]
                                  else mk_chars ps (tpos t) (tend t) ch))) (tend t)
               else Ok (ONode None) back
           | None => Ok (ONode None) back
           end)).
      { intros t [F1 F3 F4 _ _]. cbn zeta.
        assert (BK : tpos t - length (tpre t) = pos) by lia. rewrite BK.
        assert (NONE : res_post_t pos (onode_t pos) errF (in_range s pos) (Ok (ONode None) pos)).
        { cbn [res_post_t]. split; [lia|]. split; [lia|]. exists None. split; [reflexivity|exact I]. }
        destruct (_ && negb aps); [exact NONE|].
        assert (SOME :
          res_post_t pos (onode_t pos) errF (in_range s pos)
            match targ t with
            | [] => REOS pos
            | _ :: _ =>
                if str_eqb (targ t) ch
                then Ok (ONode (Some (if full then mk_nodelist None None [Some (mk_chars ps (tpos t) (tend t) ch)]
                                      else mk_chars ps (tpos t) (tend t) ch))) (tend t)
                else Ok (ONode None) pos
            end).
        { destruct (targ t) as [|a0 ar] eqn:TA.
          - cbn [res_post_t]. unfold in_range. lia.
          - destruct (str_eqb (a0 :: ar) ch); [|exact NONE].
            cbn [res_post_t]. split; [lia|]. split; [exact F4|]. eexists. split; [reflexivity|].
            cbn [owithin]. destruct full.
            + unfold mk_nodelist, mk_chars. cbn [first_pos last_end rev app first_end node_pos node_end].
              split; [|exists (tpos t), (tend t); split; [reflexivity|lia]].
              rewrite tn_list. cbn [chain tol_items tol_node nspan node_pos node_end]. repeat split; auto; lia.
            + split; [cbn [mk_chars tol_node]; lia|]. exists (tpos t), (tend t). split; [reflexivity|lia]. }
        destruct (tk t); try exact NONE; exact SOME. }
      destruct (impl_peek ps s pos) as [t|fin|e]; [apply TOK; exact TF| |apply TOK; exact TF].
      cbn [res_post_t]. unfold in_range. lia.
    Qed.

    Lemma verb_step_t ps d pos : task_pre_t (TVerbDelim ps d pos) ->
      post_t (TVerbDelim ps d pos) (run s true cx (S f) (TVerbDelim ps d pos)).
    Proof.
      intros (PL & _). cbn [task_pos] in PL. cbn [post_t]. rewrite run_verb. unfold verb_step. cbn zeta.
      destruct (peek_space_spec s pos PL) as (A & _ & C). cbn zeta in A, C.
      set (p0 := snd (peek_space s pos)) in *.
      destruct (nth_error s p0) as [c0|] eqn:N0.
      2: { cbn [res_post_t]. unfold in_range. lia. }
      assert (P0 : p0 < L) by (apply nth_error_Some; congruence).
      destruct (verb_delims d c0) as [[od cd]|] eqn:VD.
      2: { cbn [res_post_t]. unfold errG, rpos. cbn [mkerr pe_at pe_past pe_nodes owithin]. repeat split; auto; lia. }
      destruct (vscan od cd (skipn (S p0) s) 1 0) as [n|] eqn:SC.
      2: { cbn [res_post_t]. unfold errG, rpos. cbn [mkerr pe_at pe_past pe_nodes owithin].
           split; [lia|]. split; [lia|]. split; [cbn [mk_chars tol_node]; lia|].
           exists (S p0), L. repeat split; auto; lia. }
      apply vscan_spec in SC. destruct SC as (k & -> & NK). cbn [Nat.add] in *.
      rewrite nth_error_skipn_add in NK.
      assert (KL : S p0 + k < L) by (apply nth_error_Some; congruence).
      cbn [res_post_t]. split; [lia|]. split; [lia|]. eexists. split; [reflexivity|]. cbn [owithin].
      split; [|exists p0, (S (S p0 + k)); split; [reflexivity|lia]].
      rewrite tn_group. unfold mk_nodelist, mk_chars.
      cbn [first_pos last_end rev app first_end node_pos node_end body_items body_in chain nspan].
      split; [lia|]. split; [lia|]. split; [lia|]. split; [lia|].
      rewrite tn_list. cbn [chain tol_items tol_node nspan node_pos node_end]. repeat split; auto; lia.
    Qed.

    Lemma stdarg_step_t ps k pos : task_pre_t (TStdArg ps k pos) ->
      post_t (TStdArg ps k pos) (run s true cx (S f) (TStdArg ps k pos)).
    Proof.
      intros (PL & G). cbn [task_pos] in PL. cbn [post_t run]. rewrite parse_content_tol.
      assert (EG : forall e p, errG pos e p ->
                 res_post_t pos (onode_t pos) errF never (Ok (ONode (pe_nodes e)) (rpos e p))).
      { intros e p (A & B & C). cbn [res_post_t]. split; [exact A|]. split; [exact B|].
        eexists. split; [reflexivity|]. exact C. }
      assert (NN : forall p, in_range s pos p -> res_post_t pos (onode_t pos) errF never (Ok (ONode None) p)).
      { intros p [A B]. cbn [res_post_t]. split; [exact A|]. split; [exact B|]. exists None. split; [reflexivity|exact I]. }
      destruct k as [aps|o c opt aps|ch aps full|d].
      - assert (PRE : task_pre_t (TExpr ps aps aps false true [] pos)) by (split; cbn; auto).
        pose proof (IH _ PRE eq_refl pos (le_n pos) I) as P.
        destruct (run s true cx f (TExpr ps aps aps false true [] pos)); cbn [res_post_t] in P; auto.
      - assert (PRE : task_pre_t (TGroup ps (GDPair o c) opt aps pos)) by (split; cbn; auto).
        pose proof (IH _ PRE) as P. cbn [post_t] in P.
        destruct (run s true cx f (TGroup ps (GDPair o c) opt aps pos)) as [o1 p1|e p1|p1|k1|];
          cbn [res_post_t] in P |- *; auto.
        + destruct P as (A & B & C). split; [exact A|]. split; [exact B|].
          destruct o1 as [[n|]| |]; try contradiction; (eexists; split; [reflexivity|]); cbn [owithin]; [|exact I].
          destruct C as (TN & a & SP & X & _). split; [exact TN|]. exists a, p1. repeat split; auto.
        + destruct P as (RP & PN). rewrite PN, RP. split; [lia|]. split; [exact PL|].
          eexists. split; [reflexivity|]. cbn [owithin]. split.
          * rewrite tn_list. cbn [chain tol_items]. repeat split; lia.
          * exists pos, pos. split; [reflexivity|lia].
        + subst p1. apply NN. unfold in_range. lia.
      - assert (PRE : task_pre_t (TChars ps ch aps full pos)) by (split; cbn; auto).
        pose proof (IH _ PRE) as P. cbn [post_t] in P.
        destruct (run s true cx f (TChars ps ch aps full pos)); cbn [res_post_t] in P; auto. destruct P.
      - assert (PRE : task_pre_t (TVerbDelim ps d pos)) by (split; cbn; auto).
        pose proof (IH _ PRE) as P. cbn [post_t] in P.
        destruct (run s true cx f (TVerbDelim ps d pos)); cbn [res_post_t] in P; auto.
    Qed.

    Lemma args_step_t ps specs acc pos : task_pre_t (TArgs ps specs acc pos) ->
      post_t (TArgs ps specs acc pos) (run s true cx (S f) (TArgs ps specs acc pos)).
    Proof.
      intros (PL & G). cbn [task_pos] in PL. cbn [post_t run]. intros lo CA W.
      destruct specs as [|a rest].
      - cbn [res_post_t]. split; [lia|]. split; [exact PL|]. exists acc. auto.
      - rewrite peek_tok_tol.
        assert (GO : res_post_t pos (fun o p => exists l, o = OArgs (Some ([], l)) /\ chain lo p l /\ tol_items s l)
                                errF never
          match parse_content true (run s true cx f (TStdArg (apply_adelta ps (a_delta a)) (a_kind a) pos)) with
          | Ok (ONode n) p => run s true cx f (TArgs ps rest (acc ++ [n]) p)
          | Ok _ p => RExn 9
          | PErr e p => PErr e p | REOS p => REOS p | RExn k => RExn k | OutOfFuel => OutOfFuel
          end).
        { assert (PRE : task_pre_t (TStdArg (apply_adelta ps (a_delta a)) (a_kind a) pos))
            by (split; cbn; auto using good_adelta).
          pose proof (IH _ PRE) as P. cbn [post_t] in P. rewrite parse_content_tol.
          destruct (run s true cx f (TStdArg (apply_adelta ps (a_delta a)) (a_kind a) pos)) as [o1 p1|e p1|p1|k1|];
            cbn [res_post_t] in P |- *; auto; try (destruct P; fail).
          destruct P as (A & B & n & -> & TN).
          assert (PRE2 : task_pre_t (TArgs ps rest (acc ++ [n]) p1)) by (split; cbn; auto).
          pose proof (IH _ PRE2) as P2. cbn [post_t] in P2.
          eapply res_post_t_weaken; [apply (P2 lo)|exact A|auto].
          - eapply chain_snoc_within; eauto.
          - apply tol_items_snoc; [assumption|]. eapply owithin_tol; eauto. }
        destruct (impl_peek ps s pos); exact GO.
    Qed.

    Definition legacy_okT (pos : nat) (o : out) (p : nat) : Prop :=
      exists sp l, o = OArgs (Some (sp, l)) /\ chain pos p l /\ tol_items s l.

    Lemma legacy_tail_t ps pos endcode sp al p : pos <= p -> p <= L -> chain pos p al -> tol_items s al ->
      res_post_t pos (legacy_okT pos) (errG pos) never
        match sfind s endcode p with
        | None => PErr (mkerr (Some p) 21 None false None None) pos
        | Some e => Ok (OArgs (Some (sp ++ [[123%N]], al ++ [Some (mk_chars ps p e (slice s p e))]))) e
        end.
    Proof.
      intros H1 H2 CA W. unfold sfind. destruct (find_from s endcode p) as [e|] eqn:F.
      - apply find_from_bound in F. destruct F as [F1 F2].
        cbn [res_post_t]. split; [lia|]. split; [lia|]. eexists _, _. split; [reflexivity|]. split.
        + eapply chain_snoc; [exact CA|reflexivity| | |]; lia.
        + apply tol_items_snoc; [exact W|]. cbn [tol_onode mk_chars tol_node]. lia.
      - cbn [res_post_t]. unfold errG, rpos. cbn [mkerr pe_at pe_past pe_nodes owithin]. repeat split; auto; lia.
    Qed.

    Lemma legacy_step_t ps k pos : task_pre_t (TLegacyArgs ps k pos) ->
      post_t (TLegacyArgs ps k pos) (run s true cx (S f) (TLegacyArgs ps k pos)).
    Proof.
      intros (PL & G). cbn [task_pos] in PL. cbn [post_t run]. fold (legacy_okT pos).
      assert (ERR : forall q w, res_post_t pos (legacy_okT pos) (errG pos) never
                                 (PErr (mkerr (Some q) w None false None None) pos)).
      { intros q w. cbn [res_post_t]. unfold errG, rpos. cbn [mkerr pe_at pe_past pe_nodes owithin]. repeat split; auto; lia. }
      destruct k as [|name optarg].
      - destruct (peek_space_spec s pos PL) as (A & _ & C). cbn zeta in A, C.
        set (p1 := snd (peek_space s pos)) in *.
        destruct (nth_error s p1) as [dc|]; [|apply ERR].
        unfold sfind. destruct (find_from s [dc] (S p1)) as [e|] eqn:F; [|apply ERR].
        apply find_from_bound in F. cbn [length] in F. destruct F as [F1 F2].
        cbn [res_post_t]. split; [lia|]. split; [lia|]. eexists _, _. split; [reflexivity|].
        cbn [chain nspan node_pos node_end tol_items mk_chars tol_node]. repeat split; auto; lia.
      - set (endcode := ([92; 101; 110; 100; 123]%N ++ name ++ [125%N])).
        assert (GRP : res_post_t pos (legacy_okT pos) (errG pos) never
          match
            match parse_content true (run s true cx f (TGroup ps (GDPair [91%N] [93%N]) true false pos)) with
            | Ok (ONode n) p => Ok ([[91%N]], [n], p) p
            | Ok _ p => RExn 9
            | PErr e p => PErr e p | REOS p => REOS p | RExn k2 => RExn k2
            | OutOfFuel => OutOfFuel end
          with
          | Ok (sp, al, p) _ =>
              match sfind s endcode p with
              | None => PErr (mkerr (Some p) 21 None false None None) pos
              | Some e => Ok (OArgs (Some (sp ++ [[123%N]], al ++ [Some (mk_chars ps p e (slice s p e))]))) e
              end
          | PErr e p => PErr e p | REOS p => REOS p | RExn k2 => RExn k2 | OutOfFuel => OutOfFuel
          end).
        { assert (PRE : task_pre_t (TGroup ps (GDPair [91%N] [93%N]) true false pos)) by (split; cbn; auto).
          pose proof (IH _ PRE) as P. cbn [post_t] in P. rewrite parse_content_tol.
          destruct (run s true cx f (TGroup ps (GDPair [91%N] [93%N]) true false pos)) as [o1 p1|e p1|p1|k1|];
            cbn [res_post_t] in P |- *; auto.
          - destruct P as (A & B & C). destruct o1 as [n| |]; try exact I.
            destruct n as [n|].
            + destruct C as (TN & a & SP & X & _). destruct (tol_span_le s n a p1 TN SP) as [AB _].
              apply legacy_tail_t; auto.
              * cbn [chain]. rewrite SP. repeat split; lia.
              * cbn [tol_items]. auto.
            + apply legacy_tail_t; cbn [chain tol_items]; auto.
          - destruct P as (RP & PN). rewrite PN, RP.
            apply legacy_tail_t; auto.
            + cbn [chain nspan node_pos node_end]. repeat split; lia.
            + cbn [tol_items]. split; [|exact I].
              rewrite tn_list. cbn [chain tol_items]. repeat split; lia.
          - subst p1. apply legacy_tail_t; cbn [chain tol_items]; auto. }
        destruct optarg.
        + destruct (nth_error s pos) as [c|]; [|exact GRP].
          destruct (is_space c); [|exact GRP].
          apply legacy_tail_t; cbn [chain tol_items]; auto.
        + apply legacy_tail_t; cbn [chain tol_items]; auto.
    Qed.

    Lemma call_tail_t ps t sp pos (a : option pargs) p : good ps -> tpos t <= pos -> pos <= p -> p <= L ->
      match a with None => True | Some (_, l) => chain pos p l /\ tol_items s l end ->
      res_post_t pos (fun o p => match o with
                                 | ONode (Some n) => tol_node s n /\ nspan n = Some (tpos t, p)
                                 | _ => False end) errF never
        match tk t with
        | TkBeginEnv =>
            match parse_content true
                    (run s true cx f (TEnvBody (if sp_body_math sp then ps_enter_math ps None else ps) (targ t) p)) with
            | Ok (ONode body) p2 => Ok (ONode (Some (NEnv (tpos t) p2 (ps_mode ps) (targ t) a body))) p2
            | Ok _ p2 => RExn 9
            | PErr e p2 => PErr e p2 | REOS p2 => REOS p2 | RExn k => RExn k | OutOfFuel => OutOfFuel
            end
        | TkSpecials => Ok (ONode (Some (NSpecials (tpos t) p (ps_mode ps) (targ t) a))) p
        | _ => Ok (ONode (Some (NMacro (tpos t) p (ps_mode ps) (targ t) (tpost t) a))) p
        end.
    Proof.
      intros G TP H1 H2 W.
      assert (MAC : res_post_t pos (fun o p => match o with
                               | ONode (Some n) => tol_node s n /\ nspan n = Some (tpos t, p)
                               | _ => False end) errF never
                 (Ok (ONode (Some (NMacro (tpos t) p (ps_mode ps) (targ t) (tpost t) a))) p)).
      { cbn [res_post_t]. split; [lia|]. split; [lia|]. split; [|reflexivity].
        rewrite tn_macro. split; [lia|]. split; [lia|]. destruct a as [[spx l]|]; [|exact I].
        split; [|apply W]. eapply chain_weaken; [apply W| |]; lia. }
      destruct (tk t); try exact MAC.
      set (bps := if sp_body_math sp then ps_enter_math ps None else ps).
      assert (GB : good bps) by (unfold bps; destruct (sp_body_math sp); auto using good_enter_math).
      assert (PRE : task_pre_t (TEnvBody bps (targ t) p)) by (split; cbn; auto).
      pose proof (IH _ PRE) as P. cbn [post_t] in P. rewrite parse_content_tol.
      destruct (run s true cx f (TEnvBody bps (targ t) p)) as [o1 p1|e p1|p1|k1|];
        cbn [res_post_t] in P |- *; auto; try (destruct P; fail).
      destruct P as (A & B & n & -> & TN & CH & BI).
      split; [lia|]. split; [lia|]. split; [|reflexivity].
      rewrite tn_env. split; [lia|]. split; [lia|]. split; [|split; [|split; [|exact TN]]].
      - eapply chain_weaken; [exact CH|lia|lia].
      - cbn [body_in] in *. destruct (nspan n) as [[x y]|]; auto. lia.
      - destruct a as [[spx l]|]; [|exact I]. split; [|apply W]. eapply chain_weaken; [apply W| |]; lia.
    Qed.

    Lemma call_step_t ps t sp pos : task_pre_t (TCall ps t sp pos) ->
      post_t (TCall ps t sp pos) (run s true cx (S f) (TCall ps t sp pos)).
    Proof.
      intros (PL & G). cbn [task_pos] in PL. cbn [post_t run]. intros TP.
      destruct (sp_args sp) as [l0|k] eqn:SA; unfold parse_content_args; rewrite !parse_content_tol.
      - assert (PRE : task_pre_t (TArgs ps l0 [] pos)) by (split; cbn; auto).
        pose proof (IH _ PRE pos (le_n pos) I) as P. cbn [post_t] in P.
        destruct (run s true cx f (TArgs ps l0 [] pos)) as [o1 p1|e p1|p1|k1|];
          cbn [res_post_t] in P |- *; auto; try (destruct P; fail).
        destruct P as (A & B & l & -> & CL & W).
        apply call_tail_t; auto.
      - assert (PRE : task_pre_t (TLegacyArgs ps k pos)) by (split; cbn; auto).
        pose proof (IH _ PRE) as P. cbn [post_t] in P.
        destruct (run s true cx f (TLegacyArgs ps k pos)) as [o1 p1|e p1|p1|k1|];
          cbn [res_post_t] in P |- *; auto; try (destruct P; fail).
        + destruct P as (A & B & spx & l & -> & CL & W). apply call_tail_t; auto.
        + destruct P as (A & B & C). destruct (pe_nodes e); apply call_tail_t; auto.
    Qed.
  End WithFuelT.

  (** * Every task, every fuel *)
  Theorem run_post_t : forall fuel t, task_pre_t t -> post_t t (run s true cx fuel t).
  Proof.
    induction fuel as [|f IH]; intros t PRE.
    - cbn [run]. destruct t; cbn [post_t]; intros; exact I.
    - destruct t.
      + rewrite run_collect. apply collect_ok_t; assumption.
      + apply general_step_t; assumption.
      + apply group_step_t; assumption.
      + apply math_step_t; assumption.
      + apply envbody_step_t; assumption.
      + apply expr_step_t; assumption.
      + apply chars_step_t; assumption.
      + apply verb_step_t; assumption.
      + apply stdarg_step_t; assumption.
      + apply args_step_t; assumption.
      + apply legacy_step_t; assumption.
      + apply call_step_t; assumption.
  Qed.

  (** whatever the tolerant top-level parse returns, for every fuel *)
  Theorem top_tolerant fuel o p :
    parse_content true (run s true cx fuel (TGeneral (walker_state cx) top_opts 0)) = Ok o p ->
    p <= L /\ exists n, o = ONode (Some n) /\ tol_node s n /\
                        exists a b, nspan n = Some (a, b) /\ b <= p.
  Proof.
    assert (PRE : task_pre_t (TGeneral (walker_state cx) top_opts 0)).
    { split; cbn [task_pos]; [lia|]. split; [apply good_walker | exact I]. }
    pose proof (run_post_t fuel _ PRE) as P. cbn [post_t] in P. rewrite parse_content_tol.
    destruct (run s true cx fuel (TGeneral (walker_state cx) top_opts 0)) as [o1 p1|e p1|p1|k1|];
      cbn [res_post_t] in P; try discriminate; try (destruct P; fail).
    - destruct P as (A & B & n & -> & T & a & b & SP & X & Y).
      intros E. injection E as <- <-. split; [exact B|]. exists n. repeat split; auto. eauto.
    - destruct P as (A1 & A2 & A3 & A4 & n & PN & T & a & b & SP & X & Y).
      unfold rpos. rewrite A1, A2, PN. intros E. injection E as <- <-. split; [exact A4|]. exists n.
      repeat split; auto. eauto.
  Qed.
End Tolerant.

(** * Every node of a tolerant tree *)
Lemma tol_kids s n k : tol_node s n -> In (Some k) (kids n) -> tol_node s k.
Proof.
  assert (AI : forall l, tol_items s l -> In (Some k) l -> tol_node s k).
  { intros l T I. apply (tol_items_in s l (Some k) T I). }
  destruct n; cbn [kids In].
  - tauto.
  - tauto.
  - rewrite tn_group. intros (_ & _ & _ & _ & H) [E|[]]. subst body. exact H.
  - rewrite tn_macro. intros (_ & _ & H). destruct args as [[sp l]|]; cbn [arg_items]; [|intros []]. apply AI; apply H.
  - rewrite tn_env. intros (_ & _ & _ & _ & H1 & H2) I. apply in_app_or in I. destruct I as [I|[E|[]]].
    + destruct args as [[sp l]|]; cbn [arg_items] in I; [|destruct I]. eapply AI; [apply H1|exact I].
    + subst body. exact H2.
  - rewrite tn_specials. intros (_ & _ & H). destruct args as [[sp l]|]; cbn [arg_items]; [|intros []]. apply AI; apply H.
  - rewrite tn_math. intros (_ & _ & _ & _ & H) [E|[]]. subst body. exact H.
  - rewrite tn_list. intros [_ H]. apply AI; exact H.
Qed.

Theorem tol_in_tree s m n : in_tree m n -> tol_node s n -> tol_node s m.
Proof.
  induction 1 as [n|m k n I _ IH]; intros W; [exact W|]. apply IH. eapply tol_kids; eauto.
Qed.

Theorem parse_top_tolerant s cx o p :
  parse_top s true cx (walker_state cx) = Ok o p ->
  p <= length s /\ exists n, o = ONode (Some n) /\ tol_node s n.
Proof.
  intros H. unfold parse_top in H. apply top_tolerant in H. destruct H as (A & n & B & C & _). eauto.
Qed.

(** in particular every node of the tree, of whatever kind, is in range *)
Theorem parse_top_tolerant_in_range s cx n p :
  parse_top s true cx (walker_state cx) = Ok (ONode (Some n)) p ->
  forall m a b, in_tree m n -> nspan m = Some (a, b) -> a <= b /\ b <= length s.
Proof.
  intros H m a b I SP. apply parse_top_tolerant in H. destruct H as (_ & n' & E & T).
  injection E as <-. eapply tol_span_le; [|exact SP]. eapply tol_in_tree; eauto.
Qed.
