(** C01 — tolerant mode: whatever [Parser.run] returns with [tol = true] is in
    range, and bodies / node lists nest in document order.  (Arguments need
    NOT lie inside the macro's span: see [ParserSpansTol.tolerant_nested_refuted].)
    Same structure as [ParserSpansStrict]: per-task postconditions, now also
    for parse errors (their recovery nodes and recovery position), one step
    with the recursive calls abstracted, induction on the fuel. *)
From Coq Require Import NArith List Bool Arith Lia.
From PLV Require Import Base.PyStr Tok.PState Tok.Tokenizer Parse.Nodes Parse.Parser Parse.ParseWire
  Proofs.PyStrFacts Proofs.TokProofs Proofs.PStateProofs
  Proofs.ParserSpansDefs Proofs.ParserSpansTok Proofs.ParserSpansStep Proofs.ParserSpansStrict.
Import ListNotations.

(** * Well-formedness in tolerant mode *)
Section TN.
  Variable s : str.
  Fixpoint tol_node (n : node) {struct n} : Prop :=
    let tol_items := fix ti (l : list (option node)) : Prop :=
        match l with
        | [] => True
        | None :: r => ti r
        | Some x :: r => tol_node x /\ ti r
        end in
    match n with
    | NChars p e _ _ | NComment p e _ _ _ => p <= e /\ e <= length s
    | NGroup p e _ _ _ b | NMath p e _ _ _ _ b =>
        p <= e /\ e <= length s /\ chain p e (body_items b) /\ body_in p e b /\
        match b with None => True | Some x => tol_node x end
    | NMacro p e _ _ _ a | NSpecials p e _ _ a =>
        p <= e /\ e <= length s /\ match a with None => True | Some (_, l) => tol_items l end
    | NEnv p e _ _ a b =>
        p <= e /\ e <= length s /\ chain p e (body_items b) /\ body_in p e b /\
        match a with None => True | Some (_, l) => tol_items l end /\
        match b with None => True | Some x => tol_node x end
    | NList a b items =>
        match a, b with
        | Some x, Some y => x <= y /\ y <= length s /\ chain x y items
        | None, None => True
        | _, _ => False
        end /\ tol_items items
    end.
  Fixpoint tol_items (l : list (option node)) : Prop :=
    match l with
    | [] => True
    | None :: r => tol_items r
    | Some x :: r => tol_node x /\ tol_items r
    end.
End TN.

Definition tol_onode (s : str) (o : option node) : Prop :=
  match o with Some n => tol_node s n | None => True end.

Lemma tn_macro s p e m nm po a :
  tol_node s (NMacro p e m nm po a) =
  (p <= e /\ e <= length s /\ match a with None => True | Some (_, l) => tol_items s l end).
Proof. reflexivity. Qed.
Lemma tn_specials s p e m c a :
  tol_node s (NSpecials p e m c a) =
  (p <= e /\ e <= length s /\ match a with None => True | Some (_, l) => tol_items s l end).
Proof. reflexivity. Qed.
Lemma tn_env s p e m nm a b :
  tol_node s (NEnv p e m nm a b) =
  (p <= e /\ e <= length s /\ chain p e (body_items b) /\ body_in p e b /\
   match a with None => True | Some (_, l) => tol_items s l end /\
   match b with None => True | Some x => tol_node s x end).
Proof. reflexivity. Qed.
Lemma tn_list s a b items :
  tol_node s (NList a b items) =
  (match a, b with
   | Some x, Some y => x <= y /\ y <= length s /\ chain x y items
   | None, None => True
   | _, _ => False
   end /\ tol_items s items).
Proof. reflexivity. Qed.
Lemma tn_group s p e m dl dr b :
  tol_node s (NGroup p e m dl dr b) =
  (p <= e /\ e <= length s /\ chain p e (body_items b) /\ body_in p e b /\
   match b with None => True | Some x => tol_node s x end).
Proof. reflexivity. Qed.
Lemma tn_math s p e m d dl dr b :
  tol_node s (NMath p e m d dl dr b) =
  (p <= e /\ e <= length s /\ chain p e (body_items b) /\ body_in p e b /\
   match b with None => True | Some x => tol_node s x end).
Proof. reflexivity. Qed.

Lemma tol_items_app s l1 l2 : tol_items s (l1 ++ l2) <-> tol_items s l1 /\ tol_items s l2.
Proof. induction l1 as [|[x|] l1 IH]; cbn [app tol_items]; tauto. Qed.

Lemma tol_items_snoc s l o : tol_items s l -> tol_onode s o -> tol_items s (l ++ [o]).
Proof. intros A B. apply tol_items_app. destruct o; cbn [tol_items tol_onode] in *; tauto. Qed.

Lemma tol_items_in s l o : tol_items s l -> In o l -> tol_onode s o.
Proof.
  induction l as [|[x|] l IH]; cbn [tol_items In]; [tauto| |].
  - intros [A B] [E|E]; [subst o; exact A | auto].
  - intros A [E|E]; [subst o; exact I | auto].
Qed.

Lemma tol_span_le s n a b : tol_node s n -> nspan n = Some (a, b) -> a <= b /\ b <= length s.
Proof.
  destruct n; unfold nspan; cbn [node_pos node_end].
  - intros H E; injection E as <- <-. cbn [tol_node] in H. lia.
  - intros H E; injection E as <- <-. cbn [tol_node] in H. lia.
  - intros H E; injection E as <- <-. rewrite tn_group in H. lia.
  - intros H E; injection E as <- <-. rewrite tn_macro in H. lia.
  - intros H E; injection E as <- <-. rewrite tn_env in H. lia.
  - intros H E; injection E as <- <-. rewrite tn_specials in H. lia.
  - intros H E; injection E as <- <-. rewrite tn_math in H. lia.
  - rewrite tn_list. destruct p as [x|], e as [y|]; intros [H _] E; try discriminate.
    injection E as <- <-. lia.
Qed.

(** * The node list built over an ordered item list *)
Fixpoint all_none (l : list (option node)) : Prop :=
  match l with [] => True | None :: r => all_none r | Some _ :: _ => False end.

Lemma first_end_snoc_none l : first_end (l ++ [None]) = first_end l.
Proof. induction l as [|[n|] l IH]; cbn [app first_end]; auto. Qed.

Lemma all_none_app l1 l2 : all_none l1 -> all_none l2 -> all_none (l1 ++ l2).
Proof. induction l1 as [|[n|] l1 IH]; cbn [app all_none]; tauto. Qed.

Lemma all_none_rev l : all_none l -> all_none (rev l).
Proof.
  induction l as [|[n|] l IH]; cbn [rev all_none]; auto; [tauto|].
  intros H. apply all_none_app; [auto | exact I].
Qed.

Lemma first_end_all_none_app l1 l2 : all_none l1 -> first_end (l1 ++ l2) = first_end l2.
Proof. induction l1 as [|[n|] l1 IH]; cbn [app all_none first_end]; tauto. Qed.

Lemma chain_all_none lo hi l : all_none l -> lo <= hi -> chain lo hi l.
Proof. induction l as [|[n|] l IH]; cbn [all_none chain]; tauto. Qed.

Lemma chain_ends x y l : chain x y l ->
  (all_none l /\ first_pos l = None /\ last_end l = None) \/
  (exists a b, first_pos l = Some a /\ last_end l = Some b /\ x <= a /\ a <= b /\ b <= y /\ chain a b l).
Proof.
  revert x. induction l as [|[n|] l IH]; intros x; cbn [chain].
  - intros _. left. cbn. auto.
  - unfold nspan.
    destruct (node_pos n) as [a0|] eqn:Ea.
    2: tauto.
    destruct (node_end n) as [b0|] eqn:Eb.
    2: tauto.
    intros (A & B & C). right. pose proof (chain_le _ _ _ C) as LE.
    destruct (IH b0 C) as [(N1 & N2 & N3)|(a1 & b1 & P1 & P2 & Q1 & Q2 & Q3 & Q4)].
    + exists a0, b0. cbn [first_pos]. unfold last_end. cbn [rev].
      rewrite first_end_all_none_app by (apply all_none_rev; exact N1). cbn [first_end].
      repeat split; auto; try lia. apply chain_all_none; auto.
    + exists a0, b1. cbn [first_pos]. unfold last_end in *. cbn [rev].
      rewrite (first_end_app_some _ _ _ P2).
      repeat split; auto; try lia. eapply chain_weaken; eauto.
  - intros C. destruct (IH x C) as [(N1 & N2 & N3)|(a1 & b1 & P1 & P2 & Q)].
    + left. cbn [all_none first_pos]. unfold last_end in *. cbn [rev]. rewrite first_end_snoc_none. auto.
    + right. exists a1, b1. cbn [first_pos chain]. unfold last_end in *. cbn [rev].
      rewrite first_end_snoc_none. auto.
Qed.

(** [mk_nodelist None None l] with missing ends replaced by [x], over a chain inside [x, y] *)
Lemma nodelist_chain s x y l : chain x y l -> tol_items s l -> y <= length s ->
  exists a b,
    (match first_pos l with Some _ => first_pos l | None => Some x end) = Some a /\
    (match last_end l with Some _ => last_end l | None => Some x end) = Some b /\
    x <= a /\ a <= b /\ b <= y /\ tol_node s (NList (Some a) (Some b) l).
Proof.
  intros C T Y. pose proof (chain_le _ _ _ C) as LE.
  destruct (chain_ends x y l C) as [(N1 & N2 & N3)|(a1 & b1 & P1 & P2 & Q1 & Q2 & Q3 & Q4)].
  - exists x, x. rewrite N2, N3. do 5 (split; [first [reflexivity|lia]|]).
    rewrite tn_list. split; [|exact T]. repeat split; try lia. apply chain_all_none; auto.
  - exists a1, b1. rewrite P1, P2. do 5 (split; [first [reflexivity|lia]|]).
    rewrite tn_list. split; [|exact T]. repeat split; auto; lia.
Qed.

Section Tolerant.
  Variable s : str.
  Variable cx : context.
  Notation L := (length s).

  (** [LatexWalker.parse_content] in tolerant mode: where the reader is put after a recovered error *)
  Definition rpos (e : perr) (p : nat) : nat :=
    match pe_at e with
    | Some t => tpos t - length (tpre t)
    | None => match pe_past e with Some t => tend t | None => p end
    end.

  Lemma parse_content_tol (x : res out) :
    parse_content true x = match x with
                           | REOS p => Ok (ONode None) p
                           | PErr e p => Ok (ONode (pe_nodes e)) (rpos e p)
                           | y => y end.
  Proof. destruct x; reflexivity. Qed.

  Definition task_pre_t (t : task) : Prop :=
    task_pos t <= L /\
    match t with
    | TCollect ps o _ _ | TGeneral ps o _ => good ps /\ good_opts o
    | TGroup ps _ _ _ _ | TMath ps _ _ | TEnvBody ps _ _ | TExpr ps _ _ _ _ _ _ | TLegacyArgs ps _ _
    | TChars ps _ _ _ _ | TStdArg ps _ _ | TArgs ps _ _ _ | TCall ps _ _ _ => good ps
    | TVerbDelim _ _ _ => True
    end.

  (** a node with a span inside [lo, hi] *)
  Definition within (lo hi : nat) (n : node) : Prop :=
    tol_node s n /\ exists a b, nspan n = Some (a, b) /\ lo <= a /\ b <= hi.
  Definition owithin (lo hi : nat) (o : option node) : Prop :=
    match o with Some n => within lo hi n | None => True end.

  (** generic error: the recovery position is in [lo, L], the recovery nodes are inside [lo, it] *)
  Definition errG (lo : nat) (e : perr) (p : nat) : Prop :=
    lo <= rpos e p /\ rpos e p <= L /\ owithin lo (rpos e p) (pe_nodes e).
  (** a missing opening delimiter: an empty list at the offending token, reader back at the start *)
  Definition errD (pos : nat) (e : perr) (p : nat) : Prop :=
    rpos e p = pos /\ exists t', tpos t' = pos + length (tpre t') /\ tpos t' <= L /\
      pe_nodes e = Some (NList (Some (tpos t')) (Some (tpos t')) []) /\
      (nonspace_at s pos -> tpre t' = []).
  Definition errF (_ : perr) (_ : nat) : Prop := False.

  Definition res_post_t (lo : nat) (okP : out -> nat -> Prop) (errP : perr -> nat -> Prop)
             (eosP : nat -> Prop) (r : res out) : Prop :=
    match r with
    | Ok o p => lo <= p /\ p <= L /\ okP o p
    | PErr e p => errP e p
    | REOS p => eosP p
    | _ => True
    end.

  Lemma res_post_t_weaken lo lo' P (E E' : perr -> nat -> Prop) Q r :
    res_post_t lo' P E Q r -> lo <= lo' -> (forall e p, E e p -> E' e p) -> res_post_t lo P E' Q r.
  Proof.
    destruct r; cbn [res_post_t]; intros H A B; auto. destruct H as (X & Y & Z). repeat split; auto; lia.
  Qed.

  (** the collector while running *)
  Definition cinvw_t (start : nat) (st : collstate) (pos : nat) : Prop :=
    exists q, chain start q (cs_acc st) /\ tol_items s (cs_acc st) /\ q <= pos /\
      (cs_pend st <> [] -> cs_ppos st = Some q /\ q + length (cs_pend st) <= pos).
  Definition cinv_t (start : nat) (st : collstate) (pos : nat) : Prop :=
    cinvw_t start st pos /\ (cs_pend st = [] -> cs_ppos st = None \/ pos = L).
  Definition cdone_t (start : nat) (st : collstate) (p : nat) : Prop :=
    chain start p (cs_acc st) /\ tol_items s (cs_acc st).

  Definition coll_ok_t (start : nat) (o : out) (p : nat) : Prop :=
    match o with
    | OColl st' stopped _ _ =>
        cdone_t start st' p /\ match stopped with Some t => p <= tend t /\ tend t <= L | None => True end
    | _ => False
    end.
  Definition coll_err (start lo : nat) (e : perr) (p : nat) : Prop :=
    lo <= p /\ p <= L /\ exists items, pe_nodes e = Some (NList None None items) /\
                                       chain start p items /\ tol_items s items.

  Definition gen_ok (pos : nat) (o : out) (p : nat) : Prop :=
    exists n, o = ONode (Some n) /\ within pos p n.
  Definition gen_err (pos : nat) (e : perr) (p : nat) : Prop :=
    pe_at e = None /\ pe_past e = None /\ pos <= p /\ p <= L /\ exists n, pe_nodes e = Some n /\ within pos p n.

  Definition onode_t (o : out) (p : nat) : Prop := exists n, o = ONode n /\ tol_onode s n.

  Definition post_t (t : task) (r : res out) : Prop :=
    match t with
    | TCollect ps og st pos =>
        forall start, cinv_t start st pos -> res_post_t pos (coll_ok_t start) (coll_err start pos) never r
    | TGeneral ps og pos => res_post_t pos (gen_ok pos) (gen_err pos) never r
    | TGroup ps d optional aps pos =>
        res_post_t pos
          (fun o p => match o with
                      | ONode None => True
                      | ONode (Some n) => tol_node s n /\ exists a, nspan n = Some (a, p) /\ pos <= a /\
                                                                    (aps = false -> a = pos)
                      | _ => False end)
          (errD pos) (fun p => p = pos) r
    | TMath ps d pos =>
        res_post_t pos
          (fun o p => match o with
                      | ONode (Some n) => tol_node s n /\ nspan n = Some (pos, p)
                      | _ => False end)
          (errD pos) (fun p => p = pos) r
    | TEnvBody ps name pos =>
        res_post_t pos
          (fun o p => exists n, o = ONode (Some n) /\ tol_node s n /\
                                chain pos p (body_items (Some n)) /\ body_in pos p (Some n)) errF never r
    | TExpr ps aps apc full sterr acc pos =>
        full = false -> tol_items s acc -> res_post_t pos onode_t (errG pos) (in_range s pos) r
    | TChars ps ch aps full pos => res_post_t pos onode_t errF (in_range s pos) r
    | TVerbDelim ps d pos => res_post_t pos onode_t (errG pos) (in_range s pos) r
    | TStdArg ps k pos => res_post_t pos onode_t errF never r
    | TArgs ps specs acc pos =>
        tol_items s acc ->
        res_post_t pos (fun o p => exists l, o = OArgs (Some ([], l)) /\ tol_items s l) errF never r
    | TLegacyArgs ps k pos =>
        res_post_t pos (fun o p => exists sp l, o = OArgs (Some (sp, l)) /\ tol_items s l) (errG pos) never r
    | TCall ps t sp pos =>
        tpos t <= pos ->
        res_post_t pos (fun o p => match o with
                                   | ONode (Some n) => tol_node s n /\ nspan n = Some (tpos t, p)
                                   | _ => False end) errF never r
    end.

  (** a body inside [lo, hi] *)
  Lemma body_chain lo hi n : within lo hi n -> chain lo hi (body_items (Some n)) /\ body_in lo hi (Some n).
  Proof.
    intros (T & a & b & SP & A & B). destruct (tol_span_le s n a b T SP) as [AB BL].
    split; [|cbn [body_in]; rewrite SP; lia].
    destruct n; cbn [body_items chain]; try (rewrite SP; lia).
    rewrite tn_list in T. unfold nspan in SP. cbn [node_pos node_end] in SP.
    destruct p as [x|], e as [y|]; try discriminate. injection SP as <- <-.
    destruct T as [(_ & _ & C) _]. eapply chain_weaken; eauto.
  Qed.

  (** * The collector *)
  Lemma cinv_t_empty pos : cinv_t pos cs_empty pos.
  Proof.
    split; [|left; reflexivity]. exists pos. cbn. repeat split; auto; congruence.
  Qed.

  Lemma flush_done_t ps start st pos : cinvw_t start st pos -> pos <= L ->
    cdone_t start (flush ps st) pos /\ cs_pend (flush ps st) = [] /\
    (cs_pend st <> [] -> cs_ppos (flush ps st) = None) /\ (cs_pend st = [] -> flush ps st = st).
  Proof.
    intros (q & C & T & Q & P) H. unfold flush.
    destruct (cs_pend st) as [|c r] eqn:E.
    - repeat split; auto; try congruence. eapply chain_weaken; eauto.
    - destruct P as [P1 P2]; [discriminate|]. rewrite P1. cbn [cs_acc cs_pend cs_ppos].
      repeat split; auto; try congruence.
      + eapply chain_snoc; [exact C|reflexivity| | |]; lia.
      + apply tol_items_snoc; [exact T|]. cbn [tol_onode mk_chars tol_node]. lia.
  Qed.

  Lemma cdone_cinv_t start st p : cdone_t start st p -> cs_pend st = [] -> cs_ppos st = None ->
    cinv_t start st p.
  Proof.
    intros [C T] E N. split; [|auto]. exists p. repeat split; auto; congruence.
  Qed.

  Lemma push_cinv_t start st pos c pos' : cinv_t start st pos -> pos + length c <= pos' -> pos' <= L ->
    cinvw_t start (push_pending st c pos) pos' /\ ((c = [] -> pos' = L) -> cinv_t start (push_pending st c pos) pos').
  Proof.
    intros [(q & C & T & Q & P) N] H1 H2.
    assert (X : cinvw_t start (push_pending st c pos) pos').
    { unfold push_pending. destruct (cs_pend st) as [|x r] eqn:EP.
      - destruct (N eq_refl) as [N1|N1].
        + exists pos. cbn [cs_acc cs_pend cs_ppos]. rewrite N1. cbn [app].
          repeat split; auto; try lia. eapply chain_weaken; eauto.
        + exists q. cbn [cs_acc cs_pend cs_ppos]. cbn [app].
          repeat split; auto; try lia; destruct c; try congruence; cbn [length] in *; lia.
      - destruct P as [P1 P2]; [discriminate|]. exists q. cbn [cs_acc cs_pend cs_ppos]. rewrite P1.
        rewrite app_length. repeat split; auto; lia. }
    split; [exact X|]. intros CE. split; [exact X|].
    unfold push_pending. cbn [cs_pend cs_ppos]. intros Z. apply app_eq_nil in Z. destruct Z as [_ Z].
    right. auto.
  Qed.

  Lemma pre_result_ok_t ps o start st pos t : cinv_t start st pos -> tokfacts_t s pos t ->
    let st1 := fst (c_pre_result ps o st t) in
    cdone_t start st1 (tpos t) /\ cs_pend st1 = [] /\ cs_ppos st1 = None.
  Proof.
    intros CI [F1 F3 F4 _ _]. cbn zeta. unfold c_pre_result.
    assert (PL : pos < L) by lia.
    destruct (cs_pend st) as [|c r] eqn:EP.
    - destruct CI as [(q & C & T & Q & P) N].
      assert (NN : cs_ppos st = None) by (destruct (N EP) as [N1|N1]; [exact N1|lia]).
      destruct (tpre t) as [|c r] eqn:ET.
      + cbn [fst]. repeat split; auto. eapply chain_weaken; eauto. lia.
      + cbn [fst]. unfold push_node. cbn [cs_acc cs_pend cs_ppos].
        assert (X : tpos t - length (c :: r) = pos) by lia. rewrite X.
        repeat split; auto.
        * eapply chain_snoc; [exact C|reflexivity| | |]; lia.
        * apply tol_items_snoc; [exact T|]. cbn [tol_onode mk_chars tol_node]. lia.
    - cbn [fst]. rewrite <- EP.
      assert (X : cinvw_t start {| cs_acc := cs_acc st; cs_pend := cs_pend st ++ tpre t; cs_ppos := cs_ppos st |}
                          (tpos t)).
      { destruct CI as [(q & C & T & Q & P) N]. exists q. cbn [cs_acc cs_pend cs_ppos].
        destruct P as [P1 P2]; [rewrite EP; discriminate|].
        rewrite app_length. repeat split; auto; lia. }
      destruct (flush_done_t ps start _ (tpos t) X) as (D & E1 & E2 & _); [lia|].
      repeat split; auto; try apply D. apply E2. cbn [cs_pend]. rewrite EP. discriminate.
  Qed.

  Section WithRecT.
    Variable rec : task -> res out.
    Hypothesis IH : forall t, task_pre_t t -> post_t t (rec t).

    Lemma push_check_t ps o start st1 q n p :
      good ps -> good_opts o -> cdone_t start st1 q -> cs_pend st1 = [] -> cs_ppos st1 = None ->
      owithin q p n -> q <= p -> p <= L ->
      res_post_t q (coll_ok_t start) (coll_err start q) never (c_push_check rec ps o st1 n p p).
    Proof.
      intros G GO [C T] E N W QP PL.
      assert (D : cdone_t start (push_node st1 n) p).
      { split; unfold push_node; cbn [cs_acc].
        - destruct n as [nd|]; cbn [owithin] in W.
          + destruct W as (TN & a & b & SP & A & B). destruct (tol_span_le s nd a b TN SP) as [AB _].
            eapply chain_snoc; eauto.
          + apply chain_snoc_none. eapply chain_weaken; eauto.
        - apply tol_items_snoc; [exact T|]. destruct n; cbn [owithin tol_onode] in *; [apply W|exact I]. }
      unfold c_push_check. cbn zeta.
      destruct (nl_stop_met (g_nl o) (cs_acc (push_node st1 n))).
      - unfold c_finish. cbn [res_post_t coll_ok_t]. repeat split; auto; apply D.
      - assert (PRE : task_pre_t (TCollect ps o (push_node st1 n) p)) by (split; cbn; auto).
        pose proof (IH _ PRE) as P. cbn [post_t] in P.
        eapply res_post_t_weaken; [apply P|exact QP|].
        + apply cdone_cinv_t; auto.
        + unfold coll_err. intros e p0 (A & B & X). repeat split; auto; lia.
    Qed.

    Section DispatchT.
      Variables (ps : pstate) (o : genopts) (start : nat) (st1 : collstate) (pos : nat) (t : token).
      Hypothesis G : good ps.
      Hypothesis GO : good_opts o.
      Hypothesis PL : pos <= L.
      Hypothesis TF : tokfacts_t s pos t.
      Hypothesis D1 : cdone_t start st1 (tpos t).
      Hypothesis E1 : cs_pend st1 = [].
      Hypothesis N1 : cs_ppos st1 = None.

      Lemma pos_le_tpos_t : pos <= tpos t.
      Proof. destruct TF. lia. Qed.

      Lemma weaken_coll r : res_post_t (tpos t) (coll_ok_t start) (coll_err start (tpos t)) never r ->
        res_post_t pos (coll_ok_t start) (coll_err start pos) never r.
      Proof.
        intros H. pose proof pos_le_tpos_t. eapply res_post_t_weaken; [exact H|assumption|].
        unfold coll_err. intros e p (A & B & X). repeat split; auto; lia.
      Qed.

      Lemma fail_ok what : res_post_t pos (coll_ok_t start) (coll_err start pos) never (c_fail ps st1 t what).
      Proof.
        pose proof pos_le_tpos_t. destruct TF as [F1 F3 F4 _ _]. destruct D1 as [C T].
        unfold c_fail. cbn [res_post_t]. unfold coll_err. cbn [mkerr pe_nodes].
        split; [lia|]. split; [exact F4|]. eexists. split; [reflexivity|].
        unfold flush. rewrite E1. split; [|exact T]. eapply chain_weaken; eauto. lia.
      Qed.

      Lemma continue_ok p : tpos t <= p -> p <= L ->
        res_post_t pos (coll_ok_t start) (coll_err start pos) never (rec (TCollect ps o st1 p)).
      Proof.
        intros H1 H2. pose proof pos_le_tpos_t.
        assert (PRE : task_pre_t (TCollect ps o st1 p)) by (split; cbn; auto).
        pose proof (IH _ PRE) as P. cbn [post_t] in P.
        eapply res_post_t_weaken; [apply P| lia |].
        - apply cdone_cinv_t; auto. destruct D1 as [C T]. split; [|exact T]. eapply chain_weaken; eauto.
        - unfold coll_err. intros e p0 (A & B & X). repeat split; auto; lia.
      Qed.

      Lemma call_case_t sp :
        res_post_t pos (coll_ok_t start) (coll_err start pos) never
          match parse_content true (rec (TCall (child_state o ps t) (c_tok0 t) sp (tend t))) with
          | Ok (ONode (Some n)) p => c_push_check rec ps o st1 (Some n) p p
          | Ok (ONode None) p => rec (TCollect ps o st1 p)
          | Ok _ p => RExn 9
          | PErr e p => PErr e p | REOS p => REOS p | RExn k => RExn k | OutOfFuel => OutOfFuel
          end.
      Proof.
        pose proof pos_le_tpos_t as PT. pose proof TF as [F1 F3 F4 _ _].
        assert (PRE : task_pre_t (TCall (child_state o ps t) (c_tok0 t) sp (tend t))).
        { split; cbn [task_pos]; [exact F4|]. apply good_child; assumption. }
        pose proof (IH _ PRE) as P. cbn [post_t] in P.
        assert (X : tpos (c_tok0 t) <= tend t) by (cbn; lia). specialize (P X). clear X.
        rewrite parse_content_tol.
        destruct (rec (TCall (child_state o ps t) (c_tok0 t) sp (tend t))) as [o1 p1|e p1|p1|k|];
          cbn [res_post_t] in P |- *; auto; try (destruct P; fail).
        destruct P as (A & B & C). destruct o1 as [[n|]| |]; try contradiction.
        destruct C as [WN SP]. cbn [c_tok0 mk tpos] in SP.
        apply weaken_coll. eapply push_check_t; eauto; [|lia].
        cbn [owithin]. split; [exact WN|]. exists (tpos t), p1. repeat split; auto; lia.
      Qed.

      (** a delimited construct started at the token position: node, recovered placeholder or nothing *)
      Lemma delim_push (n : option node) p :
        (match n with
         | Some nd => tol_node s nd /\ exists a b, nspan nd = Some (a, b) /\ tpos t <= a /\ b <= p
         | None => True end) -> tpos t <= p -> p <= L ->
        res_post_t pos (coll_ok_t start) (coll_err start pos) never (c_push_check rec ps o st1 n p p).
      Proof.
        intros H A B. apply weaken_coll. eapply push_check_t; eauto.
        all: destruct n; cbn [owithin]; auto.
      Qed.

      Lemma dispatch_ok_t : tk t <> TkChar ->
        res_post_t pos (coll_ok_t start) (coll_err start pos) never (c_dispatch true cx rec ps o st1 t).
      Proof.
        intros NC. pose proof pos_le_tpos_t as PT. pose proof TF as [F1 F3 F4 F5 F6].
        unfold c_dispatch. destruct (tk t) eqn:K; try exact I; try congruence; try apply fail_ok.
        - (* macro *)
          destruct (get_macro_spec cx (targ t)) as [sp|]; [apply call_case_t | apply continue_ok; lia].
        - (* environment *)
          destruct (get_env_spec cx (targ t)) as [sp|]; [apply call_case_t | apply continue_ok; lia].
        - (* comment *)
          apply delim_push; try lia. cbn [tol_node]. split; [lia|]. eexists _, _. split; [reflexivity|]. lia.
        - (* group *)
          assert (GC : good (child_state o ps t)) by (apply good_child; assumption).
          assert (PRE : task_pre_t (TGroup (child_state o ps t) (GDStr (targ t)) false false (tpos t))).
          { split; cbn [task_pos]; [lia | exact GC]. }
          pose proof (IH _ PRE) as P. cbn [post_t] in P.
          rewrite parse_content_tol.
          destruct (rec (TGroup (child_state o ps t) (GDStr (targ t)) false false (tpos t))) as [o1 p1|e p1|p1|k|];
            cbn [res_post_t] in P |- *; auto.
          + destruct P as (A & B & C). destruct o1 as [n| |]; try contradiction.
            apply delim_push; auto. destruct n as [n|]; [|exact I].
            destruct C as (WN & a & SP & LE & _). split; [exact WN|]. exists a, p1. auto.
          + destruct P as (RP & t' & T1 & T2 & PN & NS). rewrite PN, RP.
            specialize (NS (F6 ltac:(congruence) ltac:(congruence))). rewrite NS in T1. cbn [length] in T1.
            apply delim_push; try lia. split.
            * rewrite tn_list. cbn [chain tol_items]. repeat split; lia.
            * eexists _, _. split; [reflexivity|]. lia.
          + subst p1. apply delim_push; auto; lia.
        - (* inline math *)
          destruct (negb (by_open_has ps (targ t))); [apply fail_ok|].
          assert (GC : good (child_state o ps t)) by (apply good_child; assumption).
          assert (PRE : task_pre_t (TMath (child_state o ps t) (targ t) (tpos t))).
          { split; cbn [task_pos]; [lia | exact GC]. }
          pose proof (IH _ PRE) as P. cbn [post_t] in P.
          rewrite parse_content_tol.
          destruct (rec (TMath (child_state o ps t) (targ t) (tpos t))) as [o1 p1|e p1|p1|k|];
            cbn [res_post_t] in P |- *; auto.
          + destruct P as (A & B & C). destruct o1 as [[n|]| |]; try contradiction.
            destruct C as (WN & SP). apply delim_push; auto. split; [exact WN|]. exists (tpos t), p1. auto.
          + destruct P as (RP & t' & T1 & T2 & PN & NS). rewrite PN, RP.
            specialize (NS (F6 ltac:(congruence) ltac:(congruence))). rewrite NS in T1. cbn [length] in T1.
            apply delim_push; try lia. split.
            * rewrite tn_list. cbn [chain tol_items]. repeat split; lia.
            * eexists _, _. split; [reflexivity|]. lia.
          + subst p1. apply continue_ok; lia.
        - (* display math *)
          destruct (negb (by_open_has ps (targ t))); [apply fail_ok|].
          assert (GC : good (child_state o ps t)) by (apply good_child; assumption).
          assert (PRE : task_pre_t (TMath (child_state o ps t) (targ t) (tpos t))).
          { split; cbn [task_pos]; [lia | exact GC]. }
          pose proof (IH _ PRE) as P. cbn [post_t] in P.
          rewrite parse_content_tol.
          destruct (rec (TMath (child_state o ps t) (targ t) (tpos t))) as [o1 p1|e p1|p1|k|];
            cbn [res_post_t] in P |- *; auto.
          + destruct P as (A & B & C). destruct o1 as [[n|]| |]; try contradiction.
            destruct C as (WN & SP). apply delim_push; auto. split; [exact WN|]. exists (tpos t), p1. auto.
          + destruct P as (RP & t' & T1 & T2 & PN & NS). rewrite PN, RP.
            specialize (NS (F6 ltac:(congruence) ltac:(congruence))). rewrite NS in T1. cbn [length] in T1.
            apply delim_push; try lia. split.
            * rewrite tn_list. cbn [chain tol_items]. repeat split; lia.
            * eexists _, _. split; [reflexivity|]. lia.
          + subst p1. apply continue_ok; lia.
        - (* specials *)
          destruct (get_specials_spec cx (targ t)) as [sp|]; [apply call_case_t | apply continue_ok; lia].
      Qed.
    End DispatchT.

    Lemma collect_ok_t ps o st pos : task_pre_t (TCollect ps o st pos) ->
      post_t (TCollect ps o st pos) (collect_step s true cx rec ps o st pos).
    Proof.
      intros (PL & G & GO). cbn [task_pos] in PL. cbn [post_t]. intros start CI.
      unfold collect_step. rewrite next_tok_tol.
      pose proof (good_peek_tol s ps pos G PL) as TF.
      assert (TOK : forall t, tokfacts_t s pos t ->
        res_post_t pos (coll_ok_t start) (coll_err start pos) never
          (if stop_matches (g_stop o) t then c_stop ps o st t
           else match tk t with
                | TkChar => rec (TCollect ps o (push_pending st (tpre t ++ targ t) (tpos t - length (tpre t))) (tend t))
                | _ => if snd (c_pre_result ps o st t) then c_finish (fst (c_pre_result ps o st t)) None true false (tpos t)
                       else c_dispatch true cx rec ps o (fst (c_pre_result ps o st t)) t
                end)).
      { intros t TT. pose proof TT as [F1 F3 F4 F5 F6].
        assert (X : tpos t - length (tpre t) = pos) by lia.
        destruct (stop_matches (g_stop o) t).
        - unfold c_stop, c_finish. cbn zeta. cbn [res_post_t coll_ok_t]. rewrite X.
          destruct (g_incl_pre o).
          + destruct (push_cinv_t start st pos (tpre t) (tpos t) CI) as [W _]; try lia.
            destruct (flush_done_t ps _ _ _ W) as (D & _); [lia|]. repeat split; auto; try lia; apply D.
          + destruct (flush_done_t ps _ _ _ (proj1 CI) PL) as (D & _). repeat split; auto; try lia; apply D.
        - destruct (tk t) eqn:K.
          1: { rewrite X. destruct (F5 K) as [LEN EMP].
               destruct (push_cinv_t start st pos (tpre t ++ targ t) (tend t) CI) as [_ W]; try lia.
               { rewrite app_length. lia. }
               assert (PRE : task_pre_t (TCollect ps o (push_pending st (tpre t ++ targ t) pos) (tend t)))
                 by (split; cbn; auto).
               pose proof (IH _ PRE) as P. cbn [post_t] in P.
               eapply res_post_t_weaken; [apply P; apply W | lia |].
               - intros Z. apply app_eq_nil in Z. destruct Z as [_ Z]. apply EMP in Z. lia.
               - unfold coll_err. intros e p0 (A & B & Y). repeat split; auto; lia. }
          all: destruct (pre_result_ok_t ps o start st pos t CI TT) as (D1 & E1 & N1); cbn zeta in *.
          all: destruct (snd (c_pre_result ps o st t));
            [ unfold c_finish; cbn [res_post_t coll_ok_t]; repeat split; auto; try lia; apply D1
            | eapply dispatch_ok_t; eauto; congruence ]. }
      destruct (impl_peek ps s pos) as [t|fin|e]; [apply TOK; exact TF| |apply TOK; exact TF].
      subst fin. destruct (skipn pos s) as [|c r] eqn:SK.
      - unfold c_finish. cbn [res_post_t coll_ok_t].
        destruct (flush_done_t ps _ _ _ (proj1 CI) PL) as (D & _). repeat split; auto; try lia; apply D.
      - assert (LEN : pos + length (c :: r) = L).
        { rewrite <- SK, skipn_length. apply skipn_cons_lt in SK. lia. }
        rewrite <- SK in *.
        destruct (push_cinv_t start st pos (skipn pos s) (pos + length (skipn pos s)) CI) as [_ W]; try lia.
        assert (PRE : task_pre_t (TCollect ps o (push_pending st (skipn pos s) pos) (pos + length (skipn pos s))))
          by (split; cbn; auto; lia).
        pose proof (IH _ PRE) as P. cbn [post_t] in P.
        eapply res_post_t_weaken; [apply P; apply W; lia | lia |].
        unfold coll_err. intros e p0 (A & B & Y). repeat split; auto; lia.
    Qed.
  End WithRecT.
End Tolerant.
