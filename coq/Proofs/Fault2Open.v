(** C05 over the EXTENDED grammar — an unmatched OPENING delimiter ([{], [$], [$$],
    [\(], [\[], [\begin{x}] with its arguments) inserted at an item boundary of a
    body of extended items.

    The inserted delimiter, together with the items [l1] of the body in front of
    it, is one more FRAME of the left context ([Proofs/Fault2Path.v]):
    [open_frame2 l1 fws op].  Hence
    - the new construct's body runs to the end of the input ([fault_unclosed2],
      [fault_opening2_top]): the general-nodes parser of the innermost unclosed
      construct raises "stop condition not met" (6), located right after its opening
      (the position of the first node of the unclosed body), with the reader at the end
      of the input, and every enclosing parser passes that error on;
    - the new construct's body runs into a closing token that is not its own
      ([fault_opening2_nested], [fault_opening2_in_frame]): that is the stray
      closing token theorem of [Proofs/Fault2Inject.v] for the path extended by
      the new frame.
    All side conditions are evaluated against the follow string, as everywhere in
    the extended grammar. *)
From Coq Require Import NArith List Bool Arith Lia.
From PLV Require Import Base.PyStr Tok.PState Tok.Tokenizer Parse.Nodes Parse.Parser Parse.ParseWire
                        Proofs.PyStrFacts Proofs.ParserMono Proofs.ParserSpansStep Proofs.ParserErrorsBase
                        Doc.DocGrammar Proofs.FaultRules Proofs.FaultTok Proofs.FaultDoc Proofs.FaultClose
                        Proofs.FaultOpen
                        Doc.DocGrammar2 Proofs.RoundTripTok Proofs.RoundTripRules Proofs.RoundTrip
                        Proofs.RoundTrip2Tok Proofs.RoundTrip2Rules Proofs.RoundTrip2
                        Proofs.Prefix2Lock Proofs.Prefix2 Proofs.Fault2Path Proofs.Fault2Inject.
Import ListNotations.

(** * The opening delimiters of the extended grammar *)
Inductive opener2 :=
| OBrace2                                             (* {                         *)
| OMath2 (k : mathkind)                               (* $  \(  \[  $$             *)
| OBegin2 (bws name : str) (args : list item2).       (* \begin bws {name} args    *)

Definition open_text2 (op : opener2) : str :=
  match op with
  | OBrace2 => [123%N]
  | OMath2 k => m_open k
  | OBegin2 bws name args => begin_str bws name ++ unparse_items2 args
  end.

(** the frame that the items [l1], the whitespace [fws] and the delimiter make *)
Definition open_frame2 (l1 : list item2) (fws : str) (op : opener2) : lframe2 :=
  match op with
  | OBrace2 => LGrp2 l1 fws
  | OMath2 k => LMath2 l1 fws k
  | OBegin2 bws name args => LEnv2 l1 fws bws name args
  end.

(** the parsing state of the body of the construct that [op] opens in state [ps] *)
Definition open_state2 (cx : context) (ps : pstate) (op : opener2) : pstate :=
  lf_state2 cx ps (open_frame2 [] [] op).

(** the side conditions of the insertion: [l1] well formed in front of everything
    that is written after it, [fws] whitespace without a paragraph break, and
    - a math delimiter stands outside math mode, [$] is not directly followed by [$];
    - the environment name is one the tokenizer accepts, environments are enabled,
      the context resolves the name (fallback included) to a standard signature and
      the arguments [args] are well formed for it in front of [fol] *)
Definition open_side2 (cx : context) (ps : pstate) (l1 : list item2) (fws : str) (op : opener2) (fol : str) : bool :=
  ok_lframe2 cx ps (open_frame2 l1 fws op) fol.

(** [c] is the closing delimiter of the construct that [op] opens *)
Definition open_closes2 (op : opener2) (c : stray) : bool := closes_hole2 [open_frame2 [] [] op] c.

Lemma open_frame_text2 l1 fws op :
  lf_text2 (open_frame2 l1 fws op) = unparse_items2 l1 ++ fws ++ open_text2 op.
Proof. destruct op; reflexivity. Qed.

Lemma open_frame_state2 cx ps l1 fws op : lf_state2 cx ps (open_frame2 l1 fws op) = open_state2 cx ps op.
Proof. destruct op; reflexivity. Qed.

Lemma open_frame_closes2 l1 fws op c : closes_hole2 [open_frame2 l1 fws op] c = open_closes2 op c.
Proof. destruct op; reflexivity. Qed.

Lemma closes_hole2_snoc path f c : closes_hole2 (path ++ [f]) c = closes_hole2 [f] c.
Proof. unfold closes_hole2. rewrite last_last. destruct path; reflexivity. Qed.

(** the closing delimiter of a frame's construct, as a stray token (none for [$ $] and
    [$$ $$]: those are not stray closing tokens) *)
Definition closer2 (f : lframe2) : option stray :=
  match f with
  | LGrp2 _ _ => Some SBrace
  | LMath2 _ _ MParen => Some (SMClose MParen)
  | LMath2 _ _ MBracket => Some (SMClose MBracket)
  | LMath2 _ _ _ => None
  | LEnv2 _ _ _ name _ => Some (SEnd name)
  end.

(** * Paths: appending a frame *)
Lemma lp_text2_app p q : lp_text2 (p ++ q) = lp_text2 p ++ lp_text2 q.
Proof. unfold lp_text2. apply flat_map_app. Qed.

Lemma lp_text2_one f : lp_text2 [f] = lf_text2 f.
Proof. unfold lp_text2. cbn [flat_map]. apply app_nil_r. Qed.

Lemma lp_state2_app cx p : forall ps q, lp_state2 cx ps (p ++ q) = lp_state2 cx (lp_state2 cx ps p) q.
Proof. induction p as [|g p IH]; intros ps q; [reflexivity|]. cbn [app lp_state2]. apply IH. Qed.

Lemma ok_lpath2_snoc cx p : forall ps f fol,
  ok_lpath2 cx ps (p ++ [f]) fol
  = ok_lpath2 cx ps p (lf_text2 f ++ fol) && ok_lframe2 cx (lp_state2 cx ps p) f fol.
Proof.
  induction p as [|g p IH]; intros ps f fol.
  - cbn [app ok_lpath2 lp_state2 lp_text2 flat_map]. rewrite andb_true_r. reflexivity.
  - cbn [app ok_lpath2 lp_state2]. rewrite IH, lp_text2_app, lp_text2_one, <- app_assoc, andb_assoc. reflexivity.
Qed.

(** * Where the first node of a body of extended items starts *)
Lemma node_of_some2 cx ps ex q j fol : ok_item2 cx ps ex j fol = true ->
  match j with Text2 _ _ => True | _ => exists nd, node_of2 cx ps q j = Some nd /\ node_pos nd = Some q end.
Proof.
  intros OK.
  destruct j as [ws cs|ws b tr|ws name post args|ws k b tr|ws text post|ws mid|ws bws name args b tr ews
                |ws chars args|ws name post dc text|ws bws name oarg text|ws oc cc b tr| |ws od cd text|ws text post a];
    try exact I; try (cbn [ok_item2] in OK; discriminate OK).
  - rewrite node_of_grp2. cbn zeta. eexists. split; reflexivity.
  - destruct (get_macro_spec cx name) as [sp|] eqn:GS;
      [|cbn [ok_item2] in OK; rewrite GS, andb_false_r in OK; discriminate].
    destruct (sp_args sp) as [l|lk] eqn:SA;
      [|cbn [ok_item2] in OK; rewrite GS, SA, andb_false_r in OK; discriminate].
    rewrite (node_of_mac2 cx ps q ws name post args sp l GS SA). cbn zeta. eexists. split; reflexivity.
  - rewrite node_of_math2. cbn zeta. eexists. split; reflexivity.
  - cbn [node_of2]. eexists. split; reflexivity.
  - cbn [ok_item2] in OK. apply andb_true_iff in OK. destruct OK as [_ PS]. cbn [node_of2]. rewrite PS.
    eexists. split; reflexivity.
  - destruct (get_env_spec cx name) as [sp|] eqn:GS;
      [|cbn [ok_item2] in OK; rewrite GS, andb_false_r in OK; discriminate].
    destruct (sp_args sp) as [l|lk] eqn:SA;
      [|cbn [ok_item2] in OK; rewrite GS, SA, andb_false_r in OK; discriminate].
    rewrite (node_of_env2 cx ps q ws bws name args b tr ews sp l GS SA). cbn zeta. eexists. split; reflexivity.
  - destruct (get_specials_spec cx chars) as [sp|] eqn:GS;
      [|cbn [ok_item2] in OK; rewrite GS, andb_false_r in OK; discriminate].
    destruct (sp_args sp) as [l|lk] eqn:SA;
      [|cbn [ok_item2] in OK; rewrite GS, SA, andb_false_r in OK; discriminate].
    rewrite (node_of_spc2 cx ps q ws chars args sp l GS SA). cbn zeta. eexists. split; reflexivity.
  - cbn [node_of2]. eexists. split; reflexivity.
  - destruct (get_env_spec cx name) as [sp|] eqn:GS;
      [|cbn [ok_item2] in OK; rewrite GS, andb_false_r in OK; discriminate].
    destruct (sp_args sp) as [l|[|vn optarg]] eqn:SA;
      try (cbn [ok_item2] in OK; rewrite GS, SA, andb_false_r in OK; discriminate).
    rewrite (node_of_venv2 cx ps q ws bws name oarg text sp vn optarg GS SA). cbn zeta. eexists. split; reflexivity.
Qed.

Lemma starts_absorb_item2 cx ps ex p0 p st j fol : ok_item2 cx ps ex j fol = true ->
  starts_at p0 p st -> starts_at p0 (p + ilen2 j) (absorb_item2 cx ps p st j).
Proof.
  intros OK H. pose proof (node_of_some2 cx ps ex (p + length (item_ws2 j)) j fol OK) as NS.
  destruct j as [ws cs|ws b tr|ws name post args|ws k b tr|ws text post|ws mid|ws bws name args b tr ews
                |ws chars args|ws name post dc text|ws bws name oarg text|ws oc cc b tr| |ws od cd text|ws text post a];
    try (cbn [ok_item2] in OK; discriminate OK);
    try (destruct NS as (nd & E & P); cbn [absorb_item2 item_ws2] in *; rewrite E; apply starts_push; assumption).
  (* text *)
  unfold starts_at in *.
  cbn [absorb_item2 push_pending cs_acc cs_pend cs_ppos].
  destruct (cs_acc st) as [|n r]; [|exact H].
  assert (NE : ws ++ cs <> []).
  { cbn [ok_item2] in OK. destruct cs; [rewrite andb_false_r in OK; discriminate|]. destruct ws; discriminate. }
  destruct (cs_pend st) as [|c0 r0].
  - destruct H as [-> ->]. cbn [app]. destruct (ws ++ cs); [congruence|reflexivity].
  - cbn [app]. rewrite H. reflexivity.
Qed.

Lemma starts_absorb2 cx ps ex p0 l : forall p st fh, ok_items2 cx ps ex l fh = true ->
  starts_at p0 p st -> starts_at p0 (snd (absorb2 cx ps p st l)) (fst (absorb2 cx ps p st l)).
Proof.
  induction l as [|j r IH]; intros p st fh OK H; [exact H|].
  rewrite ok_items_cons2 in OK. apply andb_true_iff in OK. destruct OK as [O1 O2].
  rewrite absorb_cons2. eapply IH; [exact O2|]. eapply starts_absorb_item2; eassumption.
Qed.

Section Open2.
  Variable s : str.
  Variable cx : context.
  Variable U : nat.
  Hypothesis U8 : 8 <= U.
  Hypothesis UM : max_args cx + 4 <= U.
  Notation R := (run s false cx).
  Ltac ulia := ulia_gen U U8.

  (** ** the collector of an unclosed body reads the rest of the input and meets its end *)
  Lemma body_eos2 ps o p0 l2 dtr : Std cx ps -> opts_ok ps o ->
    ok_items2 cx ps [] l2 dtr = true -> ws_ok dtr = true ->
    skipn p0 s = unparse_items2 l2 ++ dtr ->
    let A := absorb2 cx ps p0 cs_empty l2 in
    R (2 + U * length (unparse_items2 l2)) (TCollect ps o cs_empty p0)
    = Ok (OColl (eos_state ps (fst A) dtr (snd A)) None false true) (snd A + length dtr).
  Proof.
    intros SD OK OKL W SK A.
    assert (PA : snd A = p0 + length (unparse_items2 l2)) by (unfold A; apply absorb_pos2).
    set (pe := p0 + length (unparse_items2 l2)) in *.
    assert (SKe : skipn pe s = dtr) by (apply skipn_shift in SK; exact SK).
    pose proof (opts_ok_2 _ _ OK) as OK2.
    assert (E : R 2 (TCollect ps o (fst A) pe)
                = Ok (OColl (eos_state ps (fst A) dtr pe) None false true) (pe + length dtr)).
    { destruct dtr as [|c w].
      - cbn [eos_state length]. rewrite Nat.add_0_r.
        apply (trule_eos s cx false 1 ps o (fst A) pe OK2).
        apply impl_peek_eos; [reflexivity | exact SKe].
      - cbn [eos_state].
        apply (trule_eos_ws s cx false 1 ps o (fst A) pe c w _ (impl_peek_eos ps s pe (c :: w) W SKe)).
        apply (trule_eos s cx false 0 ps o _ _ OK2).
        apply impl_peek_eos; [reflexivity|].
        assert (SKe' : skipn pe s = (c :: w) ++ []) by (rewrite app_nil_r; exact SKe).
        apply skipn_shift in SKe'. exact SKe'. }
    rewrite PA.
    refine (items_sim2_std s cx U l2 ps o cs_empty p0 dtr 2 _ U8 UM SD OK _ OKL SK E). discriminate.
  Qed.

  Lemma body_unclosed2 ps o p0 l2 dtr : Std cx ps -> opts_ok ps o ->
    g_require o = true -> stop_is_none (g_stop o) = false ->
    ok_items2 cx ps [] l2 dtr = true -> ws_ok dtr = true ->
    skipn p0 s = unparse_items2 l2 ++ dtr ->
    exists nl,
      R (3 + U * length (unparse_items2 l2)) (TGeneral ps o p0)
      = PErr (mkerr (Some p0) 6 (Some nl) true None None) (p0 + length (unparse_items2 l2) + length dtr).
  Proof.
    intros SD OK RQ SN OKL W SK.
    pose proof (body_eos2 ps o p0 l2 dtr SD OK OKL W SK) as H. cbn zeta in H.
    pose proof (erule_general_unclosed s cx _ ps o p0 _ _ RQ SN H) as E.
    rewrite (starts_eos ps p0 _ _ dtr (starts_absorb2 cx ps [] p0 l2 p0 cs_empty _ OKL (starts_empty p0))) in E.
    rewrite absorb_pos2 in E. eexists. exact E.
  Qed.

  (** ** one frame: an error of the GENERAL-NODES parser of the frame's body comes
      back unchanged from the collector the frame's construct stands in
      ([Fault2Path.frame_err2] is the case where the body's collector fails) *)
  Lemma frame_gen_err2 f ps o st pos rest k e p :
    StdE cx ps -> opts_ok ps o -> ok_lframe2 cx ps f rest = true ->
    skipn pos s = lf_text2 f ++ rest ->
    R k (TGeneral (lf_state2 cx ps f) (lf_opts2 (lf_state2 cx ps f) f) (pos + length (lf_text2 f))) = PErr e p ->
    R (1 + k + U * length (lf_text2 f)) (TCollect ps o st pos) = PErr e p.
  Proof.
    intros [SD EE] OK OKF SK H. pose proof (std_view_of cx ps SD) as V.
    set (before := lf_before2 f). set (ws := lf_ws2 f).
    set (pb := pos + length (unparse_items2 before)).
    assert (SKb : skipn pb s = ws ++ lf_open2 f ++ rest).
    { unfold lf_text2 in SK. fold before ws in SK. rewrite <- !app_assoc in SK. apply skipn_shift in SK. exact SK. }
    assert (LT : length (lf_text2 f) = length (unparse_items2 before) + length ws + length (lf_open2 f)).
    { unfold lf_text2. fold before ws. rewrite !app_length. ulia. }
    assert (SIM : forall m e', ok_items2 cx ps [] before (ws ++ lf_open2 f ++ rest) = true ->
              m + U * length (unparse_items2 before) <= 1 + k + U * length (lf_text2 f) ->
              R m (TCollect ps o (fst (absorb2 cx ps pos st before)) pb) = PErr e' p ->
              R (1 + k + U * length (lf_text2 f)) (TCollect ps o st pos) = PErr e' p).
    { intros m e' OKB LE HM.
      assert (SK0 : skipn pos s = unparse_items2 before ++ (ws ++ lf_open2 f ++ rest)).
      { unfold lf_text2 in SK. fold before ws in SK. rewrite <- !app_assoc in SK. exact SK. }
      pose proof (items_sim2_std s cx U before ps o st pos _ m (PErr e' p) U8 UM SD OK ltac:(discriminate) OKB SK0 HM) as S1.
      apply (lift2 s cx _ _ _ _ S1); [discriminate | exact LE]. }
    destruct f as [b w|b w mk|b w bws name args]; cbn [lf_before2 lf_ws2 lf_open2 lf_state2 lf_opts2 ok_lframe2] in *.
    - (* group *)
      apply andb_true_iff in OKF. destruct OKF as [OKB W].
      assert (T : impl_peek ps s pb = TokOk (mk TkBraceOpen [123%N] (pb + length ws) (S (pb + length ws)) ws [])).
      { cbn [app] in SKb. rewrite (impl_peek_dispatch ps s pb ws 123%N _ W SKb space_123). apply (dispatch_open cx ps V). }
      pose proof (skipn_shift _ _ _ _ SKb) as SK1. cbn [app] in SK1.
      assert (T1 : impl_peek ps s (pb + length ws) = TokOk (mk TkBraceOpen [123%N] (pb + length ws) (S (pb + length ws)) [] [])).
      { rewrite (impl_peek_dispatch ps s _ [] 123%N _ eq_refl SK1 space_123). cbn [length].
        rewrite Nat.add_0_r. apply (dispatch_open cx ps V). }
      replace (pos + length (lf_text2 (LGrp2 b w))) with (S (pb + length ws)) in H
        by (rewrite LT; cbn [lf_open2 length]; unfold pb; ulia).
      pose proof (erule_tgroup s cx _ ps _ _ _ (sv_gdelims _ _ V) T1 H) as E2.
      pose proof (erule_group s cx _ ps o (fst (absorb2 cx ps pos st before)) pb ws _ _ (opts_ok_2 _ _ OK) T E2) as E3.
      refine (SIM _ _ _ _ E3).
      + exact OKB.
      + rewrite LT. cbn [lf_open2 length]. ulia.
    - (* math *)
      apply andb_true_iff in OKF. destruct OKF as [OKF DL].
      apply andb_true_iff in OKF. destruct OKF as [OKF M]. apply negb_true_iff in M.
      apply andb_true_iff in OKF. destruct OKF as [OKB W].
      set (mps := ps_enter_math ps (Some (m_open mk))) in *.
      pose proof (expect_enter ps mk (proj1 SD)) as E. fold mps in E.
      assert (DL' : mk = MDollar -> hd_not (fun c => N.eqb c 36) rest).
      { intros ->. apply negb_true_iff in DL. apply otest_hd_not. exact DL. }
      assert (T : impl_peek ps s pb
                  = TokOk (PLV.Tok.Tokenizer.mk (m_tok mk) (m_open mk) (pb + length ws)
                              (pb + length ws + length (m_open mk)) ws [])).
      { pose proof (dispatch_math_open cx ps V s (pb + length ws) ws mk _ M DL') as D.
        destruct mk; cbn [m_open app] in SKb.
        - rewrite (impl_peek_dispatch ps s pb ws 36%N _ W SKb space_36). exact D.
        - rewrite (impl_peek_dispatch ps s pb ws 92%N _ W SKb space_92). exact D.
        - rewrite (impl_peek_dispatch ps s pb ws 92%N _ W SKb space_92). exact D.
        - rewrite (impl_peek_dispatch ps s pb ws 36%N _ W SKb space_36). exact D. }
      pose proof (skipn_shift _ _ _ _ SKb) as SK1.
      assert (T1 : impl_peek ps s (pb + length ws)
                   = TokOk (PLV.Tok.Tokenizer.mk (m_tok mk) (m_open mk) (pb + length ws)
                               (pb + length ws + length (m_open mk)) [] [])).
      { pose proof (dispatch_math_open cx ps V s (pb + length ws) [] mk _ M DL') as D.
        destruct mk; cbn [m_open app] in SK1.
        - rewrite (impl_peek_dispatch ps s _ [] 36%N _ eq_refl SK1 space_36). cbn [length]. rewrite Nat.add_0_r. exact D.
        - rewrite (impl_peek_dispatch ps s _ [] 92%N _ eq_refl SK1 space_92). cbn [length]. rewrite Nat.add_0_r. exact D.
        - rewrite (impl_peek_dispatch ps s _ [] 92%N _ eq_refl SK1 space_92). cbn [length]. rewrite Nat.add_0_r. exact D.
        - rewrite (impl_peek_dispatch ps s _ [] 36%N _ eq_refl SK1 space_36). cbn [length]. rewrite Nat.add_0_r. exact D. }
      replace (pos + length (lf_text2 (LMath2 b w mk))) with (pb + length ws + length (m_open mk)) in H
        by (rewrite LT; cbn [lf_open2]; unfold pb; ulia).
      pose proof (erule_tmath s cx _ ps mk _ _ _ _ T1 E H) as E2.
      pose proof (erule_math s cx _ ps o (fst (absorb2 cx ps pos st before)) pb ws mk _ _ (opts_ok_2 _ _ OK) (proj1 SD) M T E2) as E3.
      refine (SIM _ _ _ _ E3).
      + exact OKB.
      + rewrite LT. cbn [lf_open2]. destruct mk; cbn [m_open length]; ulia.
    - (* environment *)
      apply andb_true_iff in OKF. destruct OKF as [OKF OKE].
      apply andb_true_iff in OKF. destruct OKF as [OKF EN].
      apply andb_true_iff in OKF. destruct OKF as [OKF NM].
      apply andb_true_iff in OKF. destruct OKF as [OKF WB].
      apply andb_true_iff in OKF. destruct OKF as [OKB W].
      destruct (get_env_spec cx name) as [sp|] eqn:GS; [|discriminate].
      destruct (sp_args sp) as [l|lk] eqn:SA; [|discriminate].
      pose proof OKE as OKA.
      assert (SL : nabs args + 4 <= U * length (begin_str bws name)).
      { apply (slots_paid cx U U8 UM sp l ps args _ _ (ParserTermDefs.env_spec_le cx name sp GS) SA OKA).
        rewrite len_begin_str. lia. }
      set (bps := DocGrammar2.env_body_state ps sp) in *.
      set (p0 := pb + length ws).
      set (pa := p0 + length (begin_str bws name)).
      assert (SK' : skipn pb s = ws ++ begin_str bws name ++ unparse_items2 args ++ rest).
      { rewrite SKb. rewrite <- !app_assoc. reflexivity. }
      pose proof (skipn_shift _ _ _ _ SK') as SK0. fold p0 in SK0.
      pose proof (skipn_shift _ _ _ _ SK0) as SKa. fold pa in SKa.
      assert (SK'' : skipn pb s = ws ++ 92%N :: RoundTrip2Tok.env_kw true ++ bws ++ 123%N :: name ++ 125%N
                                      :: (unparse_items2 args ++ rest)).
      { rewrite SK'. unfold begin_str, RoundTrip2Tok.env_kw. cbn [app]. rewrite <- !app_assoc. cbn [app].
        rewrite <- !app_assoc. reflexivity. }
      assert (T : impl_peek ps s pb = TokOk (Tokenizer.mk TkBeginEnv name p0 pa ws [])).
      { rewrite (impl_peek_dispatch ps s pb ws 92%N _ W SK'' space_92). fold p0.
        rewrite (RoundTrip2Tok.dispatch_env cx ps V s p0 ws true bws name _ (skipn_shift _ _ _ _ SK'') EN WB NM).
        unfold pa. rewrite len_begin_str. cbn [env_tok RoundTrip2Tok.env_kw kw_begin length]. f_equal.
        unfold Tokenizer.mk. f_equal. ulia. }
      pose proof (args_run2 s cx U U8 UM (lsize2 args) (items_sim2 s cx U U8 UM (lsize2 args)) args l ps [] pa _ SD (le_n _) OKA SKa) as A.
      cbn [app] in A.
      set (pbody := pa + length (unparse_items2 args)) in *.
      replace (pos + length (lf_text2 (LEnv2 b w bws name args))) with pbody in H
        by (rewrite LT; cbn [lf_open2]; rewrite app_length; unfold pbody, pa, p0, pb; ulia).
      set (N0 := Nat.max k (1 + nabs args + U * length (unparse_items2 args))).
      apply (lift2 s cx _ (S N0)) in A; [|discriminate|unfold N0; ulia].
      apply (lift2 s cx _ N0) in H; [|discriminate|unfold N0; ulia].
      pose proof (erule_tcall_env2 s cx N0 ps name p0 pa sp l _ _ _ _ SA A H) as E2.
      pose proof (erule_begin s cx _ ps o (fst (absorb2 cx ps pos st before)) pb ws name pa sp _ _
                    (opts_ok_2 _ _ OK) GS T E2) as E3.
      refine (SIM _ _ _ _ E3).
      + rewrite <- app_assoc. exact OKB.
      + rewrite LT. cbn [lf_open2]. rewrite app_length. pose proof (len_begin_str bws name) as LB.
        unfold N0. ulia.
  Qed.
End Open2.

(** the collectors of the constructs of a path require their closing delimiter *)
Lemma lf_opts_require2 ips f : g_require (lf_opts2 ips f) = true /\ stop_is_none (g_stop (lf_opts2 ips f)) = false.
Proof. destruct f; split; reflexivity. Qed.

(** * Unclosed constructs: the input ends in the body of the innermost construct
    of the path [path ++ [f]].  Error 6 located right after the opening of [f]. *)
Theorem fault_unclosed2 cx path f l2 dtr :
  let ps0 := walker_state cx in
  let hs := lp_state2 cx ps0 path in
  ok_lpath2 cx ps0 path (lf_text2 f ++ unparse_items2 l2 ++ dtr) = true ->
  ok_lframe2 cx hs f (unparse_items2 l2 ++ dtr) = true ->
  ok_items2 cx (lf_state2 cx hs f) [] l2 dtr = true -> ws_ok dtr = true ->
  let s := lp_text2 path ++ lf_text2 f ++ unparse_items2 l2 ++ dtr in
  exists e, parse_top s false cx ps0 = PErr e (length s)
            /\ pe_pos e = Some (length (lp_text2 path) + length (lf_text2 f)) /\ pe_what e = 6.
Proof.
  intros ps0 hs OKP OKF OK2 Wd s.
  set (U := fuel_unit cx). pose proof (fuel_unit_ge8 cx) as U8. pose proof (fuel_unit_slots cx) as UM. fold U in U8, UM.
  assert (SE0 : StdE cx ps0) by apply stde_walker.
  pose proof (stde_lp_state2 cx path ps0 SE0) as SEi. fold hs in SEi.
  pose proof (stde_lf_state2 cx hs f SEi) as SEb.
  assert (SK : skipn 0 s = lp_text2 path ++ (lf_text2 f ++ unparse_items2 l2 ++ dtr)) by reflexivity.
  pose proof (skipn_shift _ _ _ _ SK) as SK1.
  pose proof (skipn_shift _ _ _ _ SK1) as SK2.
  pose proof (opts_ok_lp2 cx path ps0 top_opts _ (opts_ok_top ps0) OKP) as OKi. fold hs in OKi.
  set (bs := lf_state2 cx hs f) in *.
  destruct (lf_opts_require2 bs f) as [RQ SN].
  destruct (body_unclosed2 s cx U U8 UM bs (lf_opts2 bs f) _ l2 dtr (proj1 SEb) (opts_ok_lf2 cx hs f _ OKF)
              RQ SN OK2 Wd SK2) as [nl E1].
  pose proof (frame_gen_err2 s cx U U8 UM f hs (lp_opts2 cx ps0 top_opts path) (lp_st2 cs_empty path)
                (0 + length (lp_text2 path)) _ _ _ _ SEi OKi OKF SK1 E1) as E2.
  destruct (lpath_err2 s cx U U8 UM path ps0 top_opts cs_empty 0 _ _ _ _ SE0 (opts_ok_top ps0) OKP SK E2)
    as (e1 & H1 & P1 & W1).
  pose proof (erule_general s cx _ _ _ _ _ _ H1) as H2.
  assert (LS : length s = length (lp_text2 path) + (length (lf_text2 f) + (length (unparse_items2 l2) + length dtr))).
  { unfold s. rewrite !app_length. reflexivity. }
  exists (rewrap 0 e1). split; [|split].
  - unfold parse_top. fold s.
    rewrite (run_mono s false cx _ (parse_fuel s cx) _ _ H2 ltac:(discriminate))
      by (unfold parse_fuel, fuel_base; fold U; rewrite LS, (Nat.mul_comm _ U); lia).
    cbn [parse_content]. f_equal. lia.
  - cbn [rewrap mkerr pe_pos]. rewrite P1. cbn [mkerr pe_pos]. reflexivity.
  - cbn [rewrap mkerr pe_what]. rewrite W1. reflexivity.
Qed.

(** * An opening delimiter inserted at an item boundary of the TOP-LEVEL body: the
    new construct is never closed *)
Theorem fault_opening2_top cx l1 fws op l2 dtr :
  let ps0 := walker_state cx in
  open_side2 cx ps0 l1 fws op (unparse_items2 l2 ++ dtr) = true ->
  ok_items2 cx (open_state2 cx ps0 op) [] l2 dtr = true -> ws_ok dtr = true ->
  let s := unparse_items2 l1 ++ fws ++ open_text2 op ++ unparse_items2 l2 ++ dtr in
  let q := length (unparse_items2 l1) + length fws + length (open_text2 op) in
  exists e, parse_top s false cx ps0 = PErr e (length s) /\ pe_pos e = Some q /\ pe_what e = 6.
Proof.
  intros ps0 OS OK2 Wd s q.
  pose proof (fault_unclosed2 cx [] (open_frame2 l1 fws op) l2 dtr eq_refl OS) as H.
  cbn [lp_state2] in H. rewrite open_frame_state2 in H. specialize (H OK2 Wd). cbn zeta in H.
  cbn [lp_text2 flat_map app length] in H. rewrite open_frame_text2, <- !app_assoc in H.
  destruct H as (e & H & P & W). exists e. split; [exact H|split; [|exact W]].
  rewrite P. f_equal. unfold q. rewrite !app_length. lia.
Qed.

(** * ... of a NESTED body: the new construct runs into a closing token [c] that is
    not its own; rejected at that token, whatever follows *)
Theorem fault_opening2_nested cx path l1 fws op l2 tr c g :
  let ps0 := walker_state cx in
  let hs := lp_state2 cx ps0 path in
  let F := unparse_items2 l2 ++ tr ++ stray_text c ++ g in
  ok_lpath2 cx ps0 path (unparse_items2 l1 ++ fws ++ open_text2 op ++ F) = true ->
  open_side2 cx hs l1 fws op F = true ->
  ok_items2 cx (open_state2 cx hs op) [] l2 (tr ++ stray_text c ++ g) = true -> ws_ok tr = true ->
  stray_wf c -> open_closes2 op c = false ->
  let q := length (lp_text2 path) + length (unparse_items2 l1) + length fws + length (open_text2 op)
           + length (unparse_items2 l2) + length tr in
  exists e,
    parse_top (lp_text2 path ++ unparse_items2 l1 ++ fws ++ open_text2 op ++ F) false cx ps0
    = PErr e (q + length (stray_text c))
    /\ pe_pos e = Some q /\ pe_what e = stray_what c.
Proof.
  intros ps0 hs F OKP OS OK2 Wt WF NC q.
  set (fr := open_frame2 l1 fws op).
  assert (TX : lf_text2 fr = unparse_items2 l1 ++ fws ++ open_text2 op) by apply open_frame_text2.
  assert (OKP' : ok_lpath2 cx ps0 (path ++ [fr]) F = true).
  { rewrite ok_lpath2_snoc, TX, <- !app_assoc. apply andb_true_iff. split; [exact OKP | exact OS]. }
  assert (OK2' : ok_items2 cx (lp_state2 cx ps0 (path ++ [fr])) [] l2 (tr ++ stray_text c ++ g) = true).
  { rewrite lp_state2_app. cbn [lp_state2]. unfold fr. rewrite open_frame_state2. exact OK2. }
  assert (CH : closes_hole2 (path ++ [fr]) c = false).
  { rewrite closes_hole2_snoc. unfold fr. rewrite open_frame_closes2. exact NC. }
  destruct (fault_closing2_nested cx (path ++ [fr]) l2 tr c g OKP' OK2' Wt WF CH) as (e & H & P & W).
  rewrite lp_text2_app, lp_text2_one, TX, <- !app_assoc in H.
  unfold F, ps0. exists e. split; [|split; [|exact W]].
  - rewrite H. f_equal. unfold q. rewrite !app_length. lia.
  - rewrite P. f_equal. unfold q. rewrite lp_text2_app, lp_text2_one, TX, !app_length. lia.
Qed.

(** the closing delimiter of a well-formed frame is a well-formed stray token *)
Lemma closer_wf2 cx ps f fol c : ok_lframe2 cx ps f fol = true -> closer2 f = Some c -> stray_wf c.
Proof.
  intros OK E. destruct f as [b w|b w k|b w bws name args]; cbn [closer2] in E.
  - injection E as <-. exact I.
  - destruct k; try discriminate; injection E as <-; split; discriminate.
  - injection E as <-. cbn [ok_lframe2] in OK. cbn [stray_wf].
    apply andb_true_iff in OK. destruct OK as [OK _]. apply andb_true_iff in OK. destruct OK as [OK _].
    apply andb_true_iff in OK. destruct OK as [_ EN]. exact EN.
Qed.

(** the case the clause is about: the delimiter is inserted in the body of the
    construct [f] (the innermost frame of [path ++ [f]]) and [c] is the closing
    delimiter of [f] *)
Theorem fault_opening2_in_frame cx path f l1 fws op l2 tr c g :
  let ps0 := walker_state cx in
  let hs := lp_state2 cx ps0 (path ++ [f]) in
  let F := unparse_items2 l2 ++ tr ++ stray_text c ++ g in
  closer2 f = Some c ->
  ok_lpath2 cx ps0 (path ++ [f]) (unparse_items2 l1 ++ fws ++ open_text2 op ++ F) = true ->
  open_side2 cx hs l1 fws op F = true ->
  ok_items2 cx (open_state2 cx hs op) [] l2 (tr ++ stray_text c ++ g) = true -> ws_ok tr = true ->
  open_closes2 op c = false ->
  let q := length (lp_text2 (path ++ [f])) + length (unparse_items2 l1) + length fws + length (open_text2 op)
           + length (unparse_items2 l2) + length tr in
  exists e,
    parse_top (lp_text2 (path ++ [f]) ++ unparse_items2 l1 ++ fws ++ open_text2 op ++ F) false cx ps0
    = PErr e (q + length (stray_text c))
    /\ pe_pos e = Some q /\ pe_what e = stray_what c.
Proof.
  intros ps0 hs F CL OKP OS OK2 Wt NC.
  apply (fault_opening2_nested cx (path ++ [f]) l1 fws op l2 tr c g OKP OS OK2 Wt); [|exact NC].
  rewrite ok_lpath2_snoc in OKP. apply andb_true_iff in OKP. destruct OKP as [_ OKF].
  exact (closer_wf2 cx _ f _ c OKF CL).
Qed.
