(** Proofs about [Tok/Delta.v] (property C17 extended to the public
    parsing-state delta objects): a delta of any nesting acts as the left fold
    of its atomic steps, i.e. as a chain of [sub_context] calls, so every state
    obtained from a freshly built state through deltas IS the state built
    directly from its own fields. *)
From Coq Require Import NArith List Bool Arith Lia.
From PLV Require Import Base.PyStr Tok.PState Tok.Tokenizer Tok.Delta Proofs.PStateProofs.
Import ListNotations.

(** ** Induction principle for the nested type *)
Section DeltaInd.
  Variable P : delta -> Prop.
  Hypothesis HSet : forall u, P (DSet u).
  Hypothesis HEnter : forall d, P (DEnterMath d).
  Hypothesis HLeave : P DLeaveMath.
  Hypothesis HChain : forall l, Forall P l -> P (DChain l).
  Hypothesis HNone : P DNone.
  Fixpoint delta_ind' (d : delta) : P d :=
    match d with
    | DSet u => HSet u
    | DEnterMath m => HEnter m
    | DLeaveMath => HLeave
    | DChain l =>
        HChain l ((fix go (l : list delta) : Forall P l :=
                     match l with
                     | [] => Forall_nil P
                     | x :: r => Forall_cons x (delta_ind' x) (go r)
                     end) l)
    | DNone => HNone
    end.
End DeltaInd.

(** ** Chains are left folds *)
Lemma chain_nil ps : apply_delta ps (DChain []) = ps.
Proof. reflexivity. Qed.

Lemma chain_cons d l ps :
  apply_delta ps (DChain (d :: l)) = apply_delta (apply_delta ps d) (DChain l).
Proof. reflexivity. Qed.

Theorem delta_chain_is_fold l : forall ps,
  apply_delta ps (DChain l) = fold_left apply_delta l ps.
Proof.
  induction l as [|d l IH]; intros ps; [reflexivity|].
  rewrite chain_cons, IH. reflexivity.
Qed.

Theorem delta_chain_app l1 l2 ps :
  apply_delta ps (DChain (l1 ++ l2)) = apply_delta (apply_delta ps (DChain l1)) (DChain l2).
Proof. rewrite !delta_chain_is_fold. apply fold_left_app. Qed.

Theorem delta_chain_singleton d ps : apply_delta ps (DChain [d]) = apply_delta ps d.
Proof. reflexivity. Qed.

Theorem delta_none_identity ps : apply_delta ps DNone = ps.
Proof. reflexivity. Qed.

Theorem delta_chain_skip_none l1 l2 ps :
  apply_delta ps (DChain (l1 ++ DNone :: l2)) = apply_delta ps (DChain (l1 ++ l2)).
Proof. rewrite !delta_chain_app, chain_cons. reflexivity. Qed.

(** a chain nested in a chain acts as the chain with the inner entries spliced in *)
Theorem delta_chain_nested l1 m l2 ps :
  apply_delta ps (DChain (l1 ++ DChain m :: l2)) = apply_delta ps (DChain (l1 ++ m ++ l2)).
Proof. rewrite !delta_chain_app, chain_cons. reflexivity. Qed.

(** ** Complete flattening: the atomic deltas of a tree, in application order *)
Fixpoint flatten (d : delta) : list delta :=
  match d with
  | DChain l => flat_map flatten l
  | DNone => []
  | a => [a]
  end.

Definition atomic (d : delta) : Prop :=
  match d with DChain _ | DNone => False | _ => True end.

Lemma flatten_atomic d : Forall atomic (flatten d).
Proof.
  induction d as [u|m| |l IH|] using delta_ind'; cbn [flatten];
    try (constructor; [exact I|constructor]); try constructor.
  induction IH as [|x r Hx _ IHr]; cbn [flat_map]; [constructor|].
  apply Forall_app. split; assumption.
Qed.

Theorem delta_is_fold_of_flatten d : forall ps,
  apply_delta ps d = fold_left apply_delta (flatten d) ps.
Proof.
  induction d as [u|m| |l IH|] using delta_ind'; intros ps; try reflexivity.
  revert ps. induction IH as [|x r Hx _ IHr]; intros ps; [reflexivity|].
  rewrite chain_cons. cbn [flatten flat_map]. rewrite fold_left_app, <- Hx.
  exact (IHr (apply_delta ps x)).
Qed.

Corollary delta_acts_as_flat_chain d ps :
  apply_delta ps d = apply_delta ps (DChain (flatten d)).
Proof. rewrite delta_chain_is_fold. apply delta_is_fold_of_flatten. Qed.

Theorem delta_flatten d ps :
  Forall atomic (flatten d)
  /\ apply_delta ps d = fold_left apply_delta (flatten d) ps
  /\ apply_delta ps d = apply_delta ps (DChain (flatten d)).
Proof.
  split; [apply flatten_atomic|]. split;
    [apply delta_is_fold_of_flatten | apply delta_acts_as_flat_chain].
Qed.

(** ** A delta is a chain of [sub_context] calls *)
Fixpoint steps (d : delta) : list (list update) :=
  match d with
  | DSet [] => []
  | DSet kw => [kw]
  | DEnterMath md => [enter_math_kw md]
  | DLeaveMath => [leave_math_kw]
  | DChain l => flat_map steps l
  | DNone => []
  end.

Theorem delta_is_sub_context_chain d : forall ps,
  apply_delta ps d = fold_left sub_context (steps d) ps.
Proof.
  induction d as [u|m| |l IH|] using delta_ind'; intros ps; try reflexivity.
  - destruct u; reflexivity.
  - revert ps. induction IH as [|x r Hx _ IHr]; intros ps; [reflexivity|].
    rewrite chain_cons. cbn [steps flat_map]. rewrite fold_left_app, <- Hx.
    exact (IHr (apply_delta ps x)).
Qed.

(** ** The invariant of C17 is preserved by every delta *)
Lemma inv_is_fresh p : Inv p -> p = fresh (ps_f p).
Proof.
  intros [Hc Hn]. unfold fresh. rewrite Hn. destruct p as [f c]. cbn in *. rewrite Hc. reflexivity.
Qed.

Lemma fresh_inv_iff p : Inv p <-> p = fresh (ps_f p).
Proof.
  split; [apply inv_is_fresh|]. intros E. rewrite E. apply inv_fresh.
Qed.

Lemma inv_chain chain : forall p, Inv p -> Inv (fold_left sub_context chain p).
Proof.
  induction chain as [|kw chain IH]; intros p Hp; cbn [fold_left]; [exact Hp|].
  apply IH. apply inv_sub_context. exact Hp.
Qed.

Theorem delta_preserves_inv d ps : Inv ps -> Inv (apply_delta ps d).
Proof. rewrite delta_is_sub_context_chain. apply inv_chain. Qed.

(** the state obtained from a freshly built state through any chain of
    [sub_context] calls followed by ANY delta (hence, by [DChain], any sequence of
    deltas, each of any nesting, interleaved with [sub_context] calls) is the state
    constructed directly with its own field values *)
Theorem delta_state_is_fresh f0 chain d :
  let r := apply_delta (fold_left sub_context chain (fresh f0)) d in
  r = fresh (ps_f r).
Proof.
  cbn zeta. apply inv_is_fresh. apply delta_preserves_inv. apply derived_inv.
Qed.

Theorem delta_sequence_is_fresh f0 ds :
  let r := fold_left apply_delta ds (fresh f0) in
  r = fresh (ps_f r).
Proof.
  cbn zeta. rewrite <- delta_chain_is_fold. exact (delta_state_is_fresh f0 [] (DChain ds)).
Qed.

Theorem delta_caches_fresh f0 chain d :
  let r := apply_delta (fold_left sub_context chain (fresh f0)) d in
  ps_c r = compute_caches (ps_f r).
Proof.
  cbn zeta. apply (proj1 (delta_preserves_inv d _ (derived_inv f0 chain))).
Qed.

Theorem delta_same_tokens f0 chain d s pos :
  let r := apply_delta (fold_left sub_context chain (fresh f0)) d in
  impl_peek r s pos = impl_peek (fresh (ps_f r)) s pos.
Proof. cbn zeta. rewrite <- delta_state_is_fresh. reflexivity. Qed.

Theorem delta_same_read_all f0 chain d s tol :
  let r := apply_delta (fold_left sub_context chain (fresh f0)) d in
  read_all r s tol = read_all (fresh (ps_f r)) s tol.
Proof. cbn zeta. rewrite <- delta_state_is_fresh. reflexivity. Qed.

(** ** What the two walker events do to the fields *)
Lemma str_eqb_true : forall a b, str_eqb a b = true -> a = b.
Proof.
  unfold str_eqb. induction a as [|x a IH]; destruct b as [|y b]; intros H; try discriminate; [reflexivity|].
  apply andb_true_iff in H. destruct H as [H1 H2]. apply N.eqb_eq in H1. subst y.
  f_equal. apply IH. exact H2.
Qed.

Lemma opt_str_eqb_true a b : opt_eqb str_eqb a b = true -> a = b.
Proof.
  destruct a, b; cbn; intros H; try discriminate; [|reflexivity].
  f_equal. apply str_eqb_true. exact H.
Qed.

Lemma unchanged_inmath f b : changes f (UInMath b) = false -> f_in_math f = b.
Proof.
  unfold changes. intros H. apply negb_false_iff in H. apply eqb_prop in H. symmetry. exact H.
Qed.

Lemma unchanged_mathdelim f d : changes f (UMathDelim d) = false -> f_math_delim f = d.
Proof.
  unfold changes. intros H. apply negb_false_iff in H. apply opt_str_eqb_true in H. symmetry. exact H.
Qed.

Lemma set_math_fields ps b md :
  (b = false -> md = None) ->
  ps_f (sub_context ps [UInMath b; UMathDelim md]) = set_math (ps_f ps) b md.
Proof.
  intros Hb. unfold sub_context. cbn [ps_f]. set (f := ps_f ps). cbn [filter].
  assert (N : forall g, f_in_math g = b -> f_math_delim g = md -> normalize g = g).
  { intros g G1 G2. unfold normalize. rewrite G1, G2. destruct b; [reflexivity|].
    rewrite (Hb eq_refl). reflexivity. }
  destruct (changes f (UInMath b)) eqn:E1; destruct (changes f (UMathDelim md)) eqn:E2;
    cbn [fold_left apply_update].
  - rewrite N by reflexivity. reflexivity.
  - apply unchanged_mathdelim in E2. rewrite N by (cbn; auto). unfold set_math. rewrite <- E2. reflexivity.
  - apply unchanged_inmath in E1. rewrite N by (cbn; auto). unfold set_math. rewrite <- E1. reflexivity.
  - apply unchanged_inmath in E1. apply unchanged_mathdelim in E2.
    rewrite N by auto. unfold set_math. rewrite <- E1, <- E2. destruct f; reflexivity.
Qed.

Theorem enter_math_fields ps md :
  ps_f (apply_delta ps (DEnterMath md)) = set_math (ps_f ps) true md.
Proof. apply set_math_fields. discriminate. Qed.

Theorem leave_math_fields ps :
  ps_f (apply_delta ps DLeaveMath) = set_math (ps_f ps) false None.
Proof. apply set_math_fields. reflexivity. Qed.

(** ** Fields that no step of the delta names are kept (group delimiters) *)
Definition names_group (d : delta) : bool :=
  existsb (existsb (fun u => ukey_eqb (key_of u) KGroup)) (steps d).

Lemma chain_keeps_group chain : forall p,
  existsb (existsb (fun u => ukey_eqb (key_of u) KGroup)) chain = false ->
  f_group_delims (ps_f (fold_left sub_context chain p)) = f_group_delims (ps_f p).
Proof.
  induction chain as [|kw chain IH]; intros p H; cbn [fold_left]; [reflexivity|].
  cbn [existsb] in H. apply orb_false_iff in H. destruct H as [H1 H2].
  rewrite IH by exact H2. apply sub_context_keeps_unlisted_fields. exact H1.
Qed.

Theorem delta_keeps_unlisted_fields d ps :
  names_group d = false ->
  f_group_delims (ps_f (apply_delta ps d)) = f_group_delims (ps_f ps).
Proof. intros H. rewrite delta_is_sub_context_chain. apply chain_keeps_group. exact H. Qed.
