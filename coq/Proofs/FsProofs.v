(** Proofs about [FS/FsModel.v] and [FS/InputFile.v] (property C15). *)
From Coq Require Import NArith List Bool Arith Lia.
From PLV Require Import Base.PyStr FS.FsModel FS.InputFile.
Import ListNotations.

(** * Strings *)

Lemma str_eqb_eq a : forall b, str_eqb a b = true <-> a = b.
Proof.
  unfold str_eqb. induction a as [|x a IH]; intros [|y b]; split; intros H; try discriminate; try reflexivity.
  - apply andb_true_iff in H. destruct H as [H1 H2]. apply N.eqb_eq in H1. apply IH in H2. congruence.
  - injection H as -> ->. apply andb_true_iff. split; [apply N.eqb_refl | apply IH; reflexivity].
Qed.

Lemma str_eqb_refl a : str_eqb a a = true.
Proof. apply str_eqb_eq. reflexivity. Qed.

Lemma startswith_iff s : forall p, startswith s p = true <-> exists u, s = p ++ u.
Proof.
  intros p. revert s. induction p as [|c p IH]; intros s.
  - destruct s; (split; [intros _; eexists; reflexivity | reflexivity]).
  - destruct s as [|d s]; cbn [startswith].
    + split; [discriminate | intros [u H]; discriminate].
    + split.
      * intros H. apply andb_true_iff in H. destruct H as [H1 H2]. apply N.eqb_eq in H1.
        apply IH in H2. destruct H2 as [u ->]. exists u. subst. reflexivity.
      * intros [u H]. injection H as -> ->. apply andb_true_iff. split; [apply N.eqb_refl|].
        apply IH. exists u. reflexivity.
Qed.

(** * Components and paths *)

Definition noslash (c : comp) : Prop := ~ In 47%N c.
(** a proper path component: what [split_slash] can produce and the walkers do not skip *)
Definition proper (c : comp) : Prop :=
  noslash c /\ is_nil c = false /\ is_dot c = false /\ is_dotdot c = false.
Definition is_prefix (d p : path) : Prop := exists t, p = d ++ t.

Lemma split_slash_nonempty s : exists h t, split_slash s = h :: t.
Proof.
  destruct s as [|c r]; cbn [split_slash]; [eauto|].
  destruct (N.eqb c 47); [eauto|]. destruct (split_slash r); eauto.
Qed.

Lemma split_slash_noslash s : Forall noslash (split_slash s).
Proof.
  induction s as [|c r IH]; cbn [split_slash].
  - constructor; [intros []|constructor].
  - destruct (N.eqb c 47) eqn:E.
    + constructor; [intros []|exact IH].
    + destruct (split_slash r) as [|h t]; [constructor; [|constructor]|].
      * intros [H|[]]. subst. rewrite N.eqb_refl in E. discriminate.
      * inversion IH as [|? ? Hh Ht]; subst. constructor; [|exact Ht].
        intros [H|H]; [subst; rewrite N.eqb_refl in E; discriminate | exact (Hh H)].
Qed.

(** splitting at a slash boundary *)
Lemma split_slash_app_slash a : forall b,
  split_slash (a ++ 47%N :: b) = split_slash a ++ split_slash b.
Proof.
  induction a as [|x a IH]; intros b; cbn [app split_slash].
  - rewrite N.eqb_refl. reflexivity.
  - destruct (N.eqb x 47); rewrite IH; [reflexivity|].
    destruct (split_slash_nonempty a) as (h & t & ->). reflexivity.
Qed.

Lemma split_slash_noslash_app c : noslash c -> forall s,
  split_slash (c ++ s) = match split_slash s with h :: t => (c ++ h) :: t | [] => [c] end.
Proof.
  induction c as [|x c IH]; intros Hc s; cbn [app].
  - destruct (split_slash_nonempty s) as (h & t & ->). reflexivity.
  - cbn [split_slash]. destruct (N.eqb x 47) eqn:E.
    + apply N.eqb_eq in E. exfalso. apply Hc. left. exact E.
    + rewrite IH by (intros H; apply Hc; right; exact H).
      destruct (split_slash_nonempty s) as (h & t & ->). reflexivity.
Qed.

Lemma split_slash_render_aux p : Forall noslash p ->
  split_slash (render_aux p) = match p with [] => [[]] | _ => [] :: p end.
Proof.
  induction p as [|c r IH]; intros H; [reflexivity|].
  inversion H as [|? ? Hc Hr]; subst. cbn [render_aux split_slash]. rewrite N.eqb_refl.
  rewrite (split_slash_noslash_app c Hc). rewrite (IH Hr).
  destruct r; rewrite app_nil_r; reflexivity.
Qed.

Lemma split_slash_render p : Forall noslash p ->
  split_slash (render p) = match p with [] => [[]; []] | _ => [] :: p end.
Proof.
  intros H. destruct p as [|c r]; [reflexivity|]. unfold render. exact (split_slash_render_aux (c :: r) H).
Qed.

Lemma render_aux_app a b : render_aux (a ++ b) = render_aux a ++ render_aux b.
Proof.
  induction a as [|c a IH]; [reflexivity|]. cbn [app render_aux]. rewrite IH, app_assoc. reflexivity.
Qed.

Lemma startswith_nil s : startswith s [] = true.
Proof. destruct s; reflexivity. Qed.

Lemma isabs_render p : isabs (render p) = true.
Proof. destruct p; [reflexivity|]. unfold isabs, render. cbn [render_aux startswith]. rewrite startswith_nil. reflexivity. Qed.

Lemma render_not_nil p : render p <> [].
Proof. destruct p; discriminate. Qed.

Lemma proper_noslash l : Forall proper l -> Forall noslash l.
Proof. apply Forall_impl. intros c H. exact (proj1 H). Qed.

Lemma ends_with_c_cons c y s : s <> [] -> ends_with_c c (y :: s) = ends_with_c c s.
Proof. destruct s; [congruence | reflexivity]. Qed.

Lemma ends_with_c_app_last s x c : ends_with_c c (s ++ [x]) = N.eqb x c.
Proof.
  induction s as [|y s IH]; [reflexivity|]. cbn [app].
  rewrite ends_with_c_cons by (destruct s; discriminate). exact IH.
Qed.

Lemma ends_with_c_render_aux p : p <> [] -> Forall proper p -> ends_with_c 47 (render_aux p) = false.
Proof.
  intros Hne H. destruct (exists_last Hne) as (q & c & ->).
  apply Forall_app in H. destruct H as [_ Hc]. inversion Hc as [|? ? Hp _]; subst.
  destruct Hp as (Hns & Hnil & _). rewrite render_aux_app. cbn [render_aux]. rewrite app_nil_r.
  destruct c as [|x c]; [discriminate|]. destruct (@exists_last _ (x :: c)) as (c' & y & E); [discriminate|].
  rewrite E. replace (render_aux q ++ 47%N :: c' ++ [y]) with ((render_aux q ++ 47%N :: c') ++ [y])
    by (rewrite <- app_assoc; reflexivity).
  rewrite ends_with_c_app_last. apply N.eqb_neq. intros ->. apply Hns. rewrite E. apply in_or_app. right. left. reflexivity.
Qed.

(** [is_within] on rendered real paths is component-wise prefix *)
Lemma is_within_prefix d p : Forall proper d -> Forall proper p ->
  is_within (render d) (render p) = true -> is_prefix d p.
Proof.
  intros Hd Hp H. destruct d as [|c d']; [exists p; reflexivity|].
  assert (Ed : render (c :: d') = render_aux (c :: d')) by reflexivity.
  unfold is_within in H. rewrite Ed in H. cbv zeta in H.
  rewrite ends_with_c_render_aux in H by (try discriminate; exact Hd).
  apply orb_true_iff in H. destruct H as [H|H].
  - apply str_eqb_eq in H. apply (f_equal split_slash) in H.
    rewrite split_slash_render in H by (apply proper_noslash; exact Hp).
    rewrite (split_slash_render_aux (c :: d')) in H by (apply proper_noslash; exact Hd).
    destruct p as [|x p'].
    + inversion H; subst. inversion Hd as [|? ? Hc _]; subst.
      destruct Hc as (_ & Hnil & _). discriminate.
    + inversion H; subst. exists []. rewrite app_nil_r. reflexivity.
  - apply startswith_iff in H. destruct H as [u H]. rewrite <- app_assoc in H. cbn [app] in H.
    apply (f_equal split_slash) in H. rewrite split_slash_app_slash in H.
    rewrite split_slash_render in H by (apply proper_noslash; exact Hp).
    rewrite (split_slash_render_aux (c :: d')) in H by (apply proper_noslash; exact Hd).
    destruct p as [|x p'].
    + cbn [app] in H. inversion H as [[H1 H2]]. inversion Hd as [|? ? Hc _]; subst.
      destruct Hc as (_ & Hnil & _). discriminate.
    + cbn [app] in H. inversion H as [[H1 H2]]. exists (split_slash u). reflexivity.
Qed.

Lemma render_starts_slash p : exists u, render p = 47%N :: u.
Proof. destruct p as [|c r]; [exists []; reflexivity | exists (c ++ render_aux r); reflexivity]. Qed.

Lemma prefix_is_within d p : Forall proper d -> is_prefix d p -> is_within (render d) (render p) = true.
Proof.
  intros Hd [t ->]. unfold is_within. destruct d as [|c d'].
  - cbn [render ends_with_c N.eqb Pos.eqb]. apply orb_true_iff. right. apply startswith_iff.
    destruct (render_starts_slash ([] ++ t)) as [u ->]. exists u. reflexivity.
  - assert (Ed : render (c :: d') = render_aux (c :: d')) by reflexivity.
    rewrite Ed. cbv zeta. rewrite ends_with_c_render_aux by (try discriminate; exact Hd).
    apply orb_true_iff. destruct t as [|x t].
    + left. rewrite app_nil_r. apply str_eqb_refl.
    + right. apply startswith_iff.
      assert (Ep : render ((c :: d') ++ x :: t) = render_aux (c :: d') ++ 47%N :: x ++ render_aux t).
      { change (render ((c :: d') ++ x :: t)) with (render_aux ((c :: d') ++ x :: t)).
        rewrite render_aux_app. reflexivity. }
      rewrite Ep. exists (x ++ render_aux t). rewrite <- app_assoc. reflexivity.
Qed.

(** * Real (canonical) paths: no prefix names a symbolic link *)

Definition canonical (root : node) (p : path) : Prop :=
  forall q r t, p = q ++ r -> lookup root q <> Some (Symlink t).

Lemma canonical_nil root : (forall t, root <> Symlink t) -> canonical root [].
Proof.
  intros H q r t E. symmetry in E. apply app_eq_nil in E. destruct E as [-> _]. cbn [lookup]. intros K. injection K as K.
  exact (H t K).
Qed.

Lemma canonical_prefix root a b : canonical root (a ++ b) -> canonical root a.
Proof. intros H q r t E. subst. apply (H q (r ++ b) t). rewrite app_assoc. reflexivity. Qed.

Lemma removelast_prefix {A} (l : list A) : exists r, l = removelast l ++ r.
Proof.
  destruct l as [|x l]; [exists []; reflexivity|].
  destruct (@exists_last _ (x :: l)) as (q & y & E); [discriminate|]. rewrite E.
  rewrite removelast_app by discriminate. cbn [removelast]. rewrite app_nil_r. exists [y]. reflexivity.
Qed.

Lemma canonical_removelast root p : canonical root p -> canonical root (removelast p).
Proof. intros H. destruct (removelast_prefix p) as [r E]. rewrite E in H. exact (canonical_prefix _ _ _ H). Qed.

Lemma app_eq_snoc {A} (q r p : list A) (n : A) :
  p ++ [n] = q ++ r -> (r = [] /\ q = p ++ [n]) \/ (exists r', r = r' ++ [n] /\ p = q ++ r').
Proof.
  intros E. destruct r as [|x r] using rev_ind.
  - left. rewrite app_nil_r in E. auto.
  - right. rewrite app_assoc in E. apply app_inj_tail in E. destruct E as [-> ->]. eauto.
Qed.

Lemma canonical_snoc root p n : canonical root p ->
  (forall t, lookup root (p ++ [n]) <> Some (Symlink t)) -> canonical root (p ++ [n]).
Proof.
  intros H K q r t E. destruct (app_eq_snoc _ _ _ _ E) as [[-> ->]|(r' & -> & ->)].
  - apply K.
  - apply (H q r' t). reflexivity.
Qed.

Lemma Forall_removelast {A} (P : A -> Prop) l : Forall P l -> Forall P (removelast l).
Proof.
  intros H. destruct (removelast_prefix l) as [r E]. rewrite E in H. apply Forall_app in H. exact (proj1 H).
Qed.

Section Walk.
Variable root : node.
Hypothesis root_not_link : forall t, root <> Symlink t.

(** [realpath] returns a real path: no component of its result is a link,
    and every component is a proper name *)
Lemma rp_canonical fuel : forall cur rest p,
  canonical root cur -> rp fuel root cur rest = Some p -> canonical root p.
Proof.
  induction fuel as [|f IH]; intros cur rest p Hc H; [discriminate|].
  cbn [rp] in H. destruct rest as [|name rest']; [injection H as <-; exact Hc|].
  destruct (is_nil name || is_dot name); [exact (IH _ _ _ Hc H)|].
  destruct (is_dotdot name); [exact (IH _ _ _ (canonical_removelast _ _ Hc) H)|].
  cbv zeta in H. destruct (lookup root (cur ++ [name])) as [[es|c|t]|] eqn:E.
  - apply (IH _ _ _ (canonical_snoc _ _ _ Hc ltac:(intros t; rewrite E; discriminate)) H).
  - apply (IH _ _ _ (canonical_snoc _ _ _ Hc ltac:(intros t; rewrite E; discriminate)) H).
  - destruct (isabs t); [exact (IH _ _ _ (canonical_nil _ root_not_link) H) | exact (IH _ _ _ Hc H)].
  - apply (IH _ _ _ (canonical_snoc _ _ _ Hc ltac:(intros t; rewrite E; discriminate)) H).
Qed.

Lemma rp_proper fuel : forall cur rest p,
  Forall proper cur -> Forall noslash rest -> rp fuel root cur rest = Some p -> Forall proper p.
Proof.
  induction fuel as [|f IH]; intros cur rest p Hc Hr H; [discriminate|].
  cbn [rp] in H. destruct rest as [|name rest']; [injection H as <-; exact Hc|].
  inversion Hr as [|? ? Hn Hr']; subst.
  destruct (is_nil name || is_dot name) eqn:E1; [exact (IH _ _ _ Hc Hr' H)|].
  destruct (is_dotdot name) eqn:E2; [exact (IH _ _ _ (Forall_removelast _ _ Hc) Hr' H)|].
  apply orb_false_iff in E1. destruct E1 as [E1 E1'].
  assert (Hsn : Forall proper (cur ++ [name])).
  { apply Forall_app. split; [exact Hc|]. constructor; [|constructor]. repeat split; assumption. }
  cbv zeta in H. destruct (lookup root (cur ++ [name])) as [[es|c|t]|] eqn:E.
  - exact (IH _ _ _ Hsn Hr' H).
  - exact (IH _ _ _ Hsn Hr' H).
  - assert (Hr2 : Forall noslash (split_slash t ++ rest'))
      by (apply Forall_app; split; [apply split_slash_noslash | exact Hr']).
    destruct (isabs t); [exact (IH _ _ _ (Forall_nil _) Hr2 H) | exact (IH _ _ _ Hc Hr2 H)].
  - exact (IH _ _ _ Hsn Hr' H).
Qed.

(** fuel spent bounds the length of the result *)
Lemma rp_length fuel : forall cur rest p,
  rp fuel root cur rest = Some p -> length p + 1 <= length cur + fuel.
Proof.
  induction fuel as [|f IH]; intros cur rest p H; [discriminate|].
  cbn [rp] in H. destruct rest as [|name rest']; [injection H as <-; lia|].
  destruct (is_nil name || is_dot name); [apply IH in H; lia|].
  destruct (is_dotdot name).
  { apply IH in H. assert (length (removelast cur) <= length cur); [|lia].
    destruct (removelast_prefix cur) as [r E]. rewrite E at 2. rewrite app_length. lia. }
  cbv zeta in H. destruct (lookup root (cur ++ [name])) as [[es|c|t]|] eqn:E;
    apply IH in H; try (rewrite app_length in H; cbn [length] in H; lia).
  destruct (isabs t); cbn [length] in H; lia.
Qed.

Lemma lookup_app n a : forall b,
  lookup n (a ++ b) = match lookup n a with Some m => lookup m b | None => None end.
Proof.
  revert n. induction a as [|c a IH]; intros n b; [reflexivity|].
  cbn [app lookup]. destruct n as [es| |]; try reflexivity. destruct (assoc c es); [apply IH | reflexivity].
Qed.

(** the kernel walk along a real path of proper components ends at that very path *)
Lemma kwalk_real fuel : forall cur rest r,
  canonical root (cur ++ rest) -> Forall proper rest ->
  kwalk fuel root cur rest = KOk r -> r = cur ++ rest.
Proof.
  induction fuel as [|f IH]; intros cur rest r Hc Hr H; [discriminate|].
  cbn [kwalk] in H. destruct rest as [|name rest']; [injection H as <-; rewrite app_nil_r; reflexivity|].
  inversion Hr as [|? ? Hn Hr']; subst. destruct Hn as (_ & N1 & N2 & N3).
  destruct (lookup root cur) as [[es|c|t]|]; try discriminate.
  rewrite N1, N2, N3 in H. cbn [orb] in H.
  assert (E' : cur ++ name :: rest' = (cur ++ [name]) ++ rest') by (rewrite <- app_assoc; reflexivity).
  destruct (lookup root (cur ++ [name])) as [[es'|c'|t']|] eqn:E; try discriminate.
  - rewrite E'. apply IH; [rewrite <- E'; exact Hc | exact Hr' | exact H].
  - rewrite E'. apply IH; [rewrite <- E'; exact Hc | exact Hr' | exact H].
  - exfalso. apply (Hc (cur ++ [name]) rest' t' E'). exact E.
Qed.

Lemma kwalk_real_complete fuel : forall cur rest n,
  canonical root (cur ++ rest) -> Forall proper rest ->
  lookup root (cur ++ rest) = Some n -> length rest + 1 <= fuel ->
  kwalk fuel root cur rest = KOk (cur ++ rest).
Proof.
  induction fuel as [|f IH]; intros cur rest n Hc Hr Hl Hf; [lia|].
  cbn [kwalk]. destruct rest as [|name rest']; [rewrite app_nil_r; reflexivity|].
  inversion Hr as [|? ? Hn Hr']; subst. destruct Hn as (_ & N1 & N2 & N3).
  assert (E' : cur ++ name :: rest' = (cur ++ [name]) ++ rest') by (rewrite <- app_assoc; reflexivity).
  pose proof Hl as Hl1. rewrite lookup_app in Hl1.
  destruct (lookup root cur) as [[es|c|t]|] eqn:Ecur; try discriminate.
  rewrite N1, N2, N3. cbn [orb].
  pose proof Hl as Hl2. rewrite E', lookup_app in Hl2.
  destruct (lookup root (cur ++ [name])) as [[es'|c'|t']|] eqn:E; try discriminate.
  - rewrite E'. apply (IH _ _ n); [rewrite <- E'; exact Hc | exact Hr' | rewrite <- E'; exact Hl | cbn [length] in Hf; lia].
  - rewrite E'. apply (IH _ _ n); [rewrite <- E'; exact Hc | exact Hr' | rewrite <- E'; exact Hl | cbn [length] in Hf; lia].
  - exfalso. apply (Hc (cur ++ [name]) rest' t' E'). exact E.
Qed.

End Walk.
