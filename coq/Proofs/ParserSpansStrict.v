(** C01 — strict mode: every [Ok] result of [Parser.run] is exactly positioned.
    Per-task postconditions, proved for one step with the recursive calls
    abstracted, then lifted through [run] by induction on the fuel. *)
From Coq Require Import NArith List Bool Arith Lia.
From PLV Require Import Base.PyStr Tok.PState Tok.Tokenizer Parse.Nodes Parse.Parser Parse.ParseWire
  Proofs.PyStrFacts Proofs.TokProofs Proofs.PStateProofs
  Proofs.ParserSpansDefs Proofs.ParserSpansTok Proofs.ParserSpansStep.
Import ListNotations.

Section Strict.
  Variable s : str.
  Variable cx : context.
  (** [tx]: with the text clause of chars nodes, which needs the context condition *)
  Variable tx : bool.
  Hypothesis CX : tx = true -> ctx_ok cx = true.

  Notation L := (length s).

  (** * Pre- and postconditions *)
  Definition good_opts (o : genopts) : Prop :=
    match g_child o with CPSelf => True | CPGroup c og _ => good c /\ good og end.

  Definition task_pos (t : task) : nat :=
    match t with
    | TCollect _ _ _ p | TGeneral _ _ p | TGroup _ _ _ _ p | TMath _ _ p | TEnvBody _ _ p
    | TExpr _ _ _ _ _ _ p | TChars _ _ _ _ p | TVerbDelim _ _ p | TStdArg _ _ p | TArgs _ _ _ p
    | TLegacyArgs _ _ p | TCall _ _ _ p => p
    end.

  Definition task_pre (t : task) : Prop :=
    task_pos t <= L /\
    match t with
    | TCollect ps o _ _ | TGeneral ps o _ => good ps /\ good_opts o
    | TGroup ps _ _ _ _ | TMath ps _ _ | TEnvBody ps _ _ | TExpr ps _ _ _ _ _ _ | TLegacyArgs ps _ _ => good ps
    | TChars ps ch _ _ _ => good ps /\ (tx = true -> length ch = 1)
    | TVerbDelim _ _ _ => True
    | TStdArg ps k _ => good ps /\ (tx = true -> kind_ok k = true)
    | TArgs ps specs _ _ => good ps /\ (tx = true -> forallb (fun a => kind_ok (a_kind a)) specs = true)
    | TCall ps _ sp _ => good ps /\ (tx = true -> spec_ok sp = true)
    end.

  (** the collector state while running: [cs_acc] tiles from the collector's
      start to the start [q] of the pending characters, which are the source
      slice from [q] to the reader position *)
  Definition cinvw (start : nat) (st : collstate) (pos : nat) : Prop :=
    exists q, tiles start q (cs_acc st) /\ wf_items tx s (cs_acc st) /\
      q + length (cs_pend st) = pos /\ cs_pend st = slice s q pos /\
      (cs_pend st <> [] -> cs_ppos st = Some q).
  Definition cinv (start : nat) (st : collstate) (pos : nat) : Prop :=
    cinvw start st pos /\ (cs_pend st = [] -> cs_ppos st = None).
  (** nothing pending *)
  Definition cdone (start : nat) (st : collstate) (p : nat) : Prop :=
    tiles start p (cs_acc st) /\ wf_items tx s (cs_acc st).

  Definition stop_ok (o : genopts) (stopped : option token) (eos : bool) (st' : collstate) (p : nat) : Prop :=
    match stopped with
    | Some t => stop_matches (g_stop o) t = true /\ tpos t < tend t /\ tend t <= L /\ tok_txt s [37%N] t /\
                tpos t = (if g_incl_pre o then p else p + length (tpre t))
    | None => if eos then p = L else nl_stop_met (g_nl o) (cs_acc st') = true
    end.

  Definition node_res (lo p : nat) (n : node) : Prop :=
    wf_node tx s n /\ exists a, nspan n = Some (a, p) /\ lo <= a.
  Definition onode_res (lo : nat) (o : out) (p : nat) : Prop :=
    match o with ONode None => True | ONode (Some n) => node_res lo p n | _ => False end.

  Definition res_post (lo : nat) (okP : out -> nat -> Prop) (eosP : nat -> Prop) (r : res out) : Prop :=
    match r with
    | Ok o p => lo <= p /\ p <= L /\ okP o p
    | REOS p => eosP p
    | _ => True
    end.

  Definition never (_ : nat) : Prop := False.
  Definition in_range (lo : nat) (p : nat) : Prop := lo <= p /\ p <= L.

  Definition coll_ok (og : genopts) (start : nat) (o : out) (p : nat) : Prop :=
    match o with
    | OColl st' stopped nlmet eos => cdone start st' p /\ stop_ok og stopped eos st' p
    | _ => False
    end.

  Definition general_ok (og : genopts) (pos : nat) (o : out) (p : nat) : Prop :=
    exists pc items, o = ONode (Some (NList (Some pos) (Some pc) items)) /\
      tiles pos pc items /\ wf_items tx s items /\ pc <= p /\
      (g_require og = true ->
         match g_stop og with
         | SNone => g_nl og = NLNone -> p = L /\ pc = L
         | _ => exists t, stop_matches (g_stop og) t = true /\ tpos t < tend t /\ tok_txt s [37%N] t /\
                          (g_handle_stop og = true -> p = tend t) /\ (g_incl_pre og = true -> pc = tpos t)
         end).

  Definition group_gps (ps : pstate) (d : gdelims) : pstate :=
    match d with GDPair o c => ps_add_group ps o c | _ => ps end.

  Definition post (t : task) (r : res out) : Prop :=
    match t with
    | TCollect ps og st pos => forall start, cinv start st pos -> res_post pos (coll_ok og start) never r
    | TGeneral ps og pos => res_post pos (general_ok og pos) never r
    | TGroup ps d optional aps pos =>
        res_post pos
          (fun o p => match o with
                      | ONode None => optional = true
                      | ONode (Some n) => wf_node tx s n /\ exists a, nspan n = Some (a, p) /\ pos <= a /\
                                                                   (aps = false -> a = pos)
                      | _ => False end)
          (fun p => p = pos /\ exists fin, impl_peek (group_gps ps d) s pos = TokEOS fin) r
    | TMath ps d pos =>
        res_post pos
          (fun o p => match o with
                      | ONode (Some n) => wf_node tx s n /\ nspan n = Some (pos, p)
                      | _ => False end)
          (fun p => p = pos /\ exists fin, impl_peek ps s pos = TokEOS fin) r
    | TEnvBody ps name pos =>
        res_post pos
          (fun o p => exists pc items, o = ONode (Some (NList (Some pos) (Some pc) items)) /\
                        tiles pos pc items /\ wf_items tx s items /\ pc <= p) never r
    | TExpr ps aps apc full sterr acc pos => full = false -> res_post pos (onode_res pos) (in_range pos) r
    | TChars ps ch aps full pos => res_post pos (onode_res pos) (in_range pos) r
    | TVerbDelim ps d pos => res_post pos (onode_res pos) (in_range pos) r
    | TStdArg ps k pos => res_post pos (onode_res pos) never r
    | TArgs ps specs acc pos =>
        forall lo, chain lo pos acc -> wf_items tx s acc ->
        res_post pos (fun o p => exists l, o = OArgs (Some ([], l)) /\ chain lo p l /\ wf_items tx s l) never r
    | TLegacyArgs ps k pos =>
        res_post pos (fun o p => exists sp l, o = OArgs (Some (sp, l)) /\ chain pos p l /\ wf_items tx s l) never r
    | TCall ps t sp pos =>
        tpos t <= pos ->
        res_post pos (fun o p => match o with
                                 | ONode (Some n) => wf_node tx s n /\ nspan n = Some (tpos t, p)
                                 | _ => False end) never r
    end.

  Lemma res_post_weaken lo lo' P E r : res_post lo' P E r -> lo <= lo' -> res_post lo P E r.
  Proof. destruct r; cbn [res_post]; intros H Q; auto. destruct H as (A & B & C). repeat split; auto; lia. Qed.

  Lemma res_post_mono lo (P P' : out -> nat -> Prop) (E E' : nat -> Prop) r : res_post lo P E r ->
    (forall o p, lo <= p -> p <= L -> P o p -> P' o p) -> (forall p, E p -> E' p) -> res_post lo P' E' r.
  Proof. destruct r; cbn [res_post]; intros H Q1 Q2; auto. destruct H as (A & B & C). auto. Qed.

  Lemma parse_content_strict (x : res out) :
    parse_content false x = match x with REOS p => Ok (ONode None) p | y => y end.
  Proof. destruct x; reflexivity. Qed.

  (** * The collector *)
  Lemma cinv_empty pos : cinv pos cs_empty pos.
  Proof.
    split; [|reflexivity]. exists pos. cbn. repeat split; auto. symmetry; apply slice_nil. congruence.
  Qed.

  Lemma flush_done ps start st pos : cinvw start st pos -> pos <= L ->
    cdone start (flush ps st) pos /\ cs_pend (flush ps st) = [] /\ cs_ppos (flush ps st) = None
    \/ (cs_pend st = [] /\ flush ps st = st /\ cdone start st pos).
  Proof.
    intros (q & T & W & A & B & C) H. unfold flush.
    destruct (cs_pend st) as [|c r] eqn:E.
    - right. cbn [length] in A. assert (q = pos) by lia. subst q. repeat split; auto.
    - left. rewrite C by congruence. cbn [cs_acc cs_pend cs_ppos]. rewrite A. repeat split; auto.
      + eapply tiles_snoc; [exact T| |lia]. reflexivity.
      + apply wf_items_snoc; [exact W|]. cbn [mk_chars wf_node]. repeat split; auto; lia.
  Qed.

  Lemma flush_cdone ps start st pos : cinvw start st pos -> pos <= L -> cdone start (flush ps st) pos.
  Proof.
    intros A B. destruct (flush_done ps start st pos A B) as [(X & _)|(_ & -> & X)]; exact X.
  Qed.

  (** flushing a running state leaves an empty running state *)
  Lemma flush_cinv ps start st pos : cinv start st pos -> pos <= L ->
    cdone start (flush ps st) pos /\ cs_pend (flush ps st) = [] /\ cs_ppos (flush ps st) = None.
  Proof.
    intros [A N] B. destruct (flush_done ps start st pos A B) as [X|(E & -> & X)]; [exact X|].
    repeat split; auto; apply X.
  Qed.

  Lemma cdone_cinv start st p : cdone start st p -> cs_pend st = [] -> cs_ppos st = None -> cinv start st p.
  Proof.
    intros [T W] E N. split; [|auto]. exists p. rewrite E. cbn [length]. repeat split; auto.
    symmetry; apply slice_nil. congruence.
  Qed.

  Lemma push_cinvw start st pos c pos' : cinv start st pos -> c = slice s pos pos' -> pos <= pos' -> pos' <= L ->
    cinvw start (push_pending st c pos) pos' /\ (c <> [] -> cinv start (push_pending st c pos) pos').
  Proof.
    intros [(q & T & W & A & B & C) N] E H1 H2.
    assert (LE : length c = pos' - pos) by (rewrite E; apply slice_length; exact H2).
    assert (X : cinvw start (push_pending st c pos) pos').
    { exists q. unfold push_pending. cbn [cs_acc cs_pend cs_ppos]. rewrite app_length.
      repeat split; auto; try lia.
      - rewrite B, E. apply slice_app3; lia.
      - intros _. destruct (cs_pend st) as [|x r] eqn:EP.
        + rewrite N by reflexivity. cbn [length] in A. f_equal. lia.
        + rewrite C by congruence. reflexivity. }
    split; [exact X|]. intros NE. split; [exact X|].
    unfold push_pending. cbn [cs_pend]. intros Z. apply app_eq_nil in Z. tauto.
  Qed.

  (** the whitespace before a non-char token *)
  Lemma pre_result_ok ps o start st pos t : cinv start st pos -> tokfacts s pos t ->
    let st1 := fst (c_pre_result ps o st t) in
    cdone start st1 (tpos t) /\ cs_pend st1 = [] /\ cs_ppos st1 = None /\
    (snd (c_pre_result ps o st t) = true -> nl_stop_met (g_nl o) (cs_acc st1) = true).
  Proof.
    intros CI [F1 F2 F3 F4 _ _]. cbn zeta. unfold c_pre_result.
    destruct (cs_pend st) as [|c r] eqn:EP.
    - destruct CI as [(q & T & W & A & B & C) N]. rewrite EP in *. cbn [length] in A.
      assert (q = pos) by lia. subst q.
      destruct (tpre t) as [|c r] eqn:ET.
      + cbn [fst snd length] in *. rewrite Nat.add_0_r in F1. rewrite F1.
        repeat split; auto. discriminate.
      + cbn [fst snd]. unfold push_node. cbn [cs_acc cs_pend cs_ppos].
        assert (X : tpos t - length (c :: r) = pos) by lia. rewrite X.
        repeat split; auto.
        * eapply tiles_snoc; [exact T|reflexivity|lia].
        * apply wf_items_snoc; [exact W|]. cbn [mk_chars wf_node]. repeat split; auto; lia.
    - cbn [fst snd]. rewrite <- EP.
      assert (X : cinvw start {| cs_acc := cs_acc st; cs_pend := cs_pend st ++ tpre t; cs_ppos := cs_ppos st |}
                        (tpos t)).
      { destruct CI as [(q & T & W & A & B & C) N]. exists q. cbn [cs_acc cs_pend cs_ppos].
        rewrite app_length. repeat split; auto; try lia.
        - rewrite B, F2. apply slice_app3; lia.
        - intros _. apply C. rewrite EP. discriminate. }
      destruct (flush_done ps start _ (tpos t) X) as [(D & E1 & E2)|(E & _)]; [lia| |].
      + repeat split; auto; apply D.
      + cbn [cs_pend] in E. rewrite EP in E. discriminate.
  Qed.

  Section WithRec.
    Variable rec : task -> res out.
    Hypothesis IH : forall t, task_pre t -> post t (rec t).

    Lemma push_check_ok ps o start st1 q nd p :
      good ps -> good_opts o -> cdone start st1 q -> cs_pend st1 = [] -> cs_ppos st1 = None ->
      wf_node tx s nd -> nspan nd = Some (q, p) -> p <= L ->
      res_post q (coll_ok o start) never (c_push_check rec ps o st1 (Some nd) p p).
    Proof.
      intros G GO [T W] E N WN SP PL.
      destruct (wf_span_le tx s nd q p WN SP) as [QP _].
      assert (D : cdone start (push_node st1 (Some nd)) p).
      { split; unfold push_node; cbn [cs_acc].
        - eapply tiles_snoc; eauto.
        - apply wf_items_snoc; auto. }
      unfold c_push_check. cbn zeta.
      destruct (nl_stop_met (g_nl o) (cs_acc (push_node st1 (Some nd)))) eqn:NL.
      - unfold c_finish. cbn [res_post coll_ok stop_ok]. repeat split; auto; apply D.
      - assert (PRE : task_pre (TCollect ps o (push_node st1 (Some nd)) p)) by (split; cbn; auto).
        pose proof (IH _ PRE) as P. cbn [post] in P.
        eapply res_post_weaken; [apply P|exact QP].
        apply cdone_cinv; auto.
    Qed.

    Lemma good_child ps o t : good ps -> good_opts o -> good (child_state o ps t).
    Proof.
      unfold good_opts, child_state. intros G GO. destruct (g_child o); [exact G|].
      destruct (_ && _); tauto.
    Qed.

    Section Dispatch.
      Variables (ps : pstate) (o : genopts) (start : nat) (st1 : collstate) (pos : nat) (t : token).
      Hypothesis G : good ps.
      Hypothesis GO : good_opts o.
      Hypothesis PL : pos <= L.
      Hypothesis TF : tokfacts s pos t.
      Hypothesis D1 : cdone start st1 (tpos t).
      Hypothesis E1 : cs_pend st1 = [].
      Hypothesis N1 : cs_ppos st1 = None.

      Lemma pos_le_tpos : pos <= tpos t.
      Proof. destruct TF. lia. Qed.

      Lemma call_case sp : (tx = true -> spec_ok sp = true) ->
        res_post pos (coll_ok o start) never
          match parse_content false (rec (TCall (child_state o ps t) (c_tok0 t) sp (tend t))) with
          | Ok (ONode (Some n)) p => c_push_check rec ps o st1 (Some n) p p
          | Ok (ONode None) p => rec (TCollect ps o st1 p)
          | Ok _ p => RExn 9
          | PErr e p => PErr e p | REOS p => REOS p | RExn k => RExn k | OutOfFuel => OutOfFuel
          end.
      Proof.
        intros SO. pose proof pos_le_tpos as PT. destruct TF as [F1 F2 F3 F4 F5 F6].
        assert (PRE : task_pre (TCall (child_state o ps t) (c_tok0 t) sp (tend t))).
        { split; cbn [task_pos]; [exact F4|]. split; [apply good_child; assumption | exact SO]. }
        pose proof (IH _ PRE) as P. cbn [post] in P.
        assert (X : tpos (c_tok0 t) <= tend t) by (cbn; lia). specialize (P X). clear X.
        rewrite parse_content_strict.
        destruct (rec (TCall (child_state o ps t) (c_tok0 t) sp (tend t))) as [o1 p1|e p1|p1|k|];
          cbn [res_post] in P |- *; auto; [|contradiction].
        destruct P as (A & B & C). destruct o1 as [[n|]| |]; try contradiction.
        destruct C as [WN SP]. cbn [c_tok0 mk tpos] in SP.
        eapply res_post_weaken; [|exact PT]. eapply push_check_ok; eauto.
      Qed.

      Lemma dispatch_ok : tk t <> TkChar ->
        res_post pos (coll_ok o start) never (c_dispatch false cx rec ps o st1 t).
      Proof.
        intros NC. pose proof pos_le_tpos as PT. pose proof TF as [F1 F2 F3 F4 F5 F6].
        unfold c_dispatch. destruct (tk t) eqn:K; try exact I; try congruence.
        - (* macro *)
          destruct (get_macro_spec cx (targ t)) as [sp|] eqn:SPEC; [|exact I].
          apply call_case. intros TX. eapply (ctx_ok_spec cx TkMacro); eauto.
        - (* environment *)
          destruct (get_env_spec cx (targ t)) as [sp|] eqn:SPEC; [|exact I].
          apply call_case. intros TX. eapply (ctx_ok_spec cx TkBeginEnv); eauto.
        - (* comment *)
          eapply res_post_weaken; [|exact PT]. apply push_check_ok; auto.
          cbn [wf_node]. unfold tok_txt in F5. rewrite K in F5. cbn [app] in F5. repeat split; auto; lia.
        - (* group *)
          assert (GC : good (child_state o ps t)) by (apply good_child; assumption).
          assert (PRE : task_pre (TGroup (child_state o ps t) (GDStr (targ t)) false false (tpos t))).
          { split; cbn [task_pos]; [lia | exact GC]. }
          pose proof (IH _ PRE) as P. cbn [post group_gps] in P.
          rewrite parse_content_strict.
          destruct (rec (TGroup (child_state o ps t) (GDStr (targ t)) false false (tpos t))) as [o1 p1|e p1|p1|k|];
            cbn [res_post] in P |- *; auto.
          + destruct P as (A & B & C). destruct o1 as [[n|]| |]; try contradiction; [|discriminate].
            destruct C as (WN & a & SP & _ & EQ). rewrite (EQ eq_refl) in SP.
            eapply res_post_weaken; [|exact PT]. eapply push_check_ok; eauto.
          + exfalso. destruct P as (_ & fin & EOS).
            pose proof (good_peek_nonspace s _ (tpos t) GC (F6 ltac:(congruence) ltac:(congruence))) as Q.
            rewrite EOS in Q. exact Q.
        - (* inline math *)
          destruct (negb (by_open_has ps (targ t))); [exact I|].
          assert (GC : good (child_state o ps t)) by (apply good_child; assumption).
          assert (PRE : task_pre (TMath (child_state o ps t) (targ t) (tpos t))).
          { split; cbn [task_pos]; [lia | exact GC]. }
          pose proof (IH _ PRE) as P. cbn [post] in P.
          rewrite parse_content_strict.
          destruct (rec (TMath (child_state o ps t) (targ t) (tpos t))) as [o1 p1|e p1|p1|k|];
            cbn [res_post] in P |- *; auto.
          + destruct P as (A & B & C). destruct o1 as [[n|]| |]; try contradiction.
            destruct C as (WN & SP).
            eapply res_post_weaken; [|exact PT]. eapply push_check_ok; eauto.
          + exfalso. destruct P as (_ & fin & EOS).
            pose proof (good_peek_nonspace s _ (tpos t) GC (F6 ltac:(congruence) ltac:(congruence))) as Q.
            rewrite EOS in Q. exact Q.
        - (* display math *)
          destruct (negb (by_open_has ps (targ t))); [exact I|].
          assert (GC : good (child_state o ps t)) by (apply good_child; assumption).
          assert (PRE : task_pre (TMath (child_state o ps t) (targ t) (tpos t))).
          { split; cbn [task_pos]; [lia | exact GC]. }
          pose proof (IH _ PRE) as P. cbn [post] in P.
          rewrite parse_content_strict.
          destruct (rec (TMath (child_state o ps t) (targ t) (tpos t))) as [o1 p1|e p1|p1|k|];
            cbn [res_post] in P |- *; auto.
          + destruct P as (A & B & C). destruct o1 as [[n|]| |]; try contradiction.
            destruct C as (WN & SP).
            eapply res_post_weaken; [|exact PT]. eapply push_check_ok; eauto.
          + exfalso. destruct P as (_ & fin & EOS).
            pose proof (good_peek_nonspace s _ (tpos t) GC (F6 ltac:(congruence) ltac:(congruence))) as Q.
            rewrite EOS in Q. exact Q.
        - (* specials *)
          destruct (get_specials_spec cx (targ t)) as [sp|] eqn:SPEC; [|exact I].
          apply call_case. intros TX. eapply (ctx_ok_spec cx TkSpecials); eauto.
      Qed.
    End Dispatch.

    Lemma collect_ok ps o st pos : task_pre (TCollect ps o st pos) ->
      post (TCollect ps o st pos) (collect_step s false cx rec ps o st pos).
    Proof.
      intros (PL & G & GO). cbn [task_pos] in PL. cbn [post]. intros start CI.
      unfold collect_step. rewrite next_tok_strict.
      pose proof (good_peek s ps pos G PL) as TF.
      destruct (impl_peek ps s pos) as [t|fin|e]; [| |exact I].
      - (* a token *)
        pose proof TF as [F1 F2 F3 F4 F5 F6].
        destruct (stop_matches (g_stop o) t) eqn:SM.
        + (* the stop token *)
          unfold c_stop, c_finish. cbn zeta. cbn [res_post coll_ok stop_ok].
          assert (X : tpos t - length (tpre t) = pos) by lia. rewrite X.
          destruct (g_incl_pre o).
          * destruct (push_cinvw start st pos (tpre t) (tpos t) CI F2) as [W _]; try lia.
            repeat split; auto; try lia; apply (flush_cdone ps _ _ _ W); lia.
          * repeat split; auto; try lia; apply (flush_cdone ps _ _ _ (proj1 CI)); lia.
        + destruct (tk t) eqn:K.
          1: { (* characters *)
            assert (X : tpos t - length (tpre t) = pos) by lia. rewrite X.
            unfold tok_txt in F5. rewrite K in F5.
            assert (NE : tpre t ++ targ t <> []).
            { intros Z. apply app_eq_nil in Z. destruct Z as [_ Z]. rewrite Z in F5.
              apply (f_equal (@length N)) in F5. rewrite slice_length in F5 by exact F4. cbn in F5. lia. }
            destruct (push_cinvw start st pos (tpre t ++ targ t) (tend t) CI) as [_ W]; try lia.
            { rewrite F2, F5. apply slice_app3; lia. }
            assert (PRE : task_pre (TCollect ps o (push_pending st (tpre t ++ targ t) pos) (tend t)))
              by (split; cbn; auto).
            pose proof (IH _ PRE) as P. cbn [post] in P.
            eapply res_post_weaken; [apply P; apply W; exact NE | lia]. }
          all: destruct (pre_result_ok ps o start st pos t CI TF) as (D1 & E1 & N1 & B1); cbn zeta in *.
          all: destruct (snd (c_pre_result ps o st t)) eqn:SB;
            [ unfold c_finish; cbn [res_post coll_ok stop_ok]; repeat split; auto; try lia; apply D1
            | eapply dispatch_ok; eauto; congruence ].
      - (* end of stream *)
        subst fin. destruct (skipn pos s) as [|c r] eqn:SK.
        + apply skipn_nil_len in SK. unfold c_finish. cbn [res_post coll_ok stop_ok].
          repeat split; auto; try lia; apply (flush_cdone ps _ _ _ (proj1 CI)); lia.
        + assert (LEN : pos + length (c :: r) = L).
          { rewrite <- SK, skipn_length. apply skipn_cons_lt in SK. lia. }
          rewrite <- SK in *.
          destruct (push_cinvw start st pos (skipn pos s) (pos + length (skipn pos s)) CI) as [_ W]; try lia.
          { rewrite LEN. symmetry. apply slice_to_end. }
          assert (PRE : task_pre (TCollect ps o (push_pending st (skipn pos s) pos) (pos + length (skipn pos s))))
            by (split; cbn; auto; lia).
          pose proof (IH _ PRE) as P. cbn [post] in P.
          eapply res_post_weaken; [apply P; apply W; rewrite SK; discriminate | lia].
    Qed.
  End WithRec.

  Lemma nodelist_tiles x y l : tiles x y l ->
    (match first_pos l with Some _ => first_pos l | None => Some x end) = Some x /\
    (match last_end l with Some _ => last_end l | None => Some x end) = Some y.
  Proof.
    intros T. destruct l as [|o l].
    - cbn [tiles] in T. subst. cbn. auto.
    - destruct (tiles_ends _ _ _ T) as [A B]; [discriminate|]. rewrite A, B. auto.
  Qed.


  Lemma tokkind_eqb_true a b : tokkind_eqb a b = true -> a = b.
  Proof. destruct a, b; cbn; intros H; try discriminate; reflexivity. Qed.

  (** the well-formedness clause shared by group and math nodes *)
  Definition wf_delim (p e : nat) (dl dr : str) (b : option node) : Prop :=
    p <= e /\ e <= L /\ chain p e (body_items b) /\ body_in p e b /\
    match b with
    | None => True
    | Some x => wf_node tx s x /\ prefix dl (slice s p e) /\ suffix dr (slice s p e)
    end.

  Lemma delim_wf p0 p1 pc pe dl dr items :
    p0 < p1 -> tiles p1 pc items -> wf_items tx s items -> pc <= pe -> pe <= L ->
    dl = slice s p0 p1 -> dr = slice s pc pe ->
    wf_delim p0 pe dl dr (Some (NList (Some p1) (Some pc) items)).
  Proof.
    intros H1 T W H2 H3 E1 E2. pose proof (tiles_le _ _ _ T) as H4.
    unfold wf_delim. cbn [body_items body_in]. unfold nspan. cbn [node_pos node_end].
    split; [lia|]. split; [lia|]. split; [|split; [lia|split; [|split]]].
    - eapply chain_weaken; [apply tiles_chain; exact T | lia | lia].
    - rewrite wf_list. split; [|exact W]. split; [lia|]. split; [lia|]. apply tiles_chain; exact T.
    - eapply prefix_slice; [| |exact E1]; lia.
    - eapply suffix_slice; [| |exact E2]; lia.
  Qed.


  Lemma vscan_spec od cd l : forall depth n m, vscan od cd l depth n = Some m ->
    exists k, m = n + k /\ nth_error l k = Some cd.
  Proof.
    induction l as [|c r IH]; intros depth n m H; cbn [vscan] in H; [discriminate|].
    destruct (N.eqb c cd) eqn:E.
    - destruct depth as [|[|d']].
      + injection H as <-. exists 0. apply N.eqb_eq in E. subst. split; [lia|reflexivity].
      + injection H as <-. exists 0. apply N.eqb_eq in E. subst. split; [lia|reflexivity].
      + apply IH in H. destruct H as (k & -> & Hk). exists (S k). split; [lia|exact Hk].
    - destruct (N.eqb c od); apply IH in H; destruct H as (k & -> & Hk); exists (S k); (split; [lia|exact Hk]).
  Qed.

  Lemma nth_error_skipn_add {A} (l : list A) a k : nth_error (skipn a l) k = nth_error l (a + k).
  Proof.
    revert l. induction a as [|a IH]; intros l; [reflexivity|].
    destruct l as [|x l]; [destruct k; reflexivity|]. cbn [skipn Nat.add nth_error]. apply IH.
  Qed.

  Lemma verb_delims_od d c0 od cd : verb_delims d c0 = Some (od, cd) -> od = c0.
  Proof.
    unfold verb_delims. destruct d as [[o c]|].
    - destruct o as [|o1 [|? ?]]; try discriminate. destruct c as [|c1 [|? ?]]; try discriminate.
      destruct (N.eqb c0 o1) eqn:E; [|discriminate]. intros H. injection H as <- _.
      apply N.eqb_eq in E. congruence.
    - intros H. injection H as <- _. reflexivity.
  Qed.

  Section WithFuel.
    Variable f : nat.
    Hypothesis IH : forall t, task_pre t -> post t (run s false cx f t).

    Lemma general_step ps o pos : task_pre (TGeneral ps o pos) ->
      post (TGeneral ps o pos) (run s false cx (S f) (TGeneral ps o pos)).
    Proof.
      intros (PL & G & GO). cbn [task_pos] in PL. cbn [post run].
      assert (PRE : task_pre (TCollect ps o cs_empty pos)) by (split; cbn; auto).
      pose proof (IH _ PRE pos (cinv_empty pos)) as P.
      destruct (run s false cx f (TCollect ps o cs_empty pos)) as [o1 p1|e p1|p1|k|];
        cbn [res_post] in P |- *; auto.
      destruct P as (A & B & C). destruct o1 as [|st stopped nlmet eos|]; try exact I.
      destruct C as [[T W] SO].
      unfold mk_nodelist. destruct (nodelist_tiles _ _ _ T) as [M1 M2]. rewrite M1, M2.
      match goal with |- context [if negb ?m then _ else _] => destruct (negb m) eqn:MET end; [exact I|].
      apply negb_false_iff in MET.
      cbn [res_post]. unfold stop_ok in SO.
      assert (PP : match stopped with Some t => if g_handle_stop o then tend t else p1 | None => p1 end <= L
                   /\ p1 <= match stopped with Some t => if g_handle_stop o then tend t else p1 | None => p1 end).
      { destruct stopped as [t|]; [|lia]. destruct SO as (S1 & S2 & S3 & S4 & S5).
        destruct (g_handle_stop o); [|lia]. destruct (g_incl_pre o); lia. }
      split; [lia|]. split; [lia|].
      exists p1, (cs_acc st). repeat split; auto; try lia.
      intros RQ. rewrite RQ in MET. cbn [negb] in MET.
      destruct (g_stop o) eqn:GS; cbn [stop_is_none negb] in MET.
      - intros NL. rewrite NL in MET, SO. cbn [nlstop_is_none negb nl_stop_met] in *.
        destruct stopped as [t|]; [destruct SO as (S1 & _); discriminate|].
        destruct eos; [lia|discriminate].
      - destruct stopped as [t|]; [|discriminate]. destruct SO as (S1 & S2 & S3 & S4 & S5).
        exists t. repeat split; auto; intros HH; rewrite HH in *; auto.
      - destruct stopped as [t|]; [|discriminate]. destruct SO as (S1 & S2 & S3 & S4 & S5).
        exists t. repeat split; auto; intros HH; rewrite HH in *; auto.
      - destruct stopped as [t|]; [|discriminate]. destruct SO as (S1 & S2 & S3 & S4 & S5).
        exists t. repeat split; auto; intros HH; rewrite HH in *; auto.
      - destruct stopped as [t|]; [|discriminate]. destruct SO as (S1 & S2 & S3 & S4 & S5).
        exists t. repeat split; auto; intros HH; rewrite HH in *; auto.
    Qed.

    Lemma group_tail ps gps t pos od cd aps :
      good ps -> good gps -> tokfacts s pos t -> pos <= L ->
      tk t = TkBraceOpen -> targ t = od -> (aps = false -> tpre t = []) ->
      res_post pos
        (fun o p => match o with
                    | ONode None => False
                    | ONode (Some n) => wf_node tx s n /\ exists a, nspan n = Some (a, p) /\ pos <= a /\
                                                                 (aps = false -> a = pos)
                    | _ => False end) never
        match parse_content false
                (run s false cx f
                   (TGeneral gps {| g_stop := SBraceClose cd; g_nl := NLNone; g_require := true;
                                    g_child := CPGroup gps ps od; g_incl_pre := true; g_handle_stop := true |}
                             (tend t))) with
        | Ok (ONode body) p => Ok (ONode (Some (NGroup (tpos t) p (ps_mode gps) od cd body))) p
        | Ok _ p => RExn 9
        | PErr e p => PErr e p | REOS p => REOS p | RExn k => RExn k | OutOfFuel => OutOfFuel
        end.
    Proof.
      intros G GG [F1 F2 F3 F4 F5 F6] PL K OD AP.
      match goal with |- context [TGeneral gps ?o _] => set (og := o) end.
      assert (PRE : task_pre (TGeneral gps og (tend t))).
      { split; cbn [task_pos]; [exact F4|]. split; [exact GG|]. unfold good_opts, og. cbn. auto. }
      pose proof (IH _ PRE) as P. cbn [post] in P. rewrite parse_content_strict.
      destruct (run s false cx f (TGeneral gps og (tend t))) as [o1 p1|e p1|p1|k|];
        cbn [res_post] in P |- *; auto; [|destruct P].
      destruct P as (A & B & pc & items & -> & T & W & PC & RQ).
      specialize (RQ eq_refl). cbn [og g_stop g_handle_stop g_incl_pre] in RQ.
      destruct RQ as (t' & SM & LT & TXT & HS & IP). specialize (HS eq_refl). specialize (IP eq_refl).
      cbn [stop_matches] in SM. apply andb_true_iff in SM. destruct SM as [K' CD].
      apply tokkind_eqb_true in K'. apply sp_str_eqb_eq in CD.
      unfold tok_txt in F5, TXT. rewrite K in F5. rewrite K' in TXT.
      split; [lia|]. split; [exact B|]. split.
      - rewrite wf_group. apply delim_wf; auto; try lia; congruence.
      - exists (tpos t). split; [reflexivity|]. split; [lia|].
        intros E. rewrite (AP E) in F1. cbn [length] in F1. lia.
    Qed.

    Lemma group_step ps d optional aps pos : task_pre (TGroup ps d optional aps pos) ->
      post (TGroup ps d optional aps pos) (run s false cx (S f) (TGroup ps d optional aps pos)).
    Proof.
      intros (PL & G). cbn [task_pos] in PL. cbn [post run].
      change (match d with GDPair o c => ps_add_group ps o c | _ => ps end) with (group_gps ps d).
      assert (GG : good (group_gps ps d)) by (destruct d; cbn; auto using good_add_group).
      set (gps := group_gps ps d) in *. rewrite next_tok_strict.
      pose proof (good_peek s gps pos GG PL) as TF.
      destruct (impl_peek gps s pos) as [t|fin|e] eqn:PK; [| |exact I].
      2: { cbn [res_post]. split; eauto. }
      pose proof TF as [F1 F2 F3 F4 F5 F6].
      match goal with |- context [if negb ?m then _ else _] => destruct m eqn:OK end; cbn [negb].
      2: { destruct optional; [|exact I]. cbn [res_post]. repeat split; auto; lia. }
      apply andb_true_iff in OK. destruct OK as [OK1 OK2]. apply andb_true_iff in OK2. destruct OK2 as [K OD].
      apply tokkind_eqb_true in K.
      assert (AP : aps = false -> tpre t = []).
      { intros ->. cbn [orb] in OK1. destruct (tpre t); [reflexivity|discriminate]. }
      assert (TAIL : forall EP od cd, targ t = od ->
        res_post pos
          (fun o p => match o with
                      | ONode None => optional = true
                      | ONode (Some n) => wf_node tx s n /\ exists a, nspan n = Some (a, p) /\ pos <= a /\
                                                                   (aps = false -> a = pos)
                      | _ => False end)
          EP
          match parse_content false
                  (run s false cx f
                     (TGeneral gps {| g_stop := SBraceClose cd; g_nl := NLNone; g_require := true;
                                      g_child := CPGroup gps ps od; g_incl_pre := true; g_handle_stop := true |}
                               (tend t))) with
          | Ok (ONode body) p => Ok (ONode (Some (NGroup (tpos t) p (ps_mode gps) od cd body))) p
          | Ok _ p => RExn 9
          | PErr e p => PErr e p | REOS p => REOS p | RExn k => RExn k | OutOfFuel => OutOfFuel
          end).
      { intros EP od cd E. eapply res_post_mono; [eapply (group_tail ps gps t pos od cd aps); eauto| |].
        - intros o p _ _. destruct o as [[n|]| |]; auto.
        - intros p []. }
      destruct d as [|o0|o0 c0].
      - destruct (group_close_of gps (targ t)) as [c|]; [|exact I]. apply TAIL. reflexivity.
      - destruct (group_close_of gps o0) as [c|]; [|exact I]. apply TAIL. apply sp_str_eqb_eq. exact OD.
      - apply TAIL. apply sp_str_eqb_eq. exact OD.
    Qed.

    Lemma math_step ps d pos : task_pre (TMath ps d pos) ->
      post (TMath ps d pos) (run s false cx (S f) (TMath ps d pos)).
    Proof.
      intros (PL & G). cbn [task_pos] in PL. cbn [post run]. rewrite next_tok_strict.
      pose proof (good_peek s ps pos G PL) as TF.
      destruct (impl_peek ps s pos) as [t|fin|e] eqn:PK; [| |exact I].
      2: { cbn [res_post]. split; eauto. }
      pose proof TF as [F1 F2 F3 F4 F5 F6].
      match goal with |- context [if negb ?m then _ else _] => destruct m eqn:OK end; cbn [negb]; [|exact I].
      apply andb_true_iff in OK. destruct OK as [OK1 OD]. apply andb_true_iff in OK1. destruct OK1 as [PRE0 MD].
      assert (TP : tpos t = pos).
      { destruct (tpre t); [|discriminate]. cbn [length] in F1. lia. }
      set (mps := ps_enter_math ps (Some (targ t))) in *.
      assert (GM : good mps) by (apply good_enter_math; exact G).
      destruct (c_expect_close (ps_c mps)) as [[cd k]|]; [|exact I].
      match goal with |- context [TGeneral mps ?o _] => set (og := o) end.
      assert (PRE : task_pre (TGeneral mps og (tend t))).
      { split; cbn [task_pos]; [exact F4|]. split; [exact GM|]. unfold good_opts, og. cbn. auto. }
      pose proof (IH _ PRE) as P. cbn [post] in P. rewrite parse_content_strict.
      destruct (run s false cx f (TGeneral mps og (tend t))) as [o1 p1|e p1|p1|k1|];
        cbn [res_post] in P |- *; auto; [|destruct P].
      destruct P as (A & B & pc & items & -> & T & W & PC & RQ).
      specialize (RQ eq_refl). cbn [og g_stop g_handle_stop g_incl_pre] in RQ.
      destruct RQ as (t' & SM & LT & TXT & HS & IP). specialize (HS eq_refl). specialize (IP eq_refl).
      cbn [stop_matches] in SM. apply andb_true_iff in SM. destruct SM as [K' CD].
      apply tokkind_eqb_true in K'. apply sp_str_eqb_eq in CD.
      unfold tok_txt in F5, TXT. rewrite K' in TXT.
      assert (TX : targ t = slice s (tpos t) (tend t) /\ targ t' = slice s (tpos t') (tend t')).
      { unfold mode_of_tok in MD. apply orb_true_iff in MD.
        destruct MD as [MD|MD]; apply tokkind_eqb_true in MD; rewrite MD in *; auto. }
      destruct TX as [TX1 TX2].
      split; [lia|]. split; [exact B|]. split.
      - rewrite wf_math. apply delim_wf; auto; try lia; congruence.
      - rewrite <- TP. reflexivity.
    Qed.

    Lemma envbody_step ps name pos : task_pre (TEnvBody ps name pos) ->
      post (TEnvBody ps name pos) (run s false cx (S f) (TEnvBody ps name pos)).
    Proof.
      intros (PL & G). cbn [task_pos] in PL. cbn [post run].
      match goal with |- context [TGeneral ps ?o _] => set (og := o) end.
      assert (PRE : task_pre (TGeneral ps og pos)).
      { split; cbn [task_pos]; [exact PL|]. split; [exact G|]. unfold good_opts, og. cbn. auto. }
      pose proof (IH _ PRE) as P. cbn [post] in P. rewrite parse_content_strict.
      destruct (run s false cx f (TGeneral ps og pos)) as [o1 p1|e p1|p1|k1|];
        cbn [res_post] in P |- *; auto; [|destruct P].
      destruct P as (A & B & pc & items & -> & T & W & PC & RQ).
      cbn [res_post]. split; [lia|]. split; [exact B|]. exists pc, items. auto.
    Qed.

    Lemma e_finish_one ps acc x p : e_finish ps false acc [x] p = Ok (ONode x) p.
    Proof. unfold e_finish. cbn zeta. rewrite rev_app_distr. reflexivity. Qed.

    Lemma onode_post_weaken lo lo' r : res_post lo' (onode_res lo') (in_range lo') r -> lo <= lo' ->
      res_post lo (onode_res lo) (in_range lo) r.
    Proof.
      intros H Q. eapply res_post_weaken; [|exact Q]. eapply res_post_mono; [exact H| |].
      - intros o p _ _. destruct o as [[n|]| |]; cbn [onode_res]; auto.
        intros (W & a & SP & LE). split; [exact W|]. exists a. split; [exact SP|lia].
      - unfold in_range. intros p. lia.
    Qed.

    Lemma expr_step_ok ps aps apc full sterr acc pos : task_pre (TExpr ps aps apc full sterr acc pos) ->
      post (TExpr ps aps apc full sterr acc pos) (run s false cx (S f) (TExpr ps aps apc full sterr acc pos)).
    Proof.
      intros (PL & G). cbn [task_pos] in PL. cbn [post]. intros ->. rewrite run_expr.
      unfold expr_step. cbn zeta.
      set (eps := sub_context ps [UEnEnvs false]).
      assert (GE : good eps) by (apply good_noenvs; exact G).
      rewrite next_tok_strict. pose proof (good_peek s eps pos GE PL) as TF.
      destruct (impl_peek eps s pos) as [t|fin|e]; [|exact I|exact I].
      pose proof TF as [F1 F2 F3 F4 F5 F6]. unfold e_strict_err.
      assert (FIN : forall n, wf_node tx s n -> nspan n = Some (tpos t, tend t) ->
                    res_post pos (onode_res pos) (in_range pos) (e_finish ps false acc [Some n] (tend t))).
      { intros n W SP. rewrite e_finish_one. cbn [res_post onode_res]. split; [lia|]. split; [lia|].
        split; [exact W|]. exists (tpos t). split; [exact SP|lia]. }
      assert (REC : forall acc' p', pos <= p' -> p' <= L ->
                    res_post pos (onode_res pos) (in_range pos)
                             (run s false cx f (TExpr ps aps apc false sterr acc' p'))).
      { intros acc' p' H1 H2.
        assert (PRE : task_pre (TExpr ps aps apc false sterr acc' p')) by (split; cbn; auto).
        pose proof (IH _ PRE eq_refl) as P. eapply onode_post_weaken; eauto. }
      assert (OTHER :
        res_post pos (onode_res pos) (in_range pos)
          match tpre t with
          | _ :: _ =>
              if aps then
                run s false cx f (TExpr ps aps apc false sterr
                           (acc ++ [Some (mk_chars ps (tpos t - length (tpre t)) (tpos t) (tpre t))]) (tpos t))
              else PErr (mkerr (Some (tpos t - length (tpre t))) 12 None false None None) (tend t)
          | [] =>
            match tk t with
            | TkComment =>
                if apc then
                  run s false cx f (TExpr ps aps apc false sterr
                             (acc ++ [Some (NComment (tpos t) (tend t) (ps_mode ps) (targ t) (tpost t))]) (tend t))
                else PErr (mkerr (Some (tpos t)) 13 None false None None) (tend t)
            | TkBraceOpen =>
                match parse_content false (run s false cx f (TGroup ps (GDStr (targ t)) false false (tpos t))) with
                | Ok (ONode n) p => e_finish ps false acc [n] p
                | Ok _ p => RExn 9
                | PErr e p => PErr e p | REOS p => REOS p | RExn k => RExn k | OutOfFuel => OutOfFuel
                end
            | TkBraceClose =>
                PErr (mkerr (Some (tpos t)) 14 (Some (mk_chars ps (tpos t) (tpos t) [])) true (Some t) None) (tpos t)
            | TkChar => e_finish ps false acc [Some (mk_chars ps (tpos t) (tend t) (targ t))] (tend t)
            | TkMathInline | TkMathDisplay =>
                PErr (mkerr (Some (tpos t)) 15
                            (Some match targ t with
                                  | 92%N :: _ => NMacro (tpos t) (tend t) (ps_mode ps) (targ t) (tpost t) (Some ([], []))
                                  | _ => mk_chars ps (tpos t) (tend t) (targ t)
                                  end) true None (Some t)) (tend t)
            | _ => PErr (mkerr (Some (tpos t)) 16 None false None None) (tend t)
            end
          end).
      { destruct (tpre t) as [|c r] eqn:EP.
        - destruct (tk t) eqn:K; try exact I.
          + apply FIN; [|reflexivity]. cbn [mk_chars wf_node]. unfold tok_txt in F5. rewrite K in F5.
            repeat split; auto; lia.
          + destruct apc; [|exact I]. apply REC; lia.
          + assert (PRE : task_pre (TGroup ps (GDStr (targ t)) false false (tpos t))) by (split; cbn; auto; lia).
            pose proof (IH _ PRE) as P. cbn [post] in P. rewrite parse_content_strict.
            destruct (run s false cx f (TGroup ps (GDStr (targ t)) false false (tpos t))) as [o1 p1|e p1|p1|k1|];
              cbn [res_post] in P |- *; auto.
            * destruct P as (A & B & C). destruct o1 as [n| |]; try exact I.
              rewrite e_finish_one. cbn [res_post onode_res]. split; [lia|]. split; [lia|].
              destruct n as [n|]; [|exact I]. destruct C as (W & a & SP & LE & _).
              split; [exact W|]. exists a. split; [exact SP|lia].
            * destruct P as (-> & _). rewrite e_finish_one. cbn [res_post onode_res]. repeat split; lia.
        - destruct aps; [|exact I]. apply REC; lia. }
      destruct (tk t) eqn:K; try exact OTHER.
      - (* macro *)
        destruct (sterr && _); [exact I|].
        destruct (get_macro_spec cx (targ t)); [|exact I].
        apply FIN; [|reflexivity]. rewrite wf_macro. cbn [chain wf_items]. repeat split; auto; lia.
      - (* specials *)
        apply FIN; [|reflexivity]. rewrite wf_specials. cbn [chain wf_items]. repeat split; auto; lia.
    Qed.

    Lemma chars_step ps ch aps full pos : task_pre (TChars ps ch aps full pos) ->
      post (TChars ps ch aps full pos) (run s false cx (S f) (TChars ps ch aps full pos)).
    Proof.
      intros (PL & G & CH). cbn [task_pos] in PL. cbn [post run]. rewrite peek_tok_strict.
      pose proof (good_peek s ps pos G PL) as TF.
      destruct (impl_peek ps s pos) as [t|fin|e]; [| |exact I].
      2: { cbn [res_post]. unfold in_range. lia. }
      pose proof TF as [F1 F2 F3 F4 F5 F6].
      assert (BK : tpos t - length (tpre t) = pos) by lia. rewrite BK.
      assert (NONE : res_post pos (onode_res pos) (in_range pos) (Ok (ONode None) pos)).
      { cbn [res_post onode_res]. repeat split; lia. }
      destruct (_ && negb aps); [exact NONE|].
      assert (SOME : targ t = slice s (tpos t) (tend t) \/ targ t = [10; 10]%N ->
        res_post pos (onode_res pos) (in_range pos)
          match targ t with
          | [] => REOS pos
          | _ :: _ =>
              if str_eqb (targ t) ch
              then Ok (ONode (Some (if full then mk_nodelist None None [Some (mk_chars ps (tpos t) (tend t) ch)]
                                    else mk_chars ps (tpos t) (tend t) ch))) (tend t)
              else Ok (ONode None) pos
          end).
      { intros TX. destruct (targ t) as [|a0 ar] eqn:TA.
        - cbn [res_post]. unfold in_range. lia.
        - destruct (str_eqb (a0 :: ar) ch) eqn:SE; [|exact NONE].
          apply sp_str_eqb_eq in SE.
          assert (CE : tx = true -> ch = slice s (tpos t) (tend t)).
          { intros TT. destruct TX as [TX|TX]; [congruence|]. specialize (CH TT). rewrite <- SE, TX in CH. discriminate. }
          assert (WC : wf_node tx s (mk_chars ps (tpos t) (tend t) ch)).
          { cbn [mk_chars wf_node]. repeat split; auto; lia. }
          cbn [res_post onode_res]. split; [lia|]. split; [exact F4|].
          destruct full.
          + split.
            * unfold mk_nodelist. cbn [first_pos last_end rev app first_end mk_chars node_pos node_end].
              rewrite wf_list. cbn [chain wf_items nspan node_pos node_end]. unfold nspan. cbn [node_pos node_end].
              repeat split; auto; lia.
            * exists (tpos t). split; [reflexivity|lia].
          + split; [exact WC|]. exists (tpos t). split; [reflexivity|lia]. }
      unfold tok_txt in F5.
      destruct (tk t) eqn:K; try exact NONE.
      - apply SOME. left. exact F5.
      - apply SOME. exact F5.
    Qed.

    Lemma verb_step_ok ps d pos : task_pre (TVerbDelim ps d pos) ->
      post (TVerbDelim ps d pos) (run s false cx (S f) (TVerbDelim ps d pos)).
    Proof.
      intros (PL & _). cbn [task_pos] in PL. cbn [post]. rewrite run_verb. unfold verb_step. cbn zeta.
      destruct (peek_space_spec s pos PL) as (A & _ & C). cbn zeta in A, C.
      set (p0 := snd (peek_space s pos)) in *.
      destruct (nth_error s p0) as [c0|] eqn:N0.
      2: { cbn [res_post]. unfold in_range. lia. }
      destruct (verb_delims d c0) as [[od cd]|] eqn:VD; [|exact I].
      apply verb_delims_od in VD. subst od.
      destruct (vscan c0 cd (skipn (S p0) s) 1 0) as [n|] eqn:SC; [|exact I].
      apply vscan_spec in SC. destruct SC as (k & -> & NK). cbn [Nat.add] in *.
      rewrite nth_error_skipn_add in NK.
      assert (KL : S p0 + k < L) by (apply nth_error_Some; congruence).
      cbn [res_post onode_res]. split; [lia|]. split; [lia|]. split.
      - rewrite wf_group. unfold mk_nodelist, mk_chars.
        cbn [first_pos last_end rev app first_end node_pos node_end body_items body_in chain nspan].
        split; [lia|]. split; [lia|]. split; [lia|]. split; [lia|]. split; [|split].
        + rewrite wf_list. cbn [chain wf_items wf_node nspan node_pos node_end].
          repeat split; auto; lia.
        + eapply prefix_slice; [| |symmetry; apply slice_one; exact N0]; lia.
        + eapply suffix_slice; [| |symmetry; apply slice_one; exact NK]; lia.
      - exists p0. split; [reflexivity|lia].
    Qed.

    Lemma stdarg_step ps k pos : task_pre (TStdArg ps k pos) ->
      post (TStdArg ps k pos) (run s false cx (S f) (TStdArg ps k pos)).
    Proof.
      intros (PL & G & KO). cbn [task_pos] in PL. cbn [post run]. rewrite parse_content_strict.
      destruct k as [aps|o c opt aps|ch aps full|d].
      - assert (PRE : task_pre (TExpr ps aps aps false true [] pos)) by (split; cbn; auto).
        pose proof (IH _ PRE eq_refl) as P.
        destruct (run s false cx f (TExpr ps aps aps false true [] pos)); cbn [res_post] in P |- *; auto.
        unfold in_range in P. cbn [onode_res]. tauto.
      - assert (PRE : task_pre (TGroup ps (GDPair o c) opt aps pos)) by (split; cbn; auto).
        pose proof (IH _ PRE) as P. cbn [post] in P.
        destruct (run s false cx f (TGroup ps (GDPair o c) opt aps pos)) as [o1 p1|e p1|p1|k1|];
          cbn [res_post] in P |- *; auto.
        + destruct P as (A & B & C). split; [exact A|]. split; [exact B|].
          destruct o1 as [[n|]| |]; cbn [onode_res]; auto.
          destruct C as (W & a & SP & LE & _). split; [exact W|]. exists a. auto.
        + destruct P as (-> & _). cbn [onode_res]. repeat split; lia.
      - assert (CH : tx = true -> length ch = 1).
        { intros TT. specialize (KO TT). cbn [kind_ok] in KO. apply Nat.eqb_eq in KO. exact KO. }
        assert (PRE : task_pre (TChars ps ch aps full pos)) by (split; cbn; auto).
        pose proof (IH _ PRE) as P. cbn [post] in P.
        destruct (run s false cx f (TChars ps ch aps full pos)); cbn [res_post] in P |- *; auto.
        unfold in_range in P. cbn [onode_res]. tauto.
      - assert (PRE : task_pre (TVerbDelim ps d pos)) by (split; cbn; auto).
        pose proof (IH _ PRE) as P. cbn [post] in P.
        destruct (run s false cx f (TVerbDelim ps d pos)); cbn [res_post] in P |- *; auto.
        unfold in_range in P. cbn [onode_res]. tauto.
    Qed.

    Lemma args_step ps specs acc pos : task_pre (TArgs ps specs acc pos) ->
      post (TArgs ps specs acc pos) (run s false cx (S f) (TArgs ps specs acc pos)).
    Proof.
      intros (PL & G & KO). cbn [task_pos] in PL. cbn [post run]. intros lo CH W.
      destruct specs as [|a rest].
      - cbn [res_post]. split; [lia|]. split; [exact PL|]. exists acc. auto.
      - assert (KA : tx = true -> kind_ok (a_kind a) = true).
        { intros TT. specialize (KO TT). cbn [forallb] in KO. apply andb_true_iff in KO. tauto. }
        assert (KR : tx = true -> forallb (fun a => kind_ok (a_kind a)) rest = true).
        { intros TT. specialize (KO TT). cbn [forallb] in KO. apply andb_true_iff in KO. tauto. }
        destruct (peek_tok s false ps pos); [| |exact I].
        all: (assert (PRE : task_pre (TStdArg (apply_adelta ps (a_delta a)) (a_kind a) pos))
               by (split; cbn; auto using good_adelta);
              pose proof (IH _ PRE) as P; cbn [post] in P; rewrite parse_content_strict;
              destruct (run s false cx f (TStdArg (apply_adelta ps (a_delta a)) (a_kind a) pos)) as [o1 p1|e p1|p1|k1|];
                cbn [res_post] in P |- *; auto; [|destruct P];
              destruct P as (A & B & C); destruct o1 as [n| |]; try exact I;
              assert (PRE2 : task_pre (TArgs ps rest (acc ++ [n]) p1)) by (split; cbn; auto);
              pose proof (IH _ PRE2) as P2; cbn [post] in P2;
              eapply res_post_weaken; [apply P2|exact A]).
        all: try (apply wf_items_snoc_o; [exact W|]; destruct n as [n|]; [apply C|exact I]).
        all: destruct n as [n|];
          [ destruct C as (WN & a0 & SP & LE); destruct (wf_span_le tx s n a0 p1 WN SP) as [Q1 Q2];
            eapply chain_snoc; eauto; lia
          | apply chain_snoc_none; eapply chain_weaken; eauto ].
    Qed.

    Definition legacy_okP (pos : nat) (o : out) (p : nat) : Prop :=
      exists sp l, o = OArgs (Some (sp, l)) /\ chain pos p l /\ wf_items tx s l.

    Lemma legacy_tail ps pos endcode sp al p : pos <= p -> p <= L -> chain pos p al -> wf_items tx s al ->
      res_post pos (legacy_okP pos) never
        match sfind s endcode p with
        | None => PErr (mkerr (Some p) 21 None false None None) pos
        | Some e => Ok (OArgs (Some (sp ++ [[123%N]], al ++ [Some (mk_chars ps p e (slice s p e))]))) e
        end.
    Proof.
      intros H1 H2 CH W. unfold sfind. destruct (find_from s endcode p) as [e|] eqn:F; [|exact I].
      apply find_from_bound in F. destruct F as [F1 F2].
      cbn [res_post]. split; [lia|]. split; [lia|]. eexists _, _. split; [reflexivity|]. split.
      - eapply chain_snoc; [exact CH|reflexivity| | |]; lia.
      - apply wf_items_snoc; [exact W|]. cbn [mk_chars wf_node]. repeat split; auto; lia.
    Qed.

    Lemma legacy_step ps k pos : task_pre (TLegacyArgs ps k pos) ->
      post (TLegacyArgs ps k pos) (run s false cx (S f) (TLegacyArgs ps k pos)).
    Proof.
      intros (PL & G). cbn [task_pos] in PL. cbn [post run]. fold (legacy_okP pos).
      destruct k as [|name optarg].
      - destruct (peek_space_spec s pos PL) as (A & _ & C). cbn zeta in A, C.
        set (p1 := snd (peek_space s pos)) in *.
        destruct (nth_error s p1) as [dc|]; [|exact I].
        unfold sfind. destruct (find_from s [dc] (S p1)) as [e|] eqn:F; [|exact I].
        apply find_from_bound in F. cbn [length] in F. destruct F as [F1 F2].
        cbn [res_post]. split; [lia|]. split; [lia|]. eexists _, _. split; [reflexivity|].
        cbn [chain wf_items mk_chars wf_node nspan node_pos node_end]. repeat split; auto; lia.
      - set (endcode := ([92; 101; 110; 100; 123]%N ++ name ++ [125%N])).
        assert (GRP : res_post pos (legacy_okP pos) never
          match
            match parse_content false (run s false cx f (TGroup ps (GDPair [91%N] [93%N]) true false pos)) with
            | Ok (ONode n) p => Ok ([[91%N]], [n], p) p
            | Ok _ p => RExn 9
            | PErr e p => PErr e p | REOS p => REOS p | RExn k2 => RExn k2
            | OutOfFuel => OutOfFuel end
          with
          | Ok (sp, al, p) _ =>
              match sfind s endcode p with
              | None => PErr (mkerr (Some p) 21 None false None None) pos
              | Some e => Ok (OArgs (Some (sp ++ [[123%N]], al ++ [Some (mk_chars ps p e (slice s p e))]))) e
              end
          | PErr e p => PErr e p | REOS p => REOS p | RExn k2 => RExn k2 | OutOfFuel => OutOfFuel
          end).
        { assert (PRE : task_pre (TGroup ps (GDPair [91%N] [93%N]) true false pos)) by (split; cbn; auto).
          pose proof (IH _ PRE) as P. cbn [post] in P. rewrite parse_content_strict.
          destruct (run s false cx f (TGroup ps (GDPair [91%N] [93%N]) true false pos)) as [o1 p1|e p1|p1|k1|];
            cbn [res_post] in P |- *; auto.
          - destruct P as (A & B & C). destruct o1 as [n| |]; try exact I.
            apply legacy_tail; auto.
            + destruct n as [n|]; cbn [chain]; [|lia]. destruct C as (W & a & SP & LE & _).
              destruct (wf_span_le tx s n a p1 W SP) as [Q1 Q2]. rewrite SP. lia.
            + destruct n as [n|]; cbn [wf_items]; [|exact I]. split; [apply C|exact I].
          - destruct P as (-> & _). apply legacy_tail; cbn [chain wf_items]; auto. }
        destruct optarg.
        + destruct (nth_error s pos) as [c|]; [|exact GRP].
          destruct (is_space c); [|exact GRP].
          apply legacy_tail; cbn [chain wf_items]; auto.
        + apply legacy_tail; cbn [chain wf_items]; auto.
    Qed.

    Lemma call_tail ps t sp pos spx l p : good ps -> tpos t <= pos -> pos <= p -> p <= L ->
      chain pos p l -> wf_items tx s l ->
      res_post pos (fun o p => match o with
                               | ONode (Some n) => wf_node tx s n /\ nspan n = Some (tpos t, p)
                               | _ => False end) never
        match tk t with
        | TkBeginEnv =>
            match parse_content false
                    (run s false cx f (TEnvBody (if sp_body_math sp then ps_enter_math ps None else ps) (targ t) p)) with
            | Ok (ONode body) p2 => Ok (ONode (Some (NEnv (tpos t) p2 (ps_mode ps) (targ t) (Some (spx, l)) body))) p2
            | Ok _ p2 => RExn 9
            | PErr e p2 => PErr e p2 | REOS p2 => REOS p2 | RExn k => RExn k | OutOfFuel => OutOfFuel
            end
        | TkSpecials => Ok (ONode (Some (NSpecials (tpos t) p (ps_mode ps) (targ t) (Some (spx, l))))) p
        | _ => Ok (ONode (Some (NMacro (tpos t) p (ps_mode ps) (targ t) (tpost t) (Some (spx, l))))) p
        end.
    Proof.
      intros G TP H1 H2 CH W.
      assert (CH' : chain (tpos t) p l) by (eapply chain_weaken; eauto).
      assert (MAC : res_post pos (fun o p => match o with
                               | ONode (Some n) => wf_node tx s n /\ nspan n = Some (tpos t, p)
                               | _ => False end) never
                 (Ok (ONode (Some (NMacro (tpos t) p (ps_mode ps) (targ t) (tpost t) (Some (spx, l))))) p)).
      { cbn [res_post]. split; [lia|]. split; [lia|]. split; [|reflexivity].
        rewrite wf_macro. repeat split; auto; lia. }
      destruct (tk t); try exact MAC.
      (* (the specials node has the same well-formedness clause as the macro node) *)
      - set (bps := if sp_body_math sp then ps_enter_math ps None else ps).
        assert (GB : good bps) by (unfold bps; destruct (sp_body_math sp); auto using good_enter_math).
        assert (PRE : task_pre (TEnvBody bps (targ t) p)) by (split; cbn; auto).
        pose proof (IH _ PRE) as P. cbn [post] in P. rewrite parse_content_strict.
        destruct (run s false cx f (TEnvBody bps (targ t) p)) as [o1 p1|e p1|p1|k1|];
          cbn [res_post] in P |- *; auto; [|destruct P].
        destruct P as (A & B & pc & items & -> & T & WI & PC).
        pose proof (tiles_le _ _ _ T) as TL.
        split; [lia|]. split; [lia|]. split; [|reflexivity].
        rewrite wf_env. cbn [arg_items body_items body_in nspan node_pos node_end].
        split; [lia|]. split; [lia|]. split; [|split; [lia|split; [exact W|]]].
        + eapply chain_app; [exact CH'|]. eapply chain_weaken; [apply tiles_chain; exact T|lia|lia].
        + rewrite wf_list. split; [|exact WI]. split; [lia|]. split; [lia|]. apply tiles_chain; exact T.
    Qed.

    Lemma call_step ps t sp pos : task_pre (TCall ps t sp pos) ->
      post (TCall ps t sp pos) (run s false cx (S f) (TCall ps t sp pos)).
    Proof.
      intros (PL & G & SO). cbn [task_pos] in PL. cbn [post run]. intros TP.
      destruct (sp_args sp) as [l0|k] eqn:SA; unfold parse_content_args; rewrite !parse_content_strict.
      - assert (KO : tx = true -> forallb (fun a => kind_ok (a_kind a)) l0 = true).
        { intros TT. specialize (SO TT). unfold spec_ok in SO. rewrite SA in SO. exact SO. }
        assert (PRE : task_pre (TArgs ps l0 [] pos)) by (split; cbn; auto).
        pose proof (IH _ PRE) as P. cbn [post] in P.
        assert (C0 : chain pos pos []) by (cbn; lia). specialize (P pos C0 I).
        destruct (run s false cx f (TArgs ps l0 [] pos)) as [o1 p1|e p1|p1|k1|];
          cbn [res_post] in P |- *; auto; [|destruct P].
        destruct P as (A & B & l & -> & CH & W).
        apply call_tail; auto.
      - assert (PRE : task_pre (TLegacyArgs ps k pos)) by (split; cbn; auto).
        pose proof (IH _ PRE) as P. cbn [post] in P.
        destruct (run s false cx f (TLegacyArgs ps k pos)) as [o1 p1|e p1|p1|k1|];
          cbn [res_post] in P |- *; auto; [|destruct P].
        destruct P as (A & B & spx & l & -> & CH & W).
        apply call_tail; auto.
    Qed.
  End WithFuel.

  (** * Every task, every fuel *)
  Theorem run_post : forall fuel t, task_pre t -> post t (run s false cx fuel t).
  Proof.
    induction fuel as [|f IH]; intros t PRE.
    - cbn [run]. destruct t; cbn [post]; intros; exact I.
    - destruct t.
      + rewrite run_collect. apply collect_ok; assumption.
      + apply general_step; assumption.
      + apply group_step; assumption.
      + apply math_step; assumption.
      + apply envbody_step; assumption.
      + apply expr_step_ok; assumption.
      + apply chars_step; assumption.
      + apply verb_step_ok; assumption.
      + apply stdarg_step; assumption.
      + apply args_step; assumption.
      + apply legacy_step; assumption.
      + apply call_step; assumption.
  Qed.

  Lemma good_walker : good (walker_state cx).
  Proof. apply good_fresh; reflexivity. Qed.

  (** the top-level parse, for every fuel *)
  Theorem top_strict fuel a b items p :
    parse_content false (run s false cx fuel (TGeneral (walker_state cx) top_opts 0))
      = Ok (ONode (Some (NList a b items))) p ->
    a = Some 0 /\ b = Some L /\ p = L /\ tiles 0 L items /\ wf_items tx s items.
  Proof.
    assert (PRE : task_pre (TGeneral (walker_state cx) top_opts 0)).
    { split; cbn [task_pos]; [lia|]. split; [apply good_walker | exact I]. }
    pose proof (run_post fuel _ PRE) as P. cbn [post] in P. rewrite parse_content_strict.
    destruct (run s false cx fuel (TGeneral (walker_state cx) top_opts 0)) as [o1 p1|e p1|p1|k1|];
      cbn [res_post] in P; try discriminate.
    destruct P as (A & B & pc & it & -> & T & W & PC & RQ).
    specialize (RQ eq_refl). cbn [top_opts g_stop g_nl] in RQ. destruct (RQ eq_refl) as [-> ->].
    intros E. injection E as <- <- <- <-. auto.
  Qed.
End Strict.

(** * The strict-mode theorems about [parse_top] *)

(** positions, tiling, nesting, comment text, delimiters: every string, EVERY context *)
Theorem parse_top_strict_tiles s cx a b items p :
  parse_top s false cx (walker_state cx) = Ok (ONode (Some (NList a b items))) p ->
  a = Some 0 /\ b = Some (length s) /\ p = length s /\ tiles 0 (length s) items.
Proof.
  intros H. unfold parse_top in H.
  apply (top_strict s cx false (fun E => False_ind _ (Bool.diff_false_true E))) in H. tauto.
Qed.

Lemma wf_of_top tx s a b items : a = Some 0 -> b = Some (length s) -> tiles 0 (length s) items ->
  wf_items tx s items -> wf_node tx s (NList a b items).
Proof.
  intros -> -> T W. rewrite wf_list. split; [|exact W].
  split; [lia|]. split; [lia|]. apply tiles_chain. exact T.
Qed.

Theorem parse_top_strict_wf_any s cx a b items p :
  parse_top s false cx (walker_state cx) = Ok (ONode (Some (NList a b items))) p ->
  wf_node false s (NList a b items).
Proof.
  intros H. unfold parse_top in H.
  apply (top_strict s cx false (fun E => False_ind _ (Bool.diff_false_true E))) in H.
  destruct H as (A & B & _ & T & W). apply wf_of_top; assumption.
Qed.

(** the same with the text of every chars node, under the context condition *)
Theorem parse_top_strict_wf s cx a b items p : ctx_ok cx = true ->
  parse_top s false cx (walker_state cx) = Ok (ONode (Some (NList a b items))) p ->
  wf_node true s (NList a b items).
Proof.
  intros CX H. unfold parse_top in H. apply (top_strict s cx true (fun _ => CX)) in H.
  destruct H as (A & B & _ & T & W). apply wf_of_top; assumption.
Qed.

Theorem parse_top_strict_verbatim s cx a b items p :
  parse_top s false cx (walker_state cx) = Ok (ONode (Some (NList a b items))) p ->
  concat (map (verbatim_o s) items) = s /\ verbatim s (NList a b items) = s.
Proof.
  intros H. apply parse_top_strict_tiles in H. destruct H as (-> & -> & _ & T). split.
  - rewrite (tiles_concat s 0 (length s) items T (le_n _)). apply slice_all.
  - unfold verbatim, nspan. cbn [node_pos node_end]. apply slice_all.
Qed.

(** a strict parse that returns a value returns a positioned node list (never [None], never a lone node) *)
Theorem parse_top_strict_shape s cx o p :
  parse_top s false cx (walker_state cx) = Ok o p ->
  exists items, o = ONode (Some (NList (Some 0) (Some (length s)) items)).
Proof.
  intros H. unfold parse_top in H. rewrite parse_content_strict in H.
  assert (PRE : task_pre s false (TGeneral (walker_state cx) top_opts 0)).
  { split; cbn [task_pos]; [lia|]. split; [apply good_walker | exact I]. }
  pose proof (run_post s cx false (fun E => False_ind _ (Bool.diff_false_true E)) (parse_fuel s cx) _ PRE) as P.
  cbn [post] in P.
  destruct (run s false cx (parse_fuel s cx) (TGeneral (walker_state cx) top_opts 0)) as [o1 p1|e p1|p1|k1|];
    cbn [res_post] in P; try discriminate; [|destruct P].
  destruct P as (A & B & pc & it & -> & T & W & PC & RQ).
  specialize (RQ eq_refl). cbn [top_opts g_stop g_nl] in RQ. destruct (RQ eq_refl) as [-> ->].
  injection H as <- <-. eauto.
Qed.

(** the empty input, every context, both modes *)
Theorem parse_top_empty tol cx :
  parse_top [] tol cx (walker_state cx) = Ok (ONode (Some (NList (Some 0) (Some 0) []))) 0.
Proof. destruct tol; reflexivity. Qed.
