(** Property C10, the main induction: every node produced by the parser model
    carries the mode implied by the enclosing structure ([Proofs/ParserModesSpec.v]).

    [run_post]: for every fuel and every task, run with a parsing state [ps]
    satisfying the reachable-state invariant [good], the nodes of the result are
    implied w.r.t. [ps_mode ps] — the single node of a parser task, every
    collected node of a collector task (w.r.t. the collector's state; the child
    states of [child_state] have the same mode), the argument list of an
    arguments task (i-th argument w.r.t. the i-th delta).  In tolerant mode the
    recovery nodes carried by every [PErr] are implied as well (that is what
    [parse_content] returns after a recovered error); in strict mode an error
    is never turned into a result, and nothing is claimed about its payload
    (an outer general-nodes parser re-wraps the items collected by an inner
    one, whatever their mode). *)
From Coq Require Import NArith List Bool Arith Lia.
From PLV Require Import Base.PyStr Tok.PState Tok.Tokenizer Parse.Nodes Parse.Parser.
From PLV Require Import Parse.ParseWire.
From PLV Require Import Proofs.PStateProofs Proofs.TokProofs Proofs.ParserModesSpec Proofs.ParserModesState.
Import ListNotations.

Section Modes.
  Variable s : str.
  Variable tol : bool.
  Variable cx : context.

  Definition err_ok (m : nmode) (e : perr) : Prop := tol = true -> oimpliedb cx m (pe_nodes e) = true.
  Definition res_ok (m : nmode) (r : res out) : Prop :=
    match r with
    | Ok (ONode n) _ => oimpliedb cx m n = true
    | PErr e _ => err_ok m e
    | _ => True
    end.
  Definition coll_ok (m : nmode) (r : res out) : Prop :=
    match r with
    | Ok (OColl st' _ _ _) _ => all_impliedb cx m (cs_acc st') = true
    | PErr e _ => err_ok m e
    | _ => True
    end.
  Definition args_ok (m : nmode) (ds : list adelta) (acc : list (option node)) (r : res out) : Prop :=
    match r with
    | Ok (OArgs (Some (_, al))) _ => exists new, al = acc ++ new /\ args_impliedb cx m ds new = true
    | PErr e _ => err_ok m e
    | _ => True
    end.
  Definition largs_ok (m : nmode) (r : res out) : Prop :=
    match r with
    | Ok (OArgs (Some (_, al))) _ => all_impliedb cx m al = true
    | PErr e _ => err_ok m e
    | _ => True
    end.
  Definition child_ok (ps : pstate) (c : childpol) : Prop :=
    match c with
    | CPSelf => True
    | CPGroup a b _ => good a /\ good b /\ ps_mode a = ps_mode ps /\ ps_mode b = ps_mode ps
    end.
  Definition call_spec (k : tokkind) (nm : str) : option cspec :=
    match k with
    | TkBeginEnv => get_env_spec cx nm
    | TkSpecials => get_specials_spec cx nm
    | _ => get_macro_spec cx nm
    end.

  Definition post (t : task) (r : res out) : Prop :=
    match t with
    | TCollect ps o st _ =>
        good ps -> child_ok ps (g_child o) -> all_impliedb cx (ps_mode ps) (cs_acc st) = true ->
        coll_ok (ps_mode ps) r
    | TGeneral ps o _ => good ps -> child_ok ps (g_child o) -> res_ok (ps_mode ps) r
    | TGroup ps _ _ _ _ => good ps -> res_ok (ps_mode ps) r
    | TMath ps _ _ => good ps -> res_ok (ps_mode ps) r
    | TEnvBody ps _ _ => good ps -> res_ok (ps_mode ps) r
    | TExpr ps _ _ _ _ acc _ => good ps -> all_impliedb cx (ps_mode ps) acc = true -> res_ok (ps_mode ps) r
    | TChars ps _ _ _ _ => good ps -> res_ok (ps_mode ps) r
    | TVerbDelim ps _ _ => good ps -> res_ok (ps_mode ps) r
    | TStdArg ps _ _ => good ps -> res_ok (ps_mode ps) r
    | TArgs ps specs acc _ => good ps -> args_ok (ps_mode ps) (map a_delta specs) acc r
    | TLegacyArgs ps _ _ => good ps -> largs_ok (ps_mode ps) r
    | TCall ps t sp _ => good ps -> call_spec (tk t) (targ t) = Some sp -> res_ok (ps_mode ps) r
    end.

  Lemma parse_content_res_ok m r : res_ok m r -> res_ok m (parse_content tol r).
  Proof.
    destruct r as [o p|e p|p|k|]; cbn [parse_content]; intros H; try exact H; try exact I.
    - destruct tol eqn:T; [|intros T'; congruence]. cbn [res_ok]. apply H. exact T.
    - reflexivity.
  Qed.
  Lemma parse_content_perr r e p m : parse_content tol r = PErr e p -> err_ok m e.
  Proof.
    destruct r as [o p0|e0 p0|p0|k|]; cbn [parse_content]; try discriminate.
    destruct tol eqn:T; [discriminate|]. intros _ T'. congruence.
  Qed.
  Lemma parse_content_args_perr r e p m : parse_content_args tol r = PErr e p -> err_ok m e.
  Proof.
    unfold parse_content_args. destruct (parse_content tol r) as [[[n|]|?|?] p0|e0 p0|p0|k|] eqn:E; try discriminate.
    intros H. injection H as <- <-. eapply parse_content_perr. exact E.
  Qed.

  Lemma mk_chars_ok ps p e c : impliedb cx (ps_mode ps) (mk_chars ps p e c) = true.
  Proof. unfold mk_chars. cbn. apply nmode_eqb_rfl. Qed.

  Lemma flush_ok ps st : all_impliedb cx (ps_mode ps) (cs_acc st) = true ->
    all_impliedb cx (ps_mode ps) (cs_acc (flush ps st)) = true.
  Proof.
    intros H. unfold flush. destruct (cs_pend st); [exact H|]. cbn [cs_acc].
    apply all_impliedb_snoc; [exact H|]. cbn [oimpliedb]. apply mk_chars_ok.
  Qed.

  Lemma parse_content_args_ok r a p :
    parse_content_args tol r = Ok (OArgs a) p -> a = None \/ r = Ok (OArgs a) p.
  Proof.
    unfold parse_content_args. destruct r as [[[n|]|?|a0] p0|e0 p0|p0|k|]; cbn [parse_content]; try discriminate;
      try (intros H; injection H as <- <-; auto).
    - destruct tol; [|discriminate]. destruct (pe_nodes e0); intros H; injection H as <- <-; auto.
  Qed.

  Lemma fixed_args_ok m sp a (r : res out) p :
    (a = None \/ r = Ok (OArgs a) p) ->
    match sp_args sp with
    | APStd l => args_ok m (map a_delta l) [] r
    | APLegacy _ => largs_ok m r
    end ->
    oargs_impliedb cx m (Some sp)
      match a with
      | Some (_, al) => match sp_args sp with APStd l => Some (map a_spec l, al) | APLegacy _ => a end
      | None => a
      end = true.
  Proof.
    intros [->| ->]; [reflexivity|]. destruct a as [[spl al]|]; [|reflexivity].
    unfold oargs_impliedb, arg_deltas. destruct (sp_args sp) as [l|k]; cbn [args_ok largs_ok app].
    - intros (new & -> & H). exact H.
    - intros H. rewrite args_impliedb_nil. exact H.
  Qed.

  Lemma err_ok_none m a b c d e : err_ok m (mkerr a b None c d e).
  Proof. intros _. reflexivity. Qed.
  Lemma err_ok_tok m e : err_ok m (tokerr_perr e).
  Proof. intros _. reflexivity. Qed.
  Lemma err_ok_empty m a b c d e p q : err_ok m (mkerr a b (Some (NList p q [])) c d e).
  Proof. intros _. reflexivity. Qed.

  Lemma strict_err_ok m (k : res out) a b p :
    res_ok m k -> res_ok m (if tol then k else PErr (mkerr a b None false None None) p).
  Proof. intros H. destruct tol; [exact H | apply err_ok_none]. Qed.

  Definition expr_finish (ps : pstate) (full : bool) (acc more : list (option node)) (p : nat) : res out :=
    let nodes := acc ++ more in
    let nl := match nodes with
              | [] => mk_nodelist (Some p) (Some p) []
              | _ => mk_nodelist None None nodes
              end in
    if full then Ok (ONode (Some nl)) p
    else match rev nodes with
         | last :: _ => Ok (ONode last) p
         | [] => match nl with
                 | NList a b _ =>
                     Ok (ONode (Some (NGroup (match a with Some x => x | None => 0 end)
                                             (match b with Some x => x | None => 0 end)
                                             (ps_mode ps) [] [] (Some nl)))) p
                 | _ => RExn 9 end
         end.

  Lemma expr_finish_ok ps full acc more p :
    all_impliedb cx (ps_mode ps) acc = true -> all_impliedb cx (ps_mode ps) more = true ->
    res_ok (ps_mode ps) (expr_finish ps full acc more p).
  Proof.
    intros A B. unfold expr_finish.
    assert (N : all_impliedb cx (ps_mode ps) (acc ++ more) = true) by (rewrite all_impliedb_app, A, B; reflexivity).
    set (nodes := acc ++ more) in *. clearbody nodes. cbv zeta.
    destruct full.
    - cbn [res_ok oimpliedb]. destruct nodes; rewrite impliedb_mk_nodelist; [reflexivity | exact N].
    - destruct (rev nodes) as [|last r] eqn:R.
      + assert (nodes = []) as -> by (rewrite <- (rev_involutive nodes), R; reflexivity).
        cbn [mk_nodelist res_ok oimpliedb]. rewrite impliedb_group, nmode_eqb_rfl. reflexivity.
      + cbn [res_ok]. assert (E : nodes = rev r ++ [last]) by (rewrite <- (rev_involutive nodes), R; reflexivity).
        rewrite E, all_impliedb_app in N. apply andb_true_iff in N. destruct N as [_ N].
        cbn in N. rewrite andb_true_r in N. exact N.
  Qed.

  Lemma child_state_good o ps t : good ps -> child_ok ps (g_child o) ->
    good (child_state o ps t) /\ ps_mode (child_state o ps t) = ps_mode ps.
  Proof.
    intros G C. unfold child_state. destruct (g_child o) as [|a b od]; [split; [exact G | reflexivity]|].
    destruct C as (Ga & Gb & Ma & Mb). destruct (_ && _); split; assumption.
  Qed.

  Lemma coll_if_tol m (a b : res out) : coll_ok m a -> coll_ok m b -> coll_ok m (if tol then a else b).
  Proof. intros Ha Hb. destruct tol; assumption. Qed.

  Ltac node_ok :=
    cbn [all_impliedb forallb oimpliedb pe_nodes mkerr];
    repeat first [ rewrite mk_chars_ok | rewrite impliedb_macro | rewrite impliedb_specials
                 | rewrite impliedb_comment | rewrite nmode_eqb_rfl ];
    cbn [oargs_impliedb args_impliedb andb]; try reflexivity.

  Ltac call_case IH CG SP CM PC REC A1 :=
    let HR := fresh "HR" in let E := fresh "E" in
    match goal with |- context [run _ _ _ _ (TCall ?a ?b ?c ?d)] => pose proof (IH (TCall a b c d)) as HR end;
    cbn [post tk targ mk call_spec] in HR; specialize (HR CG SP); rewrite CM in HR;
    apply parse_content_res_ok in HR;
    match goal with |- context [parse_content ?a ?b] =>
      destruct (parse_content a b) as [[[?|]|?|?] ?|? ?|?|?|] eqn:E end; try exact I;
    [ apply PC; exact HR | apply REC; exact A1 | eapply parse_content_perr; exact E ].

  Lemma run_post : forall fuel t, post t (run s tol cx fuel t).
  Proof.
    induction fuel as [|fuel IH]; intros t.
    - destruct t; cbn [run post]; intros; exact I.
    - destruct t; cbn [run post].
      12: {
        intros G CS. set (m := ps_mode ps).
        match goal with |- res_ok _ match ?X with _ => _ end => set (ar := X) end.
        assert (AR : match ar with
                     | Ok (OArgs a) p =>
                         oargs_impliedb cx m (Some sp)
                           match a with
                           | Some (_, al) => match sp_args sp with APStd l => Some (map a_spec l, al) | APLegacy _ => a end
                           | None => a
                           end = true
                     | PErr e _ => err_ok m e
                     | _ => True end).
        { subst ar. destruct (sp_args sp) as [l|k] eqn:SA.
          - pose proof (IH (TArgs ps l [] pos) G) as HA. cbn [post] in HA.
            destruct (parse_content_args tol _) as [[?|?|a] p|e p|p|k|] eqn:E; try exact I.
            + apply parse_content_args_ok in E.
              pose proof (fixed_args_ok m sp a _ p E) as F. rewrite SA in F. apply F. exact HA.
            + eapply parse_content_args_perr. exact E.
          - pose proof (IH (TLegacyArgs ps k pos) G) as HA. cbn [post] in HA.
            destruct (parse_content_args tol _) as [[?|?|a] p|e p|p|k0|] eqn:E; try exact I.
            + apply parse_content_args_ok in E.
              pose proof (fixed_args_ok m sp a _ p E) as F. rewrite SA in F. apply F. exact HA.
            + eapply parse_content_args_perr. exact E. }
        clearbody ar. destruct ar as [[?|?|a] p|e p|p|k|]; try exact I; [|exact AR].
        revert CS. destruct (tk t) eqn:K; cbn [call_spec]; intros CS; cbn [res_ok oimpliedb];
          try (rewrite impliedb_macro, CS, nmode_eqb_rfl; exact AR).
        + (* environment *)
          set (bps := if sp_body_math sp then ps_enter_math ps None else ps).
          assert (GB : good bps) by (subst bps; destruct (sp_body_math sp); [apply good_enter_math|]; exact G).
          assert (MB : ps_mode bps = body_mode (Some sp) m).
          { subst bps. cbn [body_mode]. destruct (sp_body_math sp); [apply ps_mode_enter_math | reflexivity]. }
          pose proof (parse_content_res_ok _ _ (IH (TEnvBody bps (targ t) p) GB)) as HR.
          destruct (parse_content tol _) as [[body|?|?] p2|e p2|p2|k|] eqn:E; try exact I.
          * cbn [res_ok oimpliedb] in *. rewrite impliedb_env, CS, nmode_eqb_rfl, <- MB, HR, andb_true_r. exact AR.
          * eapply parse_content_perr. exact E.
        + rewrite impliedb_specials, CS, nmode_eqb_rfl; exact AR.
      }
      11: {
        intros G.
        destruct k as [|name optarg].
        - destruct (nth_error s _) as [dc|]; [|apply err_ok_none].
          destruct (sfind s _ _); [|apply err_ok_none].
          cbn [largs_ok all_impliedb forallb oimpliedb]. rewrite mk_chars_ok. reflexivity.
        - match goal with |- largs_ok _ match ?X with _ => _ end => set (ao := X) end.
          assert (AO : match ao with
                       | Ok (_, al, _) _ => all_impliedb cx (ps_mode ps) al = true
                       | PErr e _ => err_ok (ps_mode ps) e
                       | _ => True end).
          { subst ao.
            pose proof (IH (TGroup ps (GDPair [91%N] [93%N]) true false pos) G) as HG. cbn [post] in HG.
            apply parse_content_res_ok in HG.
            destruct optarg; [|reflexivity].
            destruct (nth_error s pos) as [c|]; [destruct (is_space c); [reflexivity|]|];
              (destruct (parse_content tol _) as [[n|?|?] p|e p|p|k|] eqn:E; try exact I;
               [cbn [res_ok] in HG; cbn [all_impliedb forallb]; rewrite HG; reflexivity
               | eapply parse_content_perr; exact E]). }
          clearbody ao. destruct ao as [[[sp al] p] ?|e p|p|k|]; try exact I; [|exact AO].
          destruct (sfind s _ p); [|apply err_ok_none].
          cbn [largs_ok]. apply all_impliedb_snoc; [exact AO|]. apply mk_chars_ok.
      }
      10: {
        intros G.
        destruct specs as [|a rest].
        { cbn [args_ok]. exists []. split; [rewrite app_nil_r; reflexivity | reflexivity]. }
        destruct (peek_tok s tol ps pos) as [t0|f|e]; [| |apply err_ok_tok].
        1,2: (pose proof (parse_content_res_ok _ _ (IH (TStdArg (apply_adelta ps (a_delta a)) (a_kind a) pos)
                                                       (good_apply_adelta _ _ G))) as HR;
              destruct (parse_content tol _) as [[n|?|?] p|e p|p|k|] eqn:E; try exact I;
              [ cbn [res_ok] in HR; rewrite ps_mode_apply_adelta in HR;
                pose proof (IH (TArgs ps rest (acc ++ [n]) p) G) as HA; cbn [post] in HA;
                destruct (run s tol cx fuel (TArgs ps rest (acc ++ [n]) p)) as [[?|?|[[spl al]|]] p'|e' p'|p'|k'|];
                  try exact I; cbn [args_ok] in *;
                [ destruct HA as (new & -> & H); exists (n :: new); split;
                  [rewrite <- app_assoc; reflexivity
                  | cbn [map args_impliedb hd tl]; rewrite HR, H; reflexivity]
                | exact HA ]
              | eapply parse_content_perr; exact E ]).
      }
      9: {
        intros G. apply parse_content_res_ok.
        destruct k as [aps|o c opt aps|ch aps full|d].
        - pose proof (IH (TExpr ps aps aps false true [] pos)) as H. cbn [post] in H. apply H; [exact G | reflexivity].
        - pose proof (IH (TGroup ps (GDPair o c) opt aps pos)) as H. cbn [post] in H. apply H; exact G.
        - pose proof (IH (TChars ps ch aps full pos)) as H. cbn [post] in H. apply H; exact G.
        - pose proof (IH (TVerbDelim ps d pos)) as H. cbn [post] in H. apply H; exact G.
      }
      8: {
        intros G.
        destruct (nth_error s _) as [c0|]; [|exact I].
        match goal with |- res_ok _ match ?X with _ => _ end => destruct X as [[od cd]|] end; [|apply err_ok_none].
        match goal with |- res_ok _ match ?X with _ => _ end => destruct X as [n|] end.
        - cbn [res_ok oimpliedb]. rewrite impliedb_group, nmode_eqb_rfl. cbn [oimpliedb andb].
          rewrite impliedb_mk_nodelist. cbn [all_impliedb forallb oimpliedb]. rewrite mk_chars_ok. reflexivity.
        - intros _. cbn [pe_nodes mkerr oimpliedb]. apply mk_chars_ok.
      }
      7: {
        intros G.
        destruct (peek_tok s tol ps pos) as [orig|f|e]; [|exact I|apply err_ok_tok].
        destruct (_ && negb aps); [reflexivity|].
        match goal with |- res_ok _ match ?X with _ => _ end => destruct X as [[|a0 a]|] end;
          [exact I| |reflexivity].
        destruct (str_eqb _ ch); [|reflexivity].
        cbn [res_ok oimpliedb]. destruct full; [rewrite impliedb_mk_nodelist; cbn [all_impliedb forallb oimpliedb]; rewrite mk_chars_ok; reflexivity | apply mk_chars_ok].
      }
      6: {
        intros G A.
        destruct (next_tok s tol (sub_context ps [UEnEnvs false]) pos) as [t|f|e]; [| |apply err_ok_tok].
        2: { apply strict_err_ok. apply (expr_finish_ok ps full acc [] pos A eq_refl). }
        assert (REC : forall acc' p, all_impliedb cx (ps_mode ps) acc' = true ->
                  res_ok (ps_mode ps) (run s tol cx fuel (TExpr ps aps apc full sterr acc' p))).
        { intros acc' p A'. pose proof (IH (TExpr ps aps apc full sterr acc' p)) as H. cbn [post] in H.
          apply H; assumption. }
        assert (FIN : forall more p, all_impliedb cx (ps_mode ps) more = true ->
                  res_ok (ps_mode ps) (expr_finish ps full acc more p))
          by (intros; apply expr_finish_ok; assumption).
        assert (GRP : forall o p, res_ok (ps_mode ps)
                        (parse_content tol (run s tol cx fuel (TGroup ps (GDStr o) false false p)))).
        { intros o p. apply parse_content_res_ok. pose proof (IH (TGroup ps (GDStr o) false false p)) as H.
          cbn [post] in H. apply H. exact G. }
        repeat lazymatch goal with
        | |- res_ok _ (if tol then _ else _) => apply strict_err_ok
        | |- res_ok _ (run _ _ _ _ _) =>
            apply REC; first [assumption | apply all_impliedb_snoc; [assumption | node_ok]]
        | |- res_ok _ (if full then _ else _) => refine (FIN _ _ _); node_ok
        | |- res_ok _ (PErr _ _) =>
            first [apply err_ok_none | apply err_ok_tok
                  | intros _; cbn [pe_nodes mkerr oimpliedb];
                    repeat match goal with |- context [match ?X with _ => _ end] => destruct X end; node_ok]
        | |- res_ok _ (match parse_content _ (run _ _ _ _ (TGroup _ (GDStr ?o) _ _ ?p)) with _ => _ end) =>
            let HR := fresh "HR" in let E := fresh "E" in
            pose proof (GRP o p) as HR;
            destruct (parse_content tol (run s tol cx fuel (TGroup ps (GDStr o) false false p)))
              as [[n|?|?] p'|e' p'|p'|k'|] eqn:E;
            [ refine (FIN [n] p' _); cbn [all_impliedb forallb]; cbn [res_ok] in HR; rewrite HR; reflexivity
            | exact I | exact I | eapply parse_content_perr; exact E | exact I | exact I | exact I ]
        | |- res_ok _ (match ?X with _ => _ end) => destruct X
        end.
      }
      5: {
        intros G.
        match goal with |- context [run s tol cx fuel ?T] => pose proof (IH T) as HR end.
        cbn [post g_child child_ok] in HR. specialize (HR G I). apply parse_content_res_ok in HR.
        destruct (parse_content tol _) as [[[nl|]|?|?] p|e p|p|k|] eqn:E; try exact I.
        - exact HR.
        - reflexivity.
        - eapply parse_content_perr; exact E.
      }
      4: {
        intros G.
        destruct (next_tok s tol ps pos) as [t|f|e] eqn:N; [|exact I|apply err_ok_tok].
        destruct (negb _) eqn:OKC; [apply err_ok_empty|].
        apply negb_false_iff in OKC. apply andb_true_iff in OKC. destruct OKC as [OKC _].
        apply andb_true_iff in OKC. destruct OKC as [_ MT].
        destruct (c_expect_close _) as [[cd k]|] eqn:EC; [|exact I].
        rewrite (expect_after_enter ps (targ t) G) in EC.
        match goal with |- context [run s tol cx fuel ?T] => pose proof (IH T) as HR end.
        cbn [post g_child child_ok] in HR. specialize (HR (good_enter_math _ _ G) I).
        apply parse_content_res_ok in HR. rewrite ps_mode_enter_math in HR.
        destruct (parse_content tol _) as [[body|?|?] p|e p|p|k0|] eqn:E; try exact I.
        - cbn [res_ok oimpliedb] in *. rewrite impliedb_math, nmode_eqb_rfl, HR.
          rewrite (math_token_delims_ok s tol ps pos t cd k G N MT EC). reflexivity.
        - eapply parse_content_perr; exact E.
      }
      3: {
        intros G.
        set (gps := match d with GDPair o c => ps_add_group ps o c | _ => ps end).
        assert (GG : good gps) by (subst gps; destruct d; try exact G; apply good_add_group; exact G).
        assert (MG : ps_mode gps = ps_mode ps) by (subst gps; destruct d; try reflexivity; apply ps_mode_add_group; exact G).
        clearbody gps.
        destruct (next_tok s tol gps pos) as [t|f|e] eqn:N; [|exact I|apply err_ok_tok].
        destruct (negb _); [destruct optional; [reflexivity | apply err_ok_empty]|].
        match goal with |- res_ok _ match ?X with _ => _ end => destruct X as [[od cd]|] end; [|exact I].
        match goal with |- context [run s tol cx fuel ?T] => pose proof (IH T) as HR end.
        cbn [post g_child child_ok] in HR. specialize (HR GG (conj GG (conj G (conj eq_refl (eq_sym MG))))).
        apply parse_content_res_ok in HR. rewrite MG in HR.
        destruct (parse_content tol _) as [[body|?|?] p|e p|p|k0|] eqn:E; try exact I.
        - cbn [res_ok oimpliedb] in *. rewrite impliedb_group, MG, nmode_eqb_rfl, HR. reflexivity.
        - eapply parse_content_perr; exact E.
      }
      2: {
        intros G C.
        pose proof (IH (TCollect ps o cs_empty pos) G C eq_refl) as HC.
        destruct (run s tol cx fuel _) as [[?|st stopped nlmet eos|?] p|e p|p|k|]; try exact I.
        - cbn [coll_ok mk_nodelist] in *.
          destruct (negb _).
          + intros _. cbn [pe_nodes mkerr oimpliedb]. rewrite impliedb_list. exact HC.
          + cbn [res_ok oimpliedb]. rewrite impliedb_list. exact HC.
        - cbn [coll_ok res_ok] in *. intros T. specialize (HC T).
          cbn [pe_nodes mkerr oimpliedb mk_nodelist].
          destruct (pe_nodes e) as [[]|]; try reflexivity.
          cbn [oimpliedb] in HC. rewrite impliedb_list in *. exact HC.
      }
      1: {
        intros G C A.
        assert (REC : forall st' p, all_impliedb cx (ps_mode ps) (cs_acc st') = true ->
                  coll_ok (ps_mode ps) (run s tol cx fuel (TCollect ps o st' p))).
        { intros st' p A'. pose proof (IH (TCollect ps o st' p)) as H. cbn [post] in H. apply H; assumption. }
        destruct (next_tok s tol ps pos) as [t|fin|e] eqn:N.
        3: { intros _. cbn [pe_nodes mkerr oimpliedb]. rewrite impliedb_list. apply flush_ok. exact A. }
        2: { destruct fin; [cbn [coll_ok]; apply flush_ok; exact A | apply REC; exact A]. }
        destruct (child_state_good o ps t G C) as [CG CM].
        destruct (stop_matches (g_stop o) t).
        { cbn [coll_ok]. apply flush_ok. destruct (g_incl_pre o); exact A. }
        match goal with |- context [if snd ?PR then _ else _] => set (pr := PR) end.
        assert (A1 : all_impliedb cx (ps_mode ps) (cs_acc (fst pr)) = true).
        { subst pr. destruct (cs_pend st).
          - destruct (tpre t); cbn [fst]; [exact A|]. cbn [push_node cs_acc].
            apply all_impliedb_snoc; [exact A | apply mk_chars_ok].
          - cbn [fst]. apply flush_ok. exact A. }
        clearbody pr. destruct pr as [st1 met]. cbn [fst snd] in *.
        assert (PUSH : forall n, oimpliedb cx (ps_mode ps) n = true ->
                   all_impliedb cx (ps_mode ps) (cs_acc (push_node st1 n)) = true).
        { intros n Hn. cbn [push_node cs_acc]. apply all_impliedb_snoc; assumption. }
        assert (FAIL : forall a b c d e, err_ok (ps_mode ps)
                   (mkerr a b (Some (NList None None (cs_acc (flush ps st1)))) c d e)).
        { intros a b c d e _. cbn [pe_nodes mkerr oimpliedb]. rewrite impliedb_list. apply flush_ok. exact A1. }
        assert (PC : forall n p1 p2, oimpliedb cx (ps_mode ps) n = true ->
                   coll_ok (ps_mode ps)
                     (if nl_stop_met (g_nl o) (cs_acc (push_node st1 n))
                      then Ok (OColl (push_node st1 n) None true false) p1
                      else run s tol cx fuel (TCollect ps o (push_node st1 n) p2))).
        { intros n p1 p2 Hn. destruct (nl_stop_met _ _); [cbn [coll_ok]|apply REC]; apply PUSH; exact Hn. }
        destruct (tk t) eqn:K; [apply REC; exact A | ..]; (destruct met; [exact A1|]).
        - (* macro *)
          destruct (get_macro_spec cx (targ t)) as [sp|] eqn:SP; [|apply coll_if_tol; [apply REC; exact A1 | apply FAIL]].
          call_case IH CG SP CM PC REC A1.
        - destruct (get_env_spec cx (targ t)) as [sp|] eqn:SP; [|apply coll_if_tol; [apply REC; exact A1 | apply FAIL]].
          call_case IH CG SP CM PC REC A1.
        - apply FAIL.
        - apply PC. cbn [oimpliedb]. rewrite impliedb_comment. apply nmode_eqb_rfl.
        - (* group *)
          match goal with |- context [run s tol cx fuel ?T] => pose proof (IH T) as HR end.
          cbn [post] in HR. specialize (HR CG). rewrite CM in HR. apply parse_content_res_ok in HR.
          destruct (parse_content tol _) as [[n|?|?] p|e p|p|k0|] eqn:E; try exact I.
          + apply PC. exact HR.
          + eapply parse_content_perr; exact E.
        - apply FAIL.
        - destruct (negb _); [apply FAIL|].
          match goal with |- context [run s tol cx fuel (TMath ?a ?b ?c)] => pose proof (IH (TMath a b c)) as HR end.
          cbn [post] in HR. specialize (HR CG). rewrite CM in HR. apply parse_content_res_ok in HR.
          destruct (parse_content tol _) as [[[n|]|?|?] p|e p|p|k0|] eqn:E; try exact I;
            [ apply PC; exact HR | apply REC; exact A1 | eapply parse_content_perr; exact E ].
        - destruct (negb _); [apply FAIL|].
          match goal with |- context [run s tol cx fuel (TMath ?a ?b ?c)] => pose proof (IH (TMath a b c)) as HR end.
          cbn [post] in HR. specialize (HR CG). rewrite CM in HR. apply parse_content_res_ok in HR.
          destruct (parse_content tol _) as [[[n|]|?|?] p|e p|p|k0|] eqn:E; try exact I;
            [ apply PC; exact HR | apply REC; exact A1 | eapply parse_content_perr; exact E ].
        - destruct (get_specials_spec cx (targ t)) as [sp|] eqn:SP; [|apply coll_if_tol; [apply REC; exact A1 | apply FAIL]].
          call_case IH CG SP CM PC REC A1.
      }
  Qed.
End Modes.

(** * Consequences *)

(** what [parse_content] hands back for a general-nodes parse, any fuel, strict or tolerant *)
Theorem general_modes s tol cx fuel ps o pos n p :
  good ps -> child_ok ps (g_child o) ->
  parse_content tol (run s tol cx fuel (TGeneral ps o pos)) = Ok (ONode n) p ->
  oimpliedb cx (ps_mode ps) n = true.
Proof.
  intros G C H. pose proof (run_post s tol cx fuel (TGeneral ps o pos)) as P. cbn [post] in P.
  specialize (P G C). apply (parse_content_res_ok tol cx) in P. rewrite H in P. exact P.
Qed.

(** the same for every task that returns nodes *)
Theorem task_modes s tol cx fuel t n p :
  match t with
  | TGroup ps _ _ _ _ | TMath ps _ _ | TEnvBody ps _ _ | TChars ps _ _ _ _ | TVerbDelim ps _ _
  | TStdArg ps _ _ => good ps
  | TGeneral ps o _ => good ps /\ child_ok ps (g_child o)
  | TExpr ps _ _ _ _ acc _ => good ps /\ all_impliedb cx (ps_mode ps) acc = true
  | TCall ps t sp _ => good ps /\ call_spec cx (tk t) (targ t) = Some sp
  | _ => False
  end ->
  parse_content tol (run s tol cx fuel t) = Ok (ONode n) p ->
  oimpliedb cx (match t with
                | TCollect ps _ _ _ | TGeneral ps _ _ | TGroup ps _ _ _ _ | TMath ps _ _ | TEnvBody ps _ _
                | TExpr ps _ _ _ _ _ _ | TChars ps _ _ _ _ | TVerbDelim ps _ _ | TStdArg ps _ _
                | TArgs ps _ _ _ | TLegacyArgs ps _ _ | TCall ps _ _ _ => ps_mode ps end) n = true.
Proof.
  intros Pre H. pose proof (run_post s tol cx fuel t) as P.
  destruct t; cbn [post] in P; try contradiction;
    try (destruct Pre as [P1 P2]; specialize (P P1 P2)); try specialize (P Pre);
    apply (parse_content_res_ok tol cx) in P; rewrite H in P; exact P.
Qed.

(** the states a [LatexWalker] starts with *)
Lemma good_walker_state cx : good (walker_state cx).
Proof. apply good_fresh; reflexivity. Qed.
Lemma ps_mode_walker_state cx : ps_mode (walker_state cx) = text_mode.
Proof. reflexivity. Qed.

Theorem parse_top_modes_fuel s tol cx fuel ps n p : good ps ->
  parse_content tol (run s tol cx fuel (TGeneral ps top_opts 0)) = Ok (ONode n) p ->
  oimpliedb cx (ps_mode ps) n = true.
Proof. intros G H. exact (general_modes s tol cx fuel ps top_opts 0 n p G I H). Qed.

Theorem parse_top_modes s tol cx nl p :
  parse_top s tol cx (walker_state cx) = Ok (ONode (Some nl)) p ->
  implied cx text_mode nl.
Proof.
  unfold parse_top. intros H.
  apply (parse_top_modes_fuel s tol cx _ _ _ _ (good_walker_state cx)) in H. exact H.
Qed.
