(** Property C10, facts about parsing states and math tokens used by the main
    induction ([Proofs/ParserModes.v]):
    - which state constructors of the parser keep the mode, and the mode after
      entering / leaving math ([ps_mode_*]);
    - the reachable-state invariant [good] (caches = function of the fields,
      default math delimiters) and its preservation;
    - a math-delimiter token read under a good state is one of the six default
      delimiters with the kind (inline / display) of that delimiter, and the
      expected closing delimiter after entering math through [d] is the one
      paired with [d] ([math_token_delims_ok]). *)
From Coq Require Import NArith List Bool Arith Lia.
From PLV Require Import Base.PyStr Tok.PState Tok.Tokenizer Parse.Nodes Parse.Parser.
From PLV Require Import Proofs.PStateProofs Proofs.TokProofs Proofs.ParserModesSpec.
Import ListNotations.

(** * Updates that do not touch the mode *)
Definition mode_free (kw : list update) : bool :=
  negb (existsb (fun u => ukey_eqb (key_of u) KInMath) kw)
  && negb (existsb (fun u => ukey_eqb (key_of u) KMathDelim) kw).
Definition mdelims_free (kw : list update) : bool :=
  negb (existsb (fun u => ukey_eqb (key_of u) KInline) kw)
  && negb (existsb (fun u => ukey_eqb (key_of u) KDisplay) kw).

Lemma existsb_filter_false {A} (p q : A -> bool) l :
  existsb p l = false -> existsb p (filter q l) = false.
Proof.
  induction l as [|x l IH]; [reflexivity|]. cbn [existsb filter]. intros H.
  apply orb_false_iff in H. destruct H as [H1 H2]. destruct (q x); cbn [existsb]; [rewrite H1|]; auto.
Qed.

Lemma sub_context_mode_keep ps kw :
  Inv ps -> mode_free kw = true -> ps_mode (sub_context ps kw) = ps_mode ps.
Proof.
  intros [_ Hn] F. unfold mode_free in F. apply andb_true_iff in F. destruct F as [F1 F2].
  apply negb_true_iff in F1, F2.
  unfold sub_context, ps_mode. cbn [ps_f].
  set (f0 := ps_f ps) in *. set (kw2 := filter (changes f0) kw).
  set (fm := fold_left apply_update kw2 f0).
  assert (M1 : f_in_math fm = f_in_math f0).
  { apply (fold_preserves KInMath _ _ step_inmath). apply existsb_filter_false. exact F1. }
  assert (M2 : f_math_delim fm = f_math_delim f0).
  { apply (fold_preserves KMathDelim _ _ step_mathdelim). apply existsb_filter_false. exact F2. }
  rewrite (normalize_id_of_same fm f0 Hn M1 M2), M1, M2. reflexivity.
Qed.

(** * The reachable-state invariant *)
Definition good (ps : pstate) : Prop :=
  Inv ps /\ f_inline_delims (ps_f ps) = default_inline_delims
         /\ f_display_delims (ps_f ps) = default_display_delims.

Lemma good_sub_context ps kw : good ps -> mdelims_free kw = true -> good (sub_context ps kw).
Proof.
  intros (I & A & B) F. unfold mdelims_free in F. apply andb_true_iff in F. destruct F as [F1 F2].
  apply negb_true_iff in F1, F2.
  split; [apply inv_sub_context; exact I|]. unfold sub_context. cbn [ps_f].
  rewrite normalize_inline, normalize_display. split.
  - rewrite <- A. apply (fold_preserves KInline _ _ step_inline). apply existsb_filter_false. exact F1.
  - rewrite <- B. apply (fold_preserves KDisplay _ _ step_display). apply existsb_filter_false. exact F2.
Qed.

Lemma good_fresh f : f_inline_delims f = default_inline_delims ->
  f_display_delims f = default_display_delims -> good (fresh f).
Proof.
  intros A B. split; [apply inv_fresh|]. cbn [fresh ps_f]. rewrite normalize_inline, normalize_display. tauto.
Qed.

(** * The state constructors used by [run] *)
Lemma good_enter_math ps d : good ps -> good (ps_enter_math ps d).
Proof. intros G. apply good_sub_context; [exact G | reflexivity]. Qed.
Lemma good_leave_math ps : good ps -> good (ps_leave_math ps).
Proof. intros G. apply good_sub_context; [exact G | reflexivity]. Qed.
Lemma good_apply_adelta ps d : good ps -> good (apply_adelta ps d).
Proof. intros G. destruct d; cbn [apply_adelta]; [exact G | apply good_enter_math; exact G | apply good_leave_math; exact G]. Qed.
Lemma good_add_group ps o c : good ps -> good (ps_add_group ps o c).
Proof. intros G. unfold ps_add_group. destruct (pair_in _ _ _); [exact G|]. apply good_sub_context; [exact G | reflexivity]. Qed.
Lemma good_no_envs ps : good ps -> good (sub_context ps [UEnEnvs false]).
Proof. intros G. apply good_sub_context; [exact G | reflexivity]. Qed.

Lemma ps_mode_add_group ps o c : good ps -> ps_mode (ps_add_group ps o c) = ps_mode ps.
Proof.
  intros (I & _). unfold ps_add_group. destruct (pair_in _ _ _); [reflexivity|].
  apply sub_context_mode_keep; [exact I | reflexivity].
Qed.
Lemma ps_mode_no_envs ps : good ps -> ps_mode (sub_context ps [UEnEnvs false]) = ps_mode ps.
Proof. intros (I & _). apply sub_context_mode_keep; [exact I | reflexivity]. Qed.
Lemma ps_mode_group_delims ps d : good ps -> ps_mode (sub_context ps [UGroupDelims d]) = ps_mode ps.
Proof. intros (I & _). apply sub_context_mode_keep; [exact I | reflexivity]. Qed.

Lemma opt_str_eqb_eq (a b : option str) : opt_eqb str_eqb a b = true -> a = b.
Proof.
  destruct a as [x|], b as [y|]; cbn; intros H; try discriminate; [|reflexivity].
  apply str_eqb_iff in H. congruence.
Qed.

(** the fields after [sub_context(in_math_mode=b, math_mode_delimiter=d)], before normalisation *)
Lemma set_mode_fields f0 b d :
  let fm := fold_left apply_update (filter (changes f0) [UInMath b; UMathDelim d]) f0 in
  f_in_math fm = b /\ f_math_delim fm = d.
Proof.
  assert (C1 : changes f0 (UInMath b) = negb (Bool.eqb b (f_in_math f0))) by reflexivity.
  assert (C2 : changes f0 (UMathDelim d) = negb (opt_eqb str_eqb d (f_math_delim f0))) by reflexivity.
  cbn [filter]. rewrite C1, C2. clear C1 C2.
  destruct (Bool.eqb b (f_in_math f0)) eqn:E1; destruct (opt_eqb str_eqb d (f_math_delim f0)) eqn:E2;
    cbn [negb fold_left apply_update f_in_math f_math_delim];
    try apply eqb_prop in E1; try apply opt_str_eqb_eq in E2; split; congruence.
Qed.

Lemma ps_mode_enter_math ps d : ps_mode (ps_enter_math ps d) = math_mode d.
Proof.
  unfold ps_enter_math, sub_context, ps_mode. cbn [ps_f].
  destruct (set_mode_fields (ps_f ps) true d) as [A B].
  set (fm := fold_left apply_update _ (ps_f ps)) in *.
  unfold normalize. rewrite A. cbn [negb andb]. rewrite A, B. reflexivity.
Qed.

(** leaving math clears the delimiter (asked for explicitly, and [normalize] would drop it anyway) *)
Lemma ps_mode_leave_math ps : ps_mode (ps_leave_math ps) = text_mode.
Proof.
  unfold ps_leave_math, sub_context, ps_mode. cbn [ps_f].
  destruct (set_mode_fields (ps_f ps) false None) as [A B].
  set (fm := fold_left apply_update _ (ps_f ps)) in *.
  unfold normalize. rewrite A, B. cbn [negb andb truthy_ostr]. rewrite A, B. reflexivity.
Qed.

Lemma ps_mode_apply_adelta ps d : ps_mode (apply_adelta ps d) = delta_mode (ps_mode ps) d.
Proof.
  destruct d; cbn [apply_adelta delta_mode]; [reflexivity | apply ps_mode_enter_math | apply ps_mode_leave_math].
Qed.

(** * The cached delimiter tables of a good state *)
Definition default_by_open : list (str * (str * tokkind)) := compute_by_open default_fields.
Definition default_by_len : list (str * tokkind) := compute_by_len default_fields.

Lemma good_by_open ps : good ps -> c_math_by_open (ps_c ps) = default_by_open.
Proof.
  intros ((C & _) & A & B). rewrite C. cbn [compute_caches c_math_by_open].
  unfold default_by_open, compute_by_open. rewrite A, B. reflexivity.
Qed.
Lemma good_by_len ps : good ps -> c_math_by_len (ps_c ps) = default_by_len.
Proof.
  intros ((C & _) & A & B). rewrite C. cbn [compute_caches c_math_by_len].
  unfold default_by_len, compute_by_len. rewrite A, B. reflexivity.
Qed.
Lemma good_expect ps : good ps ->
  c_expect_close (ps_c ps) =
  if negb (f_in_math (ps_f ps)) then None
  else match f_math_delim (ps_f ps) with Some d => dict_get default_by_open d | None => None end.
Proof.
  intros ((C & N) & A & B). rewrite C. cbn [compute_caches c_expect_close]. unfold compute_expect.
  unfold default_by_open, compute_by_open. rewrite A, B. reflexivity.
Qed.

(** the expected closing delimiter after entering math through [d] *)
Lemma expect_after_enter ps d : good ps ->
  c_expect_close (ps_c (ps_enter_math ps (Some d))) = dict_get default_by_open d.
Proof.
  intros G. rewrite (good_expect _ (good_enter_math ps (Some d) G)).
  assert (M1 : f_in_math (ps_f (ps_enter_math ps (Some d))) = true).
  { change (in_math (ps_mode (ps_enter_math ps (Some d))) = true). rewrite ps_mode_enter_math. reflexivity. }
  assert (M2 : f_math_delim (ps_f (ps_enter_math ps (Some d))) = Some d).
  { change (math_delim (ps_mode (ps_enter_math ps (Some d))) = Some d). rewrite ps_mode_enter_math. reflexivity. }
  rewrite M1, M2. reflexivity.
Qed.

(** * Where math tokens come from *)
Definition nonmath_res (r : tokres) : Prop :=
  match r with
  | TokOk t => mode_of_tok t = false
  | TokErr e => mode_of_tok (te_placeholder e) = false
  | TokEOS _ => True
  end.

(** (delimiter, kind) pairs the tokenizer can produce under [ps] *)
Definition math_src (ps : pstate) (t : token) : Prop :=
  In (targ t, tk t) (c_math_by_len (ps_c ps)) \/ c_expect_close (ps_c ps) = Some (targ t, tk t).

Lemma read_math_src ps rest pos pre t : read_math ps rest pos pre = Some t -> math_src ps t.
Proof.
  unfold read_math, math_src.
  assert (LOOP : forall l t0,
     (fix go (l : list (str * tokkind)) : option token :=
        match l with
        | [] => None
        | (d, k) :: r => if startswith rest d then Some (mk k d pos (pos + length d) pre []) else go r
        end) l = Some t0 -> In (targ t0, tk t0) l).
  { induction l as [|[d k] l IH]; intros t0 H; [discriminate|].
    destruct (startswith rest d).
    - injection H as <-. left. reflexivity.
    - right. apply IH. exact H. }
  destruct (f_in_math (ps_f ps)).
  - destruct (c_expect_close (ps_c ps)) as [[cd k]|].
    + destruct (startswith rest cd).
      * intros H. injection H as <-. right. reflexivity.
      * intros H. left. apply LOOP. exact H.
    + intros H. left. apply LOOP. exact H.
  - intros H. left. apply LOOP. exact H.
Qed.

Lemma read_macro_nonmath ps s pos pre : nonmath_res (read_macro ps s pos pre).
Proof.
  unfold read_macro. destruct (skipn (S pos) s) as [|c r]; [reflexivity|].
  destruct (mem_c c (f_alpha (ps_f ps))); [|reflexivity].
  destruct (post_space_at s _). reflexivity.
Qed.
Lemma read_environment_nonmath ps s pos b pre : nonmath_res (read_environment ps s pos b pre).
Proof.
  unfold read_environment. destruct (match_envname _) as [[nm len]|]; [|reflexivity].
  destruct b; reflexivity.
Qed.
Lemma stage_escape_nonmath ps s pos pre c r : stage_escape ps s pos pre c = Some r -> nonmath_res r.
Proof.
  unfold stage_escape. destruct (str_eqb [c] (f_escape (ps_f ps))); [|discriminate].
  pose proof (read_macro_nonmath ps s pos pre) as RM.
  pose proof (read_environment_nonmath ps s pos true pre) as RB.
  pose proof (read_environment_nonmath ps s pos false pre) as RE.
  destruct (f_en_envs (ps_f ps)).
  - destruct (startswith (skipn (S pos) s) kw_begin).
    + destruct (char_at s _) as [d|].
      * destruct (mem_c d (f_alpha (ps_f ps))).
        -- destruct (f_en_macros (ps_f ps)); [|discriminate]. intros H. injection H as <-. exact RM.
        -- intros H. injection H as <-. exact RB.
      * intros H. injection H as <-. exact RB.
    + destruct (startswith (skipn (S pos) s) kw_end).
      * destruct (char_at s _) as [d|].
        -- destruct (mem_c d (f_alpha (ps_f ps))).
           ++ destruct (f_en_macros (ps_f ps)); [|discriminate]. intros H. injection H as <-. exact RM.
           ++ intros H. injection H as <-. exact RE.
        -- intros H. injection H as <-. exact RE.
      * destruct (f_en_macros (ps_f ps)); [|discriminate]. intros H. injection H as <-. exact RM.
  - destruct (f_en_macros (ps_f ps)); [|discriminate]. intros H. injection H as <-. exact RM.
Qed.
Lemma stage_comment_nonmath ps s rest pos pre c r : stage_comment ps s rest pos pre c = Some r -> nonmath_res r.
Proof.
  unfold stage_comment. destruct (f_comment (ps_f ps)) as [|c0 cr] eqn:CE; [discriminate|].
  destruct (_ && _); [|discriminate]. intros H. injection H as <-.
  unfold read_comment. destruct (find_from s [10%N] _); [|reflexivity].
  destruct (post_space_at s _). reflexivity.
Qed.
Lemma stage_group_nonmath ps pos pre c r : stage_group ps pos pre c = Some r -> nonmath_res r.
Proof.
  unfold stage_group. destruct (f_en_groups (ps_f ps)); [|discriminate].
  destruct (existsb _ (c_group_open _)); [intros H; injection H as <-; reflexivity|].
  destruct (existsb _ (c_group_close _)); [intros H; injection H as <-; reflexivity|discriminate].
Qed.
Lemma stage_specials_nonmath ps rest pos pre r : stage_specials ps rest pos pre = Some r -> nonmath_res r.
Proof.
  unfold stage_specials. destruct (f_ctx_specials (ps_f ps)); [|discriminate].
  destruct (f_en_specials (ps_f ps)); [|discriminate].
  destruct (test_specials _ _ _); [|discriminate]. intros H. injection H as <-. reflexivity.
Qed.
Lemma char_token_nonmath ps c pos pre : nonmath_res (char_token ps c pos pre).
Proof. unfold char_token. destruct (mem_c c (f_forbidden (ps_f ps))); reflexivity. Qed.

(** every token of a math kind comes out of [read_math]; error placeholders are never math tokens *)
Lemma impl_peek_math ps s pos :
  match impl_peek ps s pos with
  | TokOk t => mode_of_tok t = true -> math_src ps t
  | TokErr e => mode_of_tok (te_placeholder e) = false
  | TokEOS _ => True
  end.
Proof.
  unfold impl_peek. destruct (peek_space s pos) as [pre0 p2].
  destruct (f_en_dnp (ps_f ps) && Nat.leb 2 (count_c 10 pre0)).
  - unfold par_token. destruct (match f_ctx_specials (ps_f ps) with Some l => _ | None => false end);
      cbn; discriminate.
  - destruct (skipn p2 s) as [|c rest]; [exact I|].
    unfold dispatch, orelse.
    assert (NM : forall r, nonmath_res r ->
              match r with
              | TokOk t => mode_of_tok t = true -> math_src ps t
              | TokErr e => mode_of_tok (te_placeholder e) = false
              | TokEOS _ => True
              end).
    { intros [t|f|e] H; cbn in *; [congruence | exact I | exact H]. }
    destruct (stage_math ps (c :: rest) p2 pre0 c) as [r|] eqn:E1.
    { unfold stage_math in E1. destruct (_ && _); [|discriminate].
      destruct (read_math ps (c :: rest) p2 pre0) as [t|] eqn:RM; [|discriminate].
      injection E1 as <-. intros _. apply read_math_src in RM. exact RM. }
    destruct (stage_escape ps s p2 pre0 c) as [r|] eqn:E2; [apply NM, (stage_escape_nonmath _ _ _ _ _ _ E2)|].
    destruct (stage_comment ps s (c :: rest) p2 pre0 c) as [r|] eqn:E3; [apply NM, (stage_comment_nonmath _ _ _ _ _ _ _ E3)|].
    destruct (stage_group ps p2 pre0 c) as [r|] eqn:E4; [apply NM, (stage_group_nonmath _ _ _ _ _ E4)|].
    destruct (stage_specials ps (c :: rest) p2 pre0) as [r|] eqn:E5; [apply NM, (stage_specials_nonmath _ _ _ _ _ E5)|].
    apply NM, char_token_nonmath.
Qed.

Lemma next_tok_math s tol ps pos t :
  next_tok s tol ps pos = TokOk t -> mode_of_tok t = true -> math_src ps t.
Proof.
  unfold next_tok, next_token, peek_token, rd_at. cbn [r_s r_pos r_tol].
  pose proof (impl_peek_math ps s pos) as P.
  destruct (impl_peek ps s pos) as [t0|f|e]; cbn [fst].
  - intros H. injection H as <-. exact P.
  - discriminate.
  - destruct tol; cbn [fst]; [|discriminate]. intros H. injection H as <-. congruence.
Qed.

(** * The math node's display flag and closing delimiter *)
Lemma dict_get_in_key {A} (items : list (str * A)) k v :
  dict_get items k = Some v -> In (k, v) items.
Proof.
  induction items as [|[k' v'] items IH]; [discriminate|]. cbn [dict_get].
  destruct (dict_get items k) as [w|] eqn:E.
  - intros H. injection H as <-. right. apply IH. reflexivity.
  - destruct (str_eqb k' k) eqn:K; [|discriminate]. intros H. injection H as <-.
    apply str_eqb_iff in K. subst. left. reflexivity.
Qed.

(** a math token [t] read under a good state, whose delimiter is an opening one
    with expected closing delimiter [cd]: the node built from them is right *)
Lemma math_token_delims_ok s tol ps pos t cd k : good ps ->
  next_tok s tol ps pos = TokOk t -> mode_of_tok t = true ->
  dict_get default_by_open (targ t) = Some (cd, k) ->
  math_delims_ok (tokkind_eqb (tk t) TkMathDisplay) (targ t) cd = true.
Proof.
  intros G N M D. pose proof (next_tok_math s tol ps pos t N M) as S.
  assert (K : In (targ t, tk t) (default_by_len ++ map snd default_by_open)).
  { apply in_or_app. destruct S as [S|S].
    - left. rewrite <- (good_by_len ps G). exact S.
    - right. rewrite (good_expect ps G) in S. destruct (negb _); [discriminate|].
      destruct (f_math_delim (ps_f ps)) as [d0|]; [|discriminate].
      apply dict_get_in in S. exact S. }
  apply dict_get_in_key in D.
  destruct t as [kk a p e pre post]. cbn [targ tk] in *. clear N M S.
  vm_compute in K. vm_compute in D.
  repeat (destruct K as [K|K]; [injection K as <- <-|]); try contradiction;
    repeat (destruct D as [D|D]; [try discriminate D; injection D as <- <-|]); try contradiction;
    reflexivity.
Qed.
