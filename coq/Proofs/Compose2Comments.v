(** Composition (C12 x C02), source level, over the EXTENDED document grammar
    ([Doc/DocGrammar2.v]): two documents that differ only in the TEXT of their
    comments — comments written in front of arguments included — are converted
    to the same text by [latex_to_text] when [keep_comments] is off.

    One relation, [sbc2 vb eqn]: same constructors, same whitespace / name /
    post-space / delimiter / verbatim-text fields everywhere, comment texts free;
    when [vb] (verbatim math mode) formulas ([Math2] items) and the environments
    [eqn] singles out (the equation environments, rendered from the source) are
    moreover identical.  One tree lemma, [tree_sbc2]: the meanings [tree_of2] of
    two such documents are related by [Compose2Rel.vrelq] (same shape, same
    characters, the source slice of every formula / equation environment is its
    written form in both sources).  [Compose2Rel.vrelq_text] is the tree-level
    glue ([C12_relational], refined). *)
From Coq Require Import NArith ZArith List Bool Arith Lia.
From PLV Require Import Base.PyStr Tok.PState Tok.Tokenizer Parse.Nodes Parse.Parser Parse.ParseWire
                        Proofs.PyStrFacts Doc.DocGrammar Doc.DocGrammar2 Proofs.RoundTripTok Proofs.RoundTrip
                        Proofs.RoundTrip2 L2T.L2T L2T.L2TWire Proofs.L2TFilters
                        Proofs.ComposeRender Proofs.Compose2Rel.
From PLV Require Gen.GenWalkerCtx Gen.GenL2TCtx.
Import ListNotations.

(** * Documents that differ only in the text of their comments *)
Section Sbc2Def.
  Variable vb : bool.             (* verbatim math: formulas / equation environments identical *)
  Variable eqn : str -> bool.     (* the equation environments *)

  Fixpoint sbc2 (i i' : item2) {struct i} : Prop :=
    let all2 := fix all2 (l l' : list item2) {struct l} : Prop :=
        match l, l' with
        | [], [] => True
        | x :: r, x' :: r' => sbc2 x x' /\ all2 r r'
        | _, _ => False
        end in
    match i, i' with
    | Text2 ws cs, Text2 ws' cs' => ws = ws' /\ cs = cs'
    | Grp2 ws b tr, Grp2 ws' b' tr' => ws = ws' /\ tr = tr' /\ all2 b b'
    | Mac2 ws nm post a, Mac2 ws' nm' post' a' => ws = ws' /\ nm = nm' /\ post = post' /\ all2 a a'
    | Math2 ws k b tr, Math2 ws' k' b' tr' =>
        ws = ws' /\ k = k' /\ tr = tr' /\ all2 b b' /\ (vb = true -> b = b')
    | Cmt2 ws _ post, Cmt2 ws' _ post' => ws = ws' /\ post = post'
    | Par2 ws mid, Par2 ws' mid' => ws = ws' /\ mid = mid'
    | Env2 ws bws nm a b tr ews, Env2 ws' bws' nm' a' b' tr' ews' =>
        ws = ws' /\ bws = bws' /\ nm = nm' /\ tr = tr' /\ ews = ews' /\ all2 a a' /\ all2 b b'
        /\ (vb = true -> eqn nm = true -> a = a' /\ b = b')
    | Spc2 ws ch a, Spc2 ws' ch' a' => ws = ws' /\ ch = ch' /\ all2 a a'
    | Vrb2 ws nm post dc tx, Vrb2 ws' nm' post' dc' tx' =>
        ws = ws' /\ nm = nm' /\ post = post' /\ dc = dc' /\ tx = tx'
    | VEnv2 ws bws nm oa tx, VEnv2 ws' bws' nm' oa' tx' =>
        ws = ws' /\ bws = bws' /\ nm = nm' /\ tx = tx' /\ all2 oa oa' /\ (vb = true -> eqn nm = true -> oa = oa')
    | Brk2 ws oc cc b tr, Brk2 ws' oc' cc' b' tr' => ws = ws' /\ oc = oc' /\ cc = cc' /\ tr = tr' /\ all2 b b'
    | Abs2, Abs2 => True
    | Vba2 ws od cd tx, Vba2 ws' od' cd' tx' => ws = ws' /\ od = od' /\ cd = cd' /\ tx = tx'
    | Pre2 ws _ post a, Pre2 ws' _ post' a' => ws = ws' /\ post = post' /\ sbc2 a a'
    | _, _ => False
    end.
  Definition sbc_items2 : list item2 -> list item2 -> Prop :=
    fix all2 (l l' : list item2) {struct l} : Prop :=
      match l, l' with
      | [], [] => True
      | x :: r, x' :: r' => sbc2 x x' /\ all2 r r'
      | _, _ => False
      end.
  Definition sbc_doc2 (d d' : doc2) : Prop :=
    sbc_items2 (d_items2 d) (d_items2 d') /\ d_trail2 d = d_trail2 d'.

  Lemma sbc_items_cons2 x r l' : sbc_items2 (x :: r) l' ->
    exists x' r', l' = x' :: r' /\ sbc2 x x' /\ sbc_items2 r r'.
  Proof. destruct l' as [|x' r']; cbn; [tauto|]. intros [A B]. eauto. Qed.

  Lemma sbc_item_ws2 i i' : sbc2 i i' -> item_ws2 i = item_ws2 i'.
  Proof. destruct i, i'; cbn; tauto. Qed.

  (** the relation is reflexive (so that an identical sub-document is related to itself) *)
  Lemma sbc_refl_all2 n : (forall i, isize2 i <= n -> sbc2 i i) /\ (forall l, lsize2 l <= n -> sbc_items2 l l).
  Proof.
    induction n as [|n [IN IL]].
    - split; [intros i H; pose proof (isize_pos2 i); lia|].
      intros [|i l] H; [exact I|]. rewrite lsize_cons2 in H. pose proof (isize_pos2 i). lia.
    - assert (IN' : forall i, isize2 i <= S n -> sbc2 i i).
      { intros i H. destruct i; cbn [sbc2]; cbn [isize2] in H; repeat split;
          try (match goal with |- context [?f ?l ?l] => change (sbc_items2 l l); apply IL; unfold lsize2; lia end).
        apply IN. lia. }
      split; [exact IN'|]. intros [|i l] H; [exact I|]. rewrite lsize_cons2 in H. pose proof (isize_pos2 i).
      split; [apply IN'; lia | apply IL; lia].
  Qed.
  Lemma sbc_items_refl2 l : sbc_items2 l l.
  Proof. exact (proj2 (sbc_refl_all2 (lsize2 l)) l (le_n _)). Qed.
End Sbc2Def.

(** the two relations of the theorems *)
Definition same_but_comments2 (d d' : doc2) : Prop := sbc_doc2 false (fun _ => false) d d'.
Definition same_but_comments_outside_math2 (lt : l2tctx) (d d' : doc2) : Prop := sbc_doc2 true (is_eqenv lt) d d'.

(** * Arities (part of [ok_doc2]): an environment is written with as many
    arguments as its signature has slots; a verbatim environment with at most
    one optional argument — what makes the written positions of bodies / ends
    the ones [node_of2] computes *)
Section Arity.
  Variable cx : context.

  Fixpoint arity2 (i : item2) {struct i} : Prop :=
    let all := fix all (l : list item2) {struct l} : Prop :=
        match l with [] => True | x :: r => arity2 x /\ all r end in
    match i with
    | Grp2 _ b _ | Math2 _ _ b _ | Brk2 _ _ _ b _ => all b
    | Mac2 _ _ _ a | Spc2 _ _ a => all a
    | Env2 _ _ nm a b _ _ =>
        match get_env_spec cx nm with
        | Some sp => match sp_args sp with APStd l => length a = length l | APLegacy _ => True end
        | None => True
        end /\ all a /\ all b
    | VEnv2 _ _ _ oa _ => match oa with [] => True | [a] => item_ws2 a = [] /\ arity2 a | _ => False end
    | Pre2 _ _ _ a => arity2 a
    | _ => True
    end.
  Definition arity_items2 : list item2 -> Prop :=
    fix all (l : list item2) {struct l} : Prop :=
      match l with [] => True | x :: r => arity2 x /\ all r end.

  Definition OkN (n : nat) : Prop :=
    (forall i ps ex fol, isize2 i <= n -> ok_item2 cx ps ex i fol = true -> arity2 i)
    /\ (forall l ps ex fol, lsize2 l <= n -> ok_items2 cx ps ex l fol = true -> arity_items2 l).

  Lemma ok_expr_arity n : OkN n -> forall a sp aps fa, isize2 a <= n -> ok_expr2 cx sp aps a fa = true -> arity2 a.
  Proof.
    intros [IN IL] a.
    induction a as [ws cs|ws b tr|ws nm post ma| | | | |ws ch sa| | | | | |ws tx post a0 IHa]; intros sp aps fa SZ O;
      try exact I; try discriminate.
    - cbn [ok_expr2] in O. apply andb_true_iff in O. destruct O as [_ O]. exact (IN _ _ _ _ SZ O).
    - cbn [ok_expr2] in O. destruct ma; [exact I|discriminate].
    - cbn [ok_expr2] in O. destruct ch; [discriminate|]. destruct sa; [exact I|discriminate].
    - cbn [ok_expr2] in O. apply andb_true_iff in O. destruct O as [_ O]. cbn [isize2] in SZ. cbn [arity2].
      apply (IHa sp aps fa); [lia|exact O].
  Qed.

  Lemma ok_arg_arity n : OkN n -> forall a ps spc fa, isize2 a <= n -> ok_arg2 cx ps spc a fa = true -> arity2 a.
  Proof.
    intros H a ps spc fa SZ O. unfold ok_arg2 in O.
    destruct (a_kind spc) as [sp0|od cd opt sp0|ch sp0 full|dv].
    - exact (ok_expr_arity n H a _ _ _ SZ O).
    - destruct od as [|oc' [|? ?]]; try discriminate. destruct cd as [|cc' [|? ?]]; try discriminate.
      destruct a; try discriminate; try (destruct opt; discriminate); try exact I.
      assert (O' : N.eqb oc oc' && N.eqb cc cc' && delim_ok oc cc && (sp0 || is_nil ws) && ws_ok ws && ws_ok tr
                   && ok_items2 cx (apply_adelta ps (a_delta spc)) [oc; cc] body (tr ++ cc :: fa) = true)
        by (destruct opt; exact O).
      clear O. rename O' into O. apply andb_true_iff in O. destruct O as [_ O]. cbn [isize2] in SZ. fold (lsize2 body) in SZ.
      exact (proj2 H body _ _ _ ltac:(lia) O).
    - destruct a; try exact I; destruct ch as [|c0 [|? ?]]; discriminate.
    - destruct a; try exact I; discriminate.
  Qed.

  Lemma ok_args_arity n : OkN n -> forall al ps specs fh, lsize2 al <= n -> ok_args2 cx ps al specs fh = true ->
    arity_items2 al.
  Proof.
    intros H. induction al as [|a al IH]; intros ps specs fh SZ O; [exact I|].
    destruct specs as [|spc specs]; [discriminate|]. cbn [ok_args2] in O.
    apply andb_true_iff in O. destruct O as [O1 O2]. rewrite lsize_cons2 in SZ. pose proof (isize_pos2 a).
    split; [exact (ok_arg_arity n H a ps spc _ ltac:(lia) O1) | exact (IH ps specs fh ltac:(lia) O2)].
  Qed.

  Lemma ok_arity_all n : OkN n.
  Proof.
    induction n as [|n IHn].
    - split; [intros i ps ex fol H; pose proof (isize_pos2 i); lia|].
      intros [|i l] ps ex fol H; [intros; exact I|]. rewrite lsize_cons2 in H. pose proof (isize_pos2 i). lia.
    - pose proof IHn as [IN IL].
      assert (IN' : forall i ps ex fol, isize2 i <= S n -> ok_item2 cx ps ex i fol = true -> arity2 i).
      { intros i ps ex fol H O.
        destruct i as [ws cs|ws b tr|ws name post args|ws k b tr|ws text post|ws mid|ws bws name args b tr ews
                      |ws chars args|ws name post dc text|ws bws name oarg text|ws oc cc b tr| |vw od cd vt|pw ptx ppost pa0];
          try exact I; try discriminate; cbn [isize2] in H.
        - rewrite ok_item_grp2 in O. apply andb_true_iff in O. destruct O as [_ O].
          fold (lsize2 b) in H. exact (IL b _ _ _ ltac:(lia) O).
        - destruct (get_macro_spec cx name) as [sp|] eqn:GS;
            [|cbn [ok_item2] in O; rewrite GS in O; rewrite ?andb_false_r in O; discriminate].
          destruct (sp_args sp) as [l|lk] eqn:SA;
            [|cbn [ok_item2] in O; rewrite GS, SA in O; rewrite ?andb_false_r in O; discriminate].
          rewrite (ok_item_mac2 cx ps ex ws name post args fol sp l GS SA) in O.
          apply andb_true_iff in O. destruct O as [_ O]. apply andb_true_iff in O. destruct O as [O _].
          fold (lsize2 args) in H. exact (ok_args_arity n IHn args _ _ _ ltac:(lia) O).
        - rewrite ok_item_math2 in O. apply andb_true_iff in O. destruct O as [O _].
          apply andb_true_iff in O. destruct O as [_ O].
          fold (lsize2 b) in H. exact (IL b _ _ _ ltac:(lia) O).
        - destruct (get_env_spec cx name) as [sp|] eqn:GS;
            [|cbn [ok_item2] in O; rewrite GS in O; rewrite ?andb_false_r in O; discriminate].
          destruct (sp_args sp) as [l|lk] eqn:SA;
            [|cbn [ok_item2] in O; rewrite GS, SA in O; rewrite ?andb_false_r in O; discriminate].
          rewrite (ok_item_env2 cx ps ex ws bws name args b tr ews fol sp l GS SA) in O.
          apply andb_true_iff in O. destruct O as [_ O]. apply andb_true_iff in O. destruct O as [OA OB].
          fold (lsize2 args) in H. fold (lsize2 b) in H. cbn [arity2]. rewrite GS, SA.
          split; [exact (ok_args_length2 cx ps args _ l OA)|].
          split; [exact (ok_args_arity n IHn args _ _ _ ltac:(lia) OA) | exact (IL b _ _ _ ltac:(lia) OB)].
        - destruct (get_specials_spec cx chars) as [sp|] eqn:GS;
            [|cbn [ok_item2] in O; rewrite GS in O; rewrite ?andb_false_r in O; discriminate].
          destruct (sp_args sp) as [l|lk] eqn:SA;
            [|cbn [ok_item2] in O; rewrite GS, SA in O; rewrite ?andb_false_r in O; discriminate].
          rewrite (ok_item_spc2 cx ps ex ws chars args fol sp l GS SA) in O.
          apply andb_true_iff in O. destruct O as [_ O].
          fold (lsize2 args) in H. exact (ok_args_arity n IHn args _ _ _ ltac:(lia) O).
        - (* verbatim environment *)
          cbn [ok_item2] in O. fold (lsize2 oarg) in H.
          destruct (get_env_spec cx name) as [sp|]; [|rewrite ?andb_false_r in O; discriminate].
          destruct (sp_args sp) as [l|[|vn optarg]]; try (rewrite ?andb_false_r in O; discriminate).
          apply andb_true_iff in O. destruct O as [_ O]. apply andb_true_iff in O. destruct O as [_ O].
          destruct oarg as [|a [|a2 oarg]]; [exact I| |].
          + destruct a; try discriminate; [|split; [reflexivity|exact I]].
            destruct ws0; try discriminate.
            apply andb_true_iff in O. destruct O as [_ O].
            split; [reflexivity|]. cbn [lsize2 fold_right isize2] in H. fold (lsize2 body) in H.
            exact (IL body _ _ _ ltac:(lia) O).
          + destruct a; try discriminate. destruct ws0; discriminate. }
      split; [exact IN'|]. intros [|i l] ps ex fol H O; [exact I|].
      rewrite lsize_cons2 in H. pose proof (isize_pos2 i). rewrite ok_items_cons2 in O.
      apply andb_true_iff in O. destruct O as [O1 O2].
      split; [exact (IN' i ps ex _ ltac:(lia) O1) | exact (IL l ps ex fol ltac:(lia) O2)].
  Qed.

  Lemma ok_doc_arity2 d : ok_doc2 cx d = true -> arity_items2 (d_items2 d).
  Proof.
    unfold ok_doc2, ok_doc2_in. intros O. apply andb_true_iff in O. destruct O as [O _].
    exact (proj2 (ok_arity_all (lsize2 (d_items2 d))) _ _ _ _ (le_n _) O).
  Qed.
End Arity.

(** * The two meanings are related *)
Definition ibody2 (i : item2) : str := skipn (length (item_ws2 i)) (unparse_item2 i).
Lemma ibody_split2 i : unparse_item2 i = item_ws2 i ++ ibody2 i.
Proof. unfold ibody2. destruct i; cbn [item_ws2 unparse_item2]; try now rewrite skipn_len_app. reflexivity. Qed.

Section Trees2.
  Variable cx : context.
  Variable s s' : str.
  Variable vb : bool.
  Variable eqn : str -> bool.
  Notation R := (vrelq s s' false vb eqn).
  Notation Ro := (vorelq s s' false vb eqn).
  Notation Rl := (vallq s s' false vb eqn).
  Notation W2 := (sbc2 vb eqn).
  Notation Wl := (sbc_items2 vb eqn).

  Lemma vallq_app a a' b b' : Rl a a' -> Rl b b' -> Rl (a ++ b) (a' ++ b').
  Proof.
    revert a'. induction a as [|x a IH]; intros [|x' a'] H1 H2; cbn in H1 |- *; try tauto.
    split; [tauto|apply IH; tauto].
  Qed.

  Definition VR (st st' : collstate) : Prop := Rl (cs_acc st) (cs_acc st') /\ cs_pend st = cs_pend st'.

  Lemma vr_empty : VR cs_empty cs_empty. Proof. split; [exact I|reflexivity]. Qed.
  Lemma vr_push_pending st st' x p p' : VR st st' -> VR (push_pending st x p) (push_pending st' x p').
  Proof. intros [A B]. split; cbn [push_pending cs_acc cs_pend]; [exact A | now rewrite B]. Qed.
  Lemma vr_push_node st st' o o' : VR st st' -> Ro o o' -> VR (push_node st o) (push_node st' o').
  Proof.
    intros [A B] H. split; cbn [push_node cs_acc cs_pend]; [|exact B].
    apply vallq_app; [exact A|]. cbn. tauto.
  Qed.
  Lemma vr_flush ps st st' : VR st st' -> VR (flush ps st) (flush ps st').
  Proof.
    intros [A B]. unfold flush. rewrite <- B. destruct (cs_pend st) as [|c pd] eqn:Ep.
    - split; [exact A | now rewrite Ep, <- B].
    - split; cbn [cs_acc cs_pend]; [|reflexivity]. apply vallq_app; [exact A|]. cbn. tauto.
  Qed.
  Lemma vr_pre_flush ps st st' ws p p' : VR st st' -> VR (pre_flush ps st ws p) (pre_flush ps st' ws p').
  Proof.
    intros [A B]. unfold pre_flush. rewrite <- B. destruct (cs_pend st) as [|c pd] eqn:Ep.
    - destruct ws as [|w ws]; [split; [exact A | now rewrite Ep, <- B]|].
      apply vr_push_node; [split; [exact A | now rewrite Ep, <- B] | reflexivity].
    - apply vr_flush. split; cbn [cs_acc cs_pend]; [exact A | reflexivity].
  Qed.

  Lemma gen_nodelist_relq pos pos' acc acc' : Rl acc acc' -> Ro (Some (gen_nodelist pos acc)) (Some (gen_nodelist pos' acc')).
  Proof. intros H. unfold gen_nodelist, mk_nodelist. cbn [vorelq]. now apply vrelq_list. Qed.

  (** [p] / [p'] are the positions of the item's first token (after its leading whitespace) *)
  Definition NodeN (n : nat) : Prop :=
    forall i i', isize2 i <= n -> W2 i i' -> arity2 cx i -> arity2 cx i' -> forall ps p p' fol fol',
    skipn p s = ibody2 i ++ fol -> skipn p' s' = ibody2 i' ++ fol' ->
    Ro (node_of2 cx ps p i) (node_of2 cx ps p' i').
  Definition ListN (n : nat) : Prop :=
    forall l l', lsize2 l <= n -> Wl l l' -> arity_items2 cx l -> arity_items2 cx l' ->
    forall ps p p' st st' fol fol',
    skipn p s = unparse_items2 l ++ fol -> skipn p' s' = unparse_items2 l' ++ fol' ->
    VR st st' -> VR (fst (absorb2 cx ps p st l)) (fst (absorb2 cx ps p' st' l')).

  Lemma close_relq n : ListN n -> forall b b' tr ps p p' fol fol', lsize2 b <= n -> Wl b b' ->
    arity_items2 cx b -> arity_items2 cx b' ->
    skipn p s = unparse_items2 b ++ fol -> skipn p' s' = unparse_items2 b' ++ fol' ->
    forall q q',
    Rl (cs_acc (close_state ps (fst (absorb2 cx ps p cs_empty b)) tr q))
       (cs_acc (close_state ps (fst (absorb2 cx ps p' cs_empty b')) tr q')).
  Proof.
    intros L b b' tr ps p p' fol fol' SZ WB N1 N2 S1 S2 q q'. unfold close_state.
    apply vr_flush, vr_push_pending. apply (L b b' SZ WB N1 N2 ps p p' _ _ fol fol' S1 S2 vr_empty).
  Qed.

  (** from the position of an item to the position of its first token *)
  Lemma skip_ws2 (src : str) p i fol : skipn p src = unparse_item2 i ++ fol ->
    skipn (p + length (item_ws2 i)) src = ibody2 i ++ fol.
  Proof. intros H. apply skipn_shift. rewrite H, (ibody_split2 i) at 1. now rewrite <- app_assoc. Qed.

  (** a mandatory argument: comments, then a braced group or one token *)
  Lemma expr_relq n : NodeN n -> forall a a' aps p p' fol fol', isize2 a <= n -> W2 a a' ->
    arity2 cx a -> arity2 cx a' ->
    skipn p s = unparse_item2 a ++ fol -> skipn p' s' = unparse_item2 a' ++ fol' ->
    Ro (expr_node2 cx aps p a) (expr_node2 cx aps p' a').
  Proof.
    intros NN a.
    induction a as [ws cs| |ws nm post ma| | | | |ws ch sa| | | | | |ws tx post a0 IHa]; intros a' aps p p' fol fol' SZ W A1 A2 S1 S2;
      destruct a' as [ws' cs'| |ws' nm' post' ma'| | | | |ws' ch' sa'| | | | | |ws' tx' post' a0']; try contradiction;
      cbn [expr_node2];
      try (apply (NN _ _ SZ W A1 A2 aps _ _ fol fol'); [exact (skip_ws2 s p _ fol S1) | exact (skip_ws2 s' p' _ fol' S2)]).
    - cbn [sbc2] in W. destruct W as [_ <-]. cbn [vorelq mk_chars vrelq]. reflexivity.
    - cbn [sbc2] in W. destruct W as (_ & <- & <- & _). cbn [vorelq]. apply vrelq_macro. cbn [varelq vallq]. tauto.
    - cbn [sbc2] in W. destruct W as (_ & <- & _). cbn [vorelq]. apply vrelq_specials. cbn [varelq vallq]. tauto.
    - cbn [sbc2] in W. destruct W as (<- & <- & W). cbn [isize2] in SZ. cbn [arity2] in A1, A2. cbn [item_ws2].
      apply (IHa a0' aps _ _ fol fol'); [lia|exact W|exact A1|exact A2| |].
      + replace (p + length ws + 1 + length tx + length post) with (p + length (ws ++ 37%N :: tx ++ post))
          by (rewrite app_length; cbn [length]; rewrite app_length; lia).
        apply skipn_shift. rewrite S1. cbn [unparse_item2]. rewrite <- !app_assoc. cbn [app]. now rewrite <- !app_assoc.
      + replace (p' + length ws + 1 + length tx' + length post) with (p' + length (ws ++ 37%N :: tx' ++ post))
          by (rewrite app_length; cbn [length]; rewrite app_length; lia).
        apply skipn_shift. rewrite S2. cbn [unparse_item2]. rewrite <- !app_assoc. cbn [app]. now rewrite <- !app_assoc.
  Qed.

  Lemma args_relq n : NodeN n -> forall args args' l ps p p' fol fol', lsize2 args <= n -> Wl args args' ->
    arity_items2 cx args -> arity_items2 cx args' ->
    skipn p s = unparse_items2 args ++ fol -> skipn p' s' = unparse_items2 args' ++ fol' ->
    Rl (fst (arg_nodes2 cx ps p args l)) (fst (arg_nodes2 cx ps p' args' l)).
  Proof.
    intros NN. induction args as [|a args IH]; intros args' l ps p p' fol fol' SZ W N1 N2 S1 S2.
    - destruct args'; [exact I|contradiction].
    - destruct (sbc_items_cons2 _ _ _ _ _ W) as (a' & r' & -> & Wa & Wr).
      rewrite lsize_cons2 in SZ. pose proof (isize_pos2 a).
      destruct l as [|spc l]; [exact I|]. cbn [arg_nodes2 fst vallq].
      cbn [arity_items2] in N1, N2. destruct N1 as [N1 N1r]. destruct N2 as [N2 N2r].
      unfold unparse_items2 in S1, S2. cbn [flat_map] in S1, S2. rewrite <- app_assoc in S1, S2.
      split.
      + unfold arg_node2.
        assert (G : Ro (node_of2 cx (apply_adelta ps (a_delta spc)) (p + length (item_ws2 a)) a)
                       (node_of2 cx (apply_adelta ps (a_delta spc)) (p' + length (item_ws2 a')) a')).
        { apply (NN a a' ltac:(lia) Wa N1 N2 _ _ _ _ _ (skip_ws2 s p a _ S1) (skip_ws2 s' p' a' _ S2)). }
        destruct (a_kind spc) as [sp0|? ? ? ?|ch sp full|?]; try exact G.
        * apply (expr_relq n NN a a' _ p p' _ _ ltac:(lia) Wa N1 N2 S1 S2).
        * destruct a as [ws cs| | | | | | | | | | | | |]; destruct a' as [ws' cs'| | | | | | | | | | | | |];
            try contradiction; try exact G.
          cbn [sbc2] in Wa. destruct Wa as [_ <-]. destruct full; cbn [vorelq mk_chars mk_nodelist vrelq]; tauto.
      + apply (IH r' l ps _ _ fol fol' ltac:(lia) Wr N1r N2r).
        * unfold ilen2. apply skipn_shift. exact S1.
        * unfold ilen2. apply skipn_shift. exact S2.
  Qed.

  (** the slice of a construct that is written identically in both sources *)
  Lemma slice_same p p' (w fol fol' : str) e e' :
    skipn p s = w ++ fol -> skipn p' s' = w ++ fol' -> e = p + length w -> e' = p' + length w ->
    slice s p e = slice s' p' e'.
  Proof. intros S1 S2 -> ->. now rewrite (slice_of_skipn s p w fol S1), (slice_of_skipn s' p' w fol' S2). Qed.

  Lemma node_step_q n : NodeN n -> ListN n -> NodeN (S n).
  Proof.
    intros NN LN i i' SZ W A1 A2 ps p p' fol fol' S1 S2.
    destruct i as [ws cs|ws b tr|ws name post args|ws k b tr|ws text post|ws mid|ws bws name args b tr ews|ws chars args|ws name post dc text|ws bws name oarg text|ws oc cc b tr| |vw od cd vt|pw ptx ppost pa0];
      destruct i' as [ws' cs'|ws' b' tr'|ws' name' post' args'|ws' k' b' tr'|ws' text' post'|ws' mid'|ws' bws' name' args' b' tr' ews'|ws' chars' args'|ws' name' post' dc' text'|ws' bws' name' oarg' text'|ws' oc' cc' b' tr'| |vw' od' cd' vt'|pw' ptx' ppost' pa0'];
      try contradiction; try exact I;
      unfold ibody2 in S1, S2; cbn [item_ws2 unparse_item2] in S1, S2; rewrite ?skipn_len_app in S1, S2.
    - (* group *)
      cbn [sbc2] in W. destruct W as (<- & <- & W3). fold (sbc_items2 vb eqn b b') in W3.
      cbn [isize2] in SZ. fold (lsize2 b) in SZ. cbn [arity2] in A1, A2.
      rewrite !node_of_grp2. cbn zeta. cbn [vorelq]. apply vrelq_group. split; [reflexivity|]. split; [reflexivity|].
      apply gen_nodelist_relq. cbn [app] in S1, S2. apply skipn_S_of in S1. apply skipn_S_of in S2.
      apply (close_relq n LN b b' tr ps (S p) (S p') (tr ++ [125%N] ++ fol) (tr ++ [125%N] ++ fol'));
        [lia|exact W3|exact A1|exact A2| |].
      + rewrite S1. unfold unparse_items2. now rewrite <- !app_assoc.
      + rewrite S2. unfold unparse_items2. now rewrite <- !app_assoc.
    - (* macro *)
      cbn [sbc2] in W. destruct W as (<- & <- & <- & W3). fold (sbc_items2 vb eqn args args') in W3.
      cbn [isize2] in SZ. fold (lsize2 args) in SZ. cbn [arity2] in A1, A2.
      destruct (get_macro_spec cx name) as [sp|] eqn:GS; [|cbn [node_of2]; rewrite GS; exact I].
      destruct (sp_args sp) as [l|lk] eqn:SA; [|cbn [node_of2]; rewrite GS, SA; exact I].
      rewrite !(node_of_mac2 cx ps _ _ name _ _ sp l GS SA). cbn zeta. cbn [vorelq]. apply vrelq_macro.
      split; [reflexivity|]. split; [reflexivity|]. cbn [varelq]. split; [reflexivity|].
      apply (args_relq n NN args args' l ps _ _ fol fol'); [lia|exact W3|exact A1|exact A2| |].
      + replace (p + 1 + length name + length post) with (p + length (92%N :: name ++ post))
          by (cbn [length]; rewrite app_length; lia).
        apply skipn_shift. rewrite S1. cbn [app]. unfold unparse_items2. now rewrite <- !app_assoc.
      + replace (p' + 1 + length name + length post) with (p' + length (92%N :: name ++ post))
          by (cbn [length]; rewrite app_length; lia).
        apply skipn_shift. rewrite S2. cbn [app]. unfold unparse_items2. now rewrite <- !app_assoc.
    - (* math *)
      cbn [sbc2] in W. destruct W as (<- & <- & <- & W3 & WI). fold (sbc_items2 vb eqn b b') in W3.
      cbn [isize2] in SZ. fold (lsize2 b) in SZ. cbn [arity2] in A1, A2.
      rewrite !node_of_math2. cbn zeta. cbn [vorelq]. apply vrelq_math.
      split; [reflexivity|]. split; [reflexivity|]. split; [reflexivity|]. split.
      + apply gen_nodelist_relq.
        apply (close_relq n LN b b' tr _ _ _ (tr ++ m_close k ++ fol) (tr ++ m_close k ++ fol'));
          [lia|exact W3|exact A1|exact A2| |].
        * apply skipn_shift. rewrite S1. unfold unparse_items2. now rewrite <- !app_assoc.
        * apply skipn_shift. rewrite S2. unfold unparse_items2. now rewrite <- !app_assoc.
      + intros V. specialize (WI V). subst b'. rewrite !absorb_pos2.
        apply (slice_same p p' _ fol fol' _ _ S1 S2); unfold unparse_items2; rewrite !app_length; lia.
    - (* comment *)
      cbn [sbc2] in W. destruct W as (<- & <-). cbn [node_of2 vorelq vrelq]. split; [reflexivity|discriminate].
    - (* paragraph break *)
      cbn [sbc2] in W. destruct W as (<- & <-). cbn [node_of2]. destruct (par_spec_ok cx); [|exact I].
      cbn [vorelq]. apply vrelq_specials. split; [reflexivity|]. cbn. tauto.
    - (* environment *)
      cbn [sbc2] in W. destruct W as (<- & <- & <- & <- & <- & W3 & W4 & WI).
      fold (sbc_items2 vb eqn args args') in W3. fold (sbc_items2 vb eqn b b') in W4.
      cbn [isize2] in SZ. fold (lsize2 args) in SZ. fold (lsize2 b) in SZ.
      cbn [arity2] in A1, A2. fold (arity_items2 cx args) in A1. fold (arity_items2 cx b) in A1.
      fold (arity_items2 cx args') in A2. fold (arity_items2 cx b') in A2.
      destruct (get_env_spec cx name) as [sp|] eqn:GS; [|cbn [node_of2]; rewrite GS; exact I].
      destruct (sp_args sp) as [l|lk] eqn:SA; [|cbn [node_of2]; rewrite GS, SA; exact I].
      destruct A1 as (L1 & A1a & A1b). destruct A2 as (L2 & A2a & A2b).
      rewrite !(node_of_env2 cx ps _ _ _ name _ _ _ _ sp l GS SA). cbn zeta. cbn [vorelq].
      rewrite !(arg_nodes_pos2 cx ps _ _ l) by assumption. rewrite !absorb_pos2.
      assert (T1 : skipn (p + length (begin_str bws name)) s
                   = unparse_items2 args ++ unparse_items2 b ++ tr ++ end_str ews name ++ fol).
      { apply skipn_shift. rewrite S1. unfold unparse_items2. now rewrite <- !app_assoc. }
      assert (T2 : skipn (p' + length (begin_str bws name)) s'
                   = unparse_items2 args' ++ unparse_items2 b' ++ tr ++ end_str ews name ++ fol').
      { apply skipn_shift. rewrite S2. unfold unparse_items2. now rewrite <- !app_assoc. }
      apply vrelq_env. split; [reflexivity|]. split; [|split].
      + cbn [varelq]. split; [reflexivity|].
        apply (args_relq n NN args args' l ps _ _ _ _ ltac:(lia) W3 A1a A2a T1 T2).
      + apply gen_nodelist_relq. apply skipn_shift in T1. apply skipn_shift in T2.
        apply (close_relq n LN b b' tr _ _ _ _ _ ltac:(lia) W4 A1b A2b T1 T2).
      + intros V Q. destruct (WI V Q) as [<- <-].
        apply (slice_same p p' _ fol fol' _ _ S1 S2); unfold unparse_items2; rewrite !app_length; lia.
    - (* specials *)
      cbn [sbc2] in W. destruct W as (<- & <- & W3). fold (sbc_items2 vb eqn args args') in W3.
      cbn [isize2] in SZ. fold (lsize2 args) in SZ. cbn [arity2] in A1, A2.
      destruct (get_specials_spec cx chars) as [sp|] eqn:GS; [|cbn [node_of2]; rewrite GS; exact I].
      destruct (sp_args sp) as [l|lk] eqn:SA; [|cbn [node_of2]; rewrite GS, SA; exact I].
      rewrite !(node_of_spc2 cx ps _ _ chars _ sp l GS SA). cbn zeta. cbn [vorelq]. apply vrelq_specials.
      split; [reflexivity|]. cbn [varelq]. split; [reflexivity|].
      apply (args_relq n NN args args' l ps _ _ fol fol'); [lia|exact W3|exact A1|exact A2| |].
      + apply skipn_shift. rewrite S1. unfold unparse_items2. now rewrite <- !app_assoc.
      + apply skipn_shift. rewrite S2. unfold unparse_items2. now rewrite <- !app_assoc.
    - (* the verbatim macro *)
      cbn [sbc2] in W. destruct W as (<- & <- & <- & <- & <-). cbn [node_of2 vorelq]. apply vrelq_macro.
      split; [reflexivity|]. split; [reflexivity|]. cbn [varelq vallq vorelq mk_chars vrelq]. tauto.
    - (* a verbatim environment *)
      cbn [sbc2] in W. destruct W as (<- & <- & <- & <- & W3 & WI). fold (sbc_items2 vb eqn oarg oarg') in W3.
      cbn [isize2] in SZ. fold (lsize2 oarg) in SZ.
      cbn [arity2] in A1, A2.
      destruct (get_env_spec cx name) as [sp|] eqn:GS; [|cbn [node_of2]; rewrite GS; exact I].
      destruct (sp_args sp) as [l|[|vn optarg]] eqn:SA;
        [cbn [node_of2]; rewrite GS, SA; exact I|cbn [node_of2]; rewrite GS, SA; exact I|].
      rewrite !(node_of_venv2 cx ps _ _ _ name _ _ sp vn optarg GS SA). cbn zeta. cbn [vorelq].
      apply vrelq_env. split; [reflexivity|].
      destruct oarg as [|a [|? ?]]; destruct oarg' as [|a' [|? ?]]; cbn [sbc_items2] in W3; try tauto; cbn [fst snd app].
      + split; [cbn [varelq vallq vorelq mk_chars vrelq]; tauto|]. split; [exact I|].
        intros _ _. cbn [flat_map app] in S1, S2.
        apply (slice_same p p' _ fol fol' _ _ S1 S2); rewrite !app_length; lia.
      + destruct W3 as [Wa _]. cbn [lsize2 fold_right] in SZ.
        destruct A1 as [Z1 A1]. destruct A2 as [Z2 A2].
        cbn [flat_map] in S1, S2. rewrite !app_nil_r in S1, S2.
        assert (T1 : skipn (p + length (begin_str bws name)) s = unparse_item2 a ++ text ++ end_str [] name ++ fol).
        { apply skipn_shift. rewrite S1. now rewrite <- !app_assoc. }
        assert (T2 : skipn (p' + length (begin_str bws name)) s' = unparse_item2 a' ++ text ++ end_str [] name ++ fol').
        { apply skipn_shift. rewrite S2. now rewrite <- !app_assoc. }
        split; [|split].
        * cbn [varelq vallq]. split; [reflexivity|]. split; [|cbn [vorelq mk_chars vrelq]; tauto].
          pose proof (NN a a' ltac:(lia) Wa A1 A2 ps _ _ _ _ (skip_ws2 s _ a _ T1) (skip_ws2 s' _ a' _ T2)) as G.
          rewrite Z1, Z2 in G. cbn [length] in G. rewrite !Nat.add_0_r in G. exact G.
        * exact I.
        * intros V Q. specialize (WI V Q). injection WI as <-.
          apply (slice_same p p' _ fol fol' _ _ S1 S2); unfold ilen2; rewrite !app_length; lia.
    - (* delimited argument *)
      cbn [sbc2] in W. destruct W as (<- & <- & <- & <- & W3). fold (sbc_items2 vb eqn b b') in W3.
      cbn [isize2] in SZ. fold (lsize2 b) in SZ. cbn [arity2] in A1, A2.
      rewrite !node_of_brk2. cbn zeta. cbn [vorelq]. apply vrelq_group. split; [reflexivity|]. split; [reflexivity|].
      apply gen_nodelist_relq. cbn [app] in S1, S2. apply skipn_S_of in S1. apply skipn_S_of in S2.
      apply (close_relq n LN b b' tr ps (S p) (S p') (tr ++ [cc] ++ fol) (tr ++ [cc] ++ fol'));
        [lia|exact W3|exact A1|exact A2| |].
      + rewrite S1. unfold unparse_items2. now rewrite <- !app_assoc.
      + rewrite S2. unfold unparse_items2. now rewrite <- !app_assoc.
    - (* verbatim argument *)
      cbn [sbc2] in W. destruct W as (<- & <- & <- & <-). cbn [node_of2 vorelq]. apply vrelq_group.
      split; [reflexivity|]. split; [reflexivity|]. cbn [vorelq mk_nodelist]. apply vrelq_list.
      cbn [vallq vorelq mk_chars vrelq]. tauto.
  Qed.

  Lemma list_step_q n : NodeN (S n) -> ListN n -> ListN (S n).
  Proof.
    intros NN LN l l' SZ W N1 N2 ps p p' st st' fol fol' S1 S2 C.
    destruct l as [|i l]; [destruct l'; [exact C|contradiction]|].
    destruct (sbc_items_cons2 _ _ _ _ _ W) as (i' & r' & -> & Wi & Wr).
    rewrite lsize_cons2 in SZ. pose proof (isize_pos2 i). rewrite !absorb_cons2.
    cbn [arity_items2] in N1, N2. destruct N1 as [N1 N1r]. destruct N2 as [N2 N2r].
    unfold unparse_items2 in S1, S2. cbn [flat_map] in S1, S2. rewrite <- app_assoc in S1, S2.
    assert (T1 : skipn (p + ilen2 i) s = unparse_items2 l ++ fol) by (unfold ilen2; apply skipn_shift; exact S1).
    assert (T2 : skipn (p' + ilen2 i') s' = unparse_items2 r' ++ fol') by (unfold ilen2; apply skipn_shift; exact S2).
    apply (LN l r' ltac:(lia) Wr N1r N2r ps _ _ _ _ fol fol' T1 T2).
    pose proof (NN i i' ltac:(lia) Wi N1 N2 ps _ _ _ _ (skip_ws2 s p i _ S1) (skip_ws2 s' p' i' _ S2)) as NR.
    pose proof (sbc_item_ws2 vb eqn i i' Wi) as WS.
    destruct i; destruct i'; try contradiction; cbn [absorb_item2 item_ws2] in *;
      try (subst; apply vr_push_node; [|exact NR]; apply vr_pre_flush; exact C).
    cbn [sbc2] in Wi. destruct Wi as [<- <-]. apply vr_push_pending. exact C.
  Qed.

  Lemma q_all n : NodeN n /\ ListN n.
  Proof.
    induction n as [|n [NN LN]].
    - split.
      + intros i i' SZ. pose proof (isize_pos2 i). lia.
      + intros l l' SZ W N1 N2 ps p p' st st' fol fol' S1 S2 C.
        destruct l as [|i l]; [destruct l'; [exact C|contradiction]|].
        rewrite lsize_cons2 in SZ. pose proof (isize_pos2 i). lia.
    - pose proof (node_step_q n NN LN) as NN'. split; [exact NN'|apply list_step_q; assumption].
  Qed.

  Theorem tree_sbc2 ps d d' : sbc_doc2 vb eqn d d' ->
    arity_items2 cx (d_items2 d) -> arity_items2 cx (d_items2 d') ->
    s = unparse2 d -> s' = unparse2 d' ->
    Rl (fst (tree_of2 cx ps 0 d)) (fst (tree_of2 cx ps 0 d')).
  Proof.
    intros [WI WT] N1 N2 E1 E2. unfold tree_of2. cbn [fst].
    assert (C : VR (fst (absorb2 cx ps 0 cs_empty (d_items2 d))) (fst (absorb2 cx ps 0 cs_empty (d_items2 d')))).
    { apply (proj2 (q_all (lsize2 (d_items2 d))) _ _ (le_n _) WI N1 N2 ps 0 0 _ _ (d_trail2 d) (d_trail2 d'));
        [rewrite E1; reflexivity | rewrite E2; reflexivity | apply vr_empty]. }
    rewrite <- WT. unfold eos_state. destruct (d_trail2 d) as [|c w].
    - exact (proj1 (vr_flush ps _ _ C)).
    - exact (proj1 (vr_flush ps _ _ (vr_push_pending _ _ (c :: w) _ _ C))).
  Qed.
End Trees2.

(** * The source-level theorems *)
Local Notation cx0 := Gen.GenWalkerCtx.default_ctx.
Local Notation lt0 := Gen.GenL2TCtx.default_l2tctx.

(** comments everywhere (also inside formulas and in front of arguments); math mode not verbatim *)
Theorem source_level2 : forall o d d',
  same_but_comments2 d d' ->
  ok_doc2 cx0 d = true -> ok_doc2 cx0 d' = true ->
  o_keep_comments o = false -> o_math o <> MMVerbatim ->
  exists r, latex_to_text o (unparse2 d) false = Some r /\ latex_to_text o (unparse2 d') false = Some r.
Proof.
  intros o d d' W O O' Hk Hm. unfold latex_to_text.
  rewrite (parse_unparse2 cx0 d O), (parse_unparse2 cx0 d' O'). unfold doc_result2.
  eexists. split; [reflexivity|]. f_equal. unfold l2t_nodes, gen_nodelist, mk_nodelist.
  assert (NV : match o_math o with MMVerbatim => true | _ => false end = true -> False)
    by (destruct (o_math o); try discriminate; congruence).
  symmetry. apply (vrelq_text_gen _ _ lt0 cx0 o false (fun _ => false));
    [intros V; destruct (NV V) | intros V; destruct (NV V) |].
  apply vrelq_list. rewrite Hk.
  apply (tree_sbc2 cx0 (unparse2 d) (unparse2 d') _ _ (walker_state cx0) d d' W
           (ok_doc_arity2 cx0 d O) (ok_doc_arity2 cx0 d' O') eq_refl eq_refl).
Qed.

(** all four math modes: formulas and equation environments identical *)
Theorem source_level_all_modes2 : forall o d d',
  same_but_comments_outside_math2 lt0 d d' ->
  ok_doc2 cx0 d = true -> ok_doc2 cx0 d' = true ->
  o_keep_comments o = false ->
  exists r, latex_to_text o (unparse2 d) false = Some r /\ latex_to_text o (unparse2 d') false = Some r.
Proof.
  intros o d d' W O O' Hk. unfold latex_to_text.
  rewrite (parse_unparse2 cx0 d O), (parse_unparse2 cx0 d' O'). unfold doc_result2.
  eexists. split; [reflexivity|]. f_equal. unfold l2t_nodes, gen_nodelist, mk_nodelist.
  symmetry. apply (vrelq_text_gen _ _ lt0 cx0 o true (is_eqenv lt0)); [reflexivity | intros _ nm Q; exact Q |].
  apply vrelq_list. rewrite Hk.
  apply (tree_sbc2 cx0 (unparse2 d) (unparse2 d') _ _ (walker_state cx0) d d' W
           (ok_doc_arity2 cx0 d O) (ok_doc_arity2 cx0 d' O') eq_refl eq_refl).
Qed.
