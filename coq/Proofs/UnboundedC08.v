(** C08 — the unbounded round trip over the whole alphabet: the four sweeps
    [Proofs/UnboundedRT*.v] give [cover_ok2] for every character of
    [c08_alphabet] under the 4 x 2 configurations; [roundtrip_covered2] does the
    rest. *)
From Coq Require Import NArith List Bool Arith.
From PLV Require Import Base.PyStr L2T.L2T Enc.Encoder Enc.Builtin Enc.RoundTrip
                        Proofs.EncBuiltinFacts Proofs.RoundTripDefs Gen.GenBaseline
                        Proofs.UnboundedRenderDefs Proofs.UnboundedRoundTrip2.
From PLV Require Proofs.UnboundedRTBraces Proofs.UnboundedRTAll Proofs.UnboundedRTAlmost Proofs.UnboundedRTAfter.
Import ListNotations.
Local Open Scope N_scope.

Lemma rt_sweeps p sl : In p schemes -> In sl policies -> uncovered p sl = [].
Proof.
  unfold schemes, policies. cbn [In]. intros [<-|[<-|[<-|[<-|[]]]]] [<-|[<-|[]]].
  - exact UnboundedRTBraces.macros.
  - exact UnboundedRTBraces.alltrue.
  - exact UnboundedRTAll.macros.
  - exact UnboundedRTAll.alltrue.
  - exact UnboundedRTAlmost.macros.
  - exact UnboundedRTAlmost.alltrue.
  - exact UnboundedRTAfter.macros.
  - exact UnboundedRTAfter.alltrue.
Qed.

(** every character of the alphabet is covered *)
Theorem alphabet_covered p sl c : In p schemes -> In sl policies -> In c c08_alphabet -> cover_ok2 p sl c = true.
Proof.
  intros Hp Hs Hc. exact (filter_negb_nil (cover_ok2 p sl) c08_alphabet (rt_sweeps p sl Hp Hs) c Hc).
Qed.

(** the DESIGN statement, with the exclusion of the known finding made explicit *)
Theorem roundtrip_unbounded : forall p sl s,
  In p schemes -> In sl policies ->
  (forall c, In c s -> In c c08_alphabet) -> has_ligature s = false -> par_clean2 s = true ->
  roundtrip p sl s = Some s.
Proof.
  intros p sl s Hp Hs Hc HL PC.
  refine (roundtrip_covered2 p sl Hs s _ HL PC).
  intros c Hin. exact (alphabet_covered p sl c Hp Hs (Hc c Hin)).
Qed.
