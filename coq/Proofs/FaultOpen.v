(** C05 (injected faults) — an unmatched OPENING delimiter at top level: the
    construct it opens swallows the rest of the document and is not closed when
    the input ends; the strict parse fails with the general-nodes parser's
    "stop condition not met" error (6), located right after the opening
    delimiter (the position of the first node of the unclosed body), with the
    reader at the end of the input. *)
From Coq Require Import NArith List Bool Arith Lia.
From PLV Require Import Base.PyStr Tok.PState Tok.Tokenizer Parse.Nodes Parse.Parser Parse.ParseWire
                        Proofs.PyStrFacts Proofs.ParserMono Proofs.ParserSpansStep Proofs.ParserErrorsBase
                        Doc.DocGrammar Proofs.RoundTripTok Proofs.RoundTripRules Proofs.RoundTrip
                        Proofs.FaultRules Proofs.FaultTok Proofs.FaultDoc.
Import ListNotations.

(** * Where the first node of a body starts *)
Definition starts_at (p0 p : nat) (st : collstate) : Prop :=
  match cs_acc st with
  | [] => match cs_pend st with
          | [] => cs_ppos st = None /\ p = p0
          | _ :: _ => cs_ppos st = Some p0
          end
  | n :: _ => exists nd, n = Some nd /\ node_pos nd = Some p0
  end.

Lemma node_of_some cx ps q j nxt : ok_item cx ps j nxt = true ->
  match j with Text _ _ => True | _ => exists nd, node_of cx ps q j = Some nd /\ node_pos nd = Some q end.
Proof.
  intros OK. destruct j as [ws cs|ws b tr|ws name post args|ws k b tr|ws text post|ws mid]; [exact I| | | | |].
  - rewrite node_of_grp. cbn zeta. eexists. split; reflexivity.
  - destruct (get_macro_spec cx name) as [sp|] eqn:GS;
      [|cbn [ok_item] in OK; rewrite GS, andb_false_r in OK; discriminate].
    destruct (sp_args sp) as [l|lk] eqn:SA;
      [|cbn [ok_item] in OK; rewrite GS, SA, andb_false_r in OK; discriminate].
    rewrite (node_of_mac cx ps q ws name post args sp l GS SA). cbn zeta. eexists. split; reflexivity.
  - rewrite node_of_math. cbn zeta. eexists. split; reflexivity.
  - cbn [node_of]. eexists. split; reflexivity.
  - cbn [ok_item] in OK. apply andb_true_iff in OK. destruct OK as [_ PS]. cbn [node_of]. rewrite PS.
    eexists. split; reflexivity.
Qed.

Lemma starts_push ps p0 p q st ws nd : node_pos nd = Some (p + length ws) ->
  starts_at p0 p st -> starts_at p0 q (push_node (pre_flush ps st ws p) (Some nd)).
Proof.
  intros P H. unfold starts_at in *. unfold pre_flush.
  destruct (cs_pend st) as [|c0 r0] eqn:EP.
  - destruct ws as [|w ws].
    + cbn [push_node cs_acc]. destruct (cs_acc st) as [|n r]; cbn [app].
      * destruct H as [_ ->]. exists nd. cbn [length] in P. rewrite Nat.add_0_r in P. auto.
      * exact H.
    + cbn [push_node cs_acc]. destruct (cs_acc st) as [|n r]; cbn [app].
      * destruct H as [_ ->]. eexists. split; reflexivity.
      * exact H.
  - unfold flush. cbn [cs_pend cs_acc cs_ppos push_node].
    destruct ((c0 :: r0) ++ ws) as [|c1 r1] eqn:E2; [discriminate|]. cbn [cs_acc].
    destruct (cs_acc st) as [|n r]; cbn [app].
    + rewrite H. eexists. split; reflexivity.
    + exact H.
Qed.

Lemma starts_absorb_item cx ps p0 p st j nxt : ok_item cx ps j nxt = true ->
  starts_at p0 p st -> starts_at p0 (p + ilen j) (absorb_item cx ps p st j).
Proof.
  intros OK H. pose proof (node_of_some cx ps (p + length (item_ws j)) j nxt OK) as NS.
  destruct j as [ws cs|ws b tr|ws name post args|ws k b tr|ws text post|ws mid];
    try (destruct NS as (nd & E & P); cbn [absorb_item item_ws] in *; rewrite E; apply starts_push; assumption).
  (* text *)
  unfold starts_at in *.
  cbn [absorb_item push_pending cs_acc cs_pend cs_ppos].
  destruct (cs_acc st) as [|n r]; [|exact H].
  assert (NE : ws ++ cs <> []).
  { cbn [ok_item] in OK. destruct cs; [rewrite andb_false_r in OK; discriminate|]. destruct ws; discriminate. }
  destruct (cs_pend st) as [|c0 r0].
  - destruct H as [-> ->]. cbn [app]. destruct (ws ++ cs); [congruence|reflexivity].
  - cbn [app]. rewrite H. reflexivity.
Qed.

Lemma starts_absorb cx ps p0 l : forall p st fh, ok_items cx ps l fh = true ->
  starts_at p0 p st -> starts_at p0 (snd (absorb cx ps p st l)) (fst (absorb cx ps p st l)).
Proof.
  induction l as [|j r IH]; intros p st fh OK H; [exact H|].
  rewrite ok_items_cons in OK. apply andb_true_iff in OK. destruct OK as [O1 O2].
  rewrite absorb_cons. eapply IH; [exact O2|]. eapply starts_absorb_item; eassumption.
Qed.

(** the position [collector.pos_start()] reports after the final flush *)
Lemma starts_eos ps p0 p st tr : starts_at p0 p st ->
  match coll_pos_start (eos_state ps st tr p) with Some q => q | None => p0 end = p0.
Proof.
  unfold starts_at, coll_pos_start, eos_state. intros H.
  destruct (cs_acc st) as [|n r] eqn:EA.
  - destruct (cs_pend st) as [|c0 r0] eqn:EP.
    + destruct H as [H ->]. destruct tr as [|t tr].
      * unfold flush. rewrite EP, EA. cbn [first_pos]. rewrite H. reflexivity.
      * unfold flush, push_pending. cbn [cs_pend cs_acc cs_ppos]. rewrite EP, EA, H. reflexivity.
    + destruct tr as [|t tr].
      * unfold flush. rewrite EP, EA, H. reflexivity.
      * unfold flush, push_pending. cbn [cs_pend cs_acc cs_ppos]. rewrite EP, EA, H. reflexivity.
  - destruct H as (nd & -> & P).
    assert (F : forall st', cs_acc st' = Some nd :: r ->
              match (match first_pos (cs_acc (flush ps st')) with
                     | Some p1 => Some p1
                     | None => if (fix anysome (l : list (option node)) : bool :=
                                     match l with [] => false | Some _ :: _ => true | None :: r1 => anysome r1 end)
                                    (cs_acc (flush ps st'))
                               then None else cs_ppos (flush ps st') end)
              with Some q => q | None => p0 end = p0).
    { intros st' E. unfold flush. destruct (cs_pend st'); [rewrite E|cbn [cs_acc]; rewrite E]; cbn [app first_pos];
        rewrite P; reflexivity. }
    destruct tr; apply F; [exact EA | cbn [push_pending cs_acc]; exact EA].
Qed.

Lemma starts_empty p0 : starts_at p0 p0 cs_empty.
Proof. split; reflexivity. Qed.

(** * An unclosed body *)
Section Open.
  Variable s : str.
  Variable cx : context.
  Notation R := (run s false cx).

  (** the collector of the body reads the rest of the document and meets the end of the input *)
  Lemma body_eos ps o p0 l2 dtr : Std cx ps -> opts_ok ps o ->
    ok_items cx ps l2 (hd_error dtr) = true -> ws_ok dtr = true ->
    skipn p0 s = unparse_items l2 ++ dtr ->
    let A := absorb cx ps p0 cs_empty l2 in
    R (2 + 8 * length (unparse_items l2)) (TCollect ps o cs_empty p0)
    = Ok (OColl (eos_state ps (fst A) dtr (snd A)) None false true) (snd A + length dtr).
  Proof.
    intros SD OK OKL W SK A.
    assert (PA : snd A = p0 + length (unparse_items l2)) by (unfold A; apply absorb_pos).
    set (pe := p0 + length (unparse_items l2)) in *.
    assert (SKe : skipn pe s = dtr) by (apply skipn_shift in SK; exact SK).
    assert (E : R 2 (TCollect ps o (fst A) pe)
                = Ok (OColl (eos_state ps (fst A) dtr pe) None false true) (pe + length dtr)).
    { destruct dtr as [|c w].
      - cbn [eos_state length]. rewrite Nat.add_0_r.
        apply (rule_eos s cx 1 ps o (fst A) pe OK).
        apply impl_peek_eos; [reflexivity | exact SKe].
      - cbn [eos_state].
        apply (rule_eos_ws s cx 1 ps o (fst A) pe c w _ (impl_peek_eos ps s pe (c :: w) W SKe)).
        apply (rule_eos s cx 0 ps o _ _ OK).
        apply impl_peek_eos; [reflexivity|].
        assert (SKe' : skipn pe s = (c :: w) ++ []) by (rewrite app_nil_r; exact SKe).
        apply skipn_shift in SKe'. exact SKe'. }
    rewrite PA.
    refine (items_sim s cx (lsize l2) l2 (le_n _) ps o cs_empty p0 dtr 2 _ SD OK _ OKL SK E). discriminate.
  Qed.

  Lemma body_unclosed ps o p0 l2 dtr : Std cx ps -> opts_ok ps o ->
    g_require o = true -> stop_is_none (g_stop o) = false ->
    ok_items cx ps l2 (hd_error dtr) = true -> ws_ok dtr = true ->
    skipn p0 s = unparse_items l2 ++ dtr ->
    exists nl,
      R (3 + 8 * length (unparse_items l2)) (TGeneral ps o p0)
      = PErr (mkerr (Some p0) 6 (Some nl) true None None) (p0 + length (unparse_items l2) + length dtr).
  Proof.
    intros SD OK RQ SN OKL W SK.
    pose proof (body_eos ps o p0 l2 dtr SD OK OKL W SK) as H. cbn zeta in H.
    pose proof (erule_general_unclosed s cx _ ps o p0 _ _ RQ SN H) as E.
    rewrite (starts_eos ps p0 _ _ dtr (starts_absorb cx ps p0 l2 p0 cs_empty _ OKL (starts_empty p0))) in E.
    rewrite absorb_pos in E. eexists. exact E.
  Qed.
End Open.

(** * The opening delimiters *)
Inductive opener := OBrace | OMath (k : mathkind).
Definition open_text (op : opener) : str := match op with OBrace => [123%N] | OMath k => m_open k end.
Definition open_state (ps : pstate) (op : opener) : pstate :=
  match op with OBrace => ps | OMath k => ps_enter_math ps (Some (m_open k)) end.

Lemma walker_not_math cx : f_in_math (ps_f (walker_state cx)) = false.
Proof. reflexivity. Qed.

Lemma hd_error_open (a : str) op g : hd_error (a ++ open_text op ++ g) = hd_error (a ++ open_text op).
Proof. destruct a; [|reflexivity]. destruct op as [|k]; [reflexivity|destruct k; reflexivity]. Qed.

Theorem fault_opening cx l1 fws op l2 dtr :
  let ps0 := walker_state cx in
  ok_items cx ps0 l1 (hd_error (fws ++ open_text op)) = true -> ws_ok fws = true ->
  ok_items cx (open_state ps0 op) l2 (hd_error dtr) = true -> ws_ok dtr = true ->
  (op = OMath MDollar -> hd_not (fun c => N.eqb c 36) (unparse_items l2 ++ dtr)) ->
  let s := unparse_items l1 ++ fws ++ open_text op ++ unparse_items l2 ++ dtr in
  let q := length (unparse_items l1) + length fws + length (open_text op) in
  exists e, parse_top s false cx ps0 = PErr e (length s) /\ pe_pos e = Some q /\ pe_what e = 6.
Proof.
  intros ps0 OK1 W OK2 Wd DL s q.
  assert (SD : Std cx ps0) by apply std_walker. pose proof (std_view_of cx ps0 SD) as V.
  set (pb := 0 + length (unparse_items l1)).
  assert (SK : skipn 0 s = unparse_items l1 ++ (fws ++ open_text op ++ unparse_items l2 ++ dtr)) by reflexivity.
  pose proof (skipn_shift _ _ _ _ SK) as SKb. fold pb in SKb.
  pose proof (skipn_shift _ _ _ _ SKb) as SK0.
  pose proof (skipn_shift _ _ _ _ SK0) as SKq.
  rewrite <- (hd_error_open fws op (unparse_items l2 ++ dtr)) in OK1.
  assert (LS : length s = length (unparse_items l1) + (length fws + (length (open_text op)
                          + (length (unparse_items l2) + length dtr)))).
  { unfold s. rewrite !app_length. reflexivity. }
  assert (TOP : forall e p n, n + 8 * length (unparse_items l1) + 1 <= parse_fuel s ->
            run s false cx n (TCollect ps0 top_opts (fst (absorb cx ps0 0 cs_empty l1)) pb) = PErr e p ->
            parse_top s false cx ps0 = PErr (rewrap 0 e) p).
  { intros e p n LE H.
    assert (NR : @PErr out e p <> OutOfFuel) by discriminate.
    pose proof (items_sim s cx (lsize l1) l1 (le_n _) ps0 top_opts cs_empty 0 _ n _ SD (opts_ok_top ps0) NR OK1 SK H) as H1.
    pose proof (erule_general s cx _ _ _ _ _ _ H1) as H2.
    unfold parse_top. rewrite (run_mono s false cx _ (parse_fuel s) _ _ H2 ltac:(discriminate))
      by (rewrite Nat.add_1_r in LE; exact LE).
    reflexivity. }
  destruct op as [|k]; cbn [open_text open_state] in *.
  - (* { *)
    assert (T : impl_peek ps0 s pb = TokOk (mk TkBraceOpen [123%N] (pb + length fws) (S (pb + length fws)) fws [])).
    { cbn [app] in SKb. rewrite (impl_peek_dispatch ps0 s pb fws 123%N _ W SKb space_123). apply (dispatch_open cx ps0 V). }
    assert (T1 : impl_peek ps0 s (pb + length fws)
                 = TokOk (mk TkBraceOpen [123%N] (pb + length fws) (S (pb + length fws)) [] [])).
    { cbn [app] in SK0. rewrite (impl_peek_dispatch ps0 s _ [] 123%N _ eq_refl SK0 space_123). cbn [length].
      rewrite Nat.add_0_r. apply (dispatch_open cx ps0 V). }
    cbn [length] in SKq. replace (pb + length fws + 1) with (S (pb + length fws)) in SKq by lia.
    destruct (body_unclosed s cx ps0 (grp_opts ps0) _ l2 dtr SD (opts_ok_grp ps0) eq_refl eq_refl OK2 Wd SKq)
      as [nl E1].
    pose proof (erule_tgroup s cx _ ps0 _ _ _ (sv_gdelims _ _ V) T1 E1) as E2.
    pose proof (erule_group s cx _ ps0 top_opts (fst (absorb cx ps0 0 cs_empty l1)) pb fws _ _ (opts_ok_top ps0) T E2)
      as E3.
    assert (LE : S (S (3 + 8 * length (unparse_items l2))) + 8 * length (unparse_items l1) + 1 <= parse_fuel s)
      by (unfold parse_fuel; lia).
    eexists. split; [|split].
    + rewrite (TOP _ _ _ LE E3). f_equal; unfold pb; cbn [length] in LS; lia.
    + cbn [rewrap mkerr pe_pos]. f_equal; unfold q, pb; cbn [length]; lia.
    + reflexivity.
  - (* math *)
    set (mps := ps_enter_math ps0 (Some (m_open k))) in *.
    pose proof (expect_enter ps0 k (proj1 SD)) as E. fold mps in E.
    assert (M' : f_in_math (ps_f mps) = true) by (apply enter_math_fields).
    assert (DL' : k = MDollar -> hd_not (fun c => N.eqb c 36) (unparse_items l2 ++ dtr)).
    { intros ->. apply DL. reflexivity. }
    assert (T : impl_peek ps0 s pb
                = TokOk (PLV.Tok.Tokenizer.mk (m_tok k) (m_open k) (pb + length fws)
                            (pb + length fws + length (m_open k)) fws [])).
    { pose proof (dispatch_math_open cx ps0 V s (pb + length fws) fws k _ (walker_not_math cx) DL') as D.
      destruct k; cbn [m_open app] in SKb.
      - rewrite (impl_peek_dispatch ps0 s pb fws 36%N _ W SKb space_36). exact D.
      - rewrite (impl_peek_dispatch ps0 s pb fws 92%N _ W SKb space_92). exact D.
      - rewrite (impl_peek_dispatch ps0 s pb fws 92%N _ W SKb space_92). exact D. }
    assert (T1 : impl_peek ps0 s (pb + length fws)
                 = TokOk (PLV.Tok.Tokenizer.mk (m_tok k) (m_open k) (pb + length fws)
                             (pb + length fws + length (m_open k)) [] [])).
    { pose proof (dispatch_math_open cx ps0 V s (pb + length fws) [] k _ (walker_not_math cx) DL') as D.
      destruct k; cbn [m_open app] in SK0.
      - rewrite (impl_peek_dispatch ps0 s _ [] 36%N _ eq_refl SK0 space_36). cbn [length]. rewrite Nat.add_0_r. exact D.
      - rewrite (impl_peek_dispatch ps0 s _ [] 92%N _ eq_refl SK0 space_92). cbn [length]. rewrite Nat.add_0_r. exact D.
      - rewrite (impl_peek_dispatch ps0 s _ [] 92%N _ eq_refl SK0 space_92). cbn [length]. rewrite Nat.add_0_r. exact D. }
    destruct (body_unclosed s cx mps (math_opts k) _ l2 dtr (std_enter_math cx ps0 _ SD) (opts_ok_math mps k M')
                eq_refl eq_refl OK2 Wd SKq) as [nl E1].
    pose proof (erule_tmath s cx _ ps0 k _ _ _ _ T1 E E1) as E2.
    pose proof (erule_math s cx _ ps0 top_opts (fst (absorb cx ps0 0 cs_empty l1)) pb fws k _ _ (opts_ok_top ps0)
                  (proj1 SD) (walker_not_math cx) T E2) as E3.
    assert (LE : S (S (3 + 8 * length (unparse_items l2))) + 8 * length (unparse_items l1) + 1 <= parse_fuel s)
      by (unfold parse_fuel; lia).
    eexists. split; [|split].
    + rewrite (TOP _ _ _ LE E3). f_equal; unfold pb; lia.
    + cbn [rewrap mkerr pe_pos]. f_equal; unfold q, pb; lia.
    + reflexivity.
Qed.
