(** C05 (injected faults) — an unmatched OPENING delimiter ([{], [$], [$$], [\(],
    [\[], [\begin{x}]).  At top level the construct it opens swallows the rest
    of the document and is not closed when the input ends: the strict parse
    fails with the general-nodes parser's "stop condition not met" error (6),
    located right after the opening delimiter (the position of the first node
    of the unclosed body), with the reader at the end of the input
    ([fault_opening]).  In a nested body the new construct runs into the
    closing delimiter of the enclosing construct; if that is not its own
    closing delimiter the collector of the new construct rejects it there
    ([fault_open_nested]). *)
From Coq Require Import NArith List Bool Arith Lia.
From PLV Require Import Base.PyStr Tok.PState Tok.Tokenizer Parse.Nodes Parse.Parser Parse.ParseWire
                        Proofs.PyStrFacts Proofs.ParserMono Proofs.ParserSpansStep Proofs.ParserErrorsBase
                        Doc.DocGrammar Proofs.RoundTripTok Proofs.RoundTripRules Proofs.RoundTrip
                        Proofs.FaultRules Proofs.FaultTok Proofs.FaultDoc Proofs.FaultPath Proofs.PrefixSim Proofs.FaultClose.
Import ListNotations.

(** * Where the first node of a body starts *)
Definition starts_at (p0 p : nat) (st : collstate) : Prop :=
  match cs_acc st with
  | [] => match cs_pend st with
          | [] => cs_ppos st = None /\ p = p0
          | _ :: _ => cs_ppos st = Some p0
          end
  | n :: _ => exists nd, n = Some nd /\ node_pos nd = Some p0
  end.

Lemma node_of_some cx ps q j nxt : ok_item cx ps j nxt = true ->
  match j with Text _ _ => True | _ => exists nd, node_of cx ps q j = Some nd /\ node_pos nd = Some q end.
Proof.
  intros OK. destruct j as [ws cs|ws b tr|ws name post args|ws k b tr|ws text post|ws mid]; [exact I| | | | |].
  - rewrite node_of_grp. cbn zeta. eexists. split; reflexivity.
  - destruct (get_macro_spec cx name) as [sp|] eqn:GS;
      [|cbn [ok_item] in OK; rewrite GS, andb_false_r in OK; discriminate].
    destruct (sp_args sp) as [l|lk] eqn:SA;
      [|cbn [ok_item] in OK; rewrite GS, SA, andb_false_r in OK; discriminate].
    rewrite (node_of_mac cx ps q ws name post args sp l GS SA). cbn zeta. eexists. split; reflexivity.
  - rewrite node_of_math. cbn zeta. eexists. split; reflexivity.
  - cbn [node_of]. eexists. split; reflexivity.
  - cbn [ok_item] in OK. apply andb_true_iff in OK. destruct OK as [_ PS]. cbn [node_of]. rewrite PS.
    eexists. split; reflexivity.
Qed.

Lemma starts_push ps p0 p q st ws nd : node_pos nd = Some (p + length ws) ->
  starts_at p0 p st -> starts_at p0 q (push_node (pre_flush ps st ws p) (Some nd)).
Proof.
  intros P H. unfold starts_at in *. unfold pre_flush.
  destruct (cs_pend st) as [|c0 r0] eqn:EP.
  - destruct ws as [|w ws].
    + cbn [push_node cs_acc]. destruct (cs_acc st) as [|n r]; cbn [app].
      * destruct H as [_ ->]. exists nd. cbn [length] in P. rewrite Nat.add_0_r in P. auto.
      * exact H.
    + cbn [push_node cs_acc]. destruct (cs_acc st) as [|n r]; cbn [app].
      * destruct H as [_ ->]. eexists. split; reflexivity.
      * exact H.
  - unfold flush. cbn [cs_pend cs_acc cs_ppos push_node].
    destruct ((c0 :: r0) ++ ws) as [|c1 r1] eqn:E2; [discriminate|]. cbn [cs_acc].
    destruct (cs_acc st) as [|n r]; cbn [app].
    + rewrite H. eexists. split; reflexivity.
    + exact H.
Qed.

Lemma starts_absorb_item cx ps p0 p st j nxt : ok_item cx ps j nxt = true ->
  starts_at p0 p st -> starts_at p0 (p + ilen j) (absorb_item cx ps p st j).
Proof.
  intros OK H. pose proof (node_of_some cx ps (p + length (item_ws j)) j nxt OK) as NS.
  destruct j as [ws cs|ws b tr|ws name post args|ws k b tr|ws text post|ws mid];
    try (destruct NS as (nd & E & P); cbn [absorb_item item_ws] in *; rewrite E; apply starts_push; assumption).
  (* text *)
  unfold starts_at in *.
  cbn [absorb_item push_pending cs_acc cs_pend cs_ppos].
  destruct (cs_acc st) as [|n r]; [|exact H].
  assert (NE : ws ++ cs <> []).
  { cbn [ok_item] in OK. destruct cs; [rewrite andb_false_r in OK; discriminate|]. destruct ws; discriminate. }
  destruct (cs_pend st) as [|c0 r0].
  - destruct H as [-> ->]. cbn [app]. destruct (ws ++ cs); [congruence|reflexivity].
  - cbn [app]. rewrite H. reflexivity.
Qed.

Lemma starts_absorb cx ps p0 l : forall p st fh, ok_items cx ps l fh = true ->
  starts_at p0 p st -> starts_at p0 (snd (absorb cx ps p st l)) (fst (absorb cx ps p st l)).
Proof.
  induction l as [|j r IH]; intros p st fh OK H; [exact H|].
  rewrite ok_items_cons in OK. apply andb_true_iff in OK. destruct OK as [O1 O2].
  rewrite absorb_cons. eapply IH; [exact O2|]. eapply starts_absorb_item; eassumption.
Qed.

(** the position [collector.pos_start()] reports after the final flush *)
Lemma starts_eos ps p0 p st tr : starts_at p0 p st ->
  match coll_pos_start (eos_state ps st tr p) with Some q => q | None => p0 end = p0.
Proof.
  unfold starts_at, coll_pos_start, eos_state. intros H.
  destruct (cs_acc st) as [|n r] eqn:EA.
  - destruct (cs_pend st) as [|c0 r0] eqn:EP.
    + destruct H as [H ->]. destruct tr as [|t tr].
      * unfold flush. rewrite EP, EA. cbn [first_pos]. rewrite H. reflexivity.
      * unfold flush, push_pending. cbn [cs_pend cs_acc cs_ppos]. rewrite EP, EA, H. reflexivity.
    + destruct tr as [|t tr].
      * unfold flush. rewrite EP, EA, H. reflexivity.
      * unfold flush, push_pending. cbn [cs_pend cs_acc cs_ppos]. rewrite EP, EA, H. reflexivity.
  - destruct H as (nd & -> & P).
    assert (F : forall st', cs_acc st' = Some nd :: r ->
              match (match first_pos (cs_acc (flush ps st')) with
                     | Some p1 => Some p1
                     | None => if (fix anysome (l : list (option node)) : bool :=
                                     match l with [] => false | Some _ :: _ => true | None :: r1 => anysome r1 end)
                                    (cs_acc (flush ps st'))
                               then None else cs_ppos (flush ps st') end)
              with Some q => q | None => p0 end = p0).
    { intros st' E. unfold flush. destruct (cs_pend st'); [rewrite E|cbn [cs_acc]; rewrite E]; cbn [app first_pos];
        rewrite P; reflexivity. }
    destruct tr; apply F; [exact EA | cbn [push_pending cs_acc]; exact EA].
Qed.

Lemma starts_empty p0 : starts_at p0 p0 cs_empty.
Proof. split; reflexivity. Qed.

(** * The opening delimiters *)
Inductive opener := OBrace | OMath (k : mathkind) | OBegin (x : str).
Definition open_text (op : opener) : str :=
  match op with OBrace => [123%N] | OMath k => m_open k | OBegin x => env_text true x end.
(** the state and the collector options of the body of the construct that [op] opens *)
Definition open_state (cx : context) (ps : pstate) (op : opener) : pstate :=
  match op with
  | OBrace => ps
  | OMath k => ps_enter_math ps (Some (m_open k))
  | OBegin x => match get_env_spec cx x with Some sp => env_body_state ps sp | None => ps end
  end.
Definition open_opts (ps : pstate) (op : opener) : genopts :=
  match op with OBrace => grp_opts ps | OMath k => math_opts k | OBegin x => env_opts x end.
(** a math delimiter opens a formula only outside math mode; the environment
    is known to the context (or covered by its fallback) and takes no arguments *)
Definition open_wf (cx : context) (ps : pstate) (op : opener) : Prop :=
  match op with
  | OBrace => True
  | OMath _ => f_in_math (ps_f ps) = false
  | OBegin x => envname_ok x = true /\ exists sp, get_env_spec cx x = Some sp /\ sp_args sp = APStd []
  end.

Lemma open_text_hd op : exists h r, open_text op = h :: r /\ is_space h = false.
Proof.
  destruct op as [|k|x]; cbn [open_text].
  - exists 123%N, []. split; [reflexivity | exact space_123].
  - destruct k; cbn [m_open]; eexists; eexists; (split; [reflexivity|]); vm_compute; reflexivity.
  - unfold env_text. exists 92%N. eexists. split; [reflexivity | exact space_92].
Qed.

Lemma hd_error_open (a : str) op g : hd_error (a ++ open_text op ++ g) = hd_error (a ++ open_text op).
Proof. destruct (open_text_hd op) as (h & r & -> & _). destruct a; reflexivity. Qed.

Lemma open_inertf op : inertf (hd_error (open_text op)).
Proof.
  destruct op as [|k|x]; [exact inertf_123| |exact inertf_92].
  destruct k; [exact inertf_36 | exact inertf_92 | exact inertf_92 | exact inertf_36].
Qed.

Lemma std_open_state cx ps op : Std cx ps -> Std cx (open_state cx ps op).
Proof.
  intros SD. destruct op as [|k|x]; cbn [open_state]; [exact SD | apply std_enter_math; exact SD|].
  destruct (get_env_spec cx x) as [sp|]; [|exact SD]. unfold env_body_state.
  destruct (sp_body_math sp); [apply std_enter_math; exact SD | exact SD].
Qed.

Lemma stde_open_state cx ps op : StdE cx ps -> StdE cx (open_state cx ps op).
Proof.
  intros SD. destruct op as [|k|x]; cbn [open_state]; [exact SD | apply stde_enter_math; exact SD|].
  destruct (get_env_spec cx x) as [sp|]; [|exact SD]. unfold env_body_state.
  destruct (sp_body_math sp); [apply stde_enter_math; exact SD | exact SD].
Qed.

Lemma opts_ok2_open cx ps op : opts_ok2 (open_state cx ps op) (open_opts (open_state cx ps op) op).
Proof.
  destruct op as [|k|x]; cbn [open_state open_opts].
  - apply opts_ok_2, opts_ok_grp.
  - apply opts_ok_2, opts_ok_math. apply enter_math_fields.
  - repeat split.
Qed.

Section Open.
  Variable s : str.
  Variable cx : context.
  Notation R := (run s false cx).

  (** ** the collector of an unclosed body reads the rest of the document and meets the end of the input *)
  Lemma body_eos ps o p0 l2 dtr : Std cx ps -> opts_ok2 ps o ->
    ok_items cx ps l2 (hd_error dtr) = true -> ws_ok dtr = true ->
    skipn p0 s = unparse_items l2 ++ dtr ->
    let A := absorb cx ps p0 cs_empty l2 in
    R (2 + 8 * length (unparse_items l2)) (TCollect ps o cs_empty p0)
    = Ok (OColl (eos_state ps (fst A) dtr (snd A)) None false true) (snd A + length dtr).
  Proof.
    intros SD OK OKL W SK A.
    assert (PA : snd A = p0 + length (unparse_items l2)) by (unfold A; apply absorb_pos).
    set (pe := p0 + length (unparse_items l2)) in *.
    assert (SKe : skipn pe s = dtr) by (apply skipn_shift in SK; exact SK).
    assert (E : R 2 (TCollect ps o (fst A) pe)
                = Ok (OColl (eos_state ps (fst A) dtr pe) None false true) (pe + length dtr)).
    { destruct dtr as [|c w].
      - cbn [eos_state length]. rewrite Nat.add_0_r.
        apply (trule_eos s cx false 1 ps o (fst A) pe OK).
        apply impl_peek_eos; [reflexivity | exact SKe].
      - cbn [eos_state].
        apply (trule_eos_ws s cx false 1 ps o (fst A) pe c w _ (impl_peek_eos ps s pe (c :: w) W SKe)).
        apply (trule_eos s cx false 0 ps o _ _ OK).
        apply impl_peek_eos; [reflexivity|].
        assert (SKe' : skipn pe s = (c :: w) ++ []) by (rewrite app_nil_r; exact SKe).
        apply skipn_shift in SKe'. exact SKe'. }
    rewrite PA.
    refine (items_sim_t s cx false l2 ps o cs_empty p0 dtr 2 _ SD OK _ OKL SK E). discriminate.
  Qed.

  Lemma body_unclosed ps o p0 l2 dtr : Std cx ps -> opts_ok2 ps o ->
    g_require o = true -> stop_is_none (g_stop o) = false ->
    ok_items cx ps l2 (hd_error dtr) = true -> ws_ok dtr = true ->
    skipn p0 s = unparse_items l2 ++ dtr ->
    exists nl,
      R (3 + 8 * length (unparse_items l2)) (TGeneral ps o p0)
      = PErr (mkerr (Some p0) 6 (Some nl) true None None) (p0 + length (unparse_items l2) + length dtr).
  Proof.
    intros SD OK RQ SN OKL W SK.
    pose proof (body_eos ps o p0 l2 dtr SD OK OKL W SK) as H. cbn zeta in H.
    pose proof (erule_general_unclosed s cx _ ps o p0 _ _ RQ SN H) as E.
    rewrite (starts_eos ps p0 _ _ dtr (starts_absorb cx ps p0 l2 p0 cs_empty _ OKL (starts_empty p0))) in E.
    rewrite absorb_pos in E. eexists. exact E.
  Qed.

  (** ** the collector step on the opening delimiter: an error of the body
      parser of the new construct comes back unchanged *)
  Lemma open_err ps o st pos fws op rest n e p : StdE cx ps -> opts_ok2 ps o -> ws_ok fws = true ->
    open_wf cx ps op -> (op = OMath MDollar -> hd_not (fun c => N.eqb c 36) rest) ->
    skipn pos s = fws ++ open_text op ++ rest ->
    R n (TGeneral (open_state cx ps op) (open_opts (open_state cx ps op) op)
                  (pos + length fws + length (open_text op))) = PErr e p ->
    R (n + 3) (TCollect ps o st pos) = PErr e p.
  Proof.
    intros [SD EE] OK W WF DL SK H. pose proof (std_view_of cx ps SD) as V.
    pose proof (skipn_shift _ _ _ _ SK) as SK0.
    assert (LIFT : forall m, m <= n + 3 -> R m (TCollect ps o st pos) = PErr e p ->
                   R (n + 3) (TCollect ps o st pos) = PErr e p).
    { intros m LE HM. apply (lift s cx _ _ _ _ HM); [discriminate | exact LE]. }
    destruct op as [|k|x]; cbn [open_text open_state open_opts open_wf] in *.
    - (* { *)
      assert (T : impl_peek ps s pos = TokOk (mk TkBraceOpen [123%N] (pos + length fws) (S (pos + length fws)) fws [])).
      { cbn [app] in SK. rewrite (impl_peek_dispatch ps s pos fws 123%N _ W SK space_123). apply (dispatch_open cx ps V). }
      assert (T1 : impl_peek ps s (pos + length fws)
                   = TokOk (mk TkBraceOpen [123%N] (pos + length fws) (S (pos + length fws)) [] [])).
      { cbn [app] in SK0. rewrite (impl_peek_dispatch ps s _ [] 123%N _ eq_refl SK0 space_123). cbn [length].
        rewrite Nat.add_0_r. apply (dispatch_open cx ps V). }
      cbn [length] in H. replace (pos + length fws + 1) with (S (pos + length fws)) in H by lia.
      pose proof (erule_tgroup s cx _ ps _ _ _ (sv_gdelims _ _ V) T1 H) as E2.
      pose proof (erule_group s cx _ ps o st pos fws _ _ OK T E2) as E3.
      refine (LIFT _ _ E3); lia.
    - (* math *)
      set (mps := ps_enter_math ps (Some (m_open k))) in *.
      pose proof (expect_enter ps k (proj1 SD)) as E. fold mps in E.
      assert (DL' : k = MDollar -> hd_not (fun c => N.eqb c 36) rest).
      { intros ->. apply DL. reflexivity. }
      assert (T : impl_peek ps s pos
                  = TokOk (PLV.Tok.Tokenizer.mk (m_tok k) (m_open k) (pos + length fws)
                              (pos + length fws + length (m_open k)) fws [])).
      { pose proof (dispatch_math_open cx ps V s (pos + length fws) fws k _ WF DL') as D.
        destruct k; cbn [m_open app] in SK.
        - rewrite (impl_peek_dispatch ps s pos fws 36%N _ W SK space_36). exact D.
        - rewrite (impl_peek_dispatch ps s pos fws 92%N _ W SK space_92). exact D.
        - rewrite (impl_peek_dispatch ps s pos fws 92%N _ W SK space_92). exact D.
        - rewrite (impl_peek_dispatch ps s pos fws 36%N _ W SK space_36). exact D. }
      assert (T1 : impl_peek ps s (pos + length fws)
                   = TokOk (PLV.Tok.Tokenizer.mk (m_tok k) (m_open k) (pos + length fws)
                               (pos + length fws + length (m_open k)) [] [])).
      { pose proof (dispatch_math_open cx ps V s (pos + length fws) [] k _ WF DL') as D.
        destruct k; cbn [m_open app] in SK0.
        - rewrite (impl_peek_dispatch ps s _ [] 36%N _ eq_refl SK0 space_36). cbn [length]. rewrite Nat.add_0_r. exact D.
        - rewrite (impl_peek_dispatch ps s _ [] 92%N _ eq_refl SK0 space_92). cbn [length]. rewrite Nat.add_0_r. exact D.
        - rewrite (impl_peek_dispatch ps s _ [] 92%N _ eq_refl SK0 space_92). cbn [length]. rewrite Nat.add_0_r. exact D.
        - rewrite (impl_peek_dispatch ps s _ [] 36%N _ eq_refl SK0 space_36). cbn [length]. rewrite Nat.add_0_r. exact D. }
      pose proof (erule_tmath s cx _ ps k _ _ _ _ T1 E H) as E2.
      pose proof (erule_math s cx _ ps o st pos fws k _ _ OK (proj1 SD) WF T E2) as E3.
      refine (LIFT _ _ E3); lia.
    - (* \begin{x} *)
      destruct WF as (NX & sp & GS & SA). rewrite GS in H.
      assert (T : impl_peek ps s pos
                  = TokOk (mk TkBeginEnv x (pos + length fws) (pos + length fws + length (env_text true x)) fws [])).
      { assert (SK' : env_text true x ++ rest = 92%N :: (env_kw true ++ 123%N :: x ++ [125%N]) ++ rest) by reflexivity.
        rewrite SK' in SK.
        rewrite (impl_peek_dispatch ps s pos fws 92%N _ W SK space_92). rewrite <- SK'.
        exact (dispatch_env cx ps V EE s _ fws true x rest SK0 NX). }
      pose proof (erule_tcall_env s cx _ ps x (pos + length fws) _ sp _ _ SA H) as E2.
      pose proof (erule_begin s cx _ ps o st pos fws x _ sp _ _ OK GS T E2) as E3.
      refine (LIFT _ _ E3); lia.
  Qed.
End Open.

(** * At top level: the new construct is never closed *)
Theorem fault_opening cx l1 fws op l2 dtr :
  let ps0 := walker_state cx in
  ok_items cx ps0 l1 (hd_error (fws ++ open_text op)) = true -> ws_ok fws = true ->
  open_wf cx ps0 op ->
  ok_items cx (open_state cx ps0 op) l2 (hd_error dtr) = true -> ws_ok dtr = true ->
  (op = OMath MDollar -> hd_not (fun c => N.eqb c 36) (unparse_items l2 ++ dtr)) ->
  let s := unparse_items l1 ++ fws ++ open_text op ++ unparse_items l2 ++ dtr in
  let q := length (unparse_items l1) + length fws + length (open_text op) in
  exists e, parse_top s false cx ps0 = PErr e (length s) /\ pe_pos e = Some q /\ pe_what e = 6.
Proof.
  intros ps0 OK1 W WF OK2 Wd DL s q.
  assert (SE : StdE cx ps0) by apply stde_walker. pose proof (proj1 SE) as SD.
  set (pb := 0 + length (unparse_items l1)).
  assert (SK : skipn 0 s = unparse_items l1 ++ (fws ++ open_text op ++ unparse_items l2 ++ dtr)) by reflexivity.
  pose proof (skipn_shift _ _ _ _ SK) as SKb. fold pb in SKb.
  pose proof (skipn_shift _ _ _ _ SKb) as SK0.
  pose proof (skipn_shift _ _ _ _ SK0) as SKq.
  rewrite <- (hd_error_open fws op (unparse_items l2 ++ dtr)) in OK1.
  assert (LS : length s = length (unparse_items l1) + (length fws + (length (open_text op)
                          + (length (unparse_items l2) + length dtr)))).
  { unfold s. rewrite !app_length. reflexivity. }
  set (hs := open_state cx ps0 op) in *.
  assert (RQ : g_require (open_opts hs op) = true /\ stop_is_none (g_stop (open_opts hs op)) = false)
    by (destruct op; split; reflexivity).
  destruct (body_unclosed s cx hs (open_opts hs op) _ l2 dtr (std_open_state cx ps0 op SD) (opts_ok2_open cx ps0 op)
              (proj1 RQ) (proj2 RQ) OK2 Wd SKq) as [nl E1].
  pose proof (open_err s cx ps0 top_opts (fst (absorb cx ps0 0 cs_empty l1)) pb fws op _ _ _ _ SE
                (opts_ok_2 _ _ (opts_ok_top ps0)) W WF DL SKb E1) as E3.
  assert (NR : forall e p, @PErr out e p <> OutOfFuel) by discriminate.
  pose proof (items_sim s cx (lsize l1) l1 (le_n _) ps0 top_opts cs_empty 0 _ _ _ SD (opts_ok_top ps0) (NR _ _) OK1 SK E3)
    as H1.
  pose proof (erule_general s cx _ _ _ _ _ _ H1) as H2.
  eexists. split; [|split].
  - unfold parse_top. fold s.
    rewrite (run_mono s false cx _ (parse_fuel s cx) _ _ H2 (NR _ _)) by (pose proof (parse_fuel_ge s cx); lia).
    cbn [parse_content]. f_equal; unfold pb; lia.
  - cbn [rewrap mkerr pe_pos]. f_equal; unfold q, pb; lia.
  - reflexivity.
Qed.

(** * In a nested body: the new construct runs into a closing token that is
    not its own.  [path], [l1], [fws]: the left context, the items of the
    innermost body before the inserted delimiter, the whitespace in front of
    it; [l2], [tr]: well-formed items and whitespace after it; then the stray
    closing token [c] (in a well-formed document: the closing delimiter of the
    construct the delimiter was inserted in) and anything [g]. *)
Theorem fault_open_nested cx path l1 fws op l2 tr c g :
  let ps0 := walker_state cx in
  let hs := lp_state cx ps0 path in
  ok_lpath cx ps0 path (hd_error (unparse_items l1 ++ fws ++ open_text op)) = true ->
  ok_items cx hs l1 (hd_error (fws ++ open_text op)) = true -> ws_ok fws = true ->
  open_wf cx hs op ->
  ok_items cx (open_state cx hs op) l2 (hd_error (tr ++ stray_text c)) = true -> ws_ok tr = true ->
  stray_wf c -> stray_ok (open_opts (open_state cx hs op) op) c ->
  (op = OMath MDollar -> hd_not (fun c => N.eqb c 36) (unparse_items l2 ++ tr ++ stray_text c ++ g)) ->
  let q := length (lp_text path) + length (unparse_items l1) + length fws + length (open_text op)
           + length (unparse_items l2) + length tr in
  exists e,
    parse_top (lp_text path ++ unparse_items l1 ++ fws ++ open_text op ++ unparse_items l2 ++ tr ++ stray_text c ++ g)
              false cx ps0
    = PErr e (q + length (stray_text c))
    /\ pe_pos e = Some q /\ pe_what e = stray_what c.
Proof.
  intros ps0 hs OKP OK1 W WF OK2 Wt SW SO DL q.
  set (rest := unparse_items l2 ++ tr ++ stray_text c ++ g).
  set (s := lp_text path ++ unparse_items l1 ++ fws ++ open_text op ++ rest).
  assert (SE0 : StdE cx ps0) by apply stde_walker.
  pose proof (stde_lp_state cx path ps0 SE0) as SEi. fold hs in SEi.
  assert (SK : skipn 0 s = lp_text path ++ (unparse_items l1 ++ fws ++ open_text op ++ rest)) by reflexivity.
  pose proof (skipn_shift _ _ _ _ SK) as SK1.
  set (p1 := 0 + length (lp_text path)) in *.
  pose proof (skipn_shift _ _ _ _ SK1) as SKb.
  pose proof (skipn_shift _ _ _ _ SKb) as SK0.
  pose proof (skipn_shift _ _ _ _ SK0) as SKq.
  assert (OKP' : ok_lpath cx ps0 path (hd_error (unparse_items l1 ++ fws ++ open_text op ++ rest)) = true).
  { rewrite app_assoc, hd_error_open, <- app_assoc. exact OKP. }
  pose proof (opts_ok_lp cx path ps0 top_opts _ (opts_ok_top ps0) OKP') as OKi.
  set (os := open_state cx hs op) in *.
  (* the new construct's collector: the items [l2], then the stray token *)
  pose proof (stray_collect s cx false os (open_opts os op) cs_empty _ l2 tr c g (stde_open_state cx hs op SEi)
                (opts_ok2_open cx hs op) OK2 Wt SW SO SKq) as H. cbn zeta in H.
  pose proof (erule_general s cx _ _ _ _ _ _ H) as H1.
  pose proof (open_err s cx hs (lp_opts cx ps0 top_opts path) (fst (absorb cx hs p1 (lp_st cs_empty path) l1))
                (p1 + length (unparse_items l1)) fws op rest _ _ _ SEi (opts_ok_2 _ _ OKi) W WF DL SKb H1) as H2.
  assert (NR : forall e p, @PErr out e p <> OutOfFuel) by discriminate.
  rewrite <- (hd_error_open fws op rest) in OK1.
  pose proof (items_sim s cx (lsize l1) l1 (le_n _) hs (lp_opts cx ps0 top_opts path) (lp_st cs_empty path) p1 _ _ _
                (proj1 SEi) OKi (NR _ _) OK1 SK1 H2) as H3.
  destruct (lpath_err s cx path ps0 top_opts cs_empty 0 _ _ _ _ (proj1 SE0) (opts_ok_top ps0) OKP' SK H3)
    as (e1 & H4 & P1 & W1).
  pose proof (erule_general s cx _ _ _ _ _ _ H4) as H5.
  assert (LS : length s = length (lp_text path) + (length (unparse_items l1) + (length fws + (length (open_text op)
               + (length (unparse_items l2) + (length tr + (length (stray_text c) + length g))))))).
  { unfold s, rest. rewrite !app_length. reflexivity. }
  exists (rewrap 0 e1). split; [|split].
  - unfold parse_top. fold rest. fold s.
    rewrite (run_mono s false cx _ (parse_fuel s cx) _ _ H5 (NR _ _)) by (pose proof (parse_fuel_ge s cx); lia).
    cbn [parse_content]. f_equal; unfold q, p1; lia.
  - cbn [rewrap mkerr pe_pos]. rewrite P1. cbn [rewrap fail_err mkerr pe_pos]. f_equal; unfold q, p1; lia.
  - cbn [rewrap mkerr pe_what]. rewrite W1. reflexivity.
Qed.
