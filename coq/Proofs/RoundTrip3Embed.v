(** C02 — the extended grammar ([Doc/DocGrammar2.v]) is a sub-grammar of the third
    one ([Doc/DocGrammar3.v]): [up2_doc] keeps the written form, the side conditions
    (as an EQUALITY of the two boolean predicates) and the meaning (in every state, at
    every offset).  So the theorems about the third grammar subsume those about the
    extended grammar — and, through [RoundTrip2Embed], those about the core grammar. *)
From Coq Require Import NArith List Bool Arith Lia.
From PLV Require Import Base.PyStr Tok.PState Tok.Tokenizer Parse.Nodes Parse.Parser Parse.ParseWire
                        Doc.DocGrammar Doc.DocGrammar2 Doc.DocGrammar3
                        Proofs.RoundTripTok Proofs.RoundTrip2Tok Proofs.RoundTrip2 Proofs.RoundTrip3
                        Proofs.ParserAgree.
Import ListNotations.

Lemma item_ws_up2 i : item_ws3 (up2_item i) = item_ws2 i.
Proof. destruct i; reflexivity. Qed.

Section Embed3.
  Variable cx : context.

  (** ** the written form *)
  Definition UnpN (n : nat) : Prop := forall i, isize2 i <= n -> unparse_item3 (up2_item i) = unparse_item2 i.

  Lemma unp_list n : UnpN n -> forall l, lsize2 l <= n -> unparse_items3 (map up2_item l) = unparse_items2 l.
  Proof.
    intros U. induction l as [|i l IH]; intros SZ; [reflexivity|].
    rewrite lsize_cons2 in SZ. pose proof (isize_pos2 i).
    unfold unparse_items3, unparse_items2 in *. cbn [map flat_map]. rewrite (U i) by lia. rewrite IH by lia. reflexivity.
  Qed.

  Lemma unp_all : forall n, UnpN n.
  Proof.
    induction n as [|n IH]; intros i SZ; [pose proof (isize_pos2 i); lia|].
    pose proof (unp_list n IH) as UL. unfold unparse_items3, unparse_items2 in UL.
    destruct i; cbn [up2_item unparse_item3 unparse_item2]; cbn [isize2] in SZ; try reflexivity;
      repeat match goal with
             | _ : context [fold_right (fun i n => isize2 i + n) 0 ?b] |- context [flat_map unparse_item3 (map up2_item ?b)] =>
                 rewrite (UL b) by (fold (lsize2 b) in SZ; unfold lsize2 in *; lia)
             end; try reflexivity.
    - rewrite (IH i) by lia. reflexivity.
  Qed.

  Lemma unparse_up2_items l : unparse_items3 (map up2_item l) = unparse_items2 l.
  Proof. apply (unp_list (lsize2 l) (unp_all _)). lia. Qed.
  Lemma unparse_up2_item i : unparse_item3 (up2_item i) = unparse_item2 i.
  Proof. apply (unp_all (isize2 i)). lia. Qed.
  Lemma ilen_up2 i : ilen3 (up2_item i) = ilen2 i.
  Proof. unfold ilen3, ilen2. rewrite unparse_up2_item. reflexivity. Qed.
  Lemma flat_up2 l : flat_map unparse_item3 (map up2_item l) = flat_map unparse_item2 l.
  Proof. exact (unparse_up2_items l). Qed.

  (** ** the side conditions: the two predicates are EQUAL on embedded items *)
  Definition OkN (n : nat) : Prop :=
    forall i, isize2 i <= n -> forall ps ex fol,
    ok_item3 cx ps ex (up2_item i) fol = ok_item2 cx ps ex i fol.

  Lemma ok_list n : OkN n -> forall l, lsize2 l <= n -> forall ps ex fol,
    ok_items3 cx ps ex (map up2_item l) fol = ok_items2 cx ps ex l fol.
  Proof.
    intros O. induction l as [|i l IH]; intros SZ ps ex fol; [reflexivity|].
    rewrite lsize_cons2 in SZ. pose proof (isize_pos2 i).
    cbn [map]. rewrite ok_items_cons3, ok_items_cons2, unparse_up2_items, (O i) by lia. rewrite IH by lia. reflexivity.
  Qed.

  Lemma ok_expr_up n : OkN n -> forall a, isize2 a <= n -> forall sp aps fa,
    ok_expr3 cx sp aps (up2_item a) fa = ok_expr2 cx sp aps a fa.
  Proof.
    intros O a. induction a as [ws cs|ws b tr|ws name post margs| | | | |ws chars sargs| | | | | |ws text post a' IHa];
      intros SZ sp aps fa; try reflexivity.
    - cbn [up2_item ok_expr3 ok_expr2]. change (Grp3 ws (map up2_item b) tr) with (up2_item (Grp2 ws b tr)).
      rewrite (O _ SZ). reflexivity.
    - destruct margs; reflexivity.
    - destruct chars; destruct sargs; reflexivity.
    - cbn [isize2] in SZ. cbn [up2_item ok_expr3 ok_expr2]. rewrite unparse_up2_item, IHa by lia. reflexivity.
  Qed.

  Lemma ok_arg_up n : OkN n -> forall a, isize2 a <= n -> forall ps spc fa,
    ok_arg3 cx ps spc (up2_item a) fa = ok_arg2 cx ps spc a fa.
  Proof.
    intros O a SZ ps spc fa. unfold ok_arg3, ok_arg2.
    destruct (a_kind spc) as [sp|o c opt sp|ch sp full|d].
    - transitivity (ok_expr3 cx sp (apply_adelta ps (a_delta spc)) (up2_item a) fa); [destruct a; reflexivity|].
      rewrite (ok_expr_up n O a SZ). destruct a; reflexivity.
    - destruct o as [|oc' [|? ?]]; destruct c as [|cc' [|? ?]];
        destruct a as [| | | | | | | | | |ws oc cc b tr| | |]; try reflexivity.
      cbn [up2_item]. cbn [isize2] in SZ. fold (lsize2 b) in SZ.
      rewrite (ok_list n O b ltac:(lia)). reflexivity.
    - destruct ch as [|ch [|? ?]]; destruct a; reflexivity.
    - destruct a; reflexivity.
  Qed.

  Lemma ok_args_up n : OkN n -> forall args, lsize2 args <= n -> forall ps l fol,
    ok_args3 cx ps (map up2_item args) l fol = ok_args2 cx ps args l fol.
  Proof.
    intros O. induction args as [|a args IH]; intros SZ ps [|spc l] fol; try reflexivity.
    rewrite lsize_cons2 in SZ. pose proof (isize_pos2 a).
    cbn [map ok_args3 ok_args2]. rewrite flat_up2, (ok_arg_up n O a) by lia. rewrite IH by lia. reflexivity.
  Qed.

  Lemma ok_all : forall n, OkN n.
  Proof.
    induction n as [|n IH]; intros i SZ ps ex fol; [pose proof (isize_pos2 i); lia|].
    pose proof (ok_list n IH) as OL. pose proof (ok_args_up n IH) as OA.
    destruct i as [ws cs|ws b tr|ws name post args|ws mk b tr|ws text post|ws mid|ws bws name args b tr ews
                   |ws chars args|ws name post dc text|ws bws name oarg text|ws oc cc b tr| |vw od cd vt|pw ptx ppost pa'];
      cbn [isize2] in SZ; try reflexivity.
    - (* group *)
      fold (lsize2 b) in SZ. cbn [up2_item]. rewrite ok_item_grp3, ok_item_grp2, OL by lia. reflexivity.
    - (* macro *)
      fold (lsize2 args) in SZ. cbn [up2_item].
      destruct (get_macro_spec cx name) as [sp|] eqn:GS; [|cbn [ok_item3 ok_item2]; rewrite GS, ?flat_up2; reflexivity].
      destruct (sp_args sp) as [l|lk] eqn:SA; [|cbn [ok_item3 ok_item2]; rewrite GS, SA, ?flat_up2; reflexivity].
      rewrite (ok_item_mac3 cx ps ex ws name post _ fol sp l GS SA), (ok_item_mac2 cx ps ex ws name post _ fol sp l GS SA).
      rewrite OA, unparse_up2_items by lia. reflexivity.
    - (* math *)
      fold (lsize2 b) in SZ. cbn [up2_item]. rewrite ok_item_math3, ok_item_math2, OL, unparse_up2_items by lia. reflexivity.
    - (* environment *)
      fold (lsize2 args) in SZ. fold (lsize2 b) in SZ. cbn [up2_item].
      destruct (get_env_spec cx name) as [sp|] eqn:GS; [|cbn [ok_item3 ok_item2]; rewrite GS, ?flat_up2; reflexivity].
      destruct (sp_args sp) as [l|lk] eqn:SA; [|cbn [ok_item3 ok_item2]; rewrite GS, SA, ?flat_up2; reflexivity].
      rewrite (ok_item_env3 cx ps ex ws bws name _ _ tr ews fol sp l GS SA),
              (ok_item_env2 cx ps ex ws bws name _ _ tr ews fol sp l GS SA).
      rewrite OA, OL, unparse_up2_items by lia. reflexivity.
    - (* specials *)
      fold (lsize2 args) in SZ. cbn [up2_item].
      destruct (get_specials_spec cx chars) as [sp|] eqn:GS; [|cbn [ok_item3 ok_item2]; rewrite GS, ?flat_up2; reflexivity].
      destruct (sp_args sp) as [l|lk] eqn:SA; [|cbn [ok_item3 ok_item2]; rewrite GS, SA, ?flat_up2; reflexivity].
      rewrite (ok_item_spc3 cx ps ex ws chars _ fol sp l GS SA), (ok_item_spc2 cx ps ex ws chars _ fol sp l GS SA).
      rewrite OA, unparse_up2_items by lia. reflexivity.
    - (* verbatim environment *)
      fold (lsize2 oarg) in SZ. cbn [up2_item ok_item3 ok_item2].
      destruct (get_env_spec cx name) as [sp|] eqn:GS; [|reflexivity].
      destruct (sp_args sp) as [l|[|vn optarg]] eqn:SA; try reflexivity.
      cbn zeta.
      destruct oarg as [|a [|a2 oarg']]; [reflexivity| |].
      + destruct a as [| | | | | | | | | |bw oc cc b tr| | |]; try reflexivity.
        destruct bw; [|reflexivity]. cbn [map up2_item].
        cbn [lsize2 fold_right isize2] in SZ. fold (lsize2 b) in SZ.
        fold (ok_items3 cx). fold (ok_items2 cx). rewrite OL by lia. reflexivity.
      + destruct a as [| | | | | | | | | |bw oc cc b tr| | |]; try reflexivity; destruct bw; reflexivity.
  Qed.

  Theorem ok_items_up2 l ps ex fol : ok_items3 cx ps ex (map up2_item l) fol = ok_items2 cx ps ex l fol.
  Proof. apply (ok_list (lsize2 l) (ok_all _)). lia. Qed.

  (** ** the meaning *)
  Definition NodeN (n : nat) : Prop :=
    forall i, isize2 i <= n -> forall ps p, node_of3 cx ps p (up2_item i) = node_of2 cx ps p i.

  Lemma absorb_up n : NodeN n -> forall l, lsize2 l <= n -> forall ps p st,
    absorb3 cx ps p st (map up2_item l) = absorb2 cx ps p st l.
  Proof.
    intros NN. induction l as [|i l IH]; intros SZ ps p st; [reflexivity|].
    rewrite lsize_cons2 in SZ. pose proof (isize_pos2 i).
    cbn [map]. rewrite absorb_cons3, absorb_cons2, ilen_up2.
    replace (absorb_item3 cx ps p st (up2_item i)) with (absorb_item2 cx ps p st i); [apply IH; lia|].
    pose proof (fun q => NN i ltac:(lia) ps q) as NI.
    destruct i; cbn [up2_item absorb_item3 absorb_item2 item_ws3 item_ws2] in *; try reflexivity;
      rewrite NI; reflexivity.
  Qed.

  Lemma expr_node_up n : NodeN n -> forall a, isize2 a <= n -> forall aps p,
    expr_node3 cx aps p (up2_item a) = expr_node2 cx aps p a.
  Proof.
    intros NN a. induction a as [ws cs|ws b tr|ws name post margs| | | | |ws chars sargs| | | | | |ws text post a' IHa];
      intros SZ aps p; try reflexivity;
      try (cbn [up2_item expr_node3 expr_node2 item_ws3 item_ws2];
           match goal with |- node_of3 _ _ _ ?x = _ => first [apply (NN _ SZ) | change x with (up2_item (Grp2 ws b tr)); apply (NN _ SZ)] end).
    - cbn [isize2] in SZ. cbn [up2_item expr_node3 expr_node2 item_ws3 item_ws2]. apply IHa. lia.
  Qed.

  Lemma arg_node_up n : NodeN n -> forall a, isize2 a <= n -> forall ps spc p,
    arg_node3 cx ps spc p (up2_item a) = arg_node2 cx ps spc p a.
  Proof.
    intros NN a SZ ps spc p. unfold arg_node3, arg_node2. rewrite item_ws_up2.
    set (aps := apply_adelta ps (a_delta spc)). set (q := p + length (item_ws2 a)).
    destruct (a_kind spc) as [sp|o c opt sp|ch sp full|d].
    - transitivity (expr_node3 cx aps p (up2_item a)); [destruct a; reflexivity|].
      rewrite (expr_node_up n NN a SZ). destruct a; reflexivity.
    - transitivity (node_of3 cx aps q (up2_item a)); [destruct a; reflexivity|].
      rewrite (NN a SZ). destruct a; reflexivity.
    - destruct a as [ws cs| | | | | | | | | | | | |]; [reflexivity|..];
        match type of SZ with isize2 ?a <= _ =>
          change (node_of3 cx aps q (up2_item a) = node_of2 cx aps q a); apply (NN _ SZ) end.
    - transitivity (node_of3 cx aps q (up2_item a)); [destruct a; reflexivity|].
      rewrite (NN a SZ). destruct a; reflexivity.
  Qed.

  Lemma arg_nodes_up n : NodeN n -> forall args, lsize2 args <= n -> forall ps l p,
    arg_nodes3 cx ps p (map up2_item args) l = arg_nodes2 cx ps p args l.
  Proof.
    intros NN. induction args as [|a args IH]; intros SZ ps [|spc l] p; try reflexivity.
    rewrite lsize_cons2 in SZ. pose proof (isize_pos2 a).
    cbn [map arg_nodes3 arg_nodes2]. rewrite ilen_up2, IH, (arg_node_up n NN a) by lia. reflexivity.
  Qed.

  Lemma node_all : forall n, NodeN n.
  Proof.
    induction n as [|n IH]; intros i SZ ps p; [pose proof (isize_pos2 i); lia|].
    pose proof (absorb_up n IH) as AU. pose proof (arg_nodes_up n IH) as AN.
    destruct i as [ws cs|ws b tr|ws name post args|ws mk b tr|ws text post|ws mid|ws bws name args b tr ews
                   |ws chars args|ws name post dc text|ws bws name oarg text|ws oc cc b tr| |vw od cd vt|pw ptx ppost pa'];
      cbn [isize2] in SZ; try reflexivity.
    - fold (lsize2 b) in SZ. cbn [up2_item]. rewrite node_of_grp3, node_of_grp2. cbn zeta. rewrite AU by lia. reflexivity.
    - fold (lsize2 args) in SZ. cbn [up2_item].
      destruct (get_macro_spec cx name) as [sp|] eqn:GS; [|cbn [node_of3 node_of2]; rewrite GS; reflexivity].
      destruct (sp_args sp) as [l|lk] eqn:SA; [|cbn [node_of3 node_of2]; rewrite GS, SA; reflexivity].
      rewrite (node_of_mac3 cx ps p ws name post _ sp l GS SA), (node_of_mac2 cx ps p ws name post _ sp l GS SA).
      cbn zeta. rewrite AN by lia. reflexivity.
    - fold (lsize2 b) in SZ. cbn [up2_item]. rewrite node_of_math3, node_of_math2. cbn zeta. rewrite AU by lia. reflexivity.
    - fold (lsize2 args) in SZ. fold (lsize2 b) in SZ. cbn [up2_item].
      destruct (get_env_spec cx name) as [sp|] eqn:GS; [|cbn [node_of3 node_of2]; rewrite GS; reflexivity].
      destruct (sp_args sp) as [l|lk] eqn:SA; [|cbn [node_of3 node_of2]; rewrite GS, SA; reflexivity].
      rewrite (node_of_env3 cx ps p ws bws name _ _ tr ews sp l GS SA), (node_of_env2 cx ps p ws bws name _ _ tr ews sp l GS SA).
      cbn zeta. rewrite AN, AU by lia. reflexivity.
    - fold (lsize2 args) in SZ. cbn [up2_item].
      destruct (get_specials_spec cx chars) as [sp|] eqn:GS; [|cbn [node_of3 node_of2]; rewrite GS; reflexivity].
      destruct (sp_args sp) as [l|lk] eqn:SA; [|cbn [node_of3 node_of2]; rewrite GS, SA; reflexivity].
      rewrite (node_of_spc3 cx ps p ws chars _ sp l GS SA), (node_of_spc2 cx ps p ws chars _ sp l GS SA).
      cbn zeta. rewrite AN by lia. reflexivity.
    - fold (lsize2 oarg) in SZ. cbn [up2_item].
      destruct (get_env_spec cx name) as [sp|] eqn:GS; [|cbn [node_of3 node_of2]; rewrite GS; reflexivity].
      destruct (sp_args sp) as [l|[|vn optarg]] eqn:SA; try (cbn [node_of3 node_of2]; rewrite GS, SA; reflexivity).
      rewrite (node_of_venv3 cx ps p ws bws name _ text sp vn optarg GS SA),
              (node_of_venv2 cx ps p ws bws name _ text sp vn optarg GS SA).
      cbn zeta. destruct oarg as [|a [|a2 oarg']]; try reflexivity.
      cbn [map]. cbn [lsize2 fold_right] in SZ. rewrite (IH a) by lia. rewrite ilen_up2. reflexivity.
    - fold (lsize2 b) in SZ. cbn [up2_item]. rewrite node_of_brk3, node_of_brk2. cbn zeta. rewrite AU by lia. reflexivity.
  Qed.

  Theorem absorb_up2 l ps p st : absorb3 cx ps p st (map up2_item l) = absorb2 cx ps p st l.
  Proof. apply (absorb_up (lsize2 l) (node_all _)). lia. Qed.
End Embed3.

(** * The extended grammar embeds *)
Theorem unparse_up2_doc d : unparse3 (up2_doc d) = unparse2 d.
Proof. unfold unparse3, unparse2, up2_doc. cbn [d_items3 d_trail3]. rewrite unparse_up2_items. reflexivity. Qed.

Theorem ok_up2_doc cx d : ok_doc3 cx (up2_doc d) = ok_doc2 cx d.
Proof.
  unfold ok_doc3, ok_doc3_in, ok_doc2, ok_doc2_in, up2_doc. cbn [d_items3 d_trail3].
  rewrite ok_items_up2. reflexivity.
Qed.

Theorem tree_up2_doc cx ps pos d : tree_of3 cx ps pos (up2_doc d) = tree_of2 cx ps pos d.
Proof. unfold tree_of3, tree_of2, up2_doc. cbn [d_items3 d_trail3]. rewrite absorb_up2. reflexivity. Qed.

Theorem grammar2_embeds cx d :
  ok_doc3 cx (up2_doc d) = ok_doc2 cx d /\ unparse3 (up2_doc d) = unparse2 d /\
  (forall ps pos, tree_of3 cx ps pos (up2_doc d) = tree_of2 cx ps pos d).
Proof. split; [apply ok_up2_doc|]. split; [apply unparse_up2_doc|]. intros ps pos. apply tree_up2_doc. Qed.

(** the round-trip theorem of the extended grammar is an instance of the one of the third grammar *)
Corollary parse_unparse2_from_third cx d : ok_doc2 cx d = true ->
  parse_top (unparse2 d) false cx (walker_state cx) = doc_result2 cx d.
Proof.
  intros H. rewrite <- unparse_up2_doc. rewrite <- ok_up2_doc in H. rewrite (parse_unparse3 cx (up2_doc d) H).
  unfold doc_result3, doc_result2. rewrite tree_up2_doc, unparse_up2_doc. reflexivity.
Qed.

(** * Both parsing modes *)
Corollary parse_unparse3_modes cx d tol : ok_doc3 cx d = true ->
  parse_top (unparse3 d) tol cx (walker_state cx) = doc_result3 cx d.
Proof.
  intros H. pose proof (parse_unparse3 cx d H) as P. destruct tol; [|exact P].
  apply parse_top_agree. exact P.
Qed.
