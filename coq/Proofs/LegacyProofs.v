(** Proofs for C16, part 1: each legacy walker method is a post-processing of
    [run] on the corresponding pylatexenc-3 parser task, and the argument-spec
    spellings agree.

    The pylatexenc-3 side is defined HERE, independently of [Parse/Legacy.v]:
    the task and parser options a user of the new API would write
    ([new_*_task]), run through [parse_content] ([new_api]); and the
    post-processing as a direct function of that outcome ([*_spec]). *)
From Coq Require Import NArith ZArith List Bool Arith Lia.
From PLV Require Import Base.PyStr Tok.PState Tok.Tokenizer Parse.Nodes Parse.Parser Parse.ParseWire
     Parse.Legacy.
Import ListNotations.

(** [LatexWalker.parse_content(parser, token_reader at pos, parsing_state)] *)
Definition new_api (s : str) (tol : bool) (cx : context) (t : task) : res out :=
  parse_content tol (run s tol cx (parse_fuel s cx) t).

(** ** The pylatexenc-3 parser objects *)

(** [LatexGeneralNodesParser(stop_token_condition, stop_nodelist_condition,
    require_stop_condition_met, handle_stop_condition_token = move past it)]
    where the stop token is the closing brace [c] / [\end{e}] / the closing math
    delimiter [m], and the node-list condition "at least [mx] nodes" *)
Definition new_nodes_task (ps : pstate) (c e m : option str) (mx : option nat) (pos : nat) : task :=
  TGeneral ps
    {| g_stop := SLegacy c e m;
       g_nl := match mx with Some n => NLMax n | None => NLNone end;
       g_require := match c, e, m with None, None, None => false | _, _, _ => true end;
       g_child := CPSelf; g_incl_pre := true; g_handle_stop := true |} pos.
(** [LatexExpressionParser(return_full_node_list=False,
    single_token_requiring_arg_is_error=not tolerant, allow_pre_space=True,
    allow_pre_comments=True)] *)
Definition new_expr_task (tol : bool) (ps : pstate) (pos : nat) : task :=
  TExpr ps true true false (negb tol) [] pos.
(** [LatexDelimitedGroupParser(delimiters=(o,c), allow_pre_space=True)] *)
Definition new_group_task (ps : pstate) (o c : str) (pos : nat) : task :=
  TGroup ps (GDPair o c) false true pos.
(** [LatexSingleNodeParser()] *)
Definition new_single_task (ps : pstate) (pos : nat) : task :=
  TGeneral ps {| g_stop := SNone; g_nl := NLSingle true; g_require := false; g_child := CPSelf;
                 g_incl_pre := true; g_handle_stop := false |} pos.
(** the optional argument in square brackets of the standard argument ['[']:
    [LatexDelimitedGroupParser(('[',']'), optional=True, allow_pre_space=True)] *)
Definition new_optarg_task (ps : pstate) (pos : nat) : task :=
  TGroup ps (GDPair [91%N] [93%N]) true true pos.

(** ** Post-processing, as a function of the [parse_content] outcome *)

Definition fail_of {A} (x : res out) : lres A :=
  match x with
  | Ok _ _ => LExn 9
  | PErr e _ => LErr (pe_pos e)
  | REOS _ => LEOS
  | RExn k => LExn k
  | OutOfFuel => LFuel
  end.

(** get_latex_nodes: [(nodes, nodes.pos, reader position - nodes.pos)] *)
Definition nodes_spec (x : res out) : lres ltriple :=
  match x with
  | Ok (ONode (Some n)) pend =>
      match node_pos n with
      | Some p => LOk {| lt_node := Some n; lt_pos := Some p; lt_len := Some (Z.of_nat pend - Z.of_nat p)%Z |}
      | None => LExn 3
      end
  | Ok (ONode None) _ => LOk {| lt_node := None; lt_pos := None; lt_len := None |}
  | y => fail_of y
  end.

(** get_latex_expression: [nodeargd = None]; the swallowed closing-brace error;
    the dummy empty chars node; [(node, node.pos, node.len)] *)
Definition expr_absent (tol : bool) (ps : pstate) (pos : nat) (sb : option bool) : lres ltriple :=
  if tol || is_false_ob sb
  then LOk {| lt_node := Some (NChars pos pos (ps_mode ps) []); lt_pos := Some pos; lt_len := Some 0%Z |}
  else LOk {| lt_node := None; lt_pos := Some pos; lt_len := Some 0%Z |}.
Definition expr_spec (tol : bool) (ps : pstate) (pos : nat) (sb : option bool) (x : res out) : lres ltriple :=
  match x with
  | Ok (ONode (Some (NList _ _ _))) _ => LExn 4
  | Ok (ONode (Some n)) _ =>
      LOk {| lt_node := Some (clear_args n); lt_pos := node_pos n; lt_len := olen n |}
  | Ok (ONode None) _ => expr_absent tol ps pos sb
  | PErr e _ =>
      if Nat.eqb (pe_what e) 14 && (match pe_at e with Some _ => true | None => false end)
         && negb (truthy_ob sb)
      then expr_absent tol ps pos sb else LErr (pe_pos e)
  | y => fail_of y
  end.

(** get_latex_braced_group / get_latex_maybe_optional_arg *)
Definition group_spec (pos : nat) (x : res out) : lres ltriple :=
  match x with
  | Ok (ONode (Some n)) _ => LOk {| lt_node := Some n; lt_pos := node_pos n; lt_len := olen n |}
  | Ok (ONode None) _ => LOk {| lt_node := None; lt_pos := Some pos; lt_len := Some 0%Z |}
  | y => fail_of y
  end.
Definition optarg_spec (x : res out) : lres (option ltriple) :=
  match x with
  | Ok (ONode (Some n)) _ => LOk (Some {| lt_node := Some n; lt_pos := node_pos n; lt_len := olen n |})
  | Ok (ONode None) _ => LOk None
  | y => fail_of y
  end.

(** get_latex_environment: exactly one node, an environment, of the requested name *)
Definition env_spec (name : option str) (x : res out) : lres ltriple :=
  match x with
  | Ok (ONode (Some (NList _ _ [Some (NEnv p e m nm a b)]))) _ =>
      if match name with Some x => str_eqb nm x | None => true end
      then LOk {| lt_node := Some (NEnv p e m nm a b); lt_pos := Some p;
                  lt_len := Some (Z.of_nat e - Z.of_nat p)%Z |}
      else LErr None
  | Ok (ONode (Some (NList _ _ [None]))) _ => LExn 4
  | Ok (ONode (Some (NList _ _ _))) _ => LErr None
  | Ok (ONode None) _ => LErr None
  | Ok (ONode (Some _)) _ => LExn 3
  | y => fail_of y
  end.

(** ** get_token *)
Definition token_extra (incl : option delims) (bac : option bool) : delims :=
  match bac with
  | Some false => (match incl with Some l => l | None => [] end) ++ [([91%N], [93%N])]
  | _ => match incl with Some l => l | None => [] end
  end.
(** the state as a user of [sub_context] would build it *)
Definition token_spec_state (ps : pstate) (extra : delims) (envs : option bool) : pstate :=
  let flip := match envs with Some e => negb (Bool.eqb (f_en_envs (ps_f ps)) e) | None => false end in
  match extra, flip with
  | [], false => ps
  | [], true => sub_context ps [UEnEnvs (negb (f_en_envs (ps_f ps)))]
  | _ :: _, false => sub_context ps [UGroupDelims (f_group_delims (ps_f ps) ++ extra)]
  | _ :: _, true => sub_context ps [UGroupDelims (f_group_delims (ps_f ps) ++ extra);
                                     UEnEnvs (negb (f_en_envs (ps_f ps)))]
  end.
Definition token_spec (x : tokres) : lres token :=
  match x with TokOk t => LOk t | TokEOS _ => LEOS | TokErr e => LErr (Some (te_pos e)) end.

Lemma token_state_is_spec ps incl bac envs :
  token_state ps incl bac envs = token_spec_state ps (token_extra incl bac) envs.
Proof.
  unfold token_state, token_spec_state, token_extra.
  destruct bac as [[|]|], incl as [[|x l]|], envs as [e|]; cbn [app];
    try destruct (f_en_envs (ps_f ps)); try destruct e; cbn; try reflexivity.
Qed.

Section Methods.
  Variable s : str.
  Variable tol : bool.
  Variable cx : context.

  Theorem get_token_is_peek ps pos incl bac envs :
    legacy_get_token s tol ps pos incl bac envs
    = token_spec (peek_tok s tol (token_spec_state ps (token_extra incl bac) envs) pos).
  Proof.
    unfold legacy_get_token. rewrite token_state_is_spec.
    destruct (peek_tok s tol _ pos); reflexivity.
  Qed.

  (** [brackets_are_chars=False] is [include_brace_chars=[('[',']')]] *)
  Theorem get_token_brackets ps pos envs :
    legacy_get_token s tol ps pos None (Some false) envs
    = legacy_get_token s tol ps pos (Some [([91%N], [93%N])]) None envs.
  Proof. rewrite !get_token_is_peek. reflexivity. Qed.

  (** the default call reads under the given state itself *)
  Theorem get_token_default ps pos :
    legacy_get_token s tol ps pos None None None = token_spec (peek_tok s tol ps pos).
  Proof. rewrite get_token_is_peek. reflexivity. Qed.

  (** *** get_latex_nodes: the delimiter promotion and the (pos, len) arithmetic *)
  Theorem get_latex_nodes_is_post ps pos b e m mx :
    legacy_get_latex_nodes s tol cx ps pos b e m mx =
    match b with
    | None => nodes_spec (new_api s tol cx (new_nodes_task ps None e m mx pos))
    | Some bb =>
        match brace_promotion bb with
        | Some (Some o, c) =>
            nodes_spec (new_api s tol cx (new_nodes_task (ps_add_group ps [o] [c]) (Some [c]) e m mx pos))
        | _ => LExn 0
        end
    end.
  Proof.
    unfold legacy_get_latex_nodes, legacy_get_latex_nodes_f, nodes_state, new_api, new_nodes_task, nodes_opts.
    destruct b as [bb|]; [destruct (brace_promotion bb) as [[[o|] c]|]|]; try reflexivity.
    all: unfold lift_res, nodes_spec, nodes_post, fail_of;
      match goal with |- context [parse_content tol ?r] => destruct (parse_content tol r) as [[[n|]| |]| | | |] end;
      reflexivity.
  Qed.

  (** a closing brace given as one character means the pair with its opening brace *)
  Theorem get_latex_nodes_one_char ps pos o c e m mx :
    opener_of c = Some o ->
    legacy_get_latex_nodes s tol cx ps pos (Some [c]) e m mx
    = legacy_get_latex_nodes s tol cx ps pos (Some [o; c]) e m mx.
  Proof.
    intros H. rewrite !get_latex_nodes_is_post. cbn [brace_promotion]. rewrite H. reflexivity.
  Qed.

  Theorem get_latex_nodes_fails_iff ps pos o c e m mx :
    let new := new_api s tol cx (new_nodes_task (ps_add_group ps [o] [c]) (Some [c]) e m mx pos) in
    (exists ep, legacy_get_latex_nodes s tol cx ps pos (Some [o; c]) e m mx = LErr ep)
    <-> (exists er p, new = PErr er p).
  Proof.
    cbn zeta. rewrite get_latex_nodes_is_post. cbn [brace_promotion].
    destruct (new_api s tol cx _) as [[[n|]| |] p| | | |]; cbn [nodes_spec fail_of];
      try destruct (node_pos n); split; intros [x H]; try discriminate; try (destruct H; discriminate); eauto.
  Qed.

  (** the returned length leads from the node list's start to the reader position
      (past the token that stopped the parse) *)
  Theorem get_latex_nodes_len ps pos b e m mx n p l :
    legacy_get_latex_nodes s tol cx ps pos b e m mx
    = LOk {| lt_node := Some n; lt_pos := Some p; lt_len := Some l |} ->
    exists ps' c pend,
      new_api s tol cx (new_nodes_task ps' c e m mx pos) = Ok (ONode (Some n)) pend
      /\ node_pos n = Some p /\ (Z.of_nat p + l = Z.of_nat pend)%Z.
  Proof.
    rewrite get_latex_nodes_is_post. intros H.
    destruct b as [bb|]; [destruct (brace_promotion bb) as [[[o|] c]|]; try discriminate|].
    - exists (ps_add_group ps [o] [c]), (Some [c]).
      destruct (new_api s tol cx _) as [[[n'|]| |] pe| | | |]; cbn [nodes_spec fail_of] in H; try discriminate.
      destruct (node_pos n') eqn:E; try discriminate. inversion H; subst. exists pe. repeat split; auto. lia.
    - exists ps, None.
      destruct (new_api s tol cx _) as [[[n'|]| |] pe| | | |]; cbn [nodes_spec fail_of] in H; try discriminate.
      destruct (node_pos n') eqn:E; try discriminate. inversion H; subst. exists pe. repeat split; auto. lia.
  Qed.

  (** *** get_latex_expression *)
  Lemma clear_args_pos n : node_pos (clear_args n) = node_pos n.
  Proof. destruct n; reflexivity. Qed.
  Lemma clear_args_end n : node_end (clear_args n) = node_end n.
  Proof. destruct n; reflexivity. Qed.
  Lemma clear_args_len n : olen (clear_args n) = olen n.
  Proof. unfold olen. rewrite clear_args_pos, clear_args_end. reflexivity. Qed.

  Theorem get_latex_expression_is_post ps pos sb :
    legacy_get_latex_expression s tol cx ps pos sb
    = expr_spec tol ps pos sb (new_api s tol cx (new_expr_task tol ps pos)).
  Proof.
    unfold legacy_get_latex_expression, legacy_get_latex_expression_f, new_api, new_expr_task.
    destruct (parse_content tol _) as [[[n|]| |] p|e p| | |]; cbn [expr_catch lift_res expr_spec fail_of]; try reflexivity.
    - destruct n; cbn [expr_post]; unfold triple_of; rewrite ?clear_args_pos, ?clear_args_len; reflexivity.
    - unfold expr_post, expr_absent, triple_of, triple_none, mk_chars.
      destruct (tol || is_false_ob sb); cbn [olen node_pos node_end]; rewrite ?Z.sub_diag; reflexivity.
    - unfold is_closing_brace_error.
      destruct (Nat.eqb (pe_what e) 14 && _ && negb (truthy_ob sb)); cbn [lift_res]; try reflexivity.
      unfold expr_post, expr_absent, triple_of, triple_none, mk_chars.
      destruct (tol || is_false_ob sb); cbn [olen node_pos node_end]; rewrite ?Z.sub_diag; reflexivity.
  Qed.

  (** *** get_latex_braced_group *)
  Theorem get_latex_braced_group_is_post ps pos bt :
    legacy_get_latex_braced_group s tol cx ps pos bt =
    match brace_pair bt with
    | Some (o, c) => group_spec pos (new_api s tol cx (new_group_task ps o c pos))
    | None => LExn 5
    end.
  Proof.
    unfold legacy_get_latex_braced_group, legacy_get_latex_braced_group_f, new_api, new_group_task.
    destruct (brace_pair bt) as [[o c]|]; try reflexivity.
    destruct (parse_content tol _) as [[[n|]| |] p| | | |]; reflexivity.
  Qed.

  (** *** get_latex_environment *)
  Theorem get_latex_environment_is_post ps pos name :
    legacy_get_latex_environment s tol cx ps pos name
    = env_spec name (new_api s tol cx (new_single_task ps pos)).
  Proof.
    unfold legacy_get_latex_environment, legacy_get_latex_environment_f, new_api, new_single_task, single_opts.
    destruct (parse_content tol _) as [[[n|]| |] p| | | |]; cbn [lift_res env_spec env_post fail_of]; try reflexivity.
    destruct n; try reflexivity.
    destruct items as [|[x|] [|y r]]; try reflexivity.
    destruct x; try reflexivity.
    destruct name as [nm|]; try reflexivity; try (destruct (str_eqb _ nm); reflexivity).
  Qed.

  (** *** get_latex_maybe_optional_arg *)
  Theorem get_latex_maybe_optional_arg_is_post ps pos :
    legacy_get_latex_maybe_optional_arg s tol cx ps pos
    = optarg_spec (new_api s tol cx (new_optarg_task ps pos)).
  Proof.
    unfold legacy_get_latex_maybe_optional_arg, legacy_get_latex_maybe_optional_arg_f, new_api, new_optarg_task.
    destruct (parse_content tol _) as [[[n|]| |] p| | | |]; reflexivity.
  Qed.
End Methods.

(** ** The legacy stop conditions are the stop conditions of the pylatexenc-3
    group / environment-body / math parsers *)
Lemma stop_legacy_brace c t : stop_matches (SLegacy (Some c) None None) t = stop_matches (SBraceClose c) t.
Proof. cbn. rewrite !orb_false_r. reflexivity. Qed.
Lemma stop_legacy_env n t : stop_matches (SLegacy None (Some n) None) t = stop_matches (SEndEnv n) t.
Proof. cbn. rewrite orb_false_r. reflexivity. Qed.
Lemma stop_legacy_math d t :
  stop_matches (SLegacy None None (Some d)) t
  = stop_matches (SMathClose TkMathInline d) t || stop_matches (SMathClose TkMathDisplay d) t.
Proof. cbn. destruct (tokkind_eqb (tk t) TkMathInline), (tokkind_eqb (tk t) TkMathDisplay); cbn;
       rewrite ?orb_false_r, ?orb_diag; reflexivity. Qed.

(** ** The delimiter promotion: after it the pair is a group delimiter; a pair
    that is one already leaves the state untouched *)
Lemma delims_eqb_app_neq (d : delims) x : delims_eqb (d ++ [x]) d = false.
Proof. unfold delims_eqb. induction d as [|y d IH]; cbn; [reflexivity|]. rewrite IH. apply andb_false_r. Qed.

Lemma normalize_group f : f_group_delims (normalize f) = f_group_delims f.
Proof. unfold normalize. destruct (negb (f_in_math f) && truthy_ostr (f_math_delim f)); reflexivity. Qed.

Lemma str_eqb_refl (a : str) : str_eqb a a = true.
Proof. unfold str_eqb. induction a as [|x a IH]; cbn; [reflexivity|]. rewrite N.eqb_refl, IH. reflexivity. Qed.

Theorem promotion_adds_pair ps o c :
  pair_in o c (f_group_delims (ps_f (ps_add_group ps o c))) = true.
Proof.
  unfold ps_add_group. destruct (pair_in o c (f_group_delims (ps_f ps))) eqn:E; [exact E|].
  unfold sub_context. cbn [ps_f filter]. unfold changes at 1. rewrite delims_eqb_app_neq. cbn [negb fold_left].
  rewrite normalize_group. cbn [apply_update f_group_delims].
  unfold pair_in. rewrite existsb_app. cbn. rewrite !str_eqb_refl. cbn. apply orb_true_r.
Qed.
Theorem promotion_idempotent ps o c :
  pair_in o c (f_group_delims (ps_f ps)) = true -> ps_add_group ps o c = ps.
Proof. intros H. unfold ps_add_group. rewrite H. reflexivity. Qed.

(** ** The spellings *)

Lemma forallb_argchar_map a : forallb argchar_ok a = true ->
  map (fun c : N => [c]) a = map a_spec (map std_spec a).
Proof. intros _. rewrite map_map. reflexivity. Qed.

(** the argument-spec list every spelling reports *)
Definition spec_chars (a : str) : list str := map (fun c : N => [c]) a.

(** general statement: for EVERY argument string over the three characters, all
    spellings succeed and report the same argument-spec list; the string
    spellings build the standard pylatexenc-3 arguments parser, the object
    spellings wrap the legacy parser object *)
Theorem spellings_agree_all a : forallb argchar_ok a = true ->
  forall sp, In sp all_spellings ->
    exists p, spell sp a = Some p /\ parser_argspec p = spec_chars a
      /\ match sp with
         | SpLegacyKw | SpLegacyKwArgspec | SpLegacyPositional =>
             p = PWrap {| lo_argspec := a; lo_noopt := false; lo_amm := None |}
         | _ => p = match a with [] => PNoArgs | _ => PNew (map std_spec a) end
         end.
Proof.
  intros Ha sp _.
  destruct sp; cbn [spell std_macro std_macro_argspec truthy_ob]; unfold mk_legacy_obj;
    rewrite ?Ha; cbn [callable_init].
  all: try (destruct a as [|c r]; eexists; (split; [reflexivity|]); split; try reflexivity;
            unfold new_parser_of_string, parser_argspec, spec_chars; rewrite map_map; reflexivity).
  all: eexists; (split; [reflexivity|]); split; reflexivity.
Qed.

(** the finite sweep asked for by the property: all 121 strings up to length 4 *)
Definition spelling_check (a : str) : bool :=
  forallb (fun sp =>
             match spell sp a with
             | Some p => list_eqb str_eqb (parser_argspec p) (spec_chars a)
             | None => false
             end) all_spellings.

Lemma spellings_sweep : forallb spelling_check (strings_upto arg_alphabet 4) = true.
Proof. vm_compute. reflexivity. Qed.

Lemma strings_upto_count : length (strings_upto arg_alphabet 4) = 121.
Proof. vm_compute. reflexivity. Qed.

Lemma list_eqb_str_true (a b : list str) : list_eqb str_eqb a b = true -> a = b.
Proof.
  revert b. induction a as [|x a IH]; intros [|y b] H; cbn in H; try discriminate; [reflexivity|].
  apply andb_true_iff in H. destruct H as [H1 H2]. f_equal; [|apply IH; exact H2].
  clear -H1. revert y H1. unfold str_eqb. induction x as [|c x IHx]; intros [|d y] H; cbn in H; try discriminate; [reflexivity|].
  apply andb_true_iff in H. destruct H as [Hc Hr]. apply N.eqb_eq in Hc. subst. f_equal. apply IHx. exact Hr.
Qed.

Theorem spellings_agree_upto4 a : In a (strings_upto arg_alphabet 4) ->
  forall sp, In sp all_spellings ->
    exists p, spell sp a = Some p /\ parser_argspec p = spec_chars a.
Proof.
  intros Ha sp Hsp.
  pose proof (proj1 (forallb_forall _ _) spellings_sweep a Ha) as H.
  unfold spelling_check in H. pose proof (proj1 (forallb_forall _ _) H sp Hsp) as H2.
  cbv beta in H2. destruct (spell sp a) as [p|]; [|discriminate]. exists p. split; [reflexivity|].
  apply list_eqb_str_true. exact H2.
Qed.

(** [std_macro(name, optarg, numargs)] is the string ['[' if optarg] + ['{' * numargs] *)
Theorem std_macro_optnum o n :
  std_macro (SAOptNum o n)
  = spell SpPositional ((if truthy_ob o then [91%N] else []) ++ repeat 123%N n).
Proof. reflexivity. Qed.
