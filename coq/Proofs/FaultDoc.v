(** C05 (injected faults) / C06 (prefix) — facts about the document side
    ([Doc/DocGrammar.v]) only: the side conditions [ok_item] / [ok_items] depend
    on the follow character only negatively (so a document stays well formed
    when what follows it is replaced by a character that is neither whitespace
    nor a letter), splitting item lists, and the collector-state invariant
    "pending characters are empty exactly when the pending position is unset"
    that makes the three ways of flushing trailing whitespace agree. *)
From Coq Require Import NArith List Bool Arith Lia.
From PLV Require Import Base.PyStr Tok.PState Tok.Tokenizer Parse.Nodes Parse.Parser Parse.ParseWire
                        Doc.DocGrammar Proofs.RoundTripTok Proofs.RoundTripRules Proofs.RoundTrip.
Import ListNotations.

(** * Follow characters *)

(** [o] is a harmless follower: not whitespace, not a letter *)
Definition inertf (o : option N) : Prop := otest is_space o = false /\ otest is_alpha o = false.

Lemma inertf_none : inertf None. Proof. split; reflexivity. Qed.
Lemma inertf_125 : inertf (Some 125%N). Proof. split; vm_compute; reflexivity. Qed.
Lemma inertf_123 : inertf (Some 123%N). Proof. split; vm_compute; reflexivity. Qed.
Lemma inertf_92 : inertf (Some 92%N). Proof. split; vm_compute; reflexivity. Qed.
Lemma inertf_36 : inertf (Some 36%N). Proof. split; vm_compute; reflexivity. Qed.

Lemma mac_follow_weaken name post (a a' : option N) :
  (a = a' \/ inertf a') -> mac_follow_ok name post a = true -> mac_follow_ok name post a' = true.
Proof.
  intros [->|[S A]]; [auto|]. unfold mac_follow_ok. destruct name as [|c nm]; [auto|].
  destruct (is_alpha c); [|auto]. intros H. apply andb_true_iff in H. destruct H as [_ H2].
  rewrite S. cbn [negb andb]. destruct post; [rewrite A; reflexivity | reflexivity].
Qed.

Lemma ok_item_follow cx ps i nxt nxt' :
  inertf nxt' -> ok_item cx ps i nxt = true -> ok_item cx ps i nxt' = true.
Proof.
  intros IF. pose proof IF as [S A].
  destruct i as [ws cs|ws b tr|ws name post args|ws k b tr|ws text post|ws mid]; cbn [ok_item]; try (intros H; exact H).
  - (* macro *)
    destruct (get_macro_spec cx name) as [sp|]; [|auto]. destruct (sp_args sp) as [l|]; [|auto].
    intros H. apply andb_true_iff in H. destruct H as [H1 H2]. apply andb_true_iff in H2. destruct H2 as [H2 H3].
    rewrite H1, H2. cbn [andb].
    revert H3. apply mac_follow_weaken.
    destruct (flat_map unparse_item args) as [|c x]; [right; cbn [app]|left; reflexivity].
    destruct nxt'; exact IF.
  - (* comment *)
    intros H. apply andb_true_iff in H. destruct H as [H1 _]. rewrite H1, S. reflexivity.
  - (* paragraph *)
    intros H. apply andb_true_iff in H. destruct H as [H1 H3]. apply andb_true_iff in H1. destruct H1 as [H1 _].
    rewrite H1, H3, S. reflexivity.
Qed.

Lemma ostr_hd (o : option N) : hd_error (ostr o) = o.
Proof. destruct o; reflexivity. Qed.

Lemma ok_items_follow cx ps l fh fh' :
  inertf fh' -> ok_items cx ps l fh = true -> ok_items cx ps l fh' = true.
Proof.
  intros IF. induction l as [|j r IH]; [auto|]. rewrite !ok_items_cons. intros H.
  apply andb_true_iff in H. destruct H as [H1 H2]. rewrite (IH H2), andb_true_r.
  destruct (unparse_items r) as [|c x] eqn:E; [|exact H1].
  cbn [app] in *. rewrite ostr_hd in *. exact (ok_item_follow cx ps j fh fh' IF H1).
Qed.

(** * Splitting item lists *)
Lemma unparse_items_app a b : unparse_items (a ++ b) = unparse_items a ++ unparse_items b.
Proof. unfold unparse_items. apply flat_map_app. Qed.

Lemma ok_items_app cx ps a b fh :
  ok_items cx ps (a ++ b) fh
  = ok_items cx ps a (hd_error (unparse_items b ++ ostr fh)) && ok_items cx ps b fh.
Proof.
  induction a as [|j r IH]; [reflexivity|]. cbn [app]. rewrite !ok_items_cons, IH.
  rewrite unparse_items_app, <- app_assoc, hd_error_ostr. apply andb_assoc.
Qed.

Lemma absorb_app cx ps a b : forall p st,
  absorb cx ps p st (a ++ b)
  = absorb cx ps (p + length (unparse_items a)) (fst (absorb cx ps p st a)) b.
Proof.
  induction a as [|j r IH]; intros p st.
  - cbn [app unparse_items flat_map length absorb fst]. rewrite Nat.add_0_r. reflexivity.
  - cbn [app]. rewrite !absorb_cons, IH. f_equal.
    unfold unparse_items, ilen. cbn [flat_map]. rewrite app_length. lia.
Qed.

(** * Collector states: pending characters and pending position go together *)
Definition cs_norm (st : collstate) : Prop :=
  match cs_pend st with [] => cs_ppos st = None | _ :: _ => cs_ppos st <> None end.

Lemma cs_norm_empty : cs_norm cs_empty. Proof. reflexivity. Qed.

Lemma cs_norm_push_pending st c p : c <> [] -> cs_norm (push_pending st c p).
Proof.
  intros NE. unfold cs_norm, push_pending. cbn [cs_pend cs_ppos].
  destruct (cs_pend st ++ c) eqn:E.
  - apply app_eq_nil in E. tauto.
  - destruct (cs_ppos st); discriminate.
Qed.

Lemma cs_norm_pre_flush ps st ws p : cs_norm st -> cs_norm (pre_flush ps st ws p).
Proof.
  unfold cs_norm, pre_flush. destruct (cs_pend st) as [|c r] eqn:E.
  - intros H. destruct ws; [rewrite E; exact H | cbn [push_node cs_pend cs_ppos]; rewrite E; exact H].
  - intros _. unfold flush. cbn [cs_pend cs_ppos]. destruct ((c :: r) ++ ws) eqn:E2; [destruct r; discriminate|reflexivity].
Qed.

Lemma cs_norm_push_node st n : cs_norm st -> cs_norm (push_node st n).
Proof. intros H. exact H. Qed.

Lemma cs_norm_absorb_item cx ps p st j nxt : ok_item cx ps j nxt = true -> cs_norm st ->
  cs_norm (absorb_item cx ps p st j).
Proof.
  intros OK H. destruct j as [ws cs| | | | |]; cbn [absorb_item];
    try (apply cs_norm_push_node, cs_norm_pre_flush; exact H).
  apply cs_norm_push_pending. cbn [ok_item] in OK.
  destruct cs as [|c cs]; [rewrite andb_false_r in OK; discriminate|]. destruct ws; discriminate.
Qed.

Lemma cs_norm_absorb cx ps l : forall p st fh, ok_items cx ps l fh = true -> cs_norm st ->
  cs_norm (fst (absorb cx ps p st l)).
Proof.
  induction l as [|j r IH]; intros p st fh OK H; [exact H|].
  rewrite ok_items_cons in OK. apply andb_true_iff in OK. destruct OK as [O1 O2].
  rewrite absorb_cons. eapply IH; [exact O2|]. eapply cs_norm_absorb_item; eassumption.
Qed.

(** under the invariant, the whitespace in front of a closing token is
    flushed exactly as trailing whitespace at the end of the input is *)
Lemma pre_flush_eos ps st tr p : cs_norm st ->
  cs_acc (pre_flush ps st tr p) = cs_acc (eos_state ps st tr p).
Proof.
  unfold cs_norm. intros H. unfold pre_flush, eos_state.
  destruct (cs_pend st) as [|c r] eqn:E.
  - destruct tr as [|t tr].
    + unfold flush. rewrite E. reflexivity.
    + unfold flush, push_pending. cbn [cs_pend cs_acc cs_ppos push_node]. rewrite E, H. reflexivity.
  - destruct tr as [|t tr].
    + unfold flush. cbn [cs_pend cs_acc cs_ppos]. rewrite E, app_nil_r. reflexivity.
    + unfold flush, push_pending. cbn [cs_pend cs_acc cs_ppos]. rewrite E. destruct (cs_ppos st); [|congruence].
      destruct ((c :: r) ++ t :: tr) eqn:E2; [destruct r; discriminate|]. reflexivity.
Qed.

Lemma pre_flush_close ps st tr p : cs_norm st ->
  cs_acc (pre_flush ps st tr p) = cs_acc (close_state ps st tr p).
Proof.
  unfold cs_norm. intros H. unfold pre_flush, close_state, flush, push_pending.
  cbn [cs_pend cs_acc cs_ppos].
  destruct (cs_pend st) as [|c r] eqn:E.
  - rewrite H. cbn [app]. destruct tr; reflexivity.
  - destruct (cs_ppos st); [|congruence].
    destruct ((c :: r) ++ tr) eqn:E2; [destruct r; discriminate|]. reflexivity.
Qed.

(** * The side conditions depend on the parsing state only through its math-mode flag *)
Lemma sub_in_math ps b d : f_in_math (ps_f (sub_context ps [UInMath b; UMathDelim d])) = b.
Proof.
  unfold sub_context. cbn [ps_f filter]. set (f0 := ps_f ps).
  assert (N : forall f, f_in_math (normalize f) = f_in_math f).
  { intros f. unfold normalize. destruct (_ && _); reflexivity. }
  assert (H1 : changes f0 (UInMath b) = false -> f_in_math f0 = b).
  { cbn [changes]. intros C1. apply negb_false_iff in C1. apply eqb_prop in C1. symmetry. exact C1. }
  destruct (changes f0 (UInMath b)) eqn:C1; destruct (changes f0 (UMathDelim d)) eqn:C2;
    cbn [fold_left]; rewrite N; cbn; auto.
Qed.

Lemma adelta_in_math ps ps' d : f_in_math (ps_f ps) = f_in_math (ps_f ps') ->
  f_in_math (ps_f (apply_adelta ps d)) = f_in_math (ps_f (apply_adelta ps' d)).
Proof.
  intros H. destruct d; cbn [apply_adelta]; [exact H| |]; unfold ps_enter_math, ps_leave_math; rewrite !sub_in_math;
    reflexivity.
Qed.

Lemma ok_state cx : forall n,
  (forall i, isize i <= n -> forall ps ps' nxt, f_in_math (ps_f ps) = f_in_math (ps_f ps') ->
             ok_item cx ps i nxt = ok_item cx ps' i nxt) /\
  (forall l, lsize l <= n -> forall ps ps' fh, f_in_math (ps_f ps) = f_in_math (ps_f ps') ->
             ok_items cx ps l fh = ok_items cx ps' l fh).
Proof.
  induction n as [|n [IHi IHl]].
  - split.
    + intros i SZ. pose proof (isize_pos i). lia.
    + intros [|i l] SZ ps ps' fh H; [reflexivity|]. rewrite lsize_cons in SZ. pose proof (isize_pos i). lia.
  - assert (ITEM : forall i, isize i <= S n -> forall ps ps' nxt, f_in_math (ps_f ps) = f_in_math (ps_f ps') ->
                   ok_item cx ps i nxt = ok_item cx ps' i nxt).
    { intros i SZ ps ps' nxt H.
      destruct i as [ws cs|ws b tr|ws name post args|ws k b tr|ws text post|ws mid]; try reflexivity.
      - rewrite !ok_item_grp. cbn [isize] in SZ. fold (lsize b) in SZ.
        rewrite (IHl b ltac:(lia) ps ps' _ H). reflexivity.
      - destruct (get_macro_spec cx name) as [sp|] eqn:GS; [|cbn [ok_item]; rewrite GS; reflexivity].
        destruct (sp_args sp) as [l|lk] eqn:SA; [|cbn [ok_item]; rewrite GS, SA; reflexivity].
        rewrite !(ok_item_mac cx _ ws name post args _ sp l GS SA).
        cbn [isize] in SZ. fold (lsize args) in SZ.
        assert (A : ok_args cx ps args l = ok_args cx ps' args l).
        { clear GS SA. revert l SZ. induction args as [|a args IHa]; intros [|spc l] SZ; try reflexivity.
          rewrite lsize_cons in SZ. cbn [ok_args].
          rewrite (IHa l ltac:(lia)).
          destruct a as [|aw ab atr| | | |]; try reflexivity. destruct aw; [|reflexivity].
          rewrite (IHi (Grp [] ab atr) ltac:(lia) _ _ None (adelta_in_math ps ps' (a_delta spc) H)). reflexivity. }
        rewrite A. reflexivity.
      - rewrite !ok_item_math, H. cbn [isize] in SZ. fold (lsize b) in SZ.
        rewrite (IHl b ltac:(lia) (ps_enter_math ps (Some (m_open k))) (ps_enter_math ps' (Some (m_open k))) _).
        + reflexivity.
        + unfold ps_enter_math. rewrite !sub_in_math. reflexivity. }
    split; [exact ITEM|].
    induction l as [|i l IHL]; intros SZ ps ps' fh H; [reflexivity|].
    rewrite lsize_cons in SZ. pose proof (isize_pos i). rewrite !ok_items_cons.
    rewrite (ITEM i ltac:(lia) ps ps' _ H), (IHL ltac:(lia) ps ps' fh H). reflexivity.
Qed.

Lemma ok_items_state cx ps ps' l fh : f_in_math (ps_f ps) = f_in_math (ps_f ps') ->
  ok_items cx ps l fh = ok_items cx ps' l fh.
Proof. intros H. exact (proj2 (ok_state cx (lsize l)) l (le_n _) ps ps' fh H). Qed.
