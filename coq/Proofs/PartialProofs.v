(** Proofs about the keep rule of [PartialLatexToLatexEncoder]
    ([Enc/Partial.v]): it never raises (fixed code), consumes at least one
    character, and its replacement is a verbatim copy of exactly the consumed
    input. *)
From Coq Require Import NArith List Bool Arith Lia.
From PLV Require Import Base.PyStr Enc.Encoder Enc.Partial Gen.GenEncChars Proofs.EncoderProofs.
Import ListNotations.

Lemma span_app f (s : str) : forall a b, span f s = (a, b) -> s = a ++ b.
Proof.
  induction s as [|c s IH]; cbn [span]; intros a b H.
  - injection H as <- <-. reflexivity.
  - destruct (f c).
    + destruct (span f s) as [a' b'] eqn:E. injection H as <- <-. cbn. f_equal. now apply IH.
    + injection H as <- <-. reflexivity.
Qed.

Lemma span_fst_le f (s : str) : length (fst (span f s)) <= length s.
Proof.
  destruct (span f s) as [a b] eqn:E. apply span_app in E. subst. cbn [fst]. rewrite app_length. lia.
Qed.

Lemma startswith_len (s p : str) : startswith s p = true -> length p <= length s.
Proof.
  revert s. induction p as [|c p IH]; intros s H; cbn; [lia|].
  destruct s as [|d s]; cbn in H; [discriminate|].
  apply andb_prop in H. destruct H as [_ H]. apply IH in H. cbn. lia.
Qed.

Lemma after_last_nl_le s : after_last_nl s <= length s.
Proof.
  induction s as [|c s IH]; cbn [after_last_nl length]; [lia|].
  destruct (after_last_nl s); [destruct (N.eqb c 10)|]; lia.
Qed.

Lemma after_last_nl_pos s : 1 <= count_c 10 s -> 1 <= after_last_nl s.
Proof.
  induction s as [|c s IH]; cbn [after_last_nl count_c]; [lia|].
  destruct (after_last_nl s) eqn:E.
  - rewrite N.eqb_sym. destruct (N.eqb c 10); cbn; [lia|]. intros H. apply IH in H. lia.
  - lia.
Qed.

Lemma first_nl_le s : first_nl s <= length s.
Proof. induction s as [|c s IH]; cbn [first_nl length]; [lia|]. destruct (N.eqb c 10); lia. Qed.

Lemma post_space_len_le u : post_space_len u <= length u.
Proof.
  unfold post_space_len. pose proof (span_fst_le isspace u).
  destruct (Nat.leb 2 (count_c 10 (fst (span isspace u)))); auto.
  pose proof (first_nl_le (fst (span isspace u))). lia.
Qed.

Lemma env_name_len_le u m : env_name_len u = Some m -> m <= length u.
Proof.
  unfold env_name_len. destruct (span isspace u) as [sp r] eqn:E1. apply span_app in E1. subst u.
  destruct r as [|c r1]; [discriminate|]. destruct (N.eqb c 123); [|discriminate].
  destruct (span (fun c0 => mem_c c0 envname_chars) r1) as [nm r2] eqn:E2. apply span_app in E2. subst r1.
  destruct nm as [|x nm]; [discriminate|]. destruct r2 as [|d r2]; [discriminate|].
  destruct (N.eqb d 125); [|discriminate]. intros H; injection H as <-.
  rewrite !app_length. cbn [length]. rewrite app_length. cbn [length]. lia.
Qed.

Lemma first_prefix_in ds u n : first_prefix ds u = Some n ->
  exists d, In d ds /\ n = length d /\ startswith u d = true.
Proof.
  induction ds as [|d ds IH]; cbn [first_prefix]; [discriminate|].
  destruct (startswith u d) eqn:E.
  - intros H; injection H as <-. exists d. repeat split; auto. left; auto.
  - intros H. destruct (IH H) as (d' & Hin & Hn & Hs). exists d'. repeat split; auto. right; auto.
Qed.

Lemma longest_prefix_le ds u : forall best, best <= length u -> longest_prefix ds u best <= length u.
Proof.
  induction ds as [|d ds IH]; intros best H; cbn [longest_prefix]; auto.
  destruct (Nat.ltb best (length d) && startswith u d) eqn:E; auto.
  apply andb_prop in E. destruct E as [_ E]. apply startswith_len in E. auto.
Qed.

Lemma find_nl_lt r i : find_nl r = Some i -> i < length r.
Proof.
  revert i. induction r as [|c r IH]; cbn [find_nl]; intros i H; [discriminate|].
  destruct (N.eqb c 10). { injection H as <-. cbn; lia. }
  destruct (find_nl r) as [k|]; [|discriminate]. injection H as <-. specialize (IH k eq_refl). cbn; lia.
Qed.

(** the delimiters of the regenerated table are nonempty *)
Lemma math_delims_nonempty : forall d, In d math_delims -> 1 <= length d.
Proof.
  assert (H : forallb (fun d => Nat.leb 1 (length d)) math_delims = true) by (vm_compute; reflexivity).
  rewrite forallb_forall in H. intros d Hd. apply Nat.leb_le. auto.
Qed.

Lemma tok_len_bounds c r n : tok_len c r = inl n -> 1 <= n <= S (length r).
Proof.
  unfold tok_len.
  destruct (first_prefix math_delims (c :: r)) as [k|] eqn:Em.
  { intros H; injection H as <-. apply first_prefix_in in Em. destruct Em as (d & Hin & -> & Hs).
    apply startswith_len in Hs. cbn [length] in Hs. pose proof (math_delims_nonempty d Hin). lia. }
  destruct (N.eqb c macro_escape_char).
  { set (be := if startswith r s_begin then Some 5
               else if startswith r s_end then Some 3 else None).
    assert (Hbe : forall k, be = Some k -> k <= length r).
    { intros k. unfold be. destruct (startswith r s_begin) eqn:E1.
      - intros H; injection H as <-. apply startswith_len in E1. exact E1.
      - destruct (startswith r s_end) eqn:E2; [|discriminate].
        intros H; injection H as <-. apply startswith_len in E2. exact E2. }
    assert (Hmacro : match r with
                     | [] => inr TokenParseError
                     | c2 :: r2 => if is_macro_alpha c2
                                   then let (al, r3) := span is_macro_alpha r2 in
                                        inl (2 + length al + post_space_len r3)
                                   else inl 2
                     end = inl n -> 1 <= n <= S (length r)).
    { destruct r as [|c2 r2]; [discriminate|]. destruct (is_macro_alpha c2).
      - destruct (span is_macro_alpha r2) as [al r3] eqn:Es. apply span_app in Es. subst r2.
        intros H; injection H as <-. pose proof (post_space_len_le r3).
        cbn [length]. rewrite app_length. lia.
      - intros H; injection H as <-. cbn [length]. lia. }
    destruct be as [k|] eqn:Eb; [|exact Hmacro].
    destruct (match skipn k r with [] => true | d :: _ => negb (is_macro_alpha d) end); [|exact Hmacro].
    destruct (env_name_len (skipn k r)) as [m|] eqn:Ee; [|discriminate].
    intros H; injection H as <-. apply env_name_len_le in Ee. rewrite skipn_length in Ee.
    specialize (Hbe k eq_refl). lia. }
  destruct (N.eqb c comment_start_char).
  { destruct (find_nl r) as [i|] eqn:Ef.
    - intros H; injection H as <-. apply find_nl_lt in Ef.
      pose proof (post_space_len_le (skipn i r)) as Hp. rewrite skipn_length in Hp. lia.
    - intros H; injection H as <-. lia. }
  destruct (mem_c c group_open_chars || mem_c c group_close_chars).
  { intros H; injection H as <-. lia. }
  pose proof (longest_prefix_le specials_chars (c :: r) 0 ltac:(lia)) as Hl. cbn [length] in Hl.
  destruct (longest_prefix specials_chars (c :: r) 0); intros H; injection H as <-; lia.
Qed.

Theorem tok_extent_bounds u n : tok_extent u = inl n -> 1 <= n <= length u.
Proof.
  unfold tok_extent. destruct (span isspace u) as [pre rest] eqn:Es. apply span_app in Es. subst u.
  destruct (Nat.leb 2 (count_c 10 pre)) eqn:Ec.
  - intros H; injection H as <-. apply Nat.leb_le in Ec.
    pose proof (after_last_nl_le pre). pose proof (after_last_nl_pos pre ltac:(lia)).
    rewrite app_length. lia.
  - destruct rest as [|c r]; [discriminate|].
    destruct (tok_len c r) as [k|e] eqn:Et; [|discriminate].
    intros H; injection H as <-. apply tok_len_bounds in Et. rewrite app_length. cbn [length]. lia.
Qed.

(** * The keep rule *)

Theorem keep_rule_never_raises keep s pos e : keep_rule keep s pos <> CRaise e.
Proof.
  unfold keep_rule. destruct (mem_c (nth pos s 0%N) keep); [|discriminate].
  destruct (tok_extent (skipn pos s)); discriminate.
Qed.

(** it answers only at a keep character, consumes at least one character and
    never more than remain, and the replacement is exactly the consumed text *)
Theorem keep_rule_copies keep s pos n repl :
  keep_rule keep s pos = CMatch n repl ->
  mem_c (nth pos s 0%N) keep = true /\ 1 <= n /\ pos + n <= length s /\
  repl = slice s pos (pos + n) /\ length repl = n.
Proof.
  unfold keep_rule. destruct (mem_c (nth pos s 0%N) keep); [|discriminate].
  destruct (tok_extent (skipn pos s)) as [k|e] eqn:E; [|discriminate].
  intros H; injection H as <- <-. apply tok_extent_bounds in E. rewrite skipn_length in E.
  unfold slice. replace (pos + k - pos) with k by lia.
  repeat split; auto; try lia. rewrite firstn_length, skipn_length. lia.
Qed.

Lemma with_keep_consume keep cfg : rules_consume_pos cfg -> rules_consume_pos (with_keep_rule keep cfg).
Proof.
  intros HC r s pos n repl [<-|Hr] Hpos Ha.
  - unfold apply_rule in Ha. cbn [rbody] in Ha. apply keep_rule_copies in Ha. lia.
  - eapply HC; eauto.
Qed.

Lemma with_keep_no_raise keep cfg : no_rule_raises cfg -> no_rule_raises (with_keep_rule keep cfg).
Proof.
  intros HN r s pos e [<-|Hr] Hpos.
  - unfold apply_rule. cbn [rbody]. apply keep_rule_never_raises.
  - eapply HN; eauto.
Qed.

(** the partial encoder IS the plain encoder with the keep rule in front *)
Theorem partial_is_spec keep cfg s : rules_consume_pos cfg ->
  partial_encode keep cfg s = encode_spec (with_keep_rule keep cfg) s.
Proof. intros HC. unfold partial_encode. apply encode_is_spec. now apply with_keep_consume. Qed.

(** on input without keep characters the two encoders agree *)
Lemma try_rules_keep_none keep cfg s pos :
  mem_c (nth pos s 0%N) keep = false ->
  try_rules (with_keep_rule keep cfg) (rules (with_keep_rule keep cfg)) s pos =
  try_rules cfg (rules cfg) s pos.
Proof.
  intros H. cbn [with_keep_rule rules try_rules]. unfold apply_rule at 1. cbn [rbody].
  unfold keep_rule. rewrite H.
  generalize (rules cfg). induction l as [|r l IH]; cbn [try_rules]; auto.
  destruct (apply_rule r s pos); auto.
Qed.

Theorem partial_without_keep_chars keep cfg s :
  (forall c, In c s -> mem_c c keep = false) -> partial_encode keep cfg s = encode cfg s.
Proof.
  intros H. unfold partial_encode, encode. generalize (S (length s)) 0 (@nil str).
  induction n as [|f IH]; intros pos acc; cbn [encode_loop]; auto.
  destruct (Nat.ltb pos (length s)) eqn:El; auto. apply Nat.ltb_lt in El.
  assert (Hk : mem_c (nth pos s 0%N) keep = false) by (apply H; apply nth_In; auto).
  rewrite (try_rules_keep_none keep cfg s pos Hk).
  change (skip_ascii (with_keep_rule keep cfg)) with (skip_ascii cfg).
  change (upolicy (with_keep_rule keep cfg)) with (upolicy cfg).
  destruct (skip_ascii cfg (nth pos s 0%N)); auto.
  destruct (try_rules cfg (rules cfg) s pos); auto.
  destruct (passthrough (nth pos s 0%N)); auto.
  destruct (do_unknown_char (upolicy cfg) (nth pos s 0%N)); auto.
Qed.

(** F9: before the fix the strict token read lets its exception escape *)
Definition bare_config : config :=
  {| rules := []; gprot := PBraces; upolicy := UKeep; non_ascii_only := false |}.

Theorem partial_unfixed_raises :
  partial_encode_unfixed default_keep bare_config [97; 92]%N = Exn TokenParseError /\
  partial_encode_unfixed default_keep bare_config [92; 98; 101; 103; 105; 110; 32; 120]%N = Exn TokenParseError /\
  partial_encode default_keep bare_config [97; 92]%N = Ok [[97]; [92]]%N.
Proof. vm_compute. repeat split. Qed.
