(** Composition glue (C12 x C02), relational form, refined ([Proofs/ComposeRel.v]
    with one more parameter): two trees of the same shape render equally whenever
    they agree on everything [node_text] reads: characters, names, delimiters,
    post-spaces, argument specs; comment texts only if comments are kept; the
    source slices of formulas and of EQUATION environments (environments rendered
    by [fmt_equation_environment], [eqn nm = true]) only in verbatim mode.  In
    [ComposeRel.vrel] the slice of EVERY environment has to agree in verbatim
    mode; here an environment that is not an equation environment (center,
    itemize, tabular ...) may have a different source slice — so that comments
    written inside such an environment may differ in verbatim mode too.
    Positions, recorded modes and the source strings are otherwise free. *)
From Coq Require Import NArith ZArith List Bool Arith Lia.
From PLV Require Import Base.PyStr Tok.Tokenizer Parse.Nodes Parse.Parser L2T.L2T.
From PLV Require Import Tree.Visitor Proofs.VisitorProofs Proofs.L2TUnfold Proofs.L2TFilters.
Import ListNotations.

Section VRel.
  Variable src src' : str.
  Variable kc vb : bool.      (* comments kept; verbatim math *)
  Variable eqn : str -> bool. (* the equation environments *)

  Fixpoint vrelq (n n' : node) {struct n} : Prop :=
    let all2 := fix all2 (l l' : list (option node)) {struct l} : Prop :=
        match l, l' with
        | [], [] => True
        | Some x :: r, Some x' :: r' => vrelq x x' /\ all2 r r'
        | None :: r, None :: r' => all2 r r'
        | _, _ => False
        end in
    let orel := fun (b b' : option node) =>
        match b, b' with Some x, Some x' => vrelq x x' | None, None => True | _, _ => False end in
    let arel := fun (a a' : option pargs) =>
        match a, a' with
        | Some (sp, l), Some (sp', l') => sp = sp' /\ all2 l l'
        | None, None => True
        | _, _ => False
        end in
    match n, n' with
    | NChars _ _ _ c, NChars _ _ _ c' => c = c'
    | NComment _ _ _ c ps, NComment _ _ _ c' ps' => ps = ps' /\ (kc = true -> c = c')
    | NGroup _ _ _ dl dr b, NGroup _ _ _ dl' dr' b' => dl = dl' /\ dr = dr' /\ orel b b'
    | NMacro _ _ _ nm ps a, NMacro _ _ _ nm' ps' a' => nm = nm' /\ ps = ps' /\ arel a a'
    | NEnv p e _ nm a b, NEnv p' e' _ nm' a' b' =>
        nm = nm' /\ arel a a' /\ orel b b' /\ (vb = true -> eqn nm = true -> slice src p e = slice src' p' e')
    | NSpecials _ _ _ ch a, NSpecials _ _ _ ch' a' => ch = ch' /\ arel a a'
    | NMath p e _ d dl dr b, NMath p' e' _ d' dl' dr' b' =>
        d = d' /\ dl = dl' /\ dr = dr' /\ orel b b' /\ (vb = true -> slice src p e = slice src' p' e')
    | NList _ _ l, NList _ _ l' => all2 l l'
    | _, _ => False
    end.

  Definition vorelq (b b' : option node) : Prop :=
    match b, b' with Some x, Some x' => vrelq x x' | None, None => True | _, _ => False end.
  Fixpoint vallq (l l' : list (option node)) {struct l} : Prop :=
    match l, l' with
    | [], [] => True
    | x :: r, x' :: r' => vorelq x x' /\ vallq r r'
    | _, _ => False
    end.
  Definition varelq (a a' : option pargs) : Prop :=
    match a, a' with
    | Some (sp, l), Some (sp', l') => sp = sp' /\ vallq l l'
    | None, None => True
    | _, _ => False
    end.

  Lemma allq_eq : forall l l',
    (fix all2 (l l' : list (option node)) {struct l} : Prop :=
        match l, l' with
        | [], [] => True
        | Some x :: r, Some x' :: r' => vrelq x x' /\ all2 r r'
        | None :: r, None :: r' => all2 r r'
        | _, _ => False
        end) l l' <-> vallq l l'.
  Proof.
    induction l as [|[x|] r IH]; intros [|[x'|] r']; cbn [vallq vorelq]; try tauto.
    - rewrite IH. tauto.
    - rewrite IH. tauto.
  Qed.

  Lemma vrelq_group p e m dl dr b p' e' m' dl' dr' b' :
    vrelq (NGroup p e m dl dr b) (NGroup p' e' m' dl' dr' b') <-> dl = dl' /\ dr = dr' /\ vorelq b b'.
  Proof. reflexivity. Qed.
  Lemma vrelq_macro p e m nm ps a p' e' m' nm' ps' a' :
    vrelq (NMacro p e m nm ps a) (NMacro p' e' m' nm' ps' a') <-> nm = nm' /\ ps = ps' /\ varelq a a'.
  Proof.
    cbn [vrelq]. destruct a as [[sp l]|], a' as [[sp' l']|]; cbn [varelq]; try tauto. rewrite allq_eq. tauto.
  Qed.
  Lemma vrelq_env p e m nm a b p' e' m' nm' a' b' :
    vrelq (NEnv p e m nm a b) (NEnv p' e' m' nm' a' b')
    <-> nm = nm' /\ varelq a a' /\ vorelq b b' /\ (vb = true -> eqn nm = true -> slice src p e = slice src' p' e').
  Proof.
    cbn [vrelq]. destruct a as [[sp l]|], a' as [[sp' l']|]; cbn [varelq]; try tauto. rewrite allq_eq. tauto.
  Qed.
  Lemma vrelq_specials p e m ch a p' e' m' ch' a' :
    vrelq (NSpecials p e m ch a) (NSpecials p' e' m' ch' a') <-> ch = ch' /\ varelq a a'.
  Proof.
    cbn [vrelq]. destruct a as [[sp l]|], a' as [[sp' l']|]; cbn [varelq]; try tauto. rewrite allq_eq. tauto.
  Qed.
  Lemma vrelq_math p e m d dl dr b p' e' m' d' dl' dr' b' :
    vrelq (NMath p e m d dl dr b) (NMath p' e' m' d' dl' dr' b')
    <-> d = d' /\ dl = dl' /\ dr = dr' /\ vorelq b b' /\ (vb = true -> slice src p e = slice src' p' e').
  Proof. reflexivity. Qed.
  Lemma vrelq_list p e l p' e' l' : vrelq (NList p e l) (NList p' e' l') <-> vallq l l'.
  Proof. cbn [vrelq]. apply allq_eq. Qed.

  (** ** shape tests *)
  Lemma vallq_length l : forall l', vallq l l' -> length l = length l'.
  Proof. induction l as [|x r IH]; intros [|x' r'] H; cbn in *; try tauto. f_equal. apply IH. tauto. Qed.

  Lemma vallq_skipn k : forall l l', vallq l l' -> vallq (skipn k l) (skipn k l').
  Proof.
    induction k as [|k IH]; intros l l' H; [exact H|].
    destruct l as [|x r], l' as [|x' r']; cbn in *; try tauto. apply IH. tauto.
  Qed.

  Definition vorelq2 (x x' : option (option node)) : Prop :=
    match x, x' with Some y, Some y' => vorelq y y' | None, None => True | _, _ => False end.
  Lemma vallq_nth i : forall l l', vallq l l' -> vorelq2 (nth_error l i) (nth_error l' i).
  Proof.
    induction i as [|i IH]; intros [|x r] [|x' r'] H; cbn in *; try tauto. apply IH. tauto.
  Qed.

  Lemma is_chars_relq x x' : vorelq x x' -> is_chars x = is_chars x'.
  Proof. destruct x as [[]|], x' as [[]|]; cbn; tauto. Qed.

  Lemma argn_of_relq a a' : varelq a a' -> vallq (argn_of a) (argn_of a').
  Proof. destruct a as [[sp l]|], a' as [[sp' l']|]; cbn; tauto. Qed.
  Lemma legacy_idx_relq a a' : varelq a a' -> legacy_idx a = legacy_idx a'.
  Proof. destruct a as [[sp l]|], a' as [[sp' l']|]; cbn; try tauto. intros [<- _]. reflexivity. Qed.

  Lemma legacy_view_relq a a' : varelq a a' ->
    vorelq (fst (legacy_view a)) (fst (legacy_view a')) /\ vallq (snd (legacy_view a)) (snd (legacy_view a')).
  Proof.
    intros H. unfold legacy_view. rewrite <- (legacy_idx_relq a a' H).
    pose proof (argn_of_relq a a' H) as HL.
    destruct (legacy_idx a) as [[i|] off]; cbn [fst snd].
    - split; [|now apply vallq_skipn].
      pose proof (vallq_nth i _ _ HL) as N.
      destruct (nth_error (argn_of a) i) as [y|], (nth_error (argn_of a') i) as [y'|]; cbn in N |- *; tauto.
    - split; [exact I|now apply vallq_skipn].
  Qed.

  Lemma is_bare_macro_relq x x' : vorelq x x' -> is_bare_macro x = is_bare_macro x'.
  Proof.
    destruct x as [n|], x' as [n'|]; cbn [vorelq]; try tauto.
    destruct n, n'; cbn [vrelq]; try tauto; intros H; try reflexivity.
    change (vrelq (NMacro p e m name post args) (NMacro p0 e0 m0 name0 post0 args0)) in H.
    apply -> vrelq_macro in H. destruct H as (_ & <- & Ha).
    cbn [is_bare_macro]. destruct (legacy_view_relq _ _ Ha) as [A B].
    destruct (legacy_view args) as [[c|] [|y r]], (legacy_view args0) as [[c'|] [|y' r']];
      cbn in A, B |- *; tauto.
  Qed.

  Lemma pre_space_relq sl prev prev' x x' :
    is_bare_macro prev = is_bare_macro prev' -> vorelq x x' -> pre_space sl prev x = pre_space sl prev' x'.
  Proof. intros H Hx. unfold pre_space. now rewrite H, (is_chars_relq x x' Hx). Qed.

  Lemma is_amp_relq x x' : vrelq x x' -> is_amp x = is_amp x'.
  Proof.
    destruct x, x'; cbn [vrelq]; try tauto; intros H; try reflexivity.
    change (vrelq (NSpecials p e m chars args) (NSpecials p0 e0 m0 chars0 args0)) in H.
    apply -> vrelq_specials in H. destruct H as [<- _]. reflexivity.
  Qed.
  Lemma is_rowsep_relq x x' : vrelq x x' -> is_rowsep x = is_rowsep x'.
  Proof.
    destruct x, x'; cbn [vrelq]; try tauto; intros H; try reflexivity.
    change (vrelq (NMacro p e m name post args) (NMacro p0 e0 m0 name0 post0 args0)) in H.
    apply -> vrelq_macro in H. destruct H as [<- _]. reflexivity.
  Qed.
End VRel.

Section RelText.
  Variable src src' : str.
  Variable lt : l2tctx.
  Variable cx : context.
  Variable o : opts.

  Let kc := o_keep_comments o.
  Let vb := match o_math o with MMVerbatim => true | _ => false end.
  Let nt := node_text src lt cx o.
  Let nt' := node_text src' lt cx o.
  (* the relation may be stronger than needed: [vbr] at least [vb], [eqn] at least the
     equation environments of [lt] (only consulted in verbatim mode) *)
  Variable vbr : bool.
  Variable eqn : str -> bool.
  Hypothesis Hvb : vb = true -> vbr = true.
  Hypothesis Heqn : vb = true -> forall nm, is_eqenv lt nm = true -> eqn nm = true.
  Notation R := (vrelq src src' kc vbr eqn).
  Notation Ro := (vorelq src src' kc vbr eqn).
  Notation Rl := (vallq src src' kc vbr eqn).
  Notation Ra := (varelq src src' kc vbr eqn).

  Definition Qnq (n : node) : Prop :=
    forall n', R n n' ->
    (forall sl st, nt sl st n = nt' sl st n')
    /\ (forall sl st, arg_text_g nt sl st (Some n) = arg_text_g nt' sl st (Some n')).

  Lemma single_relq x x' : Pslot Qnq x -> Ro x x' -> forall sl st,
    single_text_g nt sl st x = single_text_g nt' sl st x'.
  Proof. destruct x as [c|], x' as [c'|]; cbn [vorelq]; try tauto. intros H Hr sl st. cbn. now apply H. Qed.

  Lemma argt_relq x x' : Pslot Qnq x -> Ro x x' -> forall sl st,
    arg_text_g nt sl st x = arg_text_g nt' sl st x'.
  Proof. destruct x as [c|], x' as [c'|]; cbn [vorelq]; try tauto. intros H Hr sl st. now apply H. Qed.

  Lemma items_relq : forall l, Forall (Pslot Qnq) l -> forall l', Rl l l' -> forall sl st prev prev',
    is_bare_macro prev = is_bare_macro prev' ->
    items_text_g nt sl st prev l = items_text_g nt' sl st prev' l'.
  Proof.
    induction 1 as [|x r Hx Hr IH]; intros [|x' r'] HR sl st prev prev' Hp; cbn [vallq] in HR; try tauto.
    destruct HR as [Rx Rr]. rewrite !items_text_cons.
    rewrite (single_relq x x' Hx Rx). destruct (single_text_g nt' sl st x') as [t1 st1].
    rewrite (IH r' Rr sl st1 x x' (is_bare_macro_relq _ _ _ _ _ x x' Rx)).
    destruct (items_text_g nt' sl st1 x' r') as [t2 st2].
    now rewrite (pre_space_relq _ _ _ _ _ sl prev prev' x x' Hp Rx).
  Qed.

  Lemma body_relq b b' : Pbody Qnq b -> Ro b b' -> forall sl st,
    body_text_g nt sl st b = body_text_g nt' sl st b'.
  Proof.
    destruct b as [c|], b' as [c'|]; cbn [vorelq]; try tauto. intros Hb Hr sl st.
    destruct Hb as [_ Hi]. destruct c, c'; try (cbn [vrelq] in Hr; tauto); try reflexivity.
    apply -> vrelq_list in Hr. cbn [body_text_g]. now apply items_relq.
  Qed.

  Lemma args_texts_relq : forall l, Forall (Pslot Qnq) l -> forall l', Rl l l' -> forall sl st,
    args_texts_g nt sl st l = args_texts_g nt' sl st l'.
  Proof.
    induction 1 as [|x r Hx Hr IH]; intros [|x' r'] HR sl st; cbn [vallq] in HR; try tauto.
    destruct HR as [Rx Rr]. rewrite !args_texts_cons, (argt_relq x x' Hx Rx).
    destruct (arg_text_g nt' sl st x') as [t st1]. now rewrite (IH r' Rr).
  Qed.

  Lemma args_singles_relq : forall l, Forall (Pslot Qnq) l -> forall l', Rl l l' -> forall sl st,
    args_singles_g nt sl st l = args_singles_g nt' sl st l'.
  Proof.
    induction 1 as [|x r Hx Hr IH]; intros [|x' r'] HR sl st; cbn [vallq] in HR; try tauto.
    destruct HR as [Rx Rr]. rewrite !args_singles_cons, (single_relq x x' Hx Rx).
    destruct (single_text_g nt' sl st x') as [t st1]. now rewrite (IH r' Rr).
  Qed.

  Lemma atexts_relq a a' : Pargs Qnq a -> Ra a a' -> forall sl st,
    atexts_g nt sl st a = atexts_g nt' sl st a'.
  Proof.
    destruct a as [[sp l]|], a' as [[sp' l']|]; cbn [varelq]; try tauto. intros Ha [_ Hl] sl st.
    now apply args_texts_relq.
  Qed.
  Lemma asingles_relq a a' : Pargs Qnq a -> Ra a a' -> forall sl st,
    asingles_g nt sl st a = asingles_g nt' sl st a'.
  Proof.
    destruct a as [[sp l]|], a' as [[sp' l']|]; cbn [varelq]; try tauto. intros Ha [_ Hl] sl st.
    now apply args_singles_relq.
  Qed.

  Lemma matrix_relq sl : forall l, Forall (Pslot Qnq) l -> forall l', Rl l l' -> forall st cur prev prev' cols rows,
    is_bare_macro prev = is_bare_macro prev' ->
    matrix_go_g nt sl st l cur prev cols rows = matrix_go_g nt' sl st l' cur prev' cols rows.
  Proof.
    induction 1 as [|x r Hx Hr IH]; intros [|x' r'] HR st cur prev prev' cols rows Hp; cbn [vallq] in HR; try tauto.
    destruct HR as [Rx Rr]. destruct x as [c|], x' as [c'|]; cbn [vorelq] in Rx; try tauto.
    - rewrite !matrix_go_some. rewrite (is_amp_relq _ _ _ _ _ c c' Rx), (is_rowsep_relq _ _ _ _ _ c c' Rx).
      destruct (is_amp c'); [now apply IH|]. destruct (is_rowsep c'); [now apply IH|].
      rewrite (proj1 (Hx c' Rx)). destruct (nt' sl st c') as [t1 st1].
      rewrite (pre_space_relq _ _ _ _ _ sl prev prev' (Some c) (Some c') Hp Rx).
      apply IH; [exact Rr|]. exact (is_bare_macro_relq _ _ _ _ _ (Some c) (Some c') Rx).
    - rewrite !matrix_go_none. now apply IH.
  Qed.

  Lemma math_text_relq b b' : (forall sl st, body_text_g nt sl st b = body_text_g nt' sl st b') ->
    forall p e p' e', (vb = true -> slice src p e = slice src' p' e') ->
    forall sl st ie d dl dr,
    math_text_g src o nt sl st ie d p e dl dr b = math_text_g src' o nt' sl st ie d p' e' dl dr b'.
  Proof.
    intros H p e p' e' Hs sl st ie d dl dr. unfold math_text_g. unfold vb in Hs.
    destruct (o_math o); try (now rewrite H); try reflexivity.
    now rewrite (Hs eq_refl).
  Qed.

  Definition eqenv_text_atq (s0 : str) (f : sls -> dstate -> node -> str * dstate)
             (sl : sls) (st : dstate) (nn : node) : str * dstate :=
    match nn with
    | NEnv p e _ nm _ b =>
        math_text_g s0 o f sl st true false p e
                    ([92;98;101;103;105;110;123]%N ++ nm ++ [125%N])
                    ([92;101;110;100;123]%N ++ nm ++ [125%N]) b
    | _ => ([], set_err st 2)
    end.

  Definition ebrelq (eb eb' : option (option node)) : Prop :=
    match eb, eb' with Some b, Some b' => Ro b b' | None, None => True | _, _ => False end.

  Lemma call_repl_relq a a' eb eb' c nn nn' sl st :
    Pargs Qnq a -> Ra a a' ->
    match eb with Some b => Pbody Qnq b | None => True end -> ebrelq eb eb' ->
    (c = CEqEnv -> forall sl st, eqenv_text_atq src nt sl st nn = eqenv_text_atq src' nt' sl st nn') ->
    call_repl_g src lt o nt sl st c nn a (match eb with Some b => b | None => None end)
    = call_repl_g src' lt o nt' sl st c nn' a' (match eb' with Some b => b | None => None end).
  Proof.
    intros Ha Ra' Hb Rb Heq. unfold call_repl_g.
    rewrite <- (legacy_idx_relq _ _ _ _ _ a a' Ra').
    pose proof (argn_of_relq _ _ _ _ _ a a' Ra') as HL.
    rewrite <- (vallq_length _ _ _ _ _ _ _ HL).
    destruct (legacy_idx a) as [optidx off].
    destruct c; try reflexivity;
      try (rewrite (asingles_relq a a' Ha Ra')); try (rewrite (atexts_relq a a' Ha Ra')); try reflexivity.
    - (* CItem *)
      destruct optidx as [i|]; [|reflexivity].
      pose proof (vallq_nth _ _ _ _ _ i _ _ HL) as N.
      destruct (nth_error (argn_of a) i) as [[y|]|], (nth_error (argn_of a') i) as [[y'|]|];
        cbn in N; try tauto; reflexivity.
    - (* CUebung *)
      pose proof (vallq_nth _ _ _ _ _ 1 _ _ HL) as N.
      destruct (nth_error (argn_of a) 1) as [[y|]|], (nth_error (argn_of a') 1) as [[y'|]|];
        cbn in N; try tauto; reflexivity.
    - (* CEqEnv *)
      exact (Heq eq_refl sl st).
    - (* CMatrix *)
      destruct eb as [[b|]|], eb' as [[b'|]|]; cbn [ebrelq vorelq] in Rb; try tauto; try reflexivity.
      destruct Hb as [_ Hi]. destruct b, b'; try (cbn [vrelq] in Rb; tauto); try reflexivity.
      apply -> vrelq_list in Rb.
      now rewrite (matrix_relq sl items Hi items0 Rb st None None None [] []).
  Qed.

  Lemma str_repl_relq a a' eb eb' tmpl k sl st :
    Pargs Qnq a -> Ra a a' ->
    match eb with Some b => Pbody Qnq b | None => True end -> ebrelq eb eb' ->
    str_repl_g nt sl st tmpl a k eb = str_repl_g nt' sl st tmpl a' k eb'.
  Proof.
    intros Ha Ra' Hb Rb. unfold str_repl_g.
    destruct (mem_c 37 tmpl && negb (Nat.eqb (length tmpl) 1)); [|reflexivity].
    destruct (parse_fmt (S (length tmpl)) tmpl) as [items|]; [|reflexivity].
    destruct eb as [b|], eb' as [b'|]; cbn [ebrelq] in Rb; try tauto.
    - destruct (existsb _ items).
      + now rewrite (body_relq b b' Hb Rb).
      + rewrite (atexts_relq a a' Ha Ra'). destruct (atexts_g nt' sl st a') as [ts0 st1].
        now rewrite (body_relq b b' Hb Rb).
    - now rewrite (atexts_relq a a' Ha Ra').
  Qed.

  Lemma generic_relq a a' eb eb' ts dd k nn nn' sl st :
    Pargs Qnq a -> Ra a a' ->
    match eb with Some b => Pbody Qnq b | None => True end -> ebrelq eb eb' ->
    (match ts with Some t => t_repl t | None => RNone end = RCall CEqEnv ->
     forall sl st, eqenv_text_atq src nt sl st nn = eqenv_text_atq src' nt' sl st nn') ->
    generic_g src lt o nt sl st ts dd nn a k eb = generic_g src' lt o nt' sl st ts dd nn' a' k eb'.
  Proof.
    intros Ha Ra' Hb Rb Heq. unfold generic_g.
    destruct (match ts with Some t => t_repl t | None => RNone end) as [|tmpl|c] eqn:ER.
    - destruct (match ts with Some t => t_discard t | None => dd end); [reflexivity|].
      destruct eb as [b|], eb' as [b'|]; cbn [ebrelq] in Rb; try tauto;
        [now apply body_relq | now rewrite (atexts_relq a a' Ha Ra')].
    - destruct tmpl as [|c0 tl]; [|now apply str_repl_relq].
      destruct (match ts with Some t => t_discard t | None => dd end); [reflexivity|].
      destruct eb as [b|], eb' as [b'|]; cbn [ebrelq] in Rb; try tauto;
        [now apply body_relq | now rewrite (atexts_relq a a' Ha Ra')].
    - apply call_repl_relq; try assumption. intros ->. apply Heq. reflexivity.
  Qed.

  Theorem vrelq_text_all : forall n, Qnq n.
  Proof.
    induction n using node_ind'; intros n' HR;
      destruct n' as [p' e' m' c'|p' e' m' c' ps'|p' e' m' dl' dr' b'|p' e' m' nm' ps' a'|p' e' m' nm' a' b'
                     |p' e' m' c' a'|p' e' m' d' dl' dr' b'|p' e' l'];
      try (cbn [vrelq] in HR; tauto).
    - (* chars *) cbn [vrelq] in HR. subst. split; intros; reflexivity.
    - (* comment *)
      cbn [vrelq] in HR. destruct HR as [<- Hc].
      assert (Hn : forall sl st, nt sl st (NComment p e m c ps) = nt' sl st (NComment p' e' m' c' ps)).
      { intros sl st. unfold nt, nt'. rewrite !node_text_step. cbn [node_step].
        unfold kc in Hc. destruct (o_keep_comments o); [now rewrite (Hc eq_refl)|reflexivity]. }
      split; [exact Hn|]. intros sl st. exact (Hn sl st).
    - (* group *)
      rename H into Hb. apply -> vrelq_group in HR. destruct HR as (<- & <- & Rb).
      split; intros sl st.
      + unfold nt, nt'. rewrite !node_text_step. cbn [node_step]. fold nt. fold nt'.
        now rewrite (body_relq b b' Hb Rb).
      + cbn [arg_text_g]. now apply body_relq.
    - (* macro *)
      rename H into Ha. apply -> vrelq_macro in HR. destruct HR as (<- & <- & Ra').
      assert (Hn : forall sl st, nt sl st (NMacro p e m nm ps a) = nt' sl st (NMacro p' e' m' nm ps a')).
      { intros sl st. unfold nt, nt'. rewrite !node_text_step. cbn [node_step]. fold nt. fold nt'.
        apply (generic_relq a a' None None); [exact Ha | exact Ra' | exact I | exact I | intros; reflexivity]. }
      split; [exact Hn|]. intros sl st. exact (Hn sl st).
    - (* environment *)
      rename H into Ha. rename H0 into Hb. apply -> vrelq_env in HR. destruct HR as (<- & Ra' & Rb & Hs).
      assert (Hn : forall sl st, nt sl st (NEnv p e m nm a b) = nt' sl st (NEnv p' e' m' nm a' b')).
      { intros sl st. unfold nt, nt'. rewrite !node_text_step. cbn [node_step]. fold nt. fold nt'.
        apply (generic_relq a a' (Some b) (Some b')); [exact Ha | exact Ra' | exact Hb | exact Rb |].
        intros ER sl' st'. cbn [eqenv_text_atq]. apply math_text_relq.
        - intros sl2 st2. now apply body_relq.
        - intros V. apply Hs; [exact (Hvb V)|]. apply (Heqn V). unfold is_eqenv.
          destruct (assoc (lt_envs lt) nm) as [t|]; [rewrite ER; reflexivity | discriminate]. }
      split; [exact Hn|]. intros sl st. exact (Hn sl st).
    - (* specials *)
      rename H into Ha. apply -> vrelq_specials in HR. destruct HR as (<- & Ra').
      assert (Hn : forall sl st, nt sl st (NSpecials p e m c a) = nt' sl st (NSpecials p' e' m' c a')).
      { intros sl st. unfold nt, nt'. rewrite !node_text_step. cbn [node_step]. fold nt. fold nt'.
        destruct (assoc (lt_specials lt) c) as [t|]; [|reflexivity].
        apply (generic_relq a a' None None); [exact Ha | exact Ra' | exact I | exact I | intros; reflexivity]. }
      split; [exact Hn|]. intros sl st. exact (Hn sl st).
    - (* math *)
      rename H into Hb. apply -> vrelq_math in HR. destruct HR as (<- & <- & <- & Rb & Hs).
      assert (Hn : forall sl st, nt sl st (NMath p e m d dl dr b) = nt' sl st (NMath p' e' m' d dl dr b')).
      { intros sl st. unfold nt, nt'. rewrite !node_text_step. cbn [node_step]. fold nt. fold nt'.
        apply math_text_relq; [|exact (fun V => Hs (Hvb V))]. intros sl2 st2. now apply body_relq. }
      split; [exact Hn|]. intros sl st. exact (Hn sl st).
    - (* list *)
      rename H into Hl. apply -> vrelq_list in HR. split; intros sl st.
      + unfold nt, nt'. rewrite !node_text_step. cbn [node_step]. fold nt. fold nt'. now apply items_relq.
      + cbn [arg_text_g]. now apply items_relq.
  Qed.

  Theorem vrelq_text_gen : forall n n', R n n' -> forall sl st, nt sl st n = nt' sl st n'.
  Proof. intros n n' H. exact (proj1 (vrelq_text_all n n' H)). Qed.
End RelText.

(** the relation instantiated exactly: [vb] = "the math mode is verbatim", [eqn] = the
    equation environments of the latex2text database *)
Theorem vrelq_text : forall src src' lt cx o n n',
  vrelq src src' (o_keep_comments o) (match o_math o with MMVerbatim => true | _ => false end) (is_eqenv lt) n n' ->
  forall sl st, node_text src lt cx o sl st n = node_text src' lt cx o sl st n'.
Proof.
  intros src src' lt cx o n n' H.
  exact (vrelq_text_gen src src' lt cx o _ (is_eqenv lt) (fun V => V) (fun _ nm Q => Q) n n' H).
Qed.
