(** Property C03: the canonical embedding of core items is recognised by
    [abstract]; the macros, specials and environments used by the document
    generator of [harness/props/c03.py] are core under the regenerated default
    databases; worked examples (an embedded item list, and a document parsed by
    the parser model). *)
From Coq Require Import NArith ZArith List Bool Arith Lia.
From PLV Require Import Base.PyStr Tok.Tokenizer Parse.Nodes Parse.Parser Parse.ParseWire.
From PLV Require Import L2T.L2T L2T.L2TWire L2T.Render.
From PLV Require Import Proofs.FsProofs Proofs.RenderModel Proofs.RenderProofs Proofs.RenderCompose.
From PLV Require Gen.GenWalkerCtx Gen.GenL2TCtx.
Import ListNotations.

(** * Induction principle for [core] *)
Section CoreInd.
  Variable P : core -> Prop.
  Hypothesis HText : forall c, P (KText c).
  Hypothesis HComment : forall c ps, P (KComment c ps).
  Hypothesis HGroup : forall b, Forall P b -> P (KGroup b).
  Hypothesis HTransparent : forall b, Forall P b -> P (KTransparent b).
  Hypothesis HSymbol : forall r ps, P (KSymbol r ps).
  Hypothesis HSpecials : forall r, P (KSpecials r).
  Hypothesis HPar : P KPar.
  Hypothesis HMath : forall d dl dr v b, Forall P b -> P (KMath d dl dr v b).
  Hypothesis HEnvBody : forall b, Forall P b -> P (KEnvBody b).
  Hypothesis HEnvWrap : forall pre post b, Forall P b -> P (KEnvWrap pre post b).
  Hypothesis HAccent : forall comb k, P k -> P (KAccent comb k).
  Fixpoint core_ind' (k : core) : P k :=
    let go := fix go (l : list core) : Forall P l :=
      match l return Forall P l with
      | [] => Forall_nil _
      | x :: r => Forall_cons x (core_ind' x) (go r)
      end in
    match k return P k with
    | KText c => HText c
    | KComment c ps => HComment c ps
    | KGroup b => HGroup b (go b)
    | KTransparent b => HTransparent b (go b)
    | KSymbol r ps => HSymbol r ps
    | KSpecials r => HSpecials r
    | KPar => HPar
    | KMath d dl dr v b => HMath d dl dr v b (go b)
    | KEnvBody b => HEnvBody b (go b)
    | KEnvWrap pre post b => HEnvWrap pre post b (go b)
    | KAccent comb k => HAccent comb k (core_ind' k)
    end.
End CoreInd.

(** * [abstract] recognises the embedding *)
Section EmbedOk.
  Variable src : str.
  Variable lt : l2tctx.
  Variable cx : context.
  Variable fmt_name env_name : str.
  Variable wrap_name : str -> str -> str.
  Variable acc_name : N -> str.
  Variable sym_name spc_chars : str -> str.
  Variable verb_pos : str -> nat * nat.
  Notation emb := (embed fmt_name env_name wrap_name acc_name sym_name spc_chars verb_pos).
  Notation embl := (embed_items fmt_name env_name wrap_name acc_name sym_name spc_chars verb_pos).
  Notation ok := (core_ok src lt fmt_name env_name wrap_name acc_name sym_name spc_chars verb_pos).
  Notation oks := (cores_ok src lt fmt_name env_name wrap_name acc_name sym_name spc_chars verb_pos).
  Notation abs := (abstract src lt).
  Notation absl := (abstract_items src lt).

  Lemma embl_sound b : Forall (fun k => ok k -> abs (emb k) = Some k) b -> oks b -> absl (embl b) = Some b.
  Proof.
    induction 1 as [|k r Hk Hr IH]; [reflexivity|]. intros [H1 H2].
    cbn [embed_items abstract_items]. now rewrite (Hk H1), (IH H2).
  Qed.

  Lemma transparent_not_accent nm : transparent_macro lt nm = true -> accent_macro lt nm = None.
  Proof.
    unfold transparent_macro, transparent_spec, accent_macro.
    destruct (assoc (lt_macros lt) nm) as [[[|[|]|] []]|]; try discriminate; reflexivity.
  Qed.

  Theorem abstract_embed : forall k, ok k -> abs (emb k) = Some k.
  Proof.
    induction k using core_ind'; intros Hok.
    - reflexivity.
    - reflexivity.
    - change (emb (KGroup b)) with (NGroup 0 0 text_mode [123%N] [125%N] (Some (NList None None (embl b)))).
      rewrite abstract_group. cbn [abs_body]. rewrite (embl_sound b H Hok). reflexivity.
    - destruct Hok as [Htr Hb].
      change (emb (KTransparent b))
        with (NMacro 0 0 text_mode fmt_name []
                (Some ([[123%N]], [Some (NGroup 0 0 text_mode [123%N] [125%N] (Some (NList None None (embl b))))]))).
      rewrite abstract_macro, (transparent_not_accent _ Htr), Htr. cbn [abs_body].
      rewrite (embl_sound b H Hb). reflexivity.
    - cbn [core_ok] in Hok. cbn [embed]. rewrite abstract_macro. cbn [no_arg_nodes]. now rewrite Hok.
    - cbn [core_ok] in Hok. cbn [embed abstract]. destruct Hok as [Hr|(Ha & Hc & Hn)].
      + unfold specials_repl in Hr |- *. destruct (assoc (lt_specials lt) (spc_chars r)); [|discriminate Hr].
        now rewrite Hr.
      + rewrite Ha, Hc, Hn. reflexivity.
    - cbn [core_ok] in Hok. cbn [embed abstract]. now rewrite Hok.
    - destruct Hok as [Hv Hb].
      change (emb (KMath d dl dr v b))
        with (NMath (fst (verb_pos v)) (snd (verb_pos v)) text_mode d dl dr (Some (NList None None (embl b)))).
      rewrite abstract_math. cbn [abs_body]. rewrite (embl_sound b H Hb), Hv. reflexivity.
    - destruct Hok as [Htr Hb].
      change (emb (KEnvBody b)) with (NEnv 0 0 text_mode env_name (Some ([], [])) (Some (NList None None (embl b)))).
      rewrite abstract_env, Htr. cbn [abs_body]. rewrite (embl_sound b H Hb). reflexivity.
    - destruct Hok as [Hw Hb].
      change (emb (KEnvWrap pre post b))
        with (NEnv 0 0 text_mode (wrap_name pre post) (Some ([], [])) (Some (NList None None (embl b)))).
      rewrite abstract_env, (wrap_env_not_transparent lt _ pre post Hw), Hw. cbn [abs_body].
      rewrite (embl_sound b H Hb). reflexivity.
    - destruct Hok as [Ha Hk].
      change (emb (KAccent comb k)) with (NMacro 0 0 text_mode (acc_name comb) [] (Some ([[123%N]], [Some (emb k)]))).
      rewrite abstract_macro. cbn [list_eqb str_eqb N.eqb Pos.eqb andb]. rewrite Ha, (IHk Hk). reflexivity.
  Qed.

  Theorem abstract_embed_items l : oks l -> absl (embl l) = Some l.
  Proof.
    intros H. apply embl_sound; [|exact H]. apply Forall_forall. intros k _. apply abstract_embed.
  Qed.

  (** the tree-level theorem in terms of the embedding *)
  Theorem tree_level_embed o sl st p e items :
    oks items -> node_text src lt cx o sl st (NList p e (embl items)) = (render (nfc_accent lt) o sl items, st).
  Proof. intros H. apply tree_level. now apply abstract_embed_items. Qed.
End EmbedOk.

(** * The default databases *)
Definition lt0 := Gen.GenL2TCtx.default_l2tctx.
Definition cx0 := Gen.GenWalkerCtx.default_ctx.

(** the names used by the generator of [harness/props/c03.py] *)
Definition FMT : list str :=
  [[116;101;120;116;98;102]; [101;109;112;104]; [116;101;120;116;105;116]; [116;101;120;116];
   [116;101;120;116;114;109]; [116;101;120;116;115;99]; [109;97;116;104;114;109]]%N.
   (* textbf emph textit text textrm textsc mathrm *)
Definition SYM : list str :=
  [[97;108;112;104;97]; [98;101;116;97]; [71;97;109;109;97]; [105;110;102;116;121]; [116;105;109;101;115];
   [108;100;111;116;115]; [83]; [97;101]; [76;97;84;101;88]; [122;122;117;110;107;110;111;119;110];
   [99;100;111;116]; [116;111]; [112;104;105]; [101;108;108]; [101;112;115;105;108;111;110]]%N.
   (* alpha beta Gamma infty times ldots S ae LaTeX zzunknown cdot to phi ell epsilon *)
Definition SPC : list str := [[126]; [45;45]; [45;45;45]; [96;96]; [39;39]; [38]]%N.   (* ~ -- --- `` '' & *)
Definition ENV : list str :=
  [[105;116;101;109;105;122;101]; [101;110;117;109;101;114;97;116;101];
   [122;122;117;110;107;110;111;119;110;101;110;118]]%N.                          (* itemize enumerate zzunknownenv *)

Definition ACC : list str :=
  [[39]; [96]; [34]; [94]; [126]; [99]; [118]; [104;97;116]; [98;97;114]; [118;101;99]; [100;111;116]; [116;105;108;100;101]]%N.
   (* the accent macros: acute, grave, dieresis (double quote), circumflex, tilde, c, v, hat, bar, vec, dot, tilde *)

Definition is_some {A} (x : option A) : bool := match x with Some _ => true | None => false end.

(** what the parser database says (so that the trees have the shape [abstract] expects):
    formatting macros take exactly one mandatory braced argument, symbol macros none *)
Definition one_braced_arg (nm : str) : bool :=
  match get_macro_spec cx0 nm with
  | Some {| sp_args := APStd [a] |} => str_eqb (a_spec a) [123%N]
  | _ => false
  end.
Definition no_args (nm : str) : bool :=
  match get_macro_spec cx0 nm with
  | Some {| sp_args := APStd [] |} => true
  | _ => false
  end.

Theorem default_tables_core :
  forallb (fun nm => transparent_macro lt0 nm && one_braced_arg nm) FMT = true
  /\ forallb (fun nm => is_some (symbol_repl lt0 nm) && no_args nm) SYM = true
  /\ forallb (fun ch => is_some (specials_repl lt0 ch) && is_some (get_specials_spec cx0 ch)) SPC = true
  /\ forallb (transparent_env lt0) ENV = true
  /\ assoc (lt_specials lt0) [10; 10]%N = None /\ is_some (get_specials_spec cx0 [10; 10]%N) = true
  /\ forallb (fun nm => is_some (accent_macro lt0 nm) && one_braced_arg nm) ACC = true
  /\ wrap_env lt0 [99;101;110;116;101;114]%N = Some ([10%N], [10%N])                 (* center *)
  /\ item_macro lt0 [105;116;101;109]%N = true                                        (* \item *)
  /\ match get_macro_spec cx0 [105;116;101;109]%N with
     | Some {| sp_args := APStd [a] |} => str_eqb (a_spec a) [91%N]
     | _ => false
     end = true.
Proof. vm_compute. repeat split; reflexivity. Qed.

(** the bounded statements as statements about every name of the lists *)
Corollary default_fmt_transparent nm : In nm FMT -> transparent_macro lt0 nm = true.
Proof.
  intros H. destruct default_tables_core as (F & _). rewrite forallb_forall in F.
  apply F in H. now apply andb_true_iff in H.
Qed.
Corollary default_sym_symbol nm : In nm SYM -> exists r, symbol_repl lt0 nm = Some r.
Proof.
  intros H. destruct default_tables_core as (_ & F & _). rewrite forallb_forall in F.
  apply F in H. apply andb_true_iff in H. destruct H as [H _]. destruct (symbol_repl lt0 nm); [eauto|discriminate].
Qed.
Corollary default_spc_specials ch : In ch SPC -> exists r, specials_repl lt0 ch = Some r.
Proof.
  intros H. destruct default_tables_core as (_ & _ & F & _). rewrite forallb_forall in F.
  apply F in H. apply andb_true_iff in H. destruct H as [H _]. destruct (specials_repl lt0 ch); [eauto|discriminate].
Qed.
Corollary default_env_transparent nm : In nm ENV -> transparent_env lt0 nm = true.
Proof.
  intros H. destruct default_tables_core as (_ & _ & _ & F & _). rewrite forallb_forall in F. now apply F.
Qed.

(** the constructs of the generator that are NOT core here (replacement callables / %-templates) *)
Example default_not_core :
  transparent_macro lt0 [102;114;97;99]%N = false                           (* \frac: '%s/%s' *)
  /\ transparent_macro lt0 [115;113;114;116]%N = false.                        (* \sqrt *)
Proof. vm_compute. repeat split; reflexivity. Qed.

(** * Example 1: an embedded nested item list *)
Definition ex_src : str := [92;40;113;92;41]%N.                                   (* \(q\) *)
Definition ex_sym (r : str) : str :=
  if str_eqb r [945%N] then [97;108;112;104;97]%N else [122;122;117;110;107;110;111;119;110]%N.
Definition ex_spc (r : str) : str := if str_eqb r [160%N] then [126%N] else [45;45]%N.
Definition ex_items : list core :=
  [KText [97;32]%N;
   KTransparent [KText [98]%N; KSymbol [945%N] [32;32]%N; KText [99]%N; KGroup [KSymbol [945%N] [32%N]]];
   KText [100]%N; KSpecials [160%N]; KSpecials [8211%N]; KText [32]%N;
   KComment [32;99]%N [10;32]%N; KSymbol [] [32%N]; KText [121]%N; KPar;
   KMath false [92;40]%N [92;41]%N ex_src [KText [32;113]%N; KSymbol [945%N] [32%N]; KText [114;32]%N];
   KEnvBody [KText [32]%N; KMath true [92;91]%N [92;93]%N ex_src [KText [117;10;118]%N]];
   KEnvWrap [10%N] [10%N] [KText [119]%N]; KAccent 769 (KGroup [KText [101]%N]); KAccent 769 (KText [111]%N)]%N.
Definition ex_embed := embed_items [116;101;120;116;98;102]%N [105;116;101;109;105;122;101]%N (fun _ _ => [99;101;110;116;101;114]%N) (fun _ => [39%N]) ex_sym ex_spc (fun _ => (0, 5)).

Example ex_items_ok :
  cores_ok ex_src lt0 [116;101;120;116;98;102]%N [105;116;101;109;105;122;101]%N (fun _ _ => [99;101;110;116;101;114]%N) (fun _ => [39%N]) ex_sym ex_spc (fun _ => (0, 5)) ex_items.
Proof. vm_compute. intuition reflexivity. Qed.

Example ex_tree_level : forall o sl st,
  node_text ex_src lt0 cx0 o sl st (NList None None (ex_embed ex_items)) = (render (nfc_accent lt0) o sl ex_items, st).
Proof. intros. apply tree_level_embed. exact ex_items_ok. Qed.

(** the same by computation, for one option set of each math mode *)
Definition ex_opts (m : mathmode) (sl : sls) (kbg kc : bool) : opts :=
  {| o_math := m; o_keep_comments := kc; o_sls := sl; o_kbg := kbg; o_kbg_minlen := 2 |}.
Example ex_tree_level_computed :
  forallb (fun o => str_eqb (fst (node_text ex_src lt0 cx0 o (o_sls o) d0 (NList None None (ex_embed ex_items))))
                            (render (nfc_accent lt0) o (o_sls o) ex_items))
    [ex_opts MMText sls_macros false false; ex_opts MMWithDelims sls_bos true true;
     ex_opts MMVerbatim sls_except false true; ex_opts MMRemove sls_alltrue true false;
     ex_opts MMText {| s_bmc := false; s_blc := true; s_ac := true; s_ineq := IMacros |} true true] = true
  /\ render (nfc_accent lt0) (ex_opts MMText sls_macros false false) sls_macros ex_items
     = [97;32;98;945;99;945;100;160;8211;32;10;32;121;10;10;113;945;32;114;32;10;32;32;32;32;117;10;32;32;32;32;118;10;10;119;10;233;243]%N
  /\ render (nfc_accent lt0) (ex_opts MMText sls_bos false false) sls_bos ex_items
     = [97;32;98;945;32;32;99;945;100;160;8211;10;32;32;121;10;10;113;945;32;114;10;32;32;32;32;117;10;32;32;32;32;118;10;10;119;10;233;243]%N
  /\ render (nfc_accent lt0) (ex_opts MMWithDelims sls_alltrue true true) sls_alltrue ex_items
     = [97;32;98;945;99;945;100;160;8211;32;37;32;99;10;121;10;10;92;40;113;945;114;92;41;32;92;91;10;117;10;118;10;92;93;10;119;10;233;243]%N.
Proof. vm_compute. repeat split; reflexivity. Qed.

(** * Example 2: a document parsed by the parser model, end to end *)
Definition doc : str :=
  [97;32;92;116;101;120;116;98;102;32;123;98;92;97;108;112;104;97;32;32;99;125;126;120;32;37;32;99;109;10;32;92;122;122;117;110;107;110;111;119;110;32;121;10;10;122;32;92;40;113;32;92;98;101;116;97;92;41;32;92;98;101;103;105;110;123;105;116;101;109;105;122;101;125;92;105;116;101;109;32;116;92;101;110;100;123;105;116;101;109;105;122;101;125;123;92;91;32;117;92;108;100;111;116;115;10;32;118;32;92;93;125;92;98;101;103;105;110;123;99;101;110;116;101;114;125;119;92;101;110;100;123;99;101;110;116;101;114;125;92;39;123;101;125;92;99;32;99]%N.
(* a \textbf {b\alpha  c}~x % cm<nl> \zzunknown y<nl><nl>z \(q \beta\) \begin{itemize}\item t\end{itemize}{\[ u\ldots<nl> v \]}
   \begin{center}w\end{center}\'{e}\c c   (the last on the same line) *)
Definition doc_core : list core :=
  [KText [97;32]%N;
   KTransparent [KText [98]%N; KSymbol [945%N] [32;32]%N; KText [99]%N];
   KSpecials [160%N]; KText [120;32]%N; KComment [32;99;109]%N [10;32]%N; KSymbol [] [32%N]; KText [121]%N; KPar;
   KText [122;32]%N;
   KMath false [92;40]%N [92;41]%N [92;40;113;32;92;98;101;116;97;92;41]%N [KText [113;32]%N; KSymbol [946%N] []];
   KText [32]%N; KEnvBody [KSymbol item_text [32%N]; KText [116]%N];
   KGroup [KMath true [92;91]%N [92;93]%N [92;91;32;117;92;108;100;111;116;115;10;32;118;32;92;93]%N
             [KText [32;117]%N; KSymbol [8230%N] [10;32]%N; KText [118;32]%N]];
   KEnvWrap [10%N] [10%N] [KText [119]%N];
   KAccent 769 (KGroup [KText [101]%N]); KAccent 807 (KText [99]%N)].

Definition parsed_items (r : res out) : option (list (option node)) :=
  match r with Ok (ONode (Some (NList _ _ l))) _ => Some l | _ => None end.

Example doc_parses_to_core :
  match parsed_items (parse_top doc false cx0 (walker_state cx0)) with
  | Some l => abstract_items doc lt0 l
  | None => None
  end = Some doc_core.
Proof. vm_compute. reflexivity. Qed.

(** for EVERY option set, [latex_to_text] of this document is [render] of its core items *)
Example doc_end_to_end : forall o, latex_to_text o doc false = Some (render (nfc_accent lt0) o (o_sls o) doc_core, d0).
Proof.
  intros o. unfold latex_to_text. pose proof doc_parses_to_core as H. fold cx0 lt0.
  destruct (parse_top doc false cx0 (walker_state cx0)) as [[[[]|]| |] pos| | | |]; try discriminate H.
  cbn [parsed_items] in H. now rewrite (l2t_nodes_core doc lt0 cx0 o items doc_core p e H).
Qed.
