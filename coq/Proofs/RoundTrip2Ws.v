(** C02 (extended grammar) — whitespace irrelevance for [Doc/DocGrammar2.v]:
    two documents that differ only in the amount of whitespace MEAN trees with
    the same structure.  The collector-state facts are those of
    [Proofs/RoundTripWs.v]. *)
From Coq Require Import NArith List Bool Arith Lia.
From PLV Require Import Base.PyStr Tok.PState Tok.Tokenizer Parse.Nodes Parse.Parser Parse.ParseWire
                        Doc.DocGrammar Doc.DocGrammar2 Proofs.RoundTrip Proofs.RoundTripWs Proofs.RoundTrip2.
Import ListNotations.

Lemma wsv_items_cons2 x r l' : wsv_items2 (x :: r) l' ->
  exists x' r', l' = x' :: r' /\ wsv2 x x' /\ wsv_items2 r r'.
Proof. destruct l' as [|x' r']; cbn; [tauto|]. intros [A B]. eauto. Qed.

(** * the induction *)
Section Ws.
  Variable cx : context.

  Definition NodeN2 (n : nat) : Prop :=
    forall i i', isize2 i <= n -> wsv2 i i' -> forall ps p p',
    sopt (node_of2 cx ps p i) = sopt (node_of2 cx ps p' i')
    /\ oblank (node_of2 cx ps p i) = false /\ oblank (node_of2 cx ps p' i') = false.
  Definition ListN2 (n : nat) : Prop :=
    forall l l', lsize2 l <= n -> wsv_items2 l l' -> forall ps p p' st st',
    CS st st' -> CS (fst (absorb2 cx ps p st l)) (fst (absorb2 cx ps p' st' l')).

  Lemma close_struct2 n : ListN2 n -> forall b b' tr tr' ps p p' q q', lsize2 b <= n -> wsv_items2 b b' -> wse tr tr' ->
    structure_items (cs_acc (close_state ps (fst (absorb2 cx ps p cs_empty b)) tr q))
    = structure_items (cs_acc (close_state ps (fst (absorb2 cx ps p' cs_empty b')) tr' q')).
  Proof.
    intros L b b' tr tr' ps p p' q q' SZ WB WT. unfold close_state. apply cs_flush_acc.
    apply cs_push_pending; [|apply wse_feq; exact WT]. apply L; [exact SZ|exact WB|apply cs_empty_refl].
  Qed.

  Lemma expr_struct2 n : NodeN2 n -> forall a a' aps p p', isize2 a <= n -> wsv2 a a' ->
    sopt (expr_node2 cx aps p a) = sopt (expr_node2 cx aps p' a').
  Proof.
    intros NN a.
    induction a as [ws cs| |ws nm post ma| | | | |ws ch sa| | | | | |ws tx post a0 IHa]; intros a' aps p p' SZ W;
      destruct a' as [ws' cs'| |ws' nm' post' ma'| | | | |ws' ch' sa'| | | | | |ws' tx' post' a0']; try contradiction;
      cbn [expr_node2]; try (apply NN; [exact SZ|exact W]).
    - cbn [wsv2] in W. destruct W as [_ <-]. reflexivity.
    - cbn [wsv2] in W. destruct W as (_ & <- & _). reflexivity.
    - cbn [wsv2] in W. destruct W as (_ & <- & _). reflexivity.
    - cbn [wsv2] in W. destruct W as (_ & _ & _ & W). cbn [isize2] in SZ. apply IHa; [lia|exact W].
  Qed.

  Lemma args_struct2 n : NodeN2 n -> forall args args' l ps p p', lsize2 args <= n -> wsv_items2 args args' ->
    structure_args (fst (arg_nodes2 cx ps p args l)) = structure_args (fst (arg_nodes2 cx ps p' args' l)).
  Proof.
    intros NN. induction args as [|a args IH]; intros args' l ps p p' SZ W.
    - destruct args'; [reflexivity|contradiction].
    - destruct (wsv_items_cons2 _ _ _ W) as (a' & r' & -> & Wa & Wr).
      rewrite lsize_cons2 in SZ. pose proof (isize_pos2 a).
      destruct l as [|spc l]; [reflexivity|]. cbn [arg_nodes2 fst].
      rewrite !structure_args_cons. f_equal.
      + unfold arg_node2.
        assert (G : sopt (node_of2 cx (apply_adelta ps (a_delta spc)) (p + length (item_ws2 a)) a)
                    = sopt (node_of2 cx (apply_adelta ps (a_delta spc)) (p' + length (item_ws2 a')) a'))
          by (apply NN; [lia|exact Wa]).
        destruct (a_kind spc) as [sp0|? ? ? ?|ch sp full|?]; try exact G.
        * apply (expr_struct2 n NN); [lia|exact Wa].
        * destruct a as [ws cs| | | | | | | | | | | | |]; destruct a' as [ws' cs'| | | | | | | | | | | | |]; try contradiction; try exact G.
          cbn [wsv2] in Wa. destruct Wa as [_ <-]. destruct full; reflexivity.
      + apply IH; [lia|exact Wr].
  Qed.

  Lemma node_step2 n : NodeN2 n -> ListN2 n -> NodeN2 (S n).
  Proof.
    intros NN LN i i' SZ W ps p p'.
    destruct i as [ws cs|ws b tr|ws name post args|ws k b tr|ws text post|ws mid|ws bws name args b tr ews|ws chars args|ws name post dc text|ws bws name oarg text|ws oc cc b tr| |vw od cd vt|pw ptx ppost pa0];
      destruct i' as [ws' cs'|ws' b' tr'|ws' name' post' args'|ws' k' b' tr'|ws' text' post'|ws' mid'|ws' bws' name' args' b' tr' ews'|ws' chars' args'|ws' name' post' dc' text'|ws' bws' name' oarg' text'|ws' oc' cc' b' tr'| |vw' od' cd' vt'|pw' ptx' ppost' pa0'];
      try contradiction; cycle 4.
    - cbn [wsv2] in W. destruct W as (W1 & <- & W2). repeat split.
    - cbn [node_of2]. destruct (par_spec_ok cx); repeat split.
    - (* environment *)
      cbn [wsv2] in W. destruct W as (W1 & <- & W2 & W3 & W4).
      fold (wsv_items2 args args') in W3. fold (wsv_items2 b b') in W4.
      cbn [isize2] in SZ. fold (lsize2 args) in SZ. fold (lsize2 b) in SZ.
      destruct (get_env_spec cx name) as [sp|] eqn:GS; [|cbn [node_of2]; rewrite GS; repeat split].
      destruct (sp_args sp) as [l|lk] eqn:SA; [|cbn [node_of2]; rewrite GS, SA; repeat split].
      rewrite !(node_of_env2 cx ps _ _ _ name _ _ _ _ sp l GS SA). cbn zeta. cbn [sopt oblank is_blank_node structure].
      repeat split.
      assert (E : forall x, (fix sa (l0 : list (option node)) : list (option node) :=
                   match l0 with
                   | [] => []
                   | Some x0 :: r => Some (structure x0) :: sa r
                   | None :: r => None :: sa r
                   end) x = structure_args x) by reflexivity.
      rewrite !E, !structure_gen_nodelist.
      erewrite (args_struct2 n NN args args'); [|lia|exact W3].
      erewrite (close_struct2 n LN b b' tr tr'); [reflexivity|lia|exact W4|exact W2].
    - (* specials *)
      cbn [wsv2] in W. destruct W as (W1 & <- & W3). fold (wsv_items2 args args') in W3.
      cbn [isize2] in SZ. fold (lsize2 args) in SZ.
      destruct (get_specials_spec cx chars) as [sp|] eqn:GS; [|cbn [node_of2]; rewrite GS; repeat split].
      destruct (sp_args sp) as [l|lk] eqn:SA; [|cbn [node_of2]; rewrite GS, SA; repeat split].
      rewrite !(node_of_spc2 cx ps _ _ chars _ sp l GS SA). cbn zeta. cbn [sopt oblank is_blank_node structure].
      repeat split.
      assert (E : forall x, (fix sa (l0 : list (option node)) : list (option node) :=
                   match l0 with
                   | [] => []
                   | Some x0 :: r => Some (structure x0) :: sa r
                   | None :: r => None :: sa r
                   end) x = structure_args x) by reflexivity.
      rewrite !E. erewrite (args_struct2 n NN args args'); [reflexivity|lia|exact W3].
    - (* the verbatim macro *)
      cbn [wsv2] in W. destruct W as (W1 & <- & W2 & <- & <-). repeat split.
    - (* a verbatim environment *)
      cbn [wsv2] in W. destruct W as (W1 & <- & <- & W3). fold (wsv_items2 oarg oarg') in W3.
      cbn [isize2] in SZ. fold (lsize2 oarg) in SZ.
      destruct (get_env_spec cx name) as [sp|] eqn:GS; [|cbn [node_of2]; rewrite GS; repeat split].
      destruct (sp_args sp) as [l|[|vn optarg]] eqn:SA;
        [cbn [node_of2]; rewrite GS, SA; repeat split|cbn [node_of2]; rewrite GS, SA; repeat split|].
      rewrite !(node_of_venv2 cx ps _ _ _ name _ _ sp vn optarg GS SA). cbn zeta. cbn [sopt oblank is_blank_node structure].
      repeat split.
      assert (E : forall x, (fix sa (l0 : list (option node)) : list (option node) :=
                   match l0 with
                   | [] => []
                   | Some x0 :: r => Some (structure x0) :: sa r
                   | None :: r => None :: sa r
                   end) x = structure_args x) by reflexivity.
      rewrite !E, !structure_gen_nodelist.
      destruct oarg as [|a [|? ?]]; destruct oarg' as [|a' [|? ?]]; cbn [wsv_items2] in W3; try tauto; cbn [fst snd app].
      destruct W3 as [Wa _]. rewrite !structure_args_cons. cbn [lsize2 fold_right] in SZ.
      replace (sopt (node_of2 cx ps (p + length (begin_str bws name)) a))
        with (sopt (node_of2 cx ps (p' + length (begin_str bws' name)) a'))
        by (symmetry; apply NN; [lia|exact Wa]).
      destruct (node_of2 cx ps (p' + length (begin_str bws' name)) a'); reflexivity.
    - (* delimited argument *)
      cbn [wsv2] in W. destruct W as (W1 & <- & <- & W2 & W3). fold (wsv_items2 b b') in W3.
      cbn [isize2] in SZ. fold (lsize2 b) in SZ.
      rewrite !node_of_brk2. cbn zeta. cbn [sopt oblank is_blank_node structure]. repeat split.
      rewrite !structure_gen_nodelist.
      erewrite (close_struct2 n LN b b' tr tr'); [reflexivity|lia|exact W3|exact W2].
    - (* absent argument *) repeat split.
    - (* verbatim argument *) cbn [wsv2] in W. destruct W as (W1 & <- & <- & <-). repeat split.
    - (* a comment in front of an argument *) repeat split.
    - repeat split.
    - cbn [wsv2] in W. destruct W as (W1 & W2 & W3). fold (wsv_items2 b b') in W3.
      cbn [isize2] in SZ. fold (lsize2 b) in SZ.
      rewrite !node_of_grp2. cbn zeta. cbn [sopt oblank is_blank_node structure]. repeat split.
      rewrite !structure_gen_nodelist.
      erewrite (close_struct2 n LN b b' tr tr'); [reflexivity|lia|exact W3|exact W2].
    - cbn [wsv2] in W. destruct W as (W1 & <- & W2 & W3). fold (wsv_items2 args args') in W3.
      cbn [isize2] in SZ. fold (lsize2 args) in SZ.
      destruct (get_macro_spec cx name) as [sp|] eqn:GS; [|cbn [node_of2]; rewrite GS; repeat split].
      destruct (sp_args sp) as [l|lk] eqn:SA; [|cbn [node_of2]; rewrite GS, SA; repeat split].
      rewrite !(node_of_mac2 cx ps _ _ name _ _ sp l GS SA). cbn zeta. cbn [sopt oblank is_blank_node structure].
      repeat split.
      assert (E : forall x, (fix sa (l0 : list (option node)) : list (option node) :=
                   match l0 with
                   | [] => []
                   | Some x0 :: r => Some (structure x0) :: sa r
                   | None :: r => None :: sa r
                   end) x = structure_args x) by reflexivity.
      rewrite !E. erewrite (args_struct2 n NN args args'); [reflexivity|lia|exact W3].
    - cbn [wsv2] in W. destruct W as (W1 & <- & W2 & W3). fold (wsv_items2 b b') in W3.
      cbn [isize2] in SZ. fold (lsize2 b) in SZ.
      rewrite !node_of_math2. cbn zeta. cbn [sopt oblank is_blank_node structure]. repeat split.
      rewrite !structure_gen_nodelist.
      erewrite (close_struct2 n LN b b' tr tr'); [reflexivity|lia|exact W3|exact W2].
  Qed.

  Lemma list_step2 n : NodeN2 (S n) -> ListN2 n -> ListN2 (S n).
  Proof.
    intros NN LN l l' SZ W ps p p' st st' C.
    destruct l as [|i l]; [destruct l'; [exact C|contradiction]|].
    destruct (wsv_items_cons2 _ _ _ W) as (i' & r' & -> & Wi & Wr).
    rewrite lsize_cons2 in SZ. pose proof (isize_pos2 i). rewrite !absorb_cons2.
    apply LN; [lia|exact Wr|].
    destruct (NN i i' ltac:(lia) Wi ps (p + length (item_ws2 i)) (p' + length (item_ws2 i'))) as (N1 & N2 & N3).
    destruct i as [ws cs|ws b tr|ws name post args|ws k b tr|ws text post|ws mid|ws bws name args b tr ews|ws chars args|ws name post dc text|ws bws name oarg text|ws oc cc b tr| |vw od cd vt|pw ptx ppost pa0];
      destruct i' as [ws' cs'|ws' b' tr'|ws' name' post' args'|ws' k' b' tr'|ws' text' post'|ws' mid'|ws' bws' name' args' b' tr' ews'|ws' chars' args'|ws' name' post' dc' text'|ws' bws' name' oarg' text'|ws' oc' cc' b' tr'| |vw' od' cd' vt'|pw' ptx' ppost' pa0'];
      try contradiction; cbn [absorb_item2 item_ws2] in *.
    - cbn [wsv2] in Wi. destruct Wi as [W1 <-]. apply cs_push_pending; [exact C|].
      apply feq_app. apply wse_feq. exact W1.
    - apply cs_push_node; [|exact N1|congruence]. apply cs_pre_flush; [exact C|]. cbn [wsv2] in Wi. tauto.
    - apply cs_push_node; [|exact N1|congruence]. apply cs_pre_flush; [exact C|]. cbn [wsv2] in Wi. tauto.
    - apply cs_push_node; [|exact N1|congruence]. apply cs_pre_flush; [exact C|]. cbn [wsv2] in Wi. tauto.
    - apply cs_push_node; [|exact N1|congruence]. apply cs_pre_flush; [exact C|]. cbn [wsv2] in Wi. tauto.
    - apply cs_push_node; [|exact N1|congruence]. apply cs_pre_flush; [exact C|]. cbn [wsv2] in Wi. exact Wi.
    - apply cs_push_node; [|exact N1|congruence]. apply cs_pre_flush; [exact C|]. cbn [wsv2] in Wi. tauto.
    - apply cs_push_node; [|exact N1|congruence]. apply cs_pre_flush; [exact C|]. cbn [wsv2] in Wi. tauto.
    - apply cs_push_node; [|exact N1|congruence]. apply cs_pre_flush; [exact C|]. cbn [wsv2] in Wi. tauto.
    - apply cs_push_node; [|exact N1|congruence]. apply cs_pre_flush; [exact C|]. cbn [wsv2] in Wi. tauto.
    - apply cs_push_node; [|exact N1|congruence]. apply cs_pre_flush; [exact C|]. cbn [wsv2] in Wi. tauto.
    - apply cs_push_node; [|exact N1|congruence]. apply cs_pre_flush; [exact C|].
      split; [reflexivity|split; [reflexivity|tauto]].
    - apply cs_push_node; [|exact N1|congruence]. apply cs_pre_flush; [exact C|]. cbn [wsv2] in Wi. tauto.
    - apply cs_push_node; [|exact N1|congruence]. apply cs_pre_flush; [exact C|]. cbn [wsv2] in Wi. tauto.
  Qed.

  Lemma ws_all2 n : NodeN2 n /\ ListN2 n.
  Proof.
    induction n as [|n [NN LN]].
    - split.
      + intros i i' SZ. pose proof (isize_pos2 i). lia.
      + intros l l' SZ W ps p p' st st' C. destruct l as [|i l]; [destruct l'; [exact C|contradiction]|].
        rewrite lsize_cons2 in SZ. pose proof (isize_pos2 i). lia.
    - pose proof (node_step2 n NN LN) as NN'. split; [exact NN'|apply list_step2; assumption].
  Qed.
End Ws.

(** * The corollary *)
Theorem tree_ws_variant2 cx ps pos pos' d d' : ws_variant2 d d' ->
  structure_items (fst (tree_of2 cx ps pos d)) = structure_items (fst (tree_of2 cx ps pos' d')).
Proof.
  intros [WI WT]. unfold tree_of2. cbn [fst].
  pose proof (proj2 (ws_all2 cx (lsize2 (d_items2 d))) _ _ (le_n _) WI ps pos pos' _ _ cs_empty_refl) as C.
  set (A := absorb2 cx ps pos cs_empty (d_items2 d)) in *.
  set (A' := absorb2 cx ps pos' cs_empty (d_items2 d')) in *.
  destruct WT as (T1 & T2 & T3). unfold eos_state.
  destruct (d_trail2 d) as [|c w]; destruct (d_trail2 d') as [|c' w'].
  - apply cs_flush_acc. exact C.
  - exfalso. assert (E : c' :: w' = []) by (apply T3; reflexivity). discriminate.
  - exfalso. assert (E : c :: w = []) by (apply T3; reflexivity). discriminate.
  - apply cs_flush_acc. apply cs_push_pending; [exact C|]. apply wse_feq. exact (conj T1 (conj T2 T3)).
Qed.

Theorem whitespace_irrelevant2 cx d d' :
  ws_variant2 d d' -> ok_doc2 cx d = true -> ok_doc2 cx d' = true ->
  exists n n' p p',
    parse_top (unparse2 d) false cx (walker_state cx) = Ok (ONode (Some n)) p /\
    parse_top (unparse2 d') false cx (walker_state cx) = Ok (ONode (Some n')) p' /\
    structure n = structure n'.
Proof.
  intros W O O'. rewrite (parse_unparse2 cx d O), (parse_unparse2 cx d' O'). unfold doc_result2.
  do 4 eexists. split; [reflexivity|]. split; [reflexivity|].
  rewrite !structure_gen_nodelist. f_equal. apply tree_ws_variant2. exact W.
Qed.
