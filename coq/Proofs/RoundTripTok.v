(** C02 — tokenizer facts for the round-trip theorem: the parsing states the
    core grammar reaches ([Std]), and what [impl_peek] returns on the written
    form of each item kind. *)
From Coq Require Import NArith List Bool Arith Lia.
From PLV Require Import Base.PyStr Tok.PState Tok.Tokenizer Parse.Nodes Parse.Parser Parse.ParseWire
                        Proofs.PyStrFacts Proofs.TokProofs Proofs.PStateProofs Proofs.ParserErrorsBase
                        Doc.DocGrammar.
Import ListNotations.

(** * The reachable states *)

(** the fields with the three components that the grammar's state changes
    touch (math mode, math delimiter, enable_environments) reset *)
Definition core (f : fields) : fields :=
  {| f_ctx_specials := f_ctx_specials f; f_in_math := false; f_math_delim := None;
     f_group_delims := f_group_delims f; f_inline_delims := f_inline_delims f;
     f_display_delims := f_display_delims f; f_en_dnp := f_en_dnp f; f_en_macros := f_en_macros f;
     f_en_envs := true; f_en_comments := f_en_comments f; f_en_groups := f_en_groups f;
     f_en_specials := f_en_specials f; f_en_math := f_en_math f; f_alpha := f_alpha f;
     f_escape := f_escape f; f_comment := f_comment f; f_forbidden := f_forbidden f |}.

Definition Std (cx : context) (ps : pstate) : Prop :=
  Good ps /\ core (ps_f ps) = walker_fields cx.

Definition core_safe (u : update) : bool :=
  match u with UInMath _ | UMathDelim _ | UEnEnvs _ => true | _ => false end.

Lemma core_normalize f : core (normalize f) = core f.
Proof. unfold normalize. destruct (_ && _); reflexivity. Qed.

Lemma core_fold l : forallb core_safe l = true -> forall f, core (fold_left apply_update l f) = core f.
Proof.
  induction l as [|u l IH]; intros H f; [reflexivity|].
  cbn [forallb] in H. apply andb_true_iff in H. destruct H as [H1 H2].
  cbn [fold_left]. rewrite IH by exact H2. destruct u; try discriminate; reflexivity.
Qed.

Lemma forallb_filter' {A} (P Q : A -> bool) l : forallb P l = true -> forallb P (filter Q l) = true.
Proof.
  induction l as [|x l IH]; [reflexivity|]. cbn [forallb filter]. intros H.
  apply andb_true_iff in H. destruct H as [H1 H2]. destruct (Q x); cbn [forallb]; [rewrite H1|]; auto.
Qed.

Lemma std_sub cx ps kw : Std cx ps -> forallb core_safe kw = true -> Std cx (sub_context ps kw).
Proof.
  intros [G C] H. split.
  - apply good_sub; [exact G| |].
    + induction kw as [|u kw IH]; [reflexivity|]. cbn [forallb] in H. apply andb_true_iff in H.
      destruct H as [H1 H2]. cbn [existsb]. rewrite IH by exact H2. destruct u; try discriminate; reflexivity.
    + induction kw as [|u kw IH]; [reflexivity|]. cbn [forallb] in H. apply andb_true_iff in H.
      destruct H as [H1 H2]. cbn [existsb]. rewrite IH by exact H2. destruct u; try discriminate; reflexivity.
  - unfold sub_context. cbn [ps_f]. rewrite core_normalize, core_fold; [exact C|].
    apply forallb_filter'. exact H.
Qed.

Lemma std_walker cx : Std cx (walker_state cx).
Proof. split; [apply good_walker|]. reflexivity. Qed.
Lemma std_enter_math cx ps d : Std cx ps -> Std cx (ps_enter_math ps d).
Proof. intros H. apply std_sub; [exact H | reflexivity]. Qed.
Lemma std_leave_math cx ps : Std cx ps -> Std cx (ps_leave_math ps).
Proof. intros H. apply std_sub; [exact H | reflexivity]. Qed.
Lemma std_adelta cx ps d : Std cx ps -> Std cx (apply_adelta ps d).
Proof. intros H. destruct d; cbn [apply_adelta]; auto using std_enter_math, std_leave_math. Qed.
Lemma std_no_envs cx ps : Std cx ps -> Std cx (sub_context ps [UEnEnvs false]).
Proof. intros H. apply std_sub; [exact H | reflexivity]. Qed.

(** the fields and caches the tokenizer reads, in a [Std] state *)
Record std_view (cx : context) (ps : pstate) : Prop := {
  sv_specials : f_ctx_specials (ps_f ps) = Some (map fst (cx_specials cx));
  sv_dnp : f_en_dnp (ps_f ps) = true;
  sv_macros : f_en_macros (ps_f ps) = true;
  sv_comments : f_en_comments (ps_f ps) = true;
  sv_groups : f_en_groups (ps_f ps) = true;
  sv_enspecials : f_en_specials (ps_f ps) = true;
  sv_math : f_en_math (ps_f ps) = true;
  sv_alpha : f_alpha (ps_f ps) = default_alpha;
  sv_escape : f_escape (ps_f ps) = [92%N];
  sv_comment : f_comment (ps_f ps) = [37%N];
  sv_forbidden : f_forbidden (ps_f ps) = [];
  sv_gopen : c_group_open (ps_c ps) = [[123%N]];
  sv_gclose : c_group_close (ps_c ps) = [[125%N]];
  sv_gdelims : f_group_delims (ps_f ps) = default_group_delims;
  sv_startchars : c_math_startchars (ps_c ps) = [36;36;92;92;36;36;92;92]%N;
  sv_by_len : c_math_by_len (ps_c ps) = BL;
  sv_expect : c_expect_close (ps_c ps) = compute_expect (ps_f ps) BO;
}.

Lemma std_view_of cx ps : Std cx ps -> std_view cx ps.
Proof.
  intros [G C].
  assert (GD : f_group_delims (ps_f ps) = default_group_delims) by exact (f_equal f_group_delims C).
  destruct G as [[Hc Hn] [Hi Hd]].
  constructor.
  - exact (f_equal f_ctx_specials C).
  - exact (f_equal f_en_dnp C).
  - exact (f_equal f_en_macros C).
  - exact (f_equal f_en_comments C).
  - exact (f_equal f_en_groups C).
  - exact (f_equal f_en_specials C).
  - exact (f_equal f_en_math C).
  - exact (f_equal f_alpha C).
  - exact (f_equal f_escape C).
  - exact (f_equal f_comment C).
  - exact (f_equal f_forbidden C).
  - rewrite Hc. cbn [compute_caches c_group_open]. unfold compute_group_open. rewrite GD. reflexivity.
  - rewrite Hc. cbn [compute_caches c_group_close]. unfold compute_group_close. rewrite GD. reflexivity.
  - exact GD.
  - rewrite Hc. cbn [compute_caches c_math_startchars]. unfold compute_startchars. rewrite Hi, Hd. reflexivity.
  - apply good_by_len. split; [split|split]; assumption.
  - apply good_expect. split; [split|split]; assumption.
Qed.

Lemma BL_eq : BL = [([92;40]%N, TkMathInline); ([92;41]%N, TkMathInline); ([36;36]%N, TkMathDisplay);
                    ([92;91]%N, TkMathDisplay); ([92;93]%N, TkMathDisplay); ([36%N], TkMathInline)].
Proof. vm_compute. reflexivity. Qed.
Lemma BO_eq : BO = [([36%N], ([36%N], TkMathInline)); ([92;40]%N, ([92;41]%N, TkMathInline));
                    ([36;36]%N, ([36;36]%N, TkMathDisplay)); ([92;91]%N, ([92;93]%N, TkMathDisplay))].
Proof. vm_compute. reflexivity. Qed.

Definition m_tok (k : mathkind) : tokkind :=
  match k with MBracket | MDollars => TkMathDisplay | _ => TkMathInline end.

(** * Strings *)
Definition hd_not (f : N -> bool) (b : str) : Prop :=
  match b with [] => True | c :: _ => f c = false end.

Lemma span_app f (a b : str) : forallb f a = true -> hd_not f b -> span f (a ++ b) = (a, b).
Proof.
  induction a as [|x a IH]; intros Ha Hb.
  - destruct b as [|c b]; [reflexivity|]. cbn [app span]. cbn [hd_not] in Hb. rewrite Hb. reflexivity.
  - cbn [forallb] in Ha. apply andb_true_iff in Ha. destruct Ha as [H1 H2].
    cbn [app span]. rewrite H1, (IH H2 Hb). reflexivity.
Qed.

Lemma skipn_len_app {A} (a b : list A) : skipn (length a) (a ++ b) = b.
Proof. induction a as [|x a IH]; [reflexivity|]. exact IH. Qed.

Lemma skipn_shift {A} (s a b : list A) p : skipn p s = a ++ b -> skipn (p + length a) s = b.
Proof. intros H. rewrite <- skipn_skipn', H. apply skipn_len_app. Qed.

Lemma skipn_S_of {A} (s : list A) p c r : skipn p s = c :: r -> skipn (S p) s = r.
Proof. intros H. apply skipn_cons_lt in H. tauto. Qed.

Lemma nth_error_of_skipn {A} (s : list A) p c r : skipn p s = c :: r -> nth_error s p = Some c.
Proof.
  revert s. induction p as [|p IH]; intros s H.
  - cbn in H. subst s. reflexivity.
  - destruct s as [|x s]; [discriminate|]. cbn [skipn] in H. cbn [nth_error]. apply IH. exact H.
Qed.

Lemma peek_space_at s pos ws b : skipn pos s = ws ++ b -> forallb is_space ws = true ->
  hd_not is_space b -> peek_space s pos = (ws, pos + length ws).
Proof. intros H W B. unfold peek_space. rewrite H, (span_app _ _ _ W B). reflexivity. Qed.

Lemma ws_ok_split w : ws_ok w = true -> forallb is_space w = true /\ Nat.leb 2 (count_c 10 w) = false.
Proof.
  unfold ws_ok. intros H. apply andb_true_iff in H. destruct H as [H1 H2]. split; [exact H1|].
  apply Nat.ltb_lt in H2. apply Nat.leb_gt. exact H2.
Qed.

(** * [impl_peek]: whitespace, then the first-character dispatch *)
Lemma impl_peek_dispatch ps s pos ws c r :
  ws_ok ws = true -> skipn pos s = ws ++ c :: r -> is_space c = false ->
  impl_peek ps s pos = dispatch ps s (c :: r) (pos + length ws) ws c.
Proof.
  intros W H C. apply ws_ok_split in W. destruct W as [W1 W2].
  unfold impl_peek. rewrite (peek_space_at s pos ws (c :: r) H W1 C), W2, andb_false_r.
  rewrite (skipn_shift _ _ _ _ H). reflexivity.
Qed.

Lemma impl_peek_eos ps s pos ws : ws_ok ws = true -> skipn pos s = ws -> impl_peek ps s pos = TokEOS ws.
Proof.
  intros W H. apply ws_ok_split in W. destruct W as [W1 W2].
  assert (H' : skipn pos s = ws ++ []) by (rewrite app_nil_r; exact H).
  unfold impl_peek. rewrite (peek_space_at s pos ws [] H' W1 I), W2, andb_false_r.
  rewrite (skipn_shift _ _ _ _ H'). reflexivity.
Qed.

(** * The stages *)
Section Stages.
  Variables (cx : context) (ps : pstate).
  Hypothesis V : std_view cx ps.

  Lemma stage_math_none rest p pre c : N.eqb c 36 = false -> N.eqb c 92 = false ->
    stage_math ps rest p pre c = None.
  Proof.
    intros A B. unfold stage_math. rewrite (sv_startchars _ _ V). cbn [mem_c existsb].
    rewrite A, B. reflexivity.
  Qed.

  Lemma stage_escape_none s p pre c : N.eqb c 92 = false -> stage_escape ps s p pre c = None.
  Proof. intros A. unfold stage_escape. rewrite (sv_escape _ _ V). cbn [str_eqb]. rewrite A. reflexivity. Qed.

  Lemma stage_comment_none s rest p pre c : N.eqb c 37 = false -> stage_comment ps s rest p pre c = None.
  Proof.
    intros A. unfold stage_comment. rewrite (sv_comment _ _ V), A, andb_false_r. reflexivity.
  Qed.

  Lemma stage_group_none p pre c : N.eqb c 123 = false -> N.eqb c 125 = false -> stage_group ps p pre c = None.
  Proof.
    intros A B. unfold stage_group. rewrite (sv_groups _ _ V), (sv_gopen _ _ V), (sv_gclose _ _ V).
    cbn [existsb str_eqb]. rewrite A, B. reflexivity.
  Qed.

  Lemma test_specials_none (l : list str) c r :
    forallb (fun sc : str => match sc with [] => true | c0 :: _ => negb (N.eqb c0 c) end) l = true ->
    test_specials l (c :: r) None = None.
  Proof.
    induction l as [|sc l IH]; intros H; [reflexivity|]. cbn [forallb] in H.
    apply andb_true_iff in H. destruct H as [H1 H2]. cbn [test_specials].
    destruct sc as [|c0 sc]; [cbn; apply IH; exact H2|].
    apply negb_true_iff in H1. cbn [startswith]. rewrite H1, andb_false_r. apply IH. exact H2.
  Qed.

  Lemma stage_specials_none p pre c r :
    forallb (fun sc : str => match sc with [] => true | c0 :: _ => negb (N.eqb c0 c) end)
            (map fst (cx_specials cx)) = true ->
    stage_specials ps (c :: r) p pre = None.
  Proof.
    intros H. unfold stage_specials. rewrite (sv_specials _ _ V), (sv_enspecials _ _ V).
    rewrite (test_specials_none _ _ _ H). reflexivity.
  Qed.

  (** ** inert characters *)
  Lemma inert_facts c : inert cx c = true ->
    is_space c = false /\ N.eqb c 92 = false /\ N.eqb c 36 = false /\ N.eqb c 37 = false /\
    N.eqb c 123 = false /\ N.eqb c 125 = false /\
    forallb (fun sc : str => match sc with [] => true | c0 :: _ => negb (N.eqb c0 c) end)
            (map fst (cx_specials cx)) = true.
  Proof.
    unfold inert. intros H. apply andb_true_iff in H. destruct H as [H H3].
    apply andb_true_iff in H. destruct H as [H1 H2].
    apply negb_true_iff in H1. apply negb_true_iff in H2. cbn [mem_c existsb] in H2.
    repeat (apply orb_false_iff in H2; destruct H2 as [? H2]). tauto.
  Qed.

  Lemma dispatch_char s p pre c r : inert cx c = true ->
    dispatch ps s (c :: r) p pre c = TokOk (mk TkChar [c] p (S p) pre []).
  Proof.
    intros H. destruct (inert_facts c H) as (_ & E92 & E36 & E37 & E123 & E125 & SP).
    unfold dispatch. rewrite stage_math_none, stage_escape_none, stage_comment_none, stage_group_none,
      stage_specials_none by assumption.
    cbn [orelse]. unfold char_token. rewrite (sv_forbidden _ _ V). reflexivity.
  Qed.

  (** ** braces *)
  Lemma dispatch_open s p pre r :
    dispatch ps s (123%N :: r) p pre 123%N = TokOk (mk TkBraceOpen [123%N] p (S p) pre []).
  Proof.
    unfold dispatch. rewrite stage_math_none, stage_escape_none, stage_comment_none by reflexivity.
    cbn [orelse]. unfold stage_group. rewrite (sv_groups _ _ V), (sv_gopen _ _ V). reflexivity.
  Qed.

  Lemma dispatch_close s p pre r :
    dispatch ps s (125%N :: r) p pre 125%N = TokOk (mk TkBraceClose [125%N] p (S p) pre []).
  Proof.
    unfold dispatch. rewrite stage_math_none, stage_escape_none, stage_comment_none by reflexivity.
    cbn [orelse]. unfold stage_group. rewrite (sv_groups _ _ V), (sv_gopen _ _ V), (sv_gclose _ _ V). reflexivity.
  Qed.

  (** ** math delimiters *)
  Lemma dispatch_math_open s p pre k r :
    f_in_math (ps_f ps) = false ->
    (k = MDollar -> hd_not (fun c => N.eqb c 36) r) ->
    dispatch ps s (m_open k ++ r) p pre (hd 0%N (m_open k))
    = TokOk (mk (m_tok k) (m_open k) p (p + length (m_open k)) pre []).
  Proof.
    intros M D. unfold dispatch, stage_math. rewrite (sv_startchars _ _ V), (sv_math _ _ V).
    unfold read_math. rewrite M, (sv_by_len _ _ V), BL_eq.
    destruct k; cbn [m_open m_tok hd app mem_c existsb N.eqb Pos.eqb orb andb startswith length].
    - specialize (D eq_refl). destruct r as [|d r]; [reflexivity|]. cbn [hd_not] in D.
      cbn [startswith]. rewrite (N.eqb_sym 36 d), D. reflexivity.
    - destruct r; reflexivity.
    - destruct r; reflexivity.
    - destruct r; reflexivity.
  Qed.

  Lemma dispatch_math_close s p pre cd k c cd' r :
    f_in_math (ps_f ps) = true -> c_expect_close (ps_c ps) = Some (cd, k) ->
    cd = c :: cd' -> (c = 36%N \/ c = 92%N) ->
    dispatch ps s (cd ++ r) p pre c = TokOk (mk k cd p (p + length cd) pre []).
  Proof.
    intros M E -> C. unfold dispatch, stage_math. rewrite (sv_startchars _ _ V), (sv_math _ _ V).
    assert (MC : mem_c c [36; 36; 92; 92; 36; 36; 92; 92]%N = true) by (destruct C; subst c; reflexivity).
    rewrite MC. cbn [andb]. unfold read_math. rewrite M, E.
    assert (S : startswith ((c :: cd') ++ r) (c :: cd') = true).
    { clear. generalize (c :: cd'). intros l. induction l as [|x l IH]; [destruct r; reflexivity|].
      cbn [app startswith]. rewrite N.eqb_refl. exact IH. }
    rewrite S. reflexivity.
  Qed.
End Stages.

(** * Letters *)
Lemma alpha_not_space c : is_alpha c = true -> is_space c = false.
Proof.
  unfold is_alpha, mem_c, default_alpha. cbn [existsb]. intros H.
  repeat (apply orb_true_iff in H; destruct H as [H|H];
          [apply N.eqb_eq in H; subst c; vm_compute; reflexivity|]).
  discriminate.
Qed.

Lemma space_not_alpha c : is_space c = true -> is_alpha c = false.
Proof. intros H. destruct (is_alpha c) eqn:E; [|reflexivity]. apply alpha_not_space in E. congruence. Qed.

Lemma alpha_neq c k : is_alpha c = true -> is_alpha k = false -> N.eqb c k = false.
Proof. intros A B. destruct (N.eqb c k) eqn:E; [|reflexivity]. apply N.eqb_eq in E. subst. congruence. Qed.

Lemma alpha_prefix kw : forall name tail,
  forallb is_alpha kw = true -> hd_not is_alpha tail ->
  startswith (name ++ tail) kw = true -> exists x, name = kw ++ x.
Proof.
  induction kw as [|a kw IH]; intros name tail K T S; [exists name; reflexivity|].
  cbn [forallb] in K. apply andb_true_iff in K. destruct K as [K1 K2].
  destruct name as [|n name].
  - cbn [app] in S. destruct tail as [|t tail]; [discriminate|]. cbn [startswith] in S.
    apply andb_true_iff in S. destruct S as [S1 _]. apply N.eqb_eq in S1. subst t.
    cbn [hd_not] in T. congruence.
  - cbn [app startswith] in S. apply andb_true_iff in S. destruct S as [S1 S2].
    apply N.eqb_eq in S1. subst n. destruct (IH name tail K2 T S2) as [x ->]. exists x. reflexivity.
Qed.

Section Macros.
  Variables (cx : context) (ps : pstate).
  Hypothesis V : std_view cx ps.

  Lemma read_math_none p pre c r :
    N.eqb c 40 = false -> N.eqb c 41 = false -> N.eqb c 91 = false -> N.eqb c 93 = false ->
    read_math ps (92%N :: c :: r) p pre = None.
  Proof.
    intros A B C D.
    rewrite N.eqb_sym in A. rewrite N.eqb_sym in B. rewrite N.eqb_sym in C. rewrite N.eqb_sym in D.
    unfold read_math. rewrite (sv_by_len _ _ V), BL_eq.
    destruct (f_in_math (ps_f ps)) eqn:M.
    - destruct (c_expect_close (ps_c ps)) as [[cd k]|] eqn:E.
      + rewrite (sv_expect _ _ V) in E. unfold compute_expect in E. rewrite M in E. cbn [negb] in E.
        destruct (f_math_delim (ps_f ps)) as [d|]; [|discriminate].
        apply dict_get_in in E. rewrite BO_eq in E. cbn [map snd In] in E.
        destruct E as [E|[E|[E|[E|[]]]]]; injection E as <- <-;
          cbn [startswith]; rewrite ?A, ?B, ?C, ?D; reflexivity.
      + cbn [startswith]. rewrite A, B, C, D. reflexivity.
    - cbn [startswith]. rewrite A, B, C, D. reflexivity.
  Qed.

  Lemma stage_math_escape p pre c r :
    N.eqb c 40 = false -> N.eqb c 41 = false -> N.eqb c 91 = false -> N.eqb c 93 = false ->
    stage_math ps (92%N :: c :: r) p pre 92%N = None.
  Proof.
    intros A B C D. unfold stage_math. rewrite (read_math_none p pre c r A B C D).
    destruct (_ && _); reflexivity.
  Qed.

  Lemma read_macro_word s p pre c nm post fol :
    skipn p s = 92%N :: c :: nm ++ post ++ fol ->
    is_alpha c = true -> forallb is_alpha nm = true -> ws_ok post = true ->
    hd_not is_space fol -> (post = [] -> hd_not is_alpha fol) ->
    read_macro ps s p pre = TokOk (mk TkMacro (c :: nm) p (p + 2 + length nm + length post) pre post).
  Proof.
    intros H Hc Hnm Hpost Hsp Hal. apply ws_ok_split in Hpost. destruct Hpost as [W1 W2].
    unfold read_macro. rewrite (skipn_S_of _ _ _ _ H), (sv_alpha _ _ V).
    change (mem_c c default_alpha) with (is_alpha c). rewrite Hc.
    assert (T : hd_not is_alpha (post ++ fol)).
    { destruct post as [|c0 post]; [apply Hal; reflexivity|]. cbn [app hd_not].
      cbn [forallb] in W1. apply andb_true_iff in W1. destruct W1 as [W1 _]. apply space_not_alpha. exact W1. }
    change (fun x : N => mem_c x default_alpha) with is_alpha.
    rewrite (span_app is_alpha nm (post ++ fol) Hnm T). cbn [fst].
    assert (SK : skipn (p + 2 + length nm) s = post ++ fol).
    { change (92%N :: c :: nm ++ post ++ fol) with ([92%N; c] ++ nm ++ post ++ fol) in H.
      apply skipn_shift in H. apply skipn_shift in H. exact H. }
    unfold post_space_at. rewrite (peek_space_at s _ post fol SK W1 Hsp), W2. reflexivity.
  Qed.

  Lemma stage_escape_word s p pre c nm post fol :
    skipn p s = 92%N :: c :: nm ++ post ++ fol ->
    is_alpha c = true -> forallb is_alpha nm = true -> forallb is_space post = true ->
    (post = [] -> hd_not is_alpha fol) ->
    str_eqb (c :: nm) kw_begin = false -> str_eqb (c :: nm) kw_end = false ->
    stage_escape ps s p pre 92%N = Some (read_macro ps s p pre).
  Proof.
    intros H Hc Hnm W1 Hal NB NE.
    assert (T : hd_not is_alpha (post ++ fol)).
    { destruct post as [|c0 post]; [apply Hal; reflexivity|]. cbn [app hd_not].
      cbn [forallb] in W1. apply andb_true_iff in W1. destruct W1 as [W1 _]. apply space_not_alpha. exact W1. }
    assert (NM : forallb is_alpha (c :: nm) = true) by (cbn [forallb]; rewrite Hc; exact Hnm).
    unfold stage_escape. rewrite (sv_escape _ _ V), (sv_macros _ _ V), (sv_alpha _ _ V).
    change (str_eqb [92%N] [92%N]) with true. cbv iota.
    rewrite (skipn_S_of _ _ _ _ H).
    change (c :: nm ++ post ++ fol) with ((c :: nm) ++ post ++ fol).
    destruct (f_en_envs (ps_f ps)); [|reflexivity].
    assert (KEY : forall kw, forallb is_alpha kw = true -> str_eqb (c :: nm) kw = false ->
              startswith ((c :: nm) ++ post ++ fol) kw = true ->
              exists d, char_at s (p + 1 + length kw) = Some d /\ mem_c d default_alpha = true).
    { intros kw K NK S0. destruct (alpha_prefix kw _ _ K T S0) as [x X].
      destruct x as [|d x].
      - rewrite app_nil_r in X. rewrite X in NK.
        assert (R : str_eqb kw kw = true) by (apply pe_str_eqb_eq; reflexivity). congruence.
      - exists d. split.
        + apply skipn_S_of in H. change (c :: nm ++ post ++ fol) with ((c :: nm) ++ post ++ fol) in H.
          rewrite X, <- app_assoc in H. apply skipn_shift in H.
          replace (p + 1 + length kw) with (S p + length kw) by lia.
          unfold char_at. eapply nth_error_of_skipn. exact H.
        + rewrite X in NM. rewrite forallb_app in NM. apply andb_true_iff in NM. destruct NM as [_ NM].
          cbn [forallb] in NM. apply andb_true_iff in NM. tauto. }
    destruct (startswith ((c :: nm) ++ post ++ fol) kw_begin) eqn:SB.
    - destruct (KEY kw_begin eq_refl NB SB) as (d & D1 & D2).
      change (p + 1 + length kw_begin) with (p + 1 + 5) in D1. rewrite D1, D2. reflexivity.
    - destruct (startswith ((c :: nm) ++ post ++ fol) kw_end) eqn:SE; [|reflexivity].
      destruct (KEY kw_end eq_refl NE SE) as (d & D1 & D2).
      change (p + 1 + length kw_end) with (p + 1 + 3) in D1. rewrite D1, D2. reflexivity.
  Qed.

  Lemma dispatch_macro_word s p pre c nm post fol :
    skipn p s = 92%N :: c :: nm ++ post ++ fol ->
    is_alpha c = true -> forallb is_alpha nm = true -> ws_ok post = true ->
    hd_not is_space fol -> (post = [] -> hd_not is_alpha fol) ->
    str_eqb (c :: nm) kw_begin = false -> str_eqb (c :: nm) kw_end = false ->
    dispatch ps s (92%N :: c :: nm ++ post ++ fol) p pre 92%N
    = TokOk (mk TkMacro (c :: nm) p (p + 2 + length nm + length post) pre post).
  Proof.
    intros H Hc Hnm Hpost Hsp Hal NB NE. unfold dispatch.
    rewrite stage_math_escape by (apply alpha_neq; [exact Hc | reflexivity]).
    rewrite (stage_escape_word s p pre c nm post fol H Hc Hnm (proj1 (ws_ok_split _ Hpost)) Hal NB NE).
    cbn [orelse]. apply (read_macro_word s p pre c nm post fol); assumption.
  Qed.

  Lemma dispatch_macro_sym s p pre c r :
    skipn p s = 92%N :: c :: r -> is_alpha c = false ->
    N.eqb c 40 = false -> N.eqb c 41 = false -> N.eqb c 91 = false -> N.eqb c 93 = false ->
    dispatch ps s (92%N :: c :: r) p pre 92%N = TokOk (mk TkMacro [c] p (p + 2) pre []).
  Proof.
    intros H Hc A B C D. unfold dispatch. rewrite stage_math_escape by assumption.
    unfold stage_escape. rewrite (sv_escape _ _ V), (sv_macros _ _ V).
    change (str_eqb [92%N] [92%N]) with true. cbv iota. rewrite (skipn_S_of _ _ _ _ H).
    assert (E1 : N.eqb 98 c = false) by (apply alpha_neq; [reflexivity | exact Hc]).
    assert (E2 : N.eqb 101 c = false) by (apply alpha_neq; [reflexivity | exact Hc]).
    assert (R : (if f_en_envs (ps_f ps)
                 then match (if startswith (c :: r) kw_begin then Some true
                             else if startswith (c :: r) kw_end then Some false else None) with
                      | Some b => match char_at s (p + 1 + (if b then 5 else 3)) with
                                  | None => Some (read_environment ps s p b pre)
                                  | Some d => if mem_c d (f_alpha (ps_f ps)) then None
                                              else Some (read_environment ps s p b pre)
                                  end
                      | None => None
                      end
                 else None) = None).
    { destruct (f_en_envs (ps_f ps)); [|reflexivity]. unfold kw_begin, kw_end. cbn [startswith].
      rewrite E1, E2. reflexivity. }
    rewrite R. cbn [orelse]. unfold read_macro. rewrite (skipn_S_of _ _ _ _ H), (sv_alpha _ _ V).
    change (mem_c c default_alpha) with (is_alpha c). rewrite Hc. reflexivity.
  Qed.
End Macros.

(** * Comments *)
Lemma find_sub_nl text r : mem_c 10 text = false -> find_sub (text ++ 10%N :: r) [10%N] = Some (length text).
Proof.
  induction text as [|c text IH]; intros H.
  - cbn [app find_sub startswith length]. rewrite N.eqb_refl. destruct r; reflexivity.
  - cbn [mem_c existsb] in H. apply orb_false_iff in H. destruct H as [H1 H2].
    cbn [app find_sub startswith length]. rewrite H1. cbn [andb].
    change (existsb (N.eqb 10) text) with (mem_c 10 text) in H2. rewrite (IH H2). reflexivity.
Qed.

Lemma firstn_len_app {A} (a b : list A) : firstn (length a) (a ++ b) = a.
Proof. induction a as [|x a IH]; [reflexivity|]. cbn. f_equal. exact IH. Qed.

Lemma space_10 : is_space 10 = true. Proof. vm_compute. reflexivity. Qed.
Lemma space_37 : is_space 37 = false. Proof. vm_compute. reflexivity. Qed.

Section Comments.
  Variables (cx : context) (ps : pstate).
  Hypothesis V : std_view cx ps.

  Lemma dispatch_comment s p pre text post fol :
    skipn p s = 37%N :: text ++ post ++ fol ->
    mem_c 10 text = false -> ws_ok post = true -> (exists w, post = 10%N :: w) -> hd_not is_space fol ->
    dispatch ps s (37%N :: text ++ post ++ fol) p pre 37%N
    = TokOk (mk TkComment text p (p + 1 + length text + length post) pre post).
  Proof.
    intros SK NT W [w ->] HF. apply ws_ok_split in W. destruct W as [W1 W2].
    unfold dispatch. rewrite (stage_math_none cx ps V), (stage_escape_none cx ps V) by reflexivity.
    cbn [orelse]. unfold stage_comment. rewrite (sv_comment _ _ V), (sv_comments _ _ V).
    assert (S1 : startswith (37%N :: text ++ (10%N :: w) ++ fol) [37%N] = true).
    { cbn [startswith]. rewrite N.eqb_refl. destruct (text ++ (10%N :: w) ++ fol); reflexivity. }
    rewrite S1. cbn [N.eqb Pos.eqb andb orelse]. f_equal.
    unfold read_comment. rewrite (sv_comment _ _ V). cbn [length].
    pose proof (skipn_cons_lt _ _ _ _ SK) as [PL SK1].
    replace (p + 1) with (S p) by lia.
    assert (F : find_from s [10%N] (S p) = Some (S p + length text)).
    { unfold find_from. assert (L : Nat.ltb (length s) (S p) = false) by (apply Nat.ltb_ge; lia).
      rewrite L, SK1. cbn [app]. rewrite (find_sub_nl text _ NT). reflexivity. }
    rewrite F.
    assert (SK2 : skipn (S p + length text) s = (10%N :: w) ++ fol) by (apply skipn_shift in SK1; exact SK1).
    unfold post_space_at. rewrite (peek_space_at s _ (10%N :: w) fol SK2 W1 HF), W2.
    unfold slice. rewrite SK1. replace (S p + length text - S p) with (length text) by lia.
    rewrite firstn_len_app. reflexivity.
  Qed.
End Comments.

(** * Paragraph breaks *)
Lemma find_nl_app a x : mem_c 10 a = false -> find_nl (a ++ 10%N :: x) = length a.
Proof.
  induction a as [|c a IH]; intros H; [reflexivity|].
  cbn [mem_c existsb] in H. apply orb_false_iff in H. destruct H as [H1 H2].
  cbn [app find_nl length]. rewrite N.eqb_sym, H1. f_equal. apply IH. exact H2.
Qed.

Lemma rfind_nl_last x : rfind_nl (x ++ [10%N]) = length x.
Proof.
  unfold rfind_nl. rewrite rev_app_distr. cbn. rewrite app_length. cbn. lia.
Qed.

Lemma assoc_existsb {A} (l : list (str * A)) k v : assoc l k = Some v -> existsb (str_eqb k) (map fst l) = true.
Proof.
  induction l as [|[k' v'] l IH]; [discriminate|]. cbn [assoc map fst existsb].
  destruct (str_eqb k' k) eqn:E.
  - intros _. apply pe_str_eqb_eq in E. subst k'.
    assert (R : str_eqb k k = true) by (apply pe_str_eqb_eq; reflexivity). rewrite R. reflexivity.
  - intros H. rewrite (IH H). apply orb_true_r.
Qed.

Lemma impl_peek_par cx ps s pos ws mid fol sp : std_view cx ps ->
  skipn pos s = ws ++ 10%N :: mid ++ 10%N :: fol ->
  forallb is_space ws = true -> mem_c 10 ws = false -> forallb is_space mid = true ->
  hd_not is_space fol -> get_specials_spec cx [10;10]%N = Some sp ->
  impl_peek ps s pos
  = TokOk (mk TkSpecials [10;10]%N (pos + length ws) (pos + length ws + 1 + length mid + 1) ws []).
Proof.
  intros V SK W NW WM HF SP.
  set (pre0 := ws ++ 10%N :: mid ++ [10%N]).
  assert (SK' : skipn pos s = pre0 ++ fol).
  { unfold pre0. rewrite <- app_assoc. cbn [app]. rewrite <- app_assoc. exact SK. }
  assert (W0 : forallb is_space pre0 = true).
  { unfold pre0. rewrite forallb_app. cbn [forallb]. rewrite forallb_app. cbn [forallb].
    rewrite W, WM, space_10. reflexivity. }
  unfold impl_peek. rewrite (peek_space_at s pos pre0 fol SK' W0 HF), (sv_dnp _ _ V).
  assert (C : Nat.leb 2 (count_c 10 pre0) = true).
  { apply Nat.leb_le. unfold pre0. rewrite count_c_app. cbn [count_c]. rewrite count_c_app. cbn [count_c].
    rewrite N.eqb_refl. lia. }
  rewrite C. cbn [andb]. unfold par_token.
  assert (F1 : find_nl pre0 = length ws) by (apply find_nl_app; exact NW).
  assert (F2 : rfind_nl pre0 = length (ws ++ 10%N :: mid)).
  { unfold pre0. change (ws ++ 10%N :: mid ++ [10%N]) with (ws ++ (10%N :: mid) ++ [10%N]).
    rewrite app_assoc. apply rfind_nl_last. }
  rewrite F1, F2. unfold pre0 at 1. rewrite firstn_len_app, (sv_specials _ _ V).
  unfold get_specials_spec in SP. rewrite (assoc_existsb _ _ _ SP).
  rewrite app_length. cbn [length].
  replace (pos + S (length ws + S (length mid))) with (pos + length ws + 1 + length mid + 1) by lia. reflexivity.
Qed.
