(** C06 (prefix) — tolerant mode keeps the content that precedes an error:
    for a core document followed by a stray closing token and ANY garbage, the
    tolerant parser returns exactly the nodes of the document
    ([prefix_closing]); for a core document followed by any text at all, the
    finished nodes of the document are a prefix of the node list returned
    ([prefix_any]; the pending text run at the end of the document is the only
    thing the continuation can change). *)
From Coq Require Import NArith List Bool Arith Lia.
From PLV Require Import Base.PyStr Tok.PState Tok.Tokenizer Parse.Nodes Parse.Parser Parse.ParseWire
                        Proofs.PyStrFacts Proofs.ParserMono Proofs.ParserSpansStep Proofs.ParserErrorsBase
                        Proofs.ParserInv Proofs.ParserTermDefs Proofs.ParserTerm
                        Doc.DocGrammar Proofs.RoundTripTok Proofs.RoundTripRules Proofs.RoundTrip
                        Proofs.FaultRules Proofs.FaultTok Proofs.FaultDoc Proofs.FaultPath Proofs.FaultClose
                        Proofs.PrefixSim Proofs.PrefixColl.
Import ListNotations.

(** * A stray closing token after the document: the exact result *)
Theorem prefix_closing_items cx l tr c g :
  let ps0 := walker_state cx in
  ok_items cx ps0 l (hd_error (tr ++ stray_text c)) = true -> ws_ok tr = true -> stray_wf c ->
  let A := absorb cx ps0 0 cs_empty l in
  parse_top (unparse_items l ++ tr ++ stray_text c ++ g) true cx ps0
  = Ok (ONode (Some (gen_nodelist 0 (cs_acc (pre_flush ps0 (fst A) tr (length (unparse_items l)))))))
       (length (unparse_items l) + length tr + length (stray_text c)).
Proof.
  intros ps0 OKL W WF A.
  set (s := unparse_items l ++ tr ++ stray_text c ++ g).
  assert (SE0 : StdE cx ps0) by apply stde_walker.
  assert (SK : skipn 0 s = unparse_items l ++ (tr ++ stray_text c ++ g)) by reflexivity.
  pose proof (skipn_shift _ _ _ _ SK) as SK1.
  pose proof (stray_step s cx true ps0 top_opts (fst A) _ tr c g 0 SE0 (opts_ok_2 _ _ (opts_ok_top ps0)) W WF
                ltac:(destruct c; exact I) SK1) as H.
  rewrite <- (hd_error_stray tr c g) in OKL.
  assert (NR : forall e p, @PErr out e p <> OutOfFuel) by discriminate.
  pose proof (items_sim_t s cx true l ps0 top_opts cs_empty 0 _ 1 _ (proj1 SE0) (opts_ok_2 _ _ (opts_ok_top ps0))
                (NR _ _) OKL SK H) as H1.
  assert (LS : length s = length (unparse_items l) + (length tr + (length (stray_text c) + length g))).
  { unfold s. rewrite !app_length. reflexivity. }
  unfold parse_top. fold s.
  assert (H2 : run s true cx (parse_fuel s cx) (TGeneral ps0 top_opts 0)
               = PErr (rewrap 0 (fail_err ps0 (fst A) (0 + length (unparse_items l)) (stray_tk c) (stray_arg c)
                                          (0 + length (unparse_items l) + length tr + length (stray_text c)) tr []
                                          (stray_what c)))
                      (0 + length (unparse_items l) + length tr + length (stray_text c))).
  { apply (run_mono s true cx (S (1 + 8 * length (unparse_items l)))); [|discriminate|pose proof (parse_fuel_ge s cx); lia].
    cbn [run]. fold ps0. fold A. rewrite H1. reflexivity. }
  rewrite H2. cbn [parse_content rewrap fail_err mkerr pe_at pe_past pe_nodes]. reflexivity.
Qed.

Lemma ok_doc_follow cx d (x : str) : ok_doc cx d = true ->
  (d_trail d = [] -> inertf (hd_error x)) ->
  ok_items cx (walker_state cx) (d_items d) (hd_error (d_trail d ++ x)) = true /\ ws_ok (d_trail d) = true.
Proof.
  unfold ok_doc, ok_doc_in. intros H IF. apply andb_true_iff in H. destruct H as [H W]. split; [|exact W].
  destruct (d_trail d) as [|c tr]; [|exact H]. cbn [app].
  eapply ok_items_follow; [apply IF; reflexivity | exact H].
Qed.

Theorem prefix_closing cx d c g :
  ok_doc cx d = true -> stray_wf c ->
  parse_top (unparse d ++ stray_text c ++ g) true cx (walker_state cx)
  = Ok (ONode (Some (gen_nodelist 0 (fst (tree_of cx (walker_state cx) 0 d)))))
       (length (unparse d) + length (stray_text c)).
Proof.
  intros OKD WF. destruct (ok_doc_follow cx d (stray_text c) OKD (fun _ => stray_inertf c)) as [OKL W].
  unfold unparse. rewrite <- app_assoc.
  rewrite (prefix_closing_items cx (d_items d) (d_trail d) c g OKL W WF). cbn zeta.
  unfold tree_of. cbn [fst]. rewrite absorb_pos. cbn [Nat.add].
  rewrite pre_flush_eos.
  - rewrite app_length. reflexivity.
  - eapply cs_norm_absorb; [exact OKL | exact cs_norm_empty].
Qed.

(** * Anything after the document: the finished nodes are kept *)

(** the nodes of the items of [d] that are finished when its last item has been
    read: everything except a text run still pending at the end *)
Definition settled (cx : context) (l : list item) : list (option node) :=
  cs_acc (fst (absorb cx (walker_state cx) 0 cs_empty l)).

Theorem prefix_any_items cx l fol :
  let ps0 := walker_state cx in
  ok_items cx ps0 l (hd_error fol) = true ->
  exists a b rest p,
    parse_top (unparse_items l ++ fol) true cx ps0 = Ok (ONode (Some (NList a b (settled cx l ++ rest)))) p.
Proof.
  intros ps0 OKL.
  set (s := unparse_items l ++ fol).
  set (A := fst (absorb cx ps0 0 cs_empty l)).
  set (n := length (unparse_items l)).
  assert (LS : length s = n + length fol) by (unfold s, n; apply app_length).
  assert (SK : skipn 0 s = unparse_items l ++ fol) by reflexivity.
  set (k := parse_fuel s cx - 1 - 8 * n).
  set (t := TCollect ps0 top_opts A (0 + n)).
  assert (TOK : task_ok s cx t).
  { split; [cbn [task_pos t]; lia | split; [apply good_walker_state | exact I]]. }
  assert (NR : run s true cx k t <> OutOfFuel).
  { destruct (fuel_unit_ok cx) as [A4 AM].
    apply (run_fuel_enough s true cx (fuel_unit cx)); [exact A4 | exact AM | exact TOK|].
    unfold need, W, cst, k, t. cbn [task_pos]. rewrite parse_fuel_eq, LS. unfold fuel_unit.
    replace (0 + n + length fol - (0 + n)) with (length fol) by lia.
    rewrite !Nat.mul_add_distr_r, !Nat.mul_add_distr_l. lia. }
  pose proof (items_sim_t s cx true l ps0 top_opts cs_empty 0 fol k _ (std_walker cx) (opts_ok_2 _ _ (opts_ok_top ps0)) NR OKL SK
                eq_refl) as H1.
  replace (k + 8 * length (unparse_items l)) with (parse_fuel s cx - 1) in H1
    by (pose proof (parse_fuel_ge s cx); unfold k, n in *; lia).
  pose proof (coll_keeps s cx k ps0 top_opts A (0 + n)) as KA. fold t in KA.
  pose proof (run_shaped s true cx k t TOK) as SH. cbn [kind_of t] in SH.
  unfold parse_top. fold s.
  replace (parse_fuel s cx) with (S (parse_fuel s cx - 1)) by (pose proof (parse_fuel_ge s cx); lia).
  cbn [run]. fold ps0. fold n in H1. fold A in H1. fold t in H1. rewrite H1.
  destruct (run s true cx k t) as [[nd|st' stopped nlmet eos|ar] p|e p|p|kk|]; cbn [shaped keeps_acc] in *;
    try contradiction; try congruence.
  - destruct KA as [m E]. cbn [top_opts g_require g_stop g_nl stop_is_none nlstop_is_none negb g_handle_stop].
    cbn [parse_content]. rewrite E. unfold mk_nodelist.
    eexists. eexists. exists m. eexists. reflexivity.
  - destruct KA as [m E]. rewrite E. cbn [parse_content mkerr pe_at pe_past pe_nodes]. unfold mk_nodelist.
    eexists. eexists. exists m. eexists. reflexivity.
Qed.

Theorem prefix_any cx d g :
  ok_doc cx d = true -> (d_trail d = [] -> inertf (hd_error g)) ->
  exists a b rest p,
    parse_top (unparse d ++ g) true cx (walker_state cx)
    = Ok (ONode (Some (NList a b (settled cx (d_items d) ++ rest)))) p.
Proof.
  intros OKD IF. destruct (ok_doc_follow cx d g OKD IF) as [OKL _].
  unfold unparse. rewrite <- app_assoc. exact (prefix_any_items cx (d_items d) (d_trail d ++ g) OKL).
Qed.

(** the tree of a document is its settled nodes, then at most one character
    node: the pending text run and the trailing whitespace *)
Definition tail_run (cx : context) (d : doc) : list (option node) :=
  let ps0 := walker_state cx in
  let A := absorb cx ps0 0 cs_empty (d_items d) in
  match cs_pend (fst A) ++ d_trail d with
  | [] => []
  | c =>
      let p0 := match cs_ppos (fst A) with Some p => p | None => snd A end in
      [Some (mk_chars ps0 p0 (p0 + length c) c)]
  end.

Lemma tree_settled cx d : ok_doc cx d = true ->
  fst (tree_of cx (walker_state cx) 0 d) = settled cx (d_items d) ++ tail_run cx d.
Proof.
  intros OKD. unfold ok_doc, ok_doc_in in OKD. apply andb_true_iff in OKD. destruct OKD as [OKL _].
  unfold tree_of, settled, tail_run. cbn [fst].
  set (A := absorb cx (walker_state cx) 0 cs_empty (d_items d)).
  pose proof (cs_norm_absorb cx (walker_state cx) (d_items d) 0 cs_empty _ OKL cs_norm_empty) as NM. fold A in NM.
  unfold cs_norm in NM. unfold eos_state, flush, push_pending.
  destruct (d_trail d) as [|c tr].
  - rewrite app_nil_r. destruct (cs_pend (fst A)) as [|c0 r0] eqn:E; [rewrite app_nil_r; reflexivity|].
    destruct (cs_ppos (fst A)); [|congruence]. reflexivity.
  - cbn [cs_pend cs_acc cs_ppos]. destruct (cs_pend (fst A)) as [|c0 r0] eqn:E.
    + rewrite NM. cbn [app]. reflexivity.
    + destruct (cs_ppos (fst A)); [|congruence]. cbn [app]. reflexivity.
Qed.
