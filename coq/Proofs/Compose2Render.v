(** C03 over the extended document grammar, tree level: a recogniser [abstract2]
    that maps MORE nodes into the (unchanged) specification language [Render.core]
    than [Render.abstract] does, and its soundness w.r.t. the (unchanged)
    specification [Render.render]:

    - a macro whose replacement is a %-template ([\frac] = [%s/%s], [\sqrt] =
      [√(%(2)s)], [\footnote] = [[%(2)s]], [\url], [\underline], [\textcolor] ...),
      with whatever arguments were parsed (braced groups, optional [[..]] groups,
      absent optional arguments, single tokens): it is the TRANSPARENT item
      [KTransparent [lit; ...; KTransparent arg_i; ...; lit]] — the template's
      literal characters as [KSpecials] items, each [%s] / [%(i)s] replaced by
      the (transparent) contents of the corresponding argument;
    - [\item[label]] (when [keep_braced_groups] is off): [KTransparent [KSpecials "\n  "; KTransparent label]];
    - everything [abstract] recognises, with these allowed inside bodies.

    So [render] itself IS the specification of the new constructs: "[\frac{a}{b}]
    renders like [a/b]", "[\sqrt[n]{x}] renders like [√(x)]", "[\item[l]] renders
    like [\n  l]". *)
From Coq Require Import NArith ZArith List Bool Arith Lia.
From PLV Require Import Base.PyStr Tok.Tokenizer Parse.Nodes Parse.Parser L2T.L2T L2T.Render.
From PLV Require Import Proofs.FsProofs Proofs.VisitorProofs Proofs.RenderModel Proofs.RenderProofs
                        Proofs.L2TUnfold Proofs.L2TFiltersFmt.
Import ListNotations.

(** * Filling a template with core items *)
Definition is_fpos_item (i : fmtitem) : bool := match i with FPos => true | _ => false end.

(** the argument index a key [%(i+1)s] stands for, among [n] values *)
Definition key_index (k : str) (n : nat) : option nat :=
  find (fun i => str_eqb k (key_of_nat (S i))) (seq 0 n).

Fixpoint fill_pos (items : list fmtitem) (cs : list (list core)) : option (list core) :=
  match items with
  | [] => match cs with [] => Some [] | _ => None end
  | FLit c :: r => option_map (cons (KSpecials [c])) (fill_pos r cs)
  | FPos :: r => match cs with
                 | c :: cs' => option_map (cons (KTransparent c)) (fill_pos r cs')
                 | [] => None end
  | FKey _ :: _ => None
  end.
Fixpoint fill_key (items : list fmtitem) (cs : list (list core)) : option (list core) :=
  match items with
  | [] => Some []
  | FLit c :: r => option_map (cons (KSpecials [c])) (fill_key r cs)
  | FPos :: _ => None
  | FKey k :: r => match key_index k (length cs) with
                   | Some i => option_map (cons (KTransparent (nth i cs []))) (fill_key r cs)
                   | None => None end
  end.
Definition fill (items : list fmtitem) (cs : list (list core)) : option (list core) :=
  if existsb is_fpos_item items then fill_pos items cs else fill_key items cs.

Definition pad_cores (cs : list (list core)) (nslots : nat) : list (list core) :=
  cs ++ repeat [] (nslots - length cs).

Definition item_label_prefix : str := [10; 32; 32]%N.      (* "\n  " *)

Section Abstract2.
  Variable src : str.
  Variable lt : l2tctx.
  Variable cx : context.
  Variable kbg : bool.         (* [keep_braced_groups] *)

  (** the parsed %-template of a macro, if its replacement is one *)
  Definition macro_template (nm : str) : option (list fmtitem) :=
    match assoc (lt_macros lt) nm with
    | Some {| t_repl := RStr tmpl; t_discard := _ |} =>
        if mem_c 37 tmpl && negb (Nat.eqb (length tmpl) 1) then parse_fmt (S (length tmpl)) tmpl else None
    | _ => None
    end.

  Fixpoint abstract2 (n : node) {struct n} : option core :=
    let abs_items := fix ai (l : list (option node)) {struct l} : option (list core) :=
        match l with
        | [] => Some []
        | Some x :: r => match abstract2 x, ai r with
                         | Some k, Some ks => Some (k :: ks)
                         | _, _ => None end
        | None :: _ => None
        end in
    let abs_body := fun (b : option node) =>
        match b with Some (NList _ _ items) => abs_items items | _ => None end in
    (* the text of an argument: the contents of a group / node list, or one token *)
    let abs_args := fix aa (l : list (option node)) {struct l} : option (list (list core)) :=
        match l with
        | [] => Some []
        | a :: r =>
            match (match a with
                   | None => Some []
                   | Some (NList _ _ items) => abs_items items
                   | Some (NGroup _ _ _ _ _ b) => abs_body b
                   | Some x => option_map (fun k => [k]) (abstract2 x)
                   end), aa r with
            | Some c, Some cs => Some (c :: cs)
            | _, _ => None
            end
        end in
    match n with
    | NChars _ _ _ c => Some (KText c)
    | NComment _ _ _ c post => Some (KComment c post)
    | NGroup _ _ _ dl dr b =>
        if str_eqb dl [123%N] && str_eqb dr [125%N] then option_map KGroup (abs_body b) else None
    | NMacro _ _ _ nm post a =>
        match macro_template nm with
        | Some items =>
            (* not a "bare" macro of the neighbour rule (one without argument nodes): its
               post-space would be re-emitted in front of following text *)
            match legacy_view a with
            | (None, []) => None
            | _ =>
                match (match a with Some (_, l) => abs_args l | None => Some [] end) with
                | Some cs => option_map KTransparent (fill items (pad_cores cs (nslots_of (get_macro_spec cx nm))))
                | None => None
                end
            end
        | None =>
            match a with
            | Some (sp, [Some x]) =>
                if list_eqb str_eqb sp [[123%N]] then
                  match accent_macro lt nm with
                  | Some comb => option_map (KAccent comb) (abstract2 x)
                  | None =>
                      match x with
                      | NGroup _ _ _ _ _ b =>
                          if transparent_macro lt nm then option_map KTransparent (abs_body b) else None
                      | _ => None
                      end
                  end
                else if list_eqb str_eqb sp [[91%N]] && item_macro lt nm && negb kbg then
                  match x with
                  | NGroup _ _ _ _ _ b =>
                      option_map (fun l => KTransparent [KSpecials item_label_prefix; KTransparent l]) (abs_body b)
                  | _ => None
                  end
                else None
            | Some (sp, [None]) =>
                if list_eqb str_eqb sp [[91%N]] && item_macro lt nm then Some (KSymbol item_text post) else None
            | _ => if no_arg_nodes a then option_map (fun r => KSymbol r post) (symbol_repl lt nm) else None
            end
        end
    | NEnv _ _ _ nm _ b =>
        if transparent_env lt nm then option_map KEnvBody (abs_body b)
        else match wrap_env lt nm with
             | Some (pre, post) => option_map (KEnvWrap pre post) (abs_body b)
             | None => None
             end
    | NSpecials _ _ _ ch a =>
        match assoc (lt_specials lt) ch with
        | None => Some (if str_eqb ch [10; 10]%N then KPar else KSpecials ch)
        | Some _ => option_map KSpecials (specials_repl lt ch)
        end
    | NMath p e _ d dl dr b => option_map (KMath d dl dr (slice src p e)) (abs_body b)
    | NList _ _ _ => None
    end.

  Fixpoint abstract2_items (l : list (option node)) : option (list core) :=
    match l with
    | [] => Some []
    | Some x :: r => match abstract2 x, abstract2_items r with
                     | Some k, Some ks => Some (k :: ks)
                     | _, _ => None end
    | None :: _ => None
    end.

  Definition abs_body2 (b : option node) : option (list core) :=
    match b with Some (NList _ _ items) => abstract2_items items | _ => None end.
  Definition abs_arg2 (a : option node) : option (list core) :=
    match a with
    | None => Some []
    | Some (NList _ _ items) => abstract2_items items
    | Some (NGroup _ _ _ _ _ b) => abs_body2 b
    | Some x => option_map (fun k => [k]) (abstract2 x)
    end.
  Fixpoint abs_args2 (l : list (option node)) : option (list (list core)) :=
    match l with
    | [] => Some []
    | a :: r => match abs_arg2 a, abs_args2 r with
                | Some c, Some cs => Some (c :: cs)
                | _, _ => None
                end
    end.
End Abstract2.

(** * Rendering of filled templates *)
Section Fill.
  Variable acc : N -> N -> str.
  Variable o : opts.
  Notation rd := (render acc o).
  Notation rd1 := (render1 acc o).

  Definition plain (k : core) : Prop := match k with KSpecials _ | KTransparent _ => True | _ => False end.

  Lemma render_from_plain sl : forall ks pk, Forall plain ks ->
    render_from acc o sl pk ks = flat_map (rd1 sl) ks.
  Proof.
    induction ks as [|k ks IH]; intros pk H; [reflexivity|]. inversion H as [|? ? Hk Hr]; subst.
    cbn [render_from flat_map]. rewrite (IH _ Hr).
    destruct k; try contradiction; destruct pk as [[]|]; reflexivity.
  Qed.

  Lemma fill_pos_plain : forall items cs ks, fill_pos items cs = Some ks -> Forall plain ks.
  Proof.
    induction items as [|[c| |k] r IH]; intros cs ks H; cbn [fill_pos] in H.
    - destruct cs; [injection H as <-; constructor|discriminate].
    - destruct (fill_pos r cs) as [ks'|] eqn:E; [|discriminate]. injection H as <-.
      constructor; [exact I|exact (IH _ _ E)].
    - destruct cs as [|c0 cs']; [discriminate|]. destruct (fill_pos r cs') as [ks'|] eqn:E; [|discriminate].
      injection H as <-. constructor; [exact I|exact (IH _ _ E)].
    - discriminate.
  Qed.
  Lemma fill_key_plain : forall items cs ks, fill_key items cs = Some ks -> Forall plain ks.
  Proof.
    induction items as [|[c| |k] r IH]; intros cs ks H; cbn [fill_key] in H.
    - injection H as <-; constructor.
    - destruct (fill_key r cs) as [ks'|] eqn:E; [|discriminate]. injection H as <-.
      constructor; [exact I|exact (IH _ _ E)].
    - discriminate.
    - destruct (key_index k (length cs)) as [i|]; [|discriminate].
      destruct (fill_key r cs) as [ks'|] eqn:E; [|discriminate]. injection H as <-.
      constructor; [exact I|exact (IH _ _ E)].
  Qed.

  Lemma fill_pos_sound sl : forall items cs ks, fill_pos items cs = Some ks ->
    fmt_tuple items (map (rd sl) cs) = Some (flat_map (rd1 sl) ks).
  Proof.
    induction items as [|[c| |k] r IH]; intros cs ks H; cbn [fill_pos] in H.
    - destruct cs; [injection H as <-; reflexivity|discriminate].
    - destruct (fill_pos r cs) as [ks'|] eqn:E; [|discriminate]. injection H as <-.
      cbn [fmt_tuple flat_map]. rewrite (IH _ _ E). reflexivity.
    - destruct cs as [|c0 cs']; [discriminate|]. destruct (fill_pos r cs') as [ks'|] eqn:E; [|discriminate].
      injection H as <-. cbn [map fmt_tuple flat_map]. rewrite (IH _ _ E). reflexivity.
    - discriminate.
  Qed.

  Lemma key_index_spec k n i : key_index k n = Some i -> i < n /\ k = key_of_nat (S i).
  Proof.
    unfold key_index. intros H. apply find_some in H. destruct H as [Hin Hk].
    apply in_seq in Hin. apply l2t_str_eqb_eq in Hk. split; [lia|exact Hk].
  Qed.

  Lemma fill_key_sound sl : forall items cs ks, fill_key items cs = Some ks ->
    fmt_dict items (combine (fmt_keys 0 (length (map (rd sl) cs))) (map (rd sl) cs))
    = Some (flat_map (rd1 sl) ks).
  Proof.
    induction items as [|[c| |k] r IH]; intros cs ks H; cbn [fill_key] in H.
    - injection H as <-; reflexivity.
    - destruct (fill_key r cs) as [ks'|] eqn:E; [|discriminate]. injection H as <-.
      cbn [fmt_dict flat_map]. rewrite (IH _ _ E). reflexivity.
    - discriminate.
    - destruct (key_index k (length cs)) as [i|] eqn:K; [|discriminate].
      destruct (fill_key r cs) as [ks'|] eqn:E; [|discriminate]. injection H as <-.
      destruct (key_index_spec _ _ _ K) as [Hi ->].
      cbn [fmt_dict flat_map].
      pose proof (assoc_fmt_keys (map (rd sl) cs) 0 i ltac:(rewrite map_length; exact Hi)) as AK.
      cbn [Nat.add] in AK. rewrite AK.
      rewrite (IH _ _ E). cbn [option_map]. f_equal. f_equal.
      change (@nil N) with (rd sl []). rewrite map_nth. reflexivity.
  Qed.

  Lemma fill_sound sl items cs ks : fill items cs = Some ks ->
    rd sl ks = flat_map (rd1 sl) ks
    /\ (if existsb (fun i => match i with FPos => true | _ => false end) items
        then fmt_tuple items (map (rd sl) cs)
        else fmt_dict items (combine (map (fun i => key_of_nat (S i)) (seq 0 (length (map (rd sl) cs)))) (map (rd sl) cs)))
       = Some (flat_map (rd1 sl) ks).
  Proof.
    unfold fill. change (fun i : fmtitem => match i with FPos => true | _ => false end) with is_fpos_item.
    destruct (existsb is_fpos_item items); intros H.
    - split; [apply render_from_plain; exact (fill_pos_plain _ _ _ H) | exact (fill_pos_sound sl _ _ _ H)].
    - split; [apply render_from_plain; exact (fill_key_plain _ _ _ H) | exact (fill_key_sound sl _ _ _ H)].
  Qed.
End Fill.

(** * The model equals the specification on every tree recognised by [abstract2] *)
Section Main2.
  Variable src : str.
  Variable lt : l2tctx.
  Variable cx : context.
  Variable o : opts.
  Notation nt := (node_text src lt cx o).
  Notation abs := (abstract2 src lt cx (o_kbg o)).
  Notation absl := (abstract2_items src lt cx (o_kbg o)).
  Notation absb := (abs_body2 src lt cx (o_kbg o)).
  Notation absa := (abs_arg2 src lt cx (o_kbg o)).
  Notation absas := (abs_args2 src lt cx (o_kbg o)).
  Notation acc := (nfc_accent lt).
  Notation rd := (render acc o).
  Notation rd1 := (render1 acc o).

  (** the two presentations of [nodelist_to_text] *)
  Lemma items_text_g_eq : forall l sl st prev,
    items_text_g nt sl st prev l = RenderModel.items_text src lt cx o sl st prev l.
  Proof.
    induction l as [|x r IH]; intros sl st prev; [reflexivity|].
    rewrite items_text_cons. cbn [RenderModel.items_text]. unfold pre_space.
    destruct x as [nn|]; cbn [single_text_g].
    - destruct (nt sl st nn) as [t1 st1]. rewrite IH. reflexivity.
    - rewrite IH. reflexivity.
  Qed.

  (** one layer of [abstract2] *)
  Lemma abstract2_group p e m dl dr b :
    abs (NGroup p e m dl dr b) =
    if str_eqb dl [123%N] && str_eqb dr [125%N] then option_map KGroup (absb b) else None.
  Proof. reflexivity. Qed.
  Lemma abstract2_env p e m nm a b :
    abs (NEnv p e m nm a b) =
    if transparent_env lt nm then option_map KEnvBody (absb b)
    else match wrap_env lt nm with
         | Some (pre, post) => option_map (KEnvWrap pre post) (absb b)
         | None => None
         end.
  Proof. reflexivity. Qed.
  Lemma abstract2_math p e m d dl dr b :
    abs (NMath p e m d dl dr b) = option_map (KMath d dl dr (slice src p e)) (absb b).
  Proof. reflexivity. Qed.
  Lemma abstract2_macro p e m nm post a :
    abs (NMacro p e m nm post a) =
    match macro_template lt nm with
    | Some items =>
        match legacy_view a with
        | (None, []) => None
        | _ =>
            match absas (argn_of a) with
            | Some cs => option_map KTransparent (fill items (pad_cores cs (nslots_of (get_macro_spec cx nm))))
            | None => None
            end
        end
    | None =>
        match a with
        | Some (sp, [Some x]) =>
            if list_eqb str_eqb sp [[123%N]] then
              match accent_macro lt nm with
              | Some comb => option_map (KAccent comb) (abs x)
              | None =>
                  match x with
                  | NGroup _ _ _ _ _ b => if transparent_macro lt nm then option_map KTransparent (absb b) else None
                  | _ => None
                  end
              end
            else if list_eqb str_eqb sp [[91%N]] && item_macro lt nm && negb (o_kbg o) then
              match x with
              | NGroup _ _ _ _ _ b =>
                  option_map (fun l => KTransparent [KSpecials item_label_prefix; KTransparent l]) (absb b)
              | _ => None
              end
            else None
        | Some (sp, [None]) =>
            if list_eqb str_eqb sp [[91%N]] && item_macro lt nm then Some (KSymbol item_text post) else None
        | _ => if no_arg_nodes a then option_map (fun r => KSymbol r post) (symbol_repl lt nm) else None
        end
    end.
  Proof. destruct a as [[sp l]|]; reflexivity. Qed.

  (** what the neighbour rule sees of a recognised node *)
  Definition shape_ok (n : node) (k : core) : Prop :=
    is_bare_macro (Some n) = bare_post (Some k) /\ is_chars (Some n) = is_text k.

  (** * The model equals the specification *)
  Definition Pn (n : node) : Prop :=
    forall k, abs n = Some k -> (forall sl st, nt sl st n = (rd1 sl k, st)) /\ shape_ok n k.
  Definition Ql (items : list (option node)) : Prop :=
    forall ks, absl items = Some ks -> forall sl st prev pk,
      is_bare_macro prev = bare_post pk ->
      RenderModel.items_text src lt cx o sl st prev items = (render_from acc o sl pk ks, st).
  Definition P2 (n : node) : Prop :=
    Pn n /\ match n with
            | NGroup _ _ _ _ _ (Some (NList _ _ items)) => Ql items
            | NList _ _ items => Ql items
            | _ => True end.

  Lemma Ql_of_Forall items : Forall (Pslot P2) items -> Ql items.
  Proof.
    induction 1 as [|x r Hx Hr IH]; intros ks Hks sl st prev pk Hprev.
    - injection Hks as <-. reflexivity.
    - cbn [abstract2_items] in Hks. destruct x as [n|]; [|discriminate Hks].
      destruct (abs n) as [k|] eqn:Ek; [|discriminate Hks].
      destruct (absl r) as [ks'|] eqn:Er; [|discriminate Hks]. injection Hks as <-.
      cbn [RenderModel.items_text render_from]. cbn [Pslot] in Hx. destruct Hx as [Hn _].
      destruct (Hn k Ek) as [Ht [Hb Hc]].
      rewrite (Ht sl st).
      rewrite (IH ks' Er sl st (Some n) (Some k) Hb).
      rewrite glue_eq, Hprev, Hc. reflexivity.
  Qed.

  Lemma Ql_body b body : Pbody P2 b -> absb b = Some body ->
    exists p e items, b = Some (NList p e items) /\ absl items = Some body /\ Ql items.
  Proof.
    destruct b as [[]|]; cbn [abs_body2]; try discriminate. intros [_ HF] E. cbn [Pitems] in HF.
    repeat eexists; eauto using Ql_of_Forall.
  Qed.

  (** ** arguments *)
  Lemma render_single sl k : rd sl [k] = rd1 sl k.
  Proof. unfold render. cbn [render_from glue]. now rewrite app_nil_r. Qed.

  Lemma arg_text_sound a c : Pslot P2 a -> absa a = Some c ->
    forall sl st, arg_text_g nt sl st a = (rd sl c, st).
  Proof.
    intros Hp Ha sl st. destruct a as [x|]; [|injection Ha as <-; reflexivity].
    cbn [Pslot] in Hp. destruct Hp as [Hn Hq].
    destruct x as [p e m ch|p e m ch ps|p e m dl dr b|p e m nm ps a|p e m nm a b|p e m ch a|p e m d dl dr b|p e l];
      cbn [abs_arg2] in Ha;
      try (destruct (abs _) as [k|] eqn:Ek; [|discriminate Ha]; injection Ha as <-;
           cbn [arg_text_g]; rewrite (proj1 (Hn k Ek) sl st), render_single; reflexivity).
    - (* a group: its contents *)
      destruct b as [[]|]; cbn [abs_body2] in Ha; try discriminate Ha.
      cbn [arg_text_g body_text_g]. rewrite items_text_g_eq. exact (Hq c Ha sl st None None eq_refl).
    - (* a node list *)
      cbn [arg_text_g]. rewrite items_text_g_eq. exact (Hq c Ha sl st None None eq_refl).
  Qed.

  Lemma args_texts_sound : forall l cs, Forall (Pslot P2) l -> absas l = Some cs ->
    forall sl st, args_texts_g nt sl st l = (map (rd sl) cs, st).
  Proof.
    induction l as [|a r IH]; intros cs HF Ha sl st; cbn [abs_args2] in Ha.
    - injection Ha as <-. reflexivity.
    - destruct (absa a) as [c|] eqn:Ea; [|discriminate Ha].
      destruct (absas r) as [cs'|] eqn:Er; [|discriminate Ha]. injection Ha as <-.
      inversion HF as [|? ? H1 H2]; subst.
      rewrite args_texts_cons, (arg_text_sound a c H1 Ea sl st), (IH cs' H2 eq_refl sl st). reflexivity.
  Qed.

  (** ** a macro rendered through its %-template *)
  Lemma macro_template_text nm items : macro_template lt nm = Some items ->
    exists t c0 tl, assoc (lt_macros lt) nm = Some t /\ t_repl t = RStr (c0 :: tl)
      /\ (mem_c 37 (c0 :: tl) && negb (Nat.eqb (length (c0 :: tl)) 1)) = true
      /\ parse_fmt (S (length (c0 :: tl))) (c0 :: tl) = Some items.
  Proof.
    unfold macro_template. destruct (assoc (lt_macros lt) nm) as [[[|tmpl|c] d]|]; try discriminate.
    destruct (mem_c 37 tmpl && negb (Nat.eqb (length tmpl) 1)) eqn:E; [|discriminate].
    destruct tmpl as [|c0 tl]; [discriminate E|]. intros H. repeat eexists; eauto.
  Qed.

  Lemma node_text_macro_template sl st p e m nm post a items cs ks :
    macro_template lt nm = Some items ->
    atexts_g nt sl st a = (map (rd sl) cs, st) ->
    fill items (pad_cores cs (nslots_of (get_macro_spec cx nm))) = Some ks ->
    nt sl st (NMacro p e m nm post a) = (rd sl ks, st).
  Proof.
    intros HT HA HF. destruct (macro_template_text nm items HT) as (t & c0 & tl & E1 & E2 & E3 & E4).
    rewrite node_text_step. cbn [node_step]. rewrite E1. unfold generic_g. rewrite E2.
    unfold str_repl_g. rewrite E3, E4, HA.
    set (k := nslots_of (get_macro_spec cx nm)) in *.
    assert (PD : map (rd sl) cs ++ repeat [] (k - length (map (rd sl) cs)) = map (rd sl) (pad_cores cs k)).
    { unfold pad_cores. rewrite map_app, map_length. f_equal.
      induction (k - length cs) as [|j IHj]; [reflexivity|]. cbn [repeat map]. now rewrite <- IHj. }
    rewrite PD. destruct (fill_sound acc o sl items (pad_cores cs k) ks HF) as [R1 R2]. rewrite R1.
    destruct (existsb (fun i => match i with FPos => true | _ => false end) items); rewrite R2; reflexivity.
  Qed.

  Lemma argn_atexts a sl st : atexts_g nt sl st a = args_texts_g nt sl st (argn_of a).
  Proof. destruct a as [[sp l]|]; reflexivity. Qed.

  Lemma pargs_argn a : Pargs P2 a -> Forall (Pslot P2) (argn_of a).
  Proof. destruct a as [[sp l]|]; cbn; [tauto|constructor]. Qed.

  (** [\item[label]] with [keep_braced_groups] off *)
  Lemma node_text_macro_item_label sl st p e m nm post x :
    item_macro lt nm = true ->
    nt sl st (NMacro p e m nm post (Some ([[91%N]], [Some x]))) =
    let '(t, st1) := nt sl st x in (item_label_prefix ++ t, st1).
  Proof.
    unfold item_macro. intros H. cbn [node_text].
    destruct (assoc (lt_macros lt) nm) as [[[| |[]] d]|]; try discriminate H.
    cbn [t_repl t_discard]. destruct (nt sl st x) as [t st1]. reflexivity.
  Qed.

  (** only a braced-group node is recognised as [KGroup] *)
  Lemma abstract2_kgroup x body : abs x = Some (KGroup body) ->
    match x with NGroup _ _ _ _ _ _ => True | _ => False end.
  Proof.
    destruct x; intros H; try exact I; try discriminate H.
    - rewrite abstract2_macro in H.
      repeat (first [ match type of H with context [match ?X with _ => _ end] => destruct X end
                    | match type of H with option_map _ ?X = _ => destruct X end ];
              cbn [option_map] in H; try discriminate H).
    - rewrite abstract2_env in H.
      repeat (first [ match type of H with context [match ?X with _ => _ end] => destruct X end
                    | match type of H with option_map _ ?X = _ => destruct X end ];
              cbn [option_map] in H; try discriminate H).
    - cbn [abstract2] in H.
      repeat (first [ match type of H with context [match ?X with _ => _ end] => destruct X end
                    | match type of H with option_map _ ?X = _ => destruct X end ];
              cbn [option_map] in H; try discriminate H).
    - rewrite abstract2_math in H. destruct (absb body0); discriminate H.
  Qed.

  (** the argument of an accent macro: [_groupnodecontents_to_text] of a recognised node is what
      the specification puts the accent over *)
  Lemma contents_sound2 x ka : P2 x -> abs x = Some ka ->
    forall sl st, contents_text src lt cx o sl st x = (accent_contents acc o sl ka, st).
  Proof.
    intros [Hn HQ] Hx sl st.
    assert (NG : match x with NGroup _ _ _ _ _ _ => False | _ => True end ->
                 accent_contents acc o sl ka = rd1 sl ka).
    { intros Hx'. destruct ka; try reflexivity. apply abstract2_kgroup in Hx. destruct x; contradiction. }
    assert (Hn' := proj1 (Hn ka Hx) sl st).
    destruct x as [p e m ch|p e m ch ps|p e m dl dr b|p e m nm ps a|p e m nm a b|p e m ch a|p e m d dl dr b|p e l];
      try (cbn [contents_text]; rewrite (NG I); exact Hn').
    - rewrite abstract2_group in Hx. destruct (_ && _); [|discriminate Hx].
      destruct b as [[]|]; cbn [abs_body2 option_map] in Hx; try discriminate Hx.
      destruct (absl items) as [bd|] eqn:Eb; [|discriminate Hx]. injection Hx as <-.
      cbn [contents_text accent_contents]. exact (HQ bd Eb sl st None None eq_refl).
  Qed.

  Theorem abstract2_sound_P2 : forall n, P2 n.
  Proof.
    induction n using node_ind'.
    - split; [|exact I]. intros k Hk. injection Hk as <-. split; [intros; apply node_text_chars|split; reflexivity].
    - split; [|exact I]. intros k Hk. injection Hk as <-. split; [intros; apply node_text_comment|split; reflexivity].
    - split.
      + intros k Hk. rewrite abstract2_group in Hk.
        destruct (str_eqb dl [123%N]) eqn:Edl; [|discriminate Hk].
        destruct (str_eqb dr [125%N]) eqn:Edr; [|discriminate Hk]. cbn [andb] in Hk.
        apply str_eqb_eq in Edl, Edr. subst dl dr.
        destruct (absb b) as [body|] eqn:Eb; [|discriminate Hk]. injection Hk as <-.
        destruct (Ql_body b body H Eb) as (p2 & e2 & items & -> & Ei & HQ).
        split; [|split; reflexivity]. intros sl st.
        rewrite node_text_group, (HQ body Ei sl st None None eq_refl), render1_group. reflexivity.
      + destruct b as [[]|]; try exact I. destruct H as [_ HF]. now apply Ql_of_Forall.
    - (* macro *)
      split; [|exact I]. intros k Hk. rewrite abstract2_macro in Hk.
      destruct (macro_template lt nm) as [items|] eqn:MT.
      + (* %-template *)
        assert (NB : is_bare_macro (Some (NMacro p e m nm ps a)) = None /\
                     match absas (argn_of a) with
                     | Some cs => option_map KTransparent (fill items (pad_cores cs (nslots_of (get_macro_spec cx nm))))
                     | None => None
                     end = Some k).
        { cbn [is_bare_macro]. destruct (legacy_view a) as [[c|] [|y r]]; try discriminate Hk; split; auto. }
        destruct NB as [NB Hk']. clear Hk.
        destruct (absas (argn_of a)) as [cs|] eqn:EA; [|discriminate Hk'].
        destruct (fill items (pad_cores cs (nslots_of (get_macro_spec cx nm)))) as [ks|] eqn:EF; [|discriminate Hk'].
        injection Hk' as <-. split.
        * intros sl st. rewrite render1_transparent.
          apply (node_text_macro_template sl st p e m nm ps a items cs ks MT); [|exact EF].
          rewrite argn_atexts. exact (args_texts_sound _ cs (pargs_argn a H) EA sl st).
        * split; [exact NB|reflexivity].
      + assert (SYM : (if no_arg_nodes a then option_map (fun r => KSymbol r ps) (symbol_repl lt nm) else None)
                      = Some k ->
                      (forall sl st, nt sl st (NMacro p e m nm ps a) = (rd1 sl k, st))
                      /\ shape_ok (NMacro p e m nm ps a) k).
        { destruct (no_arg_nodes a) eqn:Ha; [|discriminate]. destruct (symbol_repl lt nm) as [r|] eqn:Hr; [|discriminate].
          cbn [option_map]. intros E. injection E as <-. split.
          - intros sl st. now apply node_text_macro_symbol.
          - split; [|reflexivity]. cbn [is_bare_macro bare_post]. now rewrite (no_arg_nodes_bare _ Ha). }
        destruct a as [[sp [|[x|] [|y l]]]|]; try (apply SYM; exact Hk).
        * (* one argument node *)
          cbn [Pargs] in H. apply Forall_inv in H. cbn [Pslot] in H. assert (HP2 := H). destruct H as [Hn HQ].
          destruct (list_eqb str_eqb sp [[123%N]]) eqn:Esp.
          -- apply list_eqb_brace in Esp. subst sp.
             destruct (accent_macro lt nm) as [comb|] eqn:Eacc.
             ++ destruct (abs x) as [ka|] eqn:Ex; [|discriminate Hk]. injection Hk as <-.
                split; [|split; reflexivity]. intros sl st.
                etransitivity; [exact (node_text_macro_accent src lt cx o sl st p e m nm ps x comb Eacc)|].
                rewrite (contents_sound2 x ka HP2 Ex sl st), render1_accent. reflexivity.
             ++ destruct x as [| |p1 e1 m1 dl dr b| | | | |]; try discriminate Hk.
                destruct (transparent_macro lt nm) eqn:Etr; [|discriminate Hk].
                destruct b as [[| | | | | | |p2 e2 items]|]; cbn [abs_body2 option_map] in Hk; try discriminate Hk.
                destruct (absl items) as [bd|] eqn:Eb; [|discriminate Hk]. injection Hk as <-.
                split; [|split; reflexivity]. intros sl st.
                etransitivity; [exact (node_text_macro_transparent src lt cx o sl st p e m nm ps _ p1 e1 m1 dl dr p2 e2 items Etr)|].
                rewrite (HQ bd Eb sl st None None eq_refl). reflexivity.
          -- destruct (list_eqb str_eqb sp [[91%N]]) eqn:Esp2; [|discriminate Hk].
             destruct (item_macro lt nm) eqn:Eit; [|discriminate Hk].
             destruct (negb (o_kbg o)) eqn:Ekb; [|discriminate Hk]. cbn [andb] in Hk.
             apply negb_true_iff in Ekb.
             apply list_eqb_bracket in Esp2. subst sp.
             destruct x as [| |p1 e1 m1 dl dr b| | | | |]; try discriminate Hk.
             destruct b as [[| | | | | | |p2 e2 items]|]; cbn [abs_body2 option_map] in Hk; try discriminate Hk.
             destruct (absl items) as [bd|] eqn:Eb; [|discriminate Hk]. injection Hk as <-.
             split; [|split; reflexivity]. intros sl st.
             etransitivity; [exact (node_text_macro_item_label sl st p e m nm ps _ Eit)|].
             rewrite node_text_group, (HQ bd Eb sl st None None eq_refl), Ekb. cbn [andb].
             rewrite render1_transparent. unfold render. cbn [render_from glue render1 app].
             fold (render acc o sl bd). now rewrite app_nil_r.
        * (* \item without its optional argument *)
          destruct (list_eqb str_eqb sp [[91%N]]) eqn:Esp; [|discriminate Hk].
          destruct (item_macro lt nm) eqn:Eit; [|discriminate Hk]. cbn [andb] in Hk.
          apply list_eqb_bracket in Esp. subst sp. injection Hk as <-.
          split; [|split; reflexivity]. intros sl st. exact (node_text_macro_item src lt cx o sl st p e m nm ps Eit).
    - (* environment *)
      split; [|exact I]. intros k Hk. rewrite abstract2_env in Hk.
      destruct (transparent_env lt nm) eqn:Etr.
      + destruct (absb b) as [body|] eqn:Eb; [|discriminate Hk]. injection Hk as <-.
        destruct (Ql_body b body H0 Eb) as (p2 & e2 & items & -> & Ei & HQ).
        split; [|split; reflexivity]. intros sl st.
        rewrite node_text_env_transparent by exact Etr.
        rewrite (HQ body Ei sl st None None eq_refl). reflexivity.
      + destruct (wrap_env lt nm) as [[pre post]|] eqn:Ew; [|discriminate Hk].
        destruct (absb b) as [body|] eqn:Eb; [|discriminate Hk]. injection Hk as <-.
        destruct (Ql_body b body H0 Eb) as (p2 & e2 & items & -> & Ei & HQ).
        split; [|split; reflexivity]. intros sl st.
        rewrite (node_text_env_wrap src lt cx o sl st p e m nm a p2 e2 items pre post Ew).
        rewrite (HQ body Ei sl st None None eq_refl), render1_envwrap. reflexivity.
    - (* specials *)
      split; [|exact I]. intros k Hk. cbn [abstract2] in Hk.
      destruct (assoc (lt_specials lt) c) eqn:Ea.
      + destruct (specials_repl lt c) as [r|] eqn:Er; [|discriminate Hk]. injection Hk as <-.
        split; [|split; reflexivity]. intros sl st. now apply node_text_specials_repl.
      + injection Hk as <-. split.
        * intros sl st. rewrite node_text_specials_absent by exact Ea.
          destruct (str_eqb c [10; 10]%N) eqn:Ec; [|reflexivity].
          apply str_eqb_eq in Ec. now subst c.
        * destruct (str_eqb c [10; 10]%N); split; reflexivity.
    - (* math *)
      split; [|exact I]. intros k Hk. rewrite abstract2_math in Hk.
      destruct (absb b) as [body|] eqn:Eb; [|discriminate Hk]. injection Hk as <-.
      destruct (Ql_body b body H Eb) as (p2 & e2 & items & -> & Ei & HQ).
      split; [|split; reflexivity]. intros sl st.
      rewrite node_text_math, render1_math.
      destruct (o_math o).
      + rewrite (HQ body Ei (push_eq sl) st None None eq_refl). cbv zeta. fold (render acc o (push_eq sl) body).
        now rewrite indented_block_indent4.
      + rewrite (HQ body Ei (push_eq sl) st None None eq_refl). cbv zeta. fold (render acc o (push_eq sl) body).
        rewrite indented_block_nil. destruct d; [|reflexivity]. now rewrite <- !app_assoc.
      + rewrite indented_block_nil. reflexivity.
      + reflexivity.
    - split; [intros k Hk; discriminate Hk|]. now apply Ql_of_Forall.
  Qed.

  (** a node list (a whole document, a body) *)
  Theorem tree_level2 : forall items ks, absl items = Some ks ->
    forall sl st p e, nt sl st (NList p e items) = (rd sl ks, st).
  Proof.
    intros items ks H sl st p e. rewrite node_text_list.
    exact (Ql_of_Forall items (Forall_Pslot_all P2 abstract2_sound_P2 items) ks H sl st None None eq_refl).
  Qed.

  Theorem abstract2_sound : forall n k, abs n = Some k -> forall sl st, nt sl st n = (rd1 sl k, st).
  Proof. intros n k H. exact (proj1 (proj1 (abstract2_sound_P2 n) k H)). Qed.

  Corollary l2t_nodes_core2 : forall items ks p e, absl items = Some ks ->
    l2t_nodes src lt cx o (Some (NList p e items)) = (rd (o_sls o) ks, d0).
  Proof. intros. unfold l2t_nodes. now apply tree_level2. Qed.
End Main2.

(** * End to end over the extended grammar (composition with [RoundTrip2.parse_unparse2]) *)
From PLV Require Import Tok.PState Parse.ParseWire Doc.DocGrammar Doc.DocGrammar2 Proofs.RoundTrip Proofs.RoundTrip2
                        L2T.L2TWire Proofs.RenderDefaults.

(** the core items of the MEANING of an extended document: [tree_of2] (the tree the document
    stands for, computed from the document alone) read by [abstract2] under the default tables *)
Definition doc_tree_cores2 (kbg : bool) (d : doc2) : option (list core) :=
  abstract2_items (unparse2 d) lt0 cx0 kbg (fst (tree_of2 cx0 (walker_state cx0) 0 d)).

Theorem end_to_end2 : forall d o ks,
  ok_doc2 cx0 d = true -> doc_tree_cores2 (o_kbg o) d = Some ks ->
  latex_to_text o (unparse2 d) false = Some (render (nfc_accent lt0) o (o_sls o) ks, d0).
Proof.
  intros d o ks O C. unfold latex_to_text. fold cx0. fold lt0.
  rewrite (parse_unparse2 cx0 d O). unfold doc_result2, gen_nodelist, mk_nodelist. f_equal.
  apply l2t_nodes_core2. exact C.
Qed.
