(** C13: definitions for the sweeps over both regenerated encoder tables
    (what is checked of the strict parse of one protected replacement). *)
From Coq Require Import NArith List Bool Arith.
From PLV Require Import Base.PyStr Enc.Encoder Enc.Builtin Enc.RoundTrip.
From PLV Require Import Proofs.EncBuiltinFacts Proofs.FastProtection Proofs.RoundTripDefs.
From PLV Require Import Gen.GenBaseline.
Import ListNotations.
Local Open Scope N_scope.

(** the five named protection schemes *)
Definition all_prots : list prot := [PNone; PBraces; PBracesAll; PBracesAlmostAll; PBracesAfterMacro].

(** strict parse of the chunk a table entry becomes (evaluated with the
    cheaper, provably equal form of the protection, [Proofs/FastProtection.v]) *)
Definition chunk_parse (p : prot) (r : str) : inertres := parse_encoded (apply_protection_fast p r).

Lemma chunk_parse_eq xml p c r : In (c, r) (table_of xml) ->
  chunk_parse p r = parse_encoded (apply_protection p r).
Proof. intros H. unfold chunk_parse. now rewrite <- (chunk_fast_eq xml p c r H). Qed.

(** keys excluded from the parse sweep: the C13 known findings (unicode-xml only) *)
Definition excluded (xml : bool) : list N := if xml then known_xml_unparseable else [].

(** one entry is fine when it is excluded, or its chunk parses with no
    comment and no environment, and with a math node only if the replacement
    string itself contains a [$] *)
Definition entry_ok (xml : bool) (p : prot) (kv : N * str) : bool :=
  mem_N (fst kv) (excluded xml) ||
  match chunk_parse p (snd kv) with
  | IParsed O O O => true
  | IParsed O O (S _) => mem_N 36 (snd kv)
  | _ => false
  end.

(** keys of the offending entries (the sweeps prove this list empty) *)
Definition bad_entries (xml : bool) (p : prot) : list N :=
  map fst (filter (fun kv => negb (entry_ok xml p kv)) (table_of xml)).

Lemma bad_entries_nil xml p : bad_entries xml p = [] ->
  forall c r, In (c, r) (table_of xml) -> ~ In c (excluded xml) ->
  exists m, parse_encoded (apply_protection p r) = IParsed 0 0 m /\ (m <> O -> In 36 r).
Proof.
  unfold bad_entries. intros H c r Hin Hex. rewrite <- (chunk_parse_eq xml p c r Hin).
  assert (Hf : filter (fun kv => negb (entry_ok xml p kv)) (table_of xml) = [])
    by (destruct (filter _ _); [reflexivity|discriminate]).
  pose proof (filter_negb_nil (entry_ok xml p) (table_of xml) Hf (c, r) Hin) as Hok.
  unfold entry_ok in Hok. cbn [fst snd] in Hok.
  apply orb_true_iff in Hok. destruct Hok as [Hm|Hok]; [apply mem_N_In in Hm; contradiction|].
  destruct (chunk_parse p r) as [[|?] [|?] [|m]| |]; try discriminate.
  - exists O. split; [reflexivity|congruence].
  - exists (S m). split; [reflexivity|]. intros _. now apply mem_N_In.
Qed.

(** entries whose chunk contains a math node (reported in the notes) *)
Definition math_entries (xml : bool) (p : prot) : list N :=
  map fst (filter (fun kv => match chunk_parse p (snd kv) with IParsed _ _ (S _) => true | _ => false end)
                  (table_of xml)).

(** * The ten LaTeX-active ASCII characters: \ { } $ & # ^ _ ~ % *)
Definition active_ascii : list N := [92; 123; 125; 36; 38; 35; 94; 95; 126; 37].

(** the replacement is ONE control sequence, optionally followed by [{}]:
    a control word, or a backslash and one non-letter *)
Definition single_control_sequence (r : str) : bool :=
  match r with
  | 92 :: x :: rest =>
      if is_letter x then forallb is_letter rest
      else str_eqb rest [] || str_eqb rest [123; 125]
  | _ => false
  end.

Definition is_parsed000 (r : inertres) : bool := match r with IParsed O O O => true | _ => false end.

Definition active_ok (xml : bool) (c : N) : bool :=
  match assoc_lookup (table_of xml) c, map_lookup (map_of xml) c with
  | Some r, Some r' =>
      str_eqb r r' && single_control_sequence r && forallb (fun p => is_parsed000 (chunk_parse p r)) all_prots
  | _, _ => false
  end.

(** * Known findings: the chunk fails to parse *)
Definition is_parse_error (r : inertres) : bool := match r with IParseError _ => true | _ => false end.

(** the schemes under which an accent macro without argument stays without one
    (['braces-after-macro'] appends [{}], which the macro takes as its argument) *)
Definition closing_prots : list prot := [PNone; PBraces; PBracesAll; PBracesAlmostAll].

Definition known_fails (c : N) : bool :=
  match assoc_lookup (table_of true) c with
  | Some r => forallb (fun p => is_parse_error (chunk_parse p r)) closing_prots
  | None => false
  end.
