(** C08, unbounded composition — the node an item of the extended grammar
    stands for does not depend on WHERE the item is written, up to the recorded
    positions: [ro (node_of2 cx ps p i) = ro (node_of2 cx ps p' i)] for every
    item of the sub-grammar [subg], where [ro] / [repos]
    ([Proofs/ComposePos.v]) sets every position to 0.  Since [node_text] does
    not read positions nor the source string unless the math mode is
    'verbatim' ([ComposePos.repos_text]), the text latex2text renders for the
    item is the same at every offset of every source ([item_text_anywhere]).
    Induction on item size, collector states related by [PR]. *)
From Coq Require Import NArith List Bool Arith Lia.
From PLV Require Import Base.PyStr Tok.PState Tok.Tokenizer Parse.Nodes Parse.Parser Parse.ParseWire
                        Doc.DocGrammar Doc.DocGrammar2 L2T.L2T
                        Proofs.RoundTrip2 Proofs.ComposePos Proofs.UnboundedDefs.
Import ListNotations.

(** collector states that agree up to positions *)
Definition PR (st st' : collstate) : Prop :=
  map ro (cs_acc st) = map ro (cs_acc st') /\ cs_pend st = cs_pend st'.

Lemma pr_empty : PR cs_empty cs_empty. Proof. split; reflexivity. Qed.

Lemma pr_push_pending st st' c p p' : PR st st' -> PR (push_pending st c p) (push_pending st' c p').
Proof. intros [A B]. split; cbn [push_pending cs_acc cs_pend]; [exact A|now rewrite B]. Qed.

Lemma pr_push_node st st' n n' : PR st st' -> ro n = ro n' -> PR (push_node st n) (push_node st' n').
Proof.
  intros [A B] H. split; cbn [push_node cs_acc cs_pend]; [|exact B].
  rewrite !map_app, A. cbn [map]. rewrite H. reflexivity.
Qed.

Lemma pr_flush ps st st' : PR st st' -> PR (flush ps st) (flush ps st').
Proof.
  intros [A B]. unfold flush. rewrite <- B. destruct (cs_pend st) as [|c pd] eqn:E.
  - split; [exact A|]. rewrite E. exact B.
  - split; cbn [cs_acc cs_pend]; [|reflexivity]. rewrite !map_app, A. reflexivity.
Qed.

Lemma pr_pre_flush ps st st' ws p p' : PR st st' -> PR (pre_flush ps st ws p) (pre_flush ps st' ws p').
Proof.
  intros [A B]. unfold pre_flush. rewrite <- B. destruct (cs_pend st) as [|c pd] eqn:E.
  - destruct ws as [|w ws]; [split; [exact A|rewrite E; exact B]|].
    apply pr_push_node; [split; [exact A|rewrite E; exact B]|reflexivity].
  - apply pr_flush. split; [exact A|reflexivity].
Qed.

Lemma pr_close ps st st' tr q q' : PR st st' ->
  map ro (cs_acc (close_state ps st tr q)) = map ro (cs_acc (close_state ps st' tr q')).
Proof. intros H. unfold close_state. exact (proj1 (pr_flush ps _ _ (pr_push_pending st st' tr q q' H))). Qed.

Lemma ro_gen_nodelist pos acc : repos (gen_nodelist pos acc) = NList None None (map ro acc).
Proof. reflexivity. Qed.

Section Pos.
  Variable cx : context.

  Definition NodeP (n : nat) : Prop :=
    forall i, isize2 i <= n -> subg i = true -> forall ps p p', ro (node_of2 cx ps p i) = ro (node_of2 cx ps p' i).
  Definition ListP (n : nat) : Prop :=
    forall l, lsize2 l <= n -> forallb subg l = true -> forall ps p p' st st',
    PR st st' -> PR (fst (absorb2 cx ps p st l)) (fst (absorb2 cx ps p' st' l)).

  Lemma body_pos n : ListP n -> forall b tr ps p p' q q', lsize2 b <= n -> forallb subg b = true ->
    map ro (cs_acc (close_state ps (fst (absorb2 cx ps p cs_empty b)) tr q))
    = map ro (cs_acc (close_state ps (fst (absorb2 cx ps p' cs_empty b)) tr q')).
  Proof. intros LP b tr ps p p' q q' SZ SG. apply pr_close. apply LP; [exact SZ|exact SG|apply pr_empty]. Qed.

  Lemma expr_pos n : NodeP n -> forall a, isize2 a <= n -> subg a = true -> forall aps p p',
    ro (expr_node2 cx aps p a) = ro (expr_node2 cx aps p' a).
  Proof.
    intros NP a SZ SG aps p p'.
    destruct a; try discriminate SG; cbn [expr_node2]; try (apply NP; assumption); reflexivity.
  Qed.

  Lemma arg_pos n : NodeP n -> forall a, isize2 a <= n -> subg a = true -> forall ps spc p p',
    ro (arg_node2 cx ps spc p a) = ro (arg_node2 cx ps spc p' a).
  Proof.
    intros NP a SZ SG ps spc p p'. unfold arg_node2.
    destruct (a_kind spc) as [sp|o c optional aps|ch aps full|d].
    - apply (expr_pos n NP); assumption.
    - apply NP; assumption.
    - destruct a; try (apply NP; assumption). destruct full; reflexivity.
    - apply NP; assumption.
  Qed.

  Lemma args_pos n : NodeP n -> forall args, lsize2 args <= n -> forallb subg args = true -> forall ps l p p',
    map ro (fst (arg_nodes2 cx ps p args l)) = map ro (fst (arg_nodes2 cx ps p' args l)).
  Proof.
    intros NP. induction args as [|a args IH]; intros SZ SG ps l p p'; [reflexivity|].
    destruct l as [|spc l]; [reflexivity|]. cbn [arg_nodes2 fst map].
    cbn [forallb] in SG. apply andb_true_iff in SG. destruct SG as [SG1 SG2].
    rewrite lsize_cons2 in SZ. pose proof (isize_pos2 a).
    rewrite (arg_pos n NP a ltac:(lia) SG1 ps spc p p'), (IH ltac:(lia) SG2 ps l _ (p' + ilen2 a)). reflexivity.
  Qed.

  Lemma node_step_p n : NodeP n -> ListP n -> NodeP (S n).
  Proof.
    intros NP LP i SZ SG ps p p'.
    destruct i as [ws cs|ws b tr|ws name post args|ws k b tr|ws text post|ws mid|ws bws name args b tr ews
                  |ws chars args|ws name post dc text|ws bws name oarg text|ws oc cc b tr| |vw od cd vt|pw ptx ppost pa0];
      try discriminate SG; try reflexivity.
    - cbn [subg] in SG. cbn [isize2] in SZ. fold (lsize2 b) in SZ.
      rewrite !node_of_grp2. cbn zeta. cbn [ro]. rewrite !repos_group. cbn [ro]. rewrite !ro_gen_nodelist.
      rewrite (body_pos n LP b tr ps (S p) (S p') _ (snd (absorb2 cx ps (S p') cs_empty b)) ltac:(lia) SG). reflexivity.
    - cbn [subg] in SG. cbn [isize2] in SZ. fold (lsize2 args) in SZ.
      destruct (get_macro_spec cx name) as [sp|] eqn:GS; [|cbn [node_of2]; rewrite GS; reflexivity].
      destruct (sp_args sp) as [l|lk] eqn:SA; [|cbn [node_of2]; rewrite GS, SA; reflexivity].
      rewrite !(node_of_mac2 cx ps _ ws name post args sp l GS SA). cbn zeta. cbn [ro]. rewrite !repos_macro. cbn [ra].
      rewrite (args_pos n NP args ltac:(lia) SG ps l _ (p' + 1 + length name + length post)). reflexivity.
    - cbn [subg] in SG. cbn [isize2] in SZ. fold (lsize2 b) in SZ.
      rewrite !node_of_math2. cbn zeta. cbn [ro]. rewrite !repos_math. cbn [ro]. rewrite !ro_gen_nodelist.
      rewrite (body_pos n LP b tr _ (p + length (m_open k)) (p' + length (m_open k)) _
                 (snd (absorb2 cx (ps_enter_math ps (Some (m_open k))) (p' + length (m_open k)) cs_empty b)) ltac:(lia) SG).
      reflexivity.
    - cbn [node_of2]. destruct (par_spec_ok cx); reflexivity.
    - cbn [subg] in SG. cbn [isize2] in SZ. fold (lsize2 args) in SZ.
      destruct (get_specials_spec cx chars) as [sp|] eqn:GS; [|cbn [node_of2]; rewrite GS; reflexivity].
      destruct (sp_args sp) as [l|lk] eqn:SA; [|cbn [node_of2]; rewrite GS, SA; reflexivity].
      rewrite !(node_of_spc2 cx ps _ ws chars args sp l GS SA). cbn zeta. cbn [ro]. rewrite !repos_specials. cbn [ra].
      rewrite (args_pos n NP args ltac:(lia) SG ps l _ (p' + length chars)). reflexivity.
    - cbn [subg] in SG. cbn [isize2] in SZ. fold (lsize2 b) in SZ.
      rewrite !node_of_brk2. cbn zeta. cbn [ro]. rewrite !repos_group. cbn [ro]. rewrite !ro_gen_nodelist.
      rewrite (body_pos n LP b tr ps (S p) (S p') _ (snd (absorb2 cx ps (S p') cs_empty b)) ltac:(lia) SG). reflexivity.
  Qed.

  Lemma list_step_p n : NodeP (S n) -> ListP n -> ListP (S n).
  Proof.
    intros NP LP l SZ SG ps p p' st st' R.
    destruct l as [|i l]; [exact R|].
    cbn [forallb] in SG. apply andb_true_iff in SG. destruct SG as [SG1 SG2].
    rewrite lsize_cons2 in SZ. pose proof (isize_pos2 i). rewrite !absorb_cons2.
    apply LP; [lia|exact SG2|].
    pose proof (NP i ltac:(lia) SG1 ps (p + length (item_ws2 i)) (p' + length (item_ws2 i))) as N1.
    destruct i; try discriminate SG1; cbn [absorb_item2];
      try (apply pr_push_node; [apply pr_pre_flush; exact R|exact N1]).
    apply pr_push_pending. exact R.
  Qed.

  Lemma pos_all n : NodeP n /\ ListP n.
  Proof.
    induction n as [|n [NP LP]].
    - split.
      + intros i SZ. pose proof (isize_pos2 i). lia.
      + intros l SZ SG ps p p' st st' R. destruct l as [|i l]; [exact R|].
        rewrite lsize_cons2 in SZ. pose proof (isize_pos2 i). lia.
    - pose proof (node_step_p n NP LP) as NP'. split; [exact NP'|apply list_step_p; assumption].
  Qed.

  Theorem node_of2_pos i ps p p' : subg i = true -> ro (node_of2 cx ps p i) = ro (node_of2 cx ps p' i).
  Proof. intros SG. exact (proj1 (pos_all (isize2 i)) i (le_n _) SG ps p p'). Qed.

  (** what latex2text renders for an item is the same at every offset of every source *)
  Theorem item_text_anywhere lt o i ps : o_math o <> MMVerbatim -> subg i = true ->
    forall nd0, node_of2 cx ps 0 i = Some nd0 -> forall p src src' sl st,
    exists nd, node_of2 cx ps p i = Some nd /\
               node_text src lt cx o sl st nd = node_text src' lt cx o sl st nd0.
  Proof.
    intros Hm SG nd0 N0 p src src' sl st.
    pose proof (node_of2_pos i ps p 0 SG) as E. rewrite N0 in E.
    destruct (node_of2 cx ps p i) as [nd|]; [|discriminate E]. exists nd. split; [reflexivity|].
    cbn [ro] in E. injection E as E.
    rewrite <- (repos_text src [] lt cx o Hm nd sl st), <- (repos_text src' [] lt cx o Hm nd0 sl st), E. reflexivity.
  Qed.
End Pos.
