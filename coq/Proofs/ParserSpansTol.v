(** C01 — tolerant mode.  The clause "children lie inside the parent's span",
    as the property states it ([in_range_nested]), for whatever tolerant mode
    returns: it follows from [ParserSpansTolerant.tol_node] (which is stronger:
    the children are moreover in document order and pairwise non-overlapping).
    It used to be false: the recovery of a missing required delimited argument
    recorded an empty node list AFTER the whitespace in front of the offending
    token while the reader is moved back BEFORE it; since repo fix d89cd3a the
    placeholder sits where the reader is rewound to.  The former witness is
    kept below as an example. *)
From Coq Require Import NArith List Bool Arith Lia.
From PLV Require Import Base.PyStr Tok.PState Tok.Tokenizer Parse.Nodes Parse.Parser Parse.ParseWire
  Proofs.ParserSpansDefs Proofs.ParserSpansTolerant.
Import ListNotations.

(** the tolerant clause of the property: in range, children inside the parent *)
Fixpoint all_inside (p e : nat) (l : list (option node)) : Prop :=
  match l with
  | [] => True
  | None :: r => all_inside p e r
  | Some k :: r => match nspan k with Some (a, b) => p <= a /\ b <= e | None => True end /\ all_inside p e r
  end.

Section NR.
  Variable s : str.
  Fixpoint in_range_nested (n : node) {struct n} : Prop :=
    let items_ok := fix io (l : list (option node)) : Prop :=
        match l with
        | [] => True
        | None :: r => io r
        | Some x :: r => in_range_nested x /\ io r
        end in
    match n with
    | NChars p e _ _ | NComment p e _ _ _ => p <= e /\ e <= length s
    | NGroup p e _ _ _ b | NMath p e _ _ _ _ b =>
        p <= e /\ e <= length s /\ all_inside p e (body_items b) /\
        match b with Some x => in_range_nested x | None => True end
    | NMacro p e _ _ _ a | NSpecials p e _ _ a =>
        p <= e /\ e <= length s /\
        match a with None => True | Some (_, l) => all_inside p e l /\ items_ok l end
    | NEnv p e _ _ a b =>
        p <= e /\ e <= length s /\ all_inside p e (arg_items a ++ body_items b) /\
        match a with None => True | Some (_, l) => items_ok l end /\
        match b with Some x => in_range_nested x | None => True end
    | NList a b items =>
        match a, b with
        | Some x, Some y => x <= y /\ y <= length s /\ all_inside x y items
        | _, _ => True
        end /\ items_ok items
    end.
End NR.

(** [\,] takes one required argument delimited by parentheses (argument
    specification [r()]), whitespace allowed in front of it *)
Definition cx_required : context :=
  {| cx_macros := [([44%N], {| sp_args := APStd [{| a_spec := [114; 40; 41]%N;
                                                     a_kind := AKGroup [40%N] [41%N] false true;
                                                     a_delta := ADNone |}];
                               sp_body_math := false |})];
     cx_envs := []; cx_specials := []; cx_unk_macro := None; cx_unk_env := None |}.

(** the input [\, x] *)
Definition s_required : str := [92; 44; 32; 120]%N.

(** * [tol_node] implies the clause *)
Definition nested_items (s : str) : list (option node) -> Prop :=
  fix ni (l : list (option node)) : Prop :=
    match l with
    | [] => True
    | None :: r => ni r
    | Some x :: r => in_range_nested s x /\ ni r
    end.

Lemma irn_group s p e m dl dr b :
  in_range_nested s (NGroup p e m dl dr b) =
  (p <= e /\ e <= length s /\ all_inside p e (body_items b) /\
   match b with Some x => in_range_nested s x | None => True end).
Proof. reflexivity. Qed.
Lemma irn_math s p e m d dl dr b :
  in_range_nested s (NMath p e m d dl dr b) =
  (p <= e /\ e <= length s /\ all_inside p e (body_items b) /\
   match b with Some x => in_range_nested s x | None => True end).
Proof. reflexivity. Qed.
Lemma irn_macro s p e m nm po a :
  in_range_nested s (NMacro p e m nm po a) =
  (p <= e /\ e <= length s /\
   match a with None => True | Some (_, l) => all_inside p e l /\ nested_items s l end).
Proof. reflexivity. Qed.
Lemma irn_specials s p e m c a :
  in_range_nested s (NSpecials p e m c a) =
  (p <= e /\ e <= length s /\
   match a with None => True | Some (_, l) => all_inside p e l /\ nested_items s l end).
Proof. reflexivity. Qed.
Lemma irn_env s p e m nm a b :
  in_range_nested s (NEnv p e m nm a b) =
  (p <= e /\ e <= length s /\ all_inside p e (arg_items a ++ body_items b) /\
   match a with None => True | Some (_, l) => nested_items s l end /\
   match b with Some x => in_range_nested s x | None => True end).
Proof. reflexivity. Qed.
Lemma irn_list s a b items :
  in_range_nested s (NList a b items) =
  (match a, b with
   | Some x, Some y => x <= y /\ y <= length s /\ all_inside x y items
   | _, _ => True
   end /\ nested_items s items).
Proof. reflexivity. Qed.

Lemma chain_all_inside lo' lo hi l : lo' <= lo -> chain lo hi l -> all_inside lo' hi l.
Proof.
  revert lo. induction l as [|[n|] l IH]; intros lo LE; cbn [chain all_inside]; auto.
  - destruct (nspan n) as [[a b]|]; [|tauto]. intros (A & B & C).
    pose proof (chain_le _ _ _ C). split; [lia|]. apply (IH b); [lia|exact C].
  - apply IH. exact LE.
Qed.

Lemma all_inside_app p e l1 l2 : all_inside p e l1 -> all_inside p e l2 -> all_inside p e (l1 ++ l2).
Proof. induction l1 as [|[n|] l1 IH]; cbn [app all_inside]; tauto. Qed.

Lemma nested_items_of s l : (forall k, In (Some k) l -> in_range_nested s k) -> nested_items s l.
Proof.
  induction l as [|[x|] l IH]; cbn [nested_items]; intros H; auto.
  - split; [apply H; left; reflexivity | apply IH; intros k I; apply H; right; exact I].
  - apply IH. intros k I. apply H. right. exact I.
Qed.

Lemma tol_items_nested s l :
  (forall k, In (Some k) l -> tol_node s k -> in_range_nested s k) -> tol_items s l -> nested_items s l.
Proof.
  intros IH T. apply nested_items_of. intros k I. apply IH; [exact I|].
  apply (tol_items_in s l (Some k) T I).
Qed.

Theorem tol_nested s n : tol_node s n -> in_range_nested s n.
Proof.
  induction n using node_ind'.
  - cbn. auto.
  - cbn. auto.
  - rewrite tn_group, irn_group. intros (A & B & C & D & E).
    split; [exact A|]. split; [exact B|]. split; [eapply chain_all_inside; [|exact C]; lia|].
    destruct b as [x|]; [|exact I]. apply H. exact E.
  - rewrite tn_macro, irn_macro. intros (A & B & C). split; [exact A|]. split; [exact B|].
    destruct a as [[sp l]|]; [|exact I]. destruct C as [C T]. cbn [arg_items] in H.
    split; [eapply chain_all_inside; [|exact C]; lia | apply tol_items_nested; assumption].
  - rewrite tn_env, irn_env. intros (A & B & C & D & E & F).
    split; [exact A|]. split; [exact B|]. split; [|split].
    + apply all_inside_app; [|eapply chain_all_inside; [|exact C]; lia].
      destruct a as [[sp l]|]; cbn [arg_items]; [|exact I]. eapply chain_all_inside; [|apply E]; lia.
    + destruct a as [[sp l]|]; [|exact I]. cbn [arg_items] in H. apply tol_items_nested; [assumption|apply E].
    + destruct b as [x|]; [|exact I]. apply H0. exact F.
  - rewrite tn_specials, irn_specials. intros (A & B & C). split; [exact A|]. split; [exact B|].
    destruct a as [[sp l]|]; [|exact I]. destruct C as [C T]. cbn [arg_items] in H.
    split; [eapply chain_all_inside; [|exact C]; lia | apply tol_items_nested; assumption].
  - rewrite tn_math, irn_math. intros (A & B & C & D & E).
    split; [exact A|]. split; [exact B|]. split; [eapply chain_all_inside; [|exact C]; lia|].
    destruct b as [x|]; [|exact I]. apply H. exact E.
  - rewrite tn_list, irn_list. intros [A T]. split; [|apply tol_items_nested; assumption].
    destruct a as [x|], b as [y|]; auto. destruct A as (A & B & C).
    split; [exact A|]. split; [exact B|]. eapply chain_all_inside; [|exact C]; lia.
Qed.

(** the tolerant clause of C01, for every string and every context *)
Theorem parse_top_tolerant_nested s cx n p :
  parse_top s true cx (walker_state cx) = Ok (ONode (Some n)) p -> in_range_nested s n.
Proof.
  intros H. apply parse_top_tolerant in H. destruct H as (_ & n' & E & T).
  injection E as <-. apply tol_nested. exact T.
Qed.

(** the former counterexample: the placeholder of the missing [r()] argument of
    [\,] now sits at 2, inside the macro's span (0,2) *)
Example tolerant_nested_former_witness :
  exists items p,
    parse_top s_required true cx_required (walker_state cx_required)
      = Ok (ONode (Some (NList (Some 0) (Some 4) items))) p /\
    exists m po, nth_error items 0 = Some (Some (NMacro 0 2 m [44%N] po
                                     (Some ([[114; 40; 41]%N], [Some (NList (Some 2) (Some 2) [])])))).
Proof. vm_compute. eexists _, _. split; [reflexivity|]. eexists _, _. reflexivity. Qed.
