(** C01 — tolerant mode.  The clause "children lie inside the parent's span" is
    FALSE of the model (and of the code) for whatever tolerant mode returns: the
    recovery of a missing required delimited argument records an empty node list
    positioned AFTER the whitespace in front of the offending token, but moves
    the reader back BEFORE that whitespace, so the macro node ends before its
    argument starts.  Witness below. *)
From Coq Require Import NArith List Bool Arith Lia.
From PLV Require Import Base.PyStr Tok.PState Tok.Tokenizer Parse.Nodes Parse.Parser Parse.ParseWire
  Proofs.ParserSpansDefs.
Import ListNotations.

(** the tolerant clause of the property: in range, children inside the parent *)
Fixpoint all_inside (p e : nat) (l : list (option node)) : Prop :=
  match l with
  | [] => True
  | None :: r => all_inside p e r
  | Some k :: r => match nspan k with Some (a, b) => p <= a /\ b <= e | None => True end /\ all_inside p e r
  end.

Section NR.
  Variable s : str.
  Fixpoint in_range_nested (n : node) {struct n} : Prop :=
    let items_ok := fix io (l : list (option node)) : Prop :=
        match l with
        | [] => True
        | None :: r => io r
        | Some x :: r => in_range_nested x /\ io r
        end in
    match n with
    | NChars p e _ _ | NComment p e _ _ _ => p <= e /\ e <= length s
    | NGroup p e _ _ _ b | NMath p e _ _ _ _ b =>
        p <= e /\ e <= length s /\ all_inside p e (body_items b) /\
        match b with Some x => in_range_nested x | None => True end
    | NMacro p e _ _ _ a | NSpecials p e _ _ a =>
        p <= e /\ e <= length s /\
        match a with None => True | Some (_, l) => all_inside p e l /\ items_ok l end
    | NEnv p e _ _ a b =>
        p <= e /\ e <= length s /\ all_inside p e (arg_items a ++ body_items b) /\
        match a with None => True | Some (_, l) => items_ok l end /\
        match b with Some x => in_range_nested x | None => True end
    | NList a b items =>
        match a, b with
        | Some x, Some y => x <= y /\ y <= length s /\ all_inside x y items
        | _, _ => True
        end /\ items_ok items
    end.
End NR.

(** [\,] takes one required argument delimited by parentheses (argument
    specification [r()]), whitespace allowed in front of it *)
Definition cx_required : context :=
  {| cx_macros := [([44%N], {| sp_args := APStd [{| a_spec := [114; 40; 41]%N;
                                                     a_kind := AKGroup [40%N] [41%N] false true;
                                                     a_delta := ADNone |}];
                               sp_body_math := false |})];
     cx_envs := []; cx_specials := []; cx_unk_macro := None; cx_unk_env := None |}.

(** the input [\, x] *)
Definition s_required : str := [92; 44; 32; 120]%N.

Theorem tolerant_nested_refuted :
  exists cx s n p,
    parse_top s true cx (walker_state cx) = Ok (ONode (Some n)) p /\ ~ in_range_nested s n.
Proof.
  exists cx_required, s_required.
  eexists. eexists. split; [vm_compute; reflexivity|].
  cbn. intros H. decompose [and] H. lia.
Qed.
