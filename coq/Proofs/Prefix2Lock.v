(** C06 (prefix, extended grammar) — two grammar-independent lemmas about the
    frozen parser model, with NO assumption on the string, the context or the
    parsing state:

    - [no_own]: the only parse errors that carry a "recovery past token" are the
      collector's own rejections of a token (raise sites 2 = unexpected closing
      brace, 3 = unexpected [\end], 4 = unexpected math delimiter) and the
      expression parser's error 15; the general-nodes parser drops the token when
      it re-wraps an error.  Hence a strict error with a recovery-past token and
      raise site other than 15 ([own]) that comes out of a collector was raised BY
      that collector, not by a nested call.
    - [lockstep_err]: such an error of the STRICT collector is reproduced verbatim
      by the TOLERANT collector: up to the rejected token the tolerant tokenizer
      returns the strict tokens, the nested calls return the same values
      ([ParserAgree.run_agree]; none of them failed, or the error would not be the
      collector's own), and the collector's own steps do not depend on the mode. *)
From Coq Require Import NArith List Bool Arith Lia.
From PLV Require Import Base.PyStr Tok.PState Tok.Tokenizer Parse.Nodes Parse.Parser Parse.ParseWire
                        Proofs.ParserMono Proofs.ParserSpansStep Proofs.ParserAgree.
Import ListNotations.

(** an error raised by a collector that rejects the token it has just read *)
Definition own (e : perr) : Prop := pe_past e <> None /\ pe_what e <> 15.

Definition noown_task (t : task) (e : perr) : Prop :=
  match t with TCollect _ _ _ _ => True | _ => ~ own e end.

Lemma not_own_mk pos what nd b a : ~ own (mkerr pos what nd b a None).
Proof. intros [A _]. apply A. reflexivity. Qed.
Lemma not_own_15 pos nd b a p : ~ own (mkerr pos 15 nd b a p).
Proof. intros [_ A]. apply A. reflexivity. Qed.

Section NoOwn.
  Variable s : str.
  Variable cx : context.
  Notation R := (run s false cx).

  (** one step of the traversal of [run (S f) t]: destruct the head scrutinee;
      when it is a nested call, remember what the induction hypothesis says of
      its error *)
  Ltac own_step f K :=
    lazymatch goal with
    | |- match ?x0 with _ => _ end = PErr _ _ -> _ =>
        let x := head_scrut x0 in
        lazymatch x with
        | Parser.run ?s0 ?tol0 ?cx0 f ?y =>
            let E := fresh "E" in
            destruct (Parser.run s0 tol0 cx0 f y) eqn:E;
            [ | (let Q := fresh "Q" in pose proof (K y _ _ E) as Q; cbn beta iota delta [noown_task] in Q) | | | ]
        | _ => destruct x
        end
    end.

  Lemma no_own_S f :
    (forall y e p, R f y = PErr e p -> noown_task y e) ->
    forall t e p, R (S f) t = PErr e p -> noown_task t e.
  Proof.
    intros K t e p. destruct t; cbn [Parser.run noown_task]; [intros _; exact I|..];
      unfold parse_content_args, parse_content.
    all: repeat (own_step f K).
    all: try (intros HH; discriminate HH).
    all: try (intros HH; injection HH as <- _; first [assumption | apply not_own_mk | apply not_own_15]).
    all: try (intros HH; exact (K _ _ _ HH)).
  Qed.

  Theorem no_own : forall f t e p, R f t = PErr e p -> noown_task t e.
  Proof.
    induction f as [|f IH]; intros t e p H; [discriminate H|].
    eapply no_own_S; [exact IH | exact H].
  Qed.
End NoOwn.

Section Lock.
  Variable s : str.
  Variable cx : context.
  Notation R := (run s false cx).
  Notation T := (run s true cx).

  Lemma pc_agree f x : keeps (R f x) -> parse_content true (T f x) = parse_content false (R f x).
  Proof.
    intros K. rewrite (run_agree s cx f x K). destruct (R f x); try contradiction; reflexivity.
  Qed.

  Lemma pc_keeps f x o p : parse_content false (R f x) = Ok o p -> keeps (R f x).
  Proof. destruct (R f x); cbn; intros H; try discriminate; exact I. Qed.

  Lemma pc_perr f x e p : parse_content false (R f x) = PErr e p -> R f x = PErr e p.
  Proof. destruct (R f x); cbn; intros H; try discriminate; exact H. Qed.

  Theorem lockstep_err ps o : forall f st pos e p,
    R f (TCollect ps o st pos) = PErr e p -> own e ->
    T f (TCollect ps o st pos) = PErr e p.
  Proof.
    induction f as [|f IH]; intros st pos e p H O; [discriminate H|].
    rewrite run_collect in H |- *. unfold collect_step in H |- *.
    pose proof (next_tok_agree s ps pos) as Q.
    destruct (next_tok s false ps pos) as [t'|fin|err] eqn:ENT.
    3: { (* a token error is not a collector's own error *)
         injection H as <- _. exfalso. exact (not_own_mk _ _ _ _ _ O). }
    - (* a token *)
      rewrite Q.
      destruct (stop_matches (g_stop o) t'); [discriminate H|].
      destruct (tk t') eqn:Etk.
      1: { eapply IH; eassumption. }
      all: destruct (snd (c_pre_result ps o st t')); [discriminate H|].
      all: unfold c_dispatch, c_push_check, c_finish in H |- *; rewrite Etk in H |- *.
      + (* macro *)
        destruct (get_macro_spec cx (targ t')) as [sp|].
        2: { injection H as <- _. exfalso. exact (not_own_mk _ _ _ _ _ O). }
        destruct (parse_content false (R f (TCall (child_state o ps t') (c_tok0 t') sp (tend t')))) as [[[n|]| |] q|e0 q|?|?|] eqn:EC;
          try discriminate H.
        * rewrite (pc_agree f _ (pc_keeps f _ _ _ EC)), EC.
          destruct (nl_stop_met _ _); [discriminate H | eapply IH; eassumption].
        * rewrite (pc_agree f _ (pc_keeps f _ _ _ EC)), EC. eapply IH; eassumption.
        * injection H as <- _. exfalso. exact (no_own s cx f _ _ _ (pc_perr f _ _ _ EC) O).
      + (* begin environment *)
        destruct (get_env_spec cx (targ t')) as [sp|].
        2: { injection H as <- _. exfalso. exact (not_own_mk _ _ _ _ _ O). }
        destruct (parse_content false (R f (TCall (child_state o ps t') (c_tok0 t') sp (tend t')))) as [[[n|]| |] q|e0 q|?|?|] eqn:EC;
          try discriminate H.
        * rewrite (pc_agree f _ (pc_keeps f _ _ _ EC)), EC.
          destruct (nl_stop_met _ _); [discriminate H | eapply IH; eassumption].
        * rewrite (pc_agree f _ (pc_keeps f _ _ _ EC)), EC. eapply IH; eassumption.
        * injection H as <- _. exfalso. exact (no_own s cx f _ _ _ (pc_perr f _ _ _ EC) O).
      + (* end environment: the collector's own error, the same in both modes *) exact H.
      + (* comment *)
        destruct (nl_stop_met _ _); [discriminate H | eapply IH; eassumption].
      + (* opening brace *)
        destruct (parse_content false (R f (TGroup (child_state o ps t') (GDStr (targ t')) false false (tpos t')))) as [[n| |] q|e0 q|?|?|] eqn:EC;
          try discriminate H.
        * rewrite (pc_agree f _ (pc_keeps f _ _ _ EC)), EC.
          destruct (nl_stop_met _ _); [discriminate H | eapply IH; eassumption].
        * injection H as <- _. exfalso. exact (no_own s cx f _ _ _ (pc_perr f _ _ _ EC) O).
      + (* closing brace *) exact H.
      + (* inline math *)
        destruct (negb (by_open_has ps (targ t'))); [exact H|].
        destruct (parse_content false (R f (TMath (child_state o ps t') (targ t') (tpos t')))) as [[[n|]| |] q|e0 q|?|?|] eqn:EC;
          try discriminate H.
        * rewrite (pc_agree f _ (pc_keeps f _ _ _ EC)), EC.
          destruct (nl_stop_met _ _); [discriminate H | eapply IH; eassumption].
        * rewrite (pc_agree f _ (pc_keeps f _ _ _ EC)), EC. eapply IH; eassumption.
        * injection H as <- _. exfalso. exact (no_own s cx f _ _ _ (pc_perr f _ _ _ EC) O).
      + (* display math *)
        destruct (negb (by_open_has ps (targ t'))); [exact H|].
        destruct (parse_content false (R f (TMath (child_state o ps t') (targ t') (tpos t')))) as [[[n|]| |] q|e0 q|?|?|] eqn:EC;
          try discriminate H.
        * rewrite (pc_agree f _ (pc_keeps f _ _ _ EC)), EC.
          destruct (nl_stop_met _ _); [discriminate H | eapply IH; eassumption].
        * rewrite (pc_agree f _ (pc_keeps f _ _ _ EC)), EC. eapply IH; eassumption.
        * injection H as <- _. exfalso. exact (no_own s cx f _ _ _ (pc_perr f _ _ _ EC) O).
      + (* specials *)
        destruct (get_specials_spec cx (targ t')) as [sp|].
        2: { injection H as <- _. exfalso. exact (not_own_mk _ _ _ _ _ O). }
        destruct (parse_content false (R f (TCall (child_state o ps t') (c_tok0 t') sp (tend t')))) as [[[n|]| |] q|e0 q|?|?|] eqn:EC;
          try discriminate H.
        * rewrite (pc_agree f _ (pc_keeps f _ _ _ EC)), EC.
          destruct (nl_stop_met _ _); [discriminate H | eapply IH; eassumption].
        * rewrite (pc_agree f _ (pc_keeps f _ _ _ EC)), EC. eapply IH; eassumption.
        * injection H as <- _. exfalso. exact (no_own s cx f _ _ _ (pc_perr f _ _ _ EC) O).
    - (* end of the input *)
      rewrite Q. destruct fin as [|c0 fin]; [discriminate H|]. eapply IH; eassumption.
  Qed.
End Lock.
