(** C05 over the EXTENDED grammar — faults injected in the body of a BRACED MANDATORY
    ARGUMENT of a macro call ([\textbf{ … }], [\section*[x]{ … }]) that is written in a body
    reached through groups, formulas and environment bodies.  [mac_hole_err]: a parse error
    of the argument's collector propagates to the collector the call stands in (the
    counterpart of [Fault2Path.brk_hole_err] for the [AKExpr] argument kind).  Then:
    - a stray closing token other than [}] in such an argument is rejected where it stands
      ([fault_closing2_marg]);
    - an unmatched opening delimiter other than [{] runs into a closing token that is not
      its own — in a well-formed document the argument's closing brace — and is rejected
      there ([fault_opening2_marg]). *)
From Coq Require Import NArith List Bool Arith Lia.
From PLV Require Import Base.PyStr Tok.PState Tok.Tokenizer Parse.Nodes Parse.Parser Parse.ParseWire
                        Proofs.PyStrFacts Proofs.ParserMono Proofs.ParserSpansStep Proofs.ParserErrorsBase
                        Doc.DocGrammar Proofs.FaultRules Proofs.FaultTok Proofs.FaultDoc Proofs.FaultClose
                        Proofs.FaultOpen
                        Doc.DocGrammar2 Proofs.RoundTripTok Proofs.RoundTripRules Proofs.RoundTrip
                        Proofs.RoundTrip2Tok Proofs.RoundTrip2Rules Proofs.RoundTrip2
                        Proofs.Prefix2Lock Proofs.Prefix2 Proofs.Fault2Path Proofs.Fault2Inject Proofs.Fault2Open.
Import ListNotations.

(** [before ws \name post args1 aws {]: the text is [bh_text before ws name post args1 aws 123] *)
Definition ok_machole (cx : context) (ps : pstate) (before : list item2) (ws name post : str)
           (args1 : list item2) (aws : str) (fol : str) : bool :=
  ok_items2 cx ps [] before (ws ++ 92%N :: name ++ post ++ unparse_items2 args1 ++ aws ++ 123%N :: fol)
  && ws_ok ws && ws_ok post && name_ok name post
  && match mac_hole2 cx name (length args1) with
     | Some (_, l, spc) =>
         ok_args2 cx ps args1 (firstn (length args1) l) (aws ++ 123%N :: fol)
         && match a_kind spc with
            | AKExpr sp => (sp || is_nil aws) && ws_ok aws
            | _ => false
            end
         && mac_follow_ok2 name post (unparse_items2 args1 ++ aws ++ 123%N :: fol)
     | None => false
     end.

Section MArg2.
  Variable s : str.
  Variable cx : context.
  Variable U : nat.
  Hypothesis U8 : 8 <= U.
  Hypothesis UM : max_args cx + 4 <= U.
  Notation R := (run s false cx).
  Ltac ulia := ulia_gen U U8.

  Lemma erule_texprA n ps aps apc sterr acc pos e p :
    impl_peek (sub_context ps [UEnEnvs false]) s pos = TokOk (mk TkBraceOpen [123%N] pos (S pos) [] []) ->
    R n (TGroup ps (GDStr [123%N]) false false pos) = PErr e p ->
    R (S n) (TExpr ps aps apc false sterr acc pos) = PErr e p.
  Proof using Type. clear UM U8 U.
    intros T H. rewrite run_expr. unfold expr_step. rewrite next_tok_strict, T.
    cbn [mk tk targ tpre tpos tend]. rewrite H. reflexivity.
  Qed.

  Lemma mac_hole_err ps o st pos before ws name post args1 aws rest k e p :
    StdE cx ps -> opts_ok ps o ->
    ok_machole cx ps before ws name post args1 aws rest = true ->
    skipn pos s = bh_text before ws name post args1 aws 123%N ++ rest ->
    let aps := bh_state cx ps name (length args1) in
    R k (TCollect aps (grp_opts aps) cs_empty
                  (pos + length (bh_text before ws name post args1 aws 123%N))) = PErr e p ->
    exists e', R (k + U * length (bh_text before ws name post args1 aws 123%N)) (TCollect ps o st pos) = PErr e' p
               /\ pe_pos e' = pe_pos e /\ pe_what e' = pe_what e.
  Proof.
    intros [SD EE] OK OKH SK aps H. pose proof (std_view_of cx ps SD) as V.
    unfold ok_machole in OKH.
    apply andb_true_iff in OKH. destruct OKH as [OKH OKM].
    apply andb_true_iff in OKH. destruct OKH as [OKH NM].
    apply andb_true_iff in OKH. destruct OKH as [OKH Wp].
    apply andb_true_iff in OKH. destruct OKH as [OKB W].
    unfold bh_state in aps. unfold mac_hole2 in *.
    destruct (get_macro_spec cx name) as [sp|] eqn:GS; [|discriminate].
    destruct (sp_args sp) as [l|lk] eqn:SA; [|discriminate].
    destruct (nth_error l (length args1)) as [spc|] eqn:NTH; [|discriminate].
    apply andb_true_iff in OKM. destruct OKM as [OKM FO].
    apply andb_true_iff in OKM. destruct OKM as [OKA KD].
    assert (SL : nabs args1 + 4 <= U * (1 + length name)).
    { pose proof (nabs_le args1) as NL. pose proof (ParserTermDefs.macro_spec_le cx name sp GS) as M.
      unfold nargs in M. rewrite SA in M.
      assert (length args1 < length l) by (apply nth_error_Some; rewrite NTH; discriminate). lia. }
    destruct (a_kind spc) as [asp| | |] eqn:AK; try discriminate.
    apply andb_true_iff in KD. destruct KD as [AP WA].
    assert (SDa : Std cx aps) by (apply std_adelta; exact SD).
    pose proof (std_no_envs cx aps SDa) as SDe.
    set (pb := pos + length (unparse_items2 before)).
    set (p0 := pb + length ws).
    set (pe := p0 + 1 + length name + length post).
    set (ph := pe + length (unparse_items2 args1)).
    set (q0 := ph + length aws).
    assert (LT : length (bh_text before ws name post args1 aws 123%N)
                 = length (unparse_items2 before) + length ws + 1 + length name + length post
                   + length (unparse_items2 args1) + length aws + 1).
    { unfold bh_text. rewrite !app_length. cbn [length]. rewrite !app_length. cbn [length]. ulia. }
    assert (SK0 : skipn pos s = unparse_items2 before
                                ++ (ws ++ 92%N :: name ++ post ++ unparse_items2 args1 ++ aws ++ 123%N :: rest)).
    { rewrite SK. unfold bh_text. repeat (rewrite <- app_assoc; cbn [app]). reflexivity. }
    pose proof (skipn_shift _ _ _ _ SK0) as SKb. fold pb in SKb.
    assert (T : impl_peek ps s pb = TokOk (mk TkMacro name p0 pe ws post)).
    { apply (mac_tok2 s cx ps pb ws name post _ SD W Wp NM FO SKb). }
    pose proof (skipn_shift _ _ _ _ SKb) as SKm. fold p0 in SKm.
    assert (SKa : skipn pe s = unparse_items2 args1 ++ aws ++ 123%N :: rest).
    { change (92%N :: name ++ post ++ unparse_items2 args1 ++ aws ++ 123%N :: rest)
        with ([92%N] ++ name ++ post ++ unparse_items2 args1 ++ aws ++ 123%N :: rest) in SKm.
      apply skipn_shift in SKm. apply skipn_shift in SKm. apply skipn_shift in SKm.
      cbn [length] in SKm. exact SKm. }
    pose proof (skipn_shift _ _ _ _ SKa) as SKh. fold ph in SKh.
    pose proof (skipn_shift _ _ _ _ SKh) as SKq. fold q0 in SKq.
    assert (TP : forall pre pp, ws_ok pre = true -> skipn pp s = pre ++ 123%N :: rest ->
                 impl_peek (sub_context aps [UEnEnvs false]) s pp
                 = TokOk (mk TkBraceOpen [123%N] (pp + length pre) (S (pp + length pre)) pre [])).
    { intros pre pp WP SKp. rewrite (impl_peek_dispatch _ s pp pre 123%N _ WP SKp space_123).
      apply (dispatch_open cx _ (std_view_of cx _ SDe)). }
    assert (T3 : impl_peek aps s q0 = TokOk (mk TkBraceOpen [123%N] q0 (S q0) [] [])).
    { rewrite (impl_peek_dispatch aps s q0 [] 123%N _ eq_refl SKq space_123). cbn [length]. rewrite Nat.add_0_r.
      apply (dispatch_open cx _ (std_view_of cx _ SDa)). }
    pose proof (TP [] q0 eq_refl SKq) as T2. cbn [length] in T2. rewrite Nat.add_0_r in T2.
    assert (NE : forall e0, impl_peek ps s ph <> TokErr e0)
      by (apply (peek_no_err s cx ps ph aws 123%N rest SD WA space_123 eq_refl SKh)).
    replace (pos + length (bh_text before ws name post args1 aws 123%N)) with (S q0) in H
      by (rewrite LT; unfold q0, ph, pe, p0, pb; ulia).
    pose proof (erule_general s cx _ _ _ _ _ _ H) as E1.
    pose proof (erule_tgroup s cx _ aps _ _ _ (sv_gdelims _ _ (std_view_of cx _ SDa)) T3 E1) as E2.
    assert (E3 : R (S (S (S (S k)))) (TExpr aps asp asp false true [] ph) = PErr (rewrap (S q0) e) p).
    { destruct aws as [|w ws'].
      - unfold q0 in *. cbn [length] in *. rewrite Nat.add_0_r in *.
        apply (lift2 s cx (S (S (S k)))); [|discriminate|lia].
        apply (erule_texprA _ aps asp asp true [] ph _ _ T2 E2).
      - cbn [is_nil] in AP. rewrite orb_false_r in AP. subst asp.
        pose proof (TP (w :: ws') ph WA SKh) as T1. fold q0 in T1.
        rewrite (rule_texpr_skipws s cx _ aps true true [] ph TkBraceOpen [123%N] _ w ws' [] (or_introl eq_refl) T1).
        fold q0. apply (erule_texprA _ aps true true true _ q0 _ _ T2 E2). }
    pose proof (erule_tstdarg s cx _ aps asp ph _ _ E3) as E4.
    rewrite <- AK in E4.
    assert (SPL : l = firstn (length args1) l ++ spc :: skipn (S (length args1)) l).
    { clear -NTH. revert l NTH. induction (length args1) as [|n IH]; intros [|x l] NTH; try discriminate.
      - cbn in NTH. injection NTH as ->. reflexivity.
      - cbn [nth_error] in NTH. cbn [firstn skipn app]. f_equal. apply IH. exact NTH. }
    pose proof (erule_targs_cons' s cx _ ps spc (skipn (S (length args1)) l)
                  ([] ++ fst (arg_nodes2 cx ps pe args1 (firstn (length args1) l))) ph _ _ NE E4) as E5.
    pose proof (args_pre2 s cx U U8 UM args1 (firstn (length args1) l) (spc :: skipn (S (length args1)) l) ps [] pe _
                  (S (S (S (S (S (S k)))))) (PErr (rewrap (S q0) e) p) SD OKA ltac:(discriminate) ltac:(ulia) SKa E5) as E6.
    rewrite <- SPL in E6.
    pose proof (erule_tcall s cx _ ps (mk TkMacro name p0 pe [] post) sp l pe _ _ SA E6) as E7.
    pose proof (erule_macro s cx _ ps o (fst (absorb2 cx ps pos st before)) pb ws name pe post sp _ _
                  (opts_ok_2 _ _ OK) GS T E7) as E8.
    pose proof (items_sim2_std s cx U before ps o st pos _ _ (PErr (rewrap (S q0) e) p) U8 UM SD OK ltac:(discriminate) OKB SK0 E8) as S1.
    exists (rewrap (S q0) e). split; [|split; reflexivity].
    apply (lift2 s cx _ _ _ _ S1); [discriminate|]. rewrite LT. ulia.
  Qed.
End MArg2.

Lemma stde_bh_state cx ps name n : StdE cx ps -> StdE cx (bh_state cx ps name n).
Proof.
  intros H. unfold bh_state. destruct (mac_hole2 cx name n) as [[[sp l] spc]|]; [apply stde_adelta|]; exact H.
Qed.

Lemma stray_ok_grp ps c : c <> SBrace -> stray_ok (grp_opts ps) c.
Proof. intros NB. destruct c; [congruence | exact I | exact I]. Qed.

(** * A stray closing token (not [}]) in the body of a braced macro argument *)
Theorem fault_closing2_marg cx path before ws name post args1 aws l1 fws c g :
  let ps0 := walker_state cx in
  let hs := lp_state2 cx ps0 path in
  let bt := bh_text before ws name post args1 aws 123%N in
  let F := unparse_items2 l1 ++ fws ++ stray_text c ++ g in
  ok_lpath2 cx ps0 path (bt ++ F) = true ->
  ok_machole cx hs before ws name post args1 aws F = true ->
  ok_items2 cx (bh_state cx hs name (length args1)) [] l1 (fws ++ stray_text c ++ g) = true ->
  ws_ok fws = true -> stray_wf c -> c <> SBrace ->
  let q := length (lp_text2 path) + length bt + length (unparse_items2 l1) + length fws in
  exists e,
    parse_top (lp_text2 path ++ bt ++ F) false cx ps0
    = PErr e (q + length (stray_text c))
    /\ pe_pos e = Some q /\ pe_what e = stray_what c.
Proof.
  intros ps0 hs bt F OKP OKH OKL W WF NB q.
  set (s := lp_text2 path ++ bt ++ F).
  set (U := fuel_unit cx). pose proof (fuel_unit_ge8 cx) as U8. pose proof (fuel_unit_slots cx) as UM. fold U in U8, UM.
  assert (SE0 : StdE cx ps0) by apply stde_walker.
  pose proof (stde_lp_state2 cx path ps0 SE0) as SEi. fold hs in SEi.
  assert (SK : skipn 0 s = lp_text2 path ++ (bt ++ F)) by reflexivity.
  pose proof (skipn_shift _ _ _ _ SK) as SK1.
  pose proof (skipn_shift _ _ _ _ SK1) as SK2.
  pose proof (opts_ok_lp2 cx path ps0 top_opts _ (opts_ok_top ps0) OKP) as OKi.
  set (aps := bh_state cx hs name (length args1)) in *.
  pose proof (stde_bh_state cx hs name (length args1) SEi) as SEa. fold aps in SEa.
  pose proof (stray_collect2 s cx aps (grp_opts aps) cs_empty (0 + length (lp_text2 path) + length bt) l1 fws c g
                SEa (opts_ok_grp aps) OKL W WF (stray_ok_grp aps c NB) SK2) as H.
  cbn zeta in H. fold U in H.
  destruct (mac_hole_err s cx U U8 UM hs (lp_opts2 cx ps0 top_opts path) (lp_st2 cs_empty path)
              (0 + length (lp_text2 path)) before ws name post args1 aws F _ _ _ SEi OKi OKH SK1 H)
    as (e0 & H0 & P0 & W0).
  destruct (lpath_err2 s cx U U8 UM path ps0 top_opts cs_empty 0 _ _ _ _ SE0 (opts_ok_top ps0) OKP SK H0)
    as (e1 & H1 & P1 & W1).
  pose proof (erule_general s cx _ _ _ _ _ _ H1) as H2.
  assert (LS : length s = length (lp_text2 path) + (length bt + (length (unparse_items2 l1)
                            + (length fws + (length (stray_text c) + length g))))).
  { unfold s, F. rewrite !app_length. reflexivity. }
  exists (rewrap 0 e1). split; [|split].
  - unfold parse_top. fold s.
    rewrite (run_mono s false cx _ (parse_fuel s cx) _ _ H2 ltac:(discriminate))
      by (unfold parse_fuel, fuel_base; fold U; rewrite LS, (Nat.mul_comm _ U); unfold bt in *; lia).
    cbn [parse_content]. f_equal; unfold q, bt; lia.
  - cbn [rewrap mkerr pe_pos]. rewrite P1, P0. cbn [fail_err mkerr pe_pos]. f_equal; unfold q, bt; lia.
  - cbn [rewrap mkerr pe_what]. rewrite W1, W0. reflexivity.
Qed.

(** * A construct [fr] opened in the body of a braced macro argument runs into a closing
    token that is not its own *)
Lemma fault_frame_marg cx path before ws name post args1 aws fr l2 tr c g :
  let ps0 := walker_state cx in
  let hs := lp_state2 cx ps0 path in
  let aps := bh_state cx hs name (length args1) in
  let bt := bh_text before ws name post args1 aws 123%N in
  let F := unparse_items2 l2 ++ tr ++ stray_text c ++ g in
  ok_lpath2 cx ps0 path (bt ++ lf_text2 fr ++ F) = true ->
  ok_machole cx hs before ws name post args1 aws (lf_text2 fr ++ F) = true ->
  ok_lframe2 cx aps fr F = true ->
  ok_items2 cx (lf_state2 cx aps fr) [] l2 (tr ++ stray_text c ++ g) = true -> ws_ok tr = true ->
  stray_wf c -> closes_hole2 [fr] c = false ->
  let q := length (lp_text2 path) + length bt + length (lf_text2 fr) + length (unparse_items2 l2) + length tr in
  exists e,
    parse_top (lp_text2 path ++ bt ++ lf_text2 fr ++ F) false cx ps0
    = PErr e (q + length (stray_text c))
    /\ pe_pos e = Some q /\ pe_what e = stray_what c.
Proof.
  intros ps0 hs aps bt F OKP OKH OKF OK2 Wt WF CH q.
  set (s := lp_text2 path ++ bt ++ lf_text2 fr ++ F).
  set (U := fuel_unit cx). pose proof (fuel_unit_ge8 cx) as U8. pose proof (fuel_unit_slots cx) as UM. fold U in U8, UM.
  assert (SE0 : StdE cx ps0) by apply stde_walker.
  pose proof (stde_lp_state2 cx path ps0 SE0) as SEi. fold hs in SEi.
  pose proof (stde_bh_state cx hs name (length args1) SEi) as SEa. fold aps in SEa.
  pose proof (stde_lf_state2 cx aps fr SEa) as SEo.
  assert (SK : skipn 0 s = lp_text2 path ++ (bt ++ lf_text2 fr ++ F)) by reflexivity.
  pose proof (skipn_shift _ _ _ _ SK) as SK1.
  pose proof (skipn_shift _ _ _ _ SK1) as SK2.
  pose proof (skipn_shift _ _ _ _ SK2) as SK3.
  pose proof (opts_ok_lp2 cx path ps0 top_opts _ (opts_ok_top ps0) OKP) as OKi.
  set (os := lf_state2 cx aps fr) in *.
  assert (SO : stray_ok (lf_opts2 os fr) c) by (exact (stray_ok_path2 cx aps [fr] c CH)).
  pose proof (stray_collect2 s cx os (lf_opts2 os fr) cs_empty (0 + length (lp_text2 path) + length bt + length (lf_text2 fr))
                l2 tr c g SEo (opts_ok_lf2 cx aps fr _ OKF) OK2 Wt WF SO SK3) as H.
  cbn zeta in H. fold U in H.
  destruct (frame_err2 s cx U U8 UM fr aps (grp_opts aps) cs_empty (0 + length (lp_text2 path) + length bt) F _ _ _
              SEa (opts_ok_grp aps) OKF SK2 H) as (ef & Hf & Pf & Wf).
  destruct (mac_hole_err s cx U U8 UM hs (lp_opts2 cx ps0 top_opts path) (lp_st2 cs_empty path)
              (0 + length (lp_text2 path)) before ws name post args1 aws (lf_text2 fr ++ F) _ _ _ SEi OKi OKH SK1 Hf)
    as (e0 & H0 & P0 & W0).
  destruct (lpath_err2 s cx U U8 UM path ps0 top_opts cs_empty 0 _ _ _ _ SE0 (opts_ok_top ps0) OKP SK H0)
    as (e1 & H1 & P1 & W1).
  pose proof (erule_general s cx _ _ _ _ _ _ H1) as H2.
  assert (LS : length s = length (lp_text2 path) + (length bt + (length (lf_text2 fr) + (length (unparse_items2 l2)
                            + (length tr + (length (stray_text c) + length g)))))).
  { unfold s, F. rewrite !app_length. reflexivity. }
  exists (rewrap 0 e1). split; [|split].
  - unfold parse_top. fold s.
    rewrite (run_mono s false cx _ (parse_fuel s cx) _ _ H2 ltac:(discriminate))
      by (unfold parse_fuel, fuel_base; fold U; rewrite LS, (Nat.mul_comm _ U); unfold bt in *; lia).
    cbn [parse_content]. f_equal; unfold q, bt; lia.
  - cbn [rewrap mkerr pe_pos]. rewrite P1, P0, Pf. cbn [fail_err mkerr pe_pos]. f_equal; unfold q, bt; lia.
  - cbn [rewrap mkerr pe_what]. rewrite W1, W0, Wf. reflexivity.
Qed.

(** * An unmatched opening delimiter in the body of a braced macro argument *)
Theorem fault_opening2_marg cx path before ws name post args1 aws l1 fws op l2 tr c g :
  let ps0 := walker_state cx in
  let hs := lp_state2 cx ps0 path in
  let aps := bh_state cx hs name (length args1) in
  let bt := bh_text before ws name post args1 aws 123%N in
  let F := unparse_items2 l2 ++ tr ++ stray_text c ++ g in
  let FF := unparse_items2 l1 ++ fws ++ open_text2 op ++ F in
  ok_lpath2 cx ps0 path (bt ++ FF) = true ->
  ok_machole cx hs before ws name post args1 aws FF = true ->
  open_side2 cx aps l1 fws op F = true ->
  ok_items2 cx (open_state2 cx aps op) [] l2 (tr ++ stray_text c ++ g) = true -> ws_ok tr = true ->
  stray_wf c -> open_closes2 op c = false ->
  let q := length (lp_text2 path) + length bt + length (unparse_items2 l1) + length fws + length (open_text2 op)
           + length (unparse_items2 l2) + length tr in
  exists e,
    parse_top (lp_text2 path ++ bt ++ FF) false cx ps0
    = PErr e (q + length (stray_text c))
    /\ pe_pos e = Some q /\ pe_what e = stray_what c.
Proof.
  intros ps0 hs aps bt F FF OKP OKH OS OK2 Wt WF NC q.
  pose proof (fault_frame_marg cx path before ws name post args1 aws (open_frame2 l1 fws op) l2 tr c g) as H.
  cbn zeta in H. rewrite open_frame_state2, open_frame_closes2, open_frame_text2 in H. rewrite <- !app_assoc in H.
  destruct (H OKP OKH OS OK2 Wt WF NC) as (e & HH & P & W). exists e. split; [|split; [|exact W]].
  - unfold FF, F, bt, ps0. rewrite HH. f_equal. unfold q, bt. rewrite !app_length. lia.
  - rewrite P. f_equal. unfold q, bt. rewrite !app_length. lia.
Qed.
