(** Proofs about [Tree/Split.v] (property C18). *)
From Coq Require Import NArith ZArith List Bool Arith Lia.
From PLV Require Import Base.PyStr Base.Wire Parse.Nodes Tree.Split.
Import ListNotations.

(** * Strings *)

Lemma skipn_skipn {A} (x y : nat) (l : list A) : skipn x (skipn y l) = skipn (x + y) l.
Proof.
  revert l. induction y as [|y IH]; intros l.
  - rewrite Nat.add_0_r. reflexivity.
  - destruct l as [|a l]; [rewrite !skipn_nil; reflexivity|].
    rewrite Nat.add_succ_r. cbn [skipn]. apply IH.
Qed.

Lemma slice_split3 (s : str) (a i j : nat) : a <= i -> i <= j ->
  skipn a s = slice s a i ++ slice s i j ++ skipn j s.
Proof.
  intros Hai Hij. unfold slice.
  replace (skipn j s) with (skipn (j - i) (skipn i s)) by (rewrite skipn_skipn; f_equal; lia).
  rewrite firstn_skipn.
  replace (skipn i s) with (skipn (i - a) (skipn a s)) by (rewrite skipn_skipn; f_equal; lia).
  rewrite firstn_skipn. reflexivity.
Qed.

Lemma slice_to_end (s : str) (a : nat) : slice s a (length s) = skipn a s.
Proof. unfold slice. apply firstn_all2. rewrite skipn_length. lia. Qed.

Lemma slice_length (s : str) (a b : nat) : b <= length s -> length (slice s a b) = b - a.
Proof. intros H. unfold slice. rewrite firstn_length, skipn_length. lia. Qed.

Lemma slice_nonempty_lt (s : str) (a b : nat) : slice s a b <> [] -> a < b /\ a < length s.
Proof.
  unfold slice. intros H. split.
  - destruct (b - a) eqn:E; [cbn in H; congruence | lia].
  - destruct (Nat.lt_ge_cases a (length s)) as [|G]; [assumption|].
    rewrite skipn_all2 in H by lia. rewrite firstn_nil in H. congruence.
Qed.

Lemma slice_slice (s : str) (p e a b : nat) : p + b <= e ->
  slice (slice s p e) a b = slice s (p + a) (p + b).
Proof.
  intros H. unfold slice. rewrite skipn_firstn_comm, skipn_skipn.
  rewrite firstn_firstn. replace (a + p) with (p + a) by lia.
  f_equal. lia.
Qed.

Lemma startswith_firstn (p s : str) : startswith s p = true -> firstn (length p) s = p.
Proof.
  revert s. induction p as [|c p IH]; intros s H; [reflexivity|].
  destruct s as [|d s]; cbn [startswith] in H; [discriminate|].
  apply andb_true_iff in H. destruct H as [H1 H2]. apply N.eqb_eq in H1. subst d.
  cbn [length firstn]. f_equal. apply IH. exact H2.
Qed.

Lemma find_sub_spec (p s : str) (k : nat) : find_sub s p = Some k ->
  startswith (skipn k s) p = true /\ k <= length s.
Proof.
  revert k. induction s as [|d s IH]; intros k H.
  - cbn [find_sub] in H. destruct (startswith [] p) eqn:E; [|discriminate].
    inversion H. subst k. cbn. split; [exact E | lia].
  - cbn [find_sub] in H. destruct (startswith (d :: s) p) eqn:E.
    + inversion H. subst k. cbn [skipn]. split; [exact E | lia].
    + destruct (find_sub s p) as [k'|] eqn:F; [|discriminate]. inversion H. subst k.
      destruct (IH k' eq_refl) as [A B]. cbn [skipn length]. split; [exact A | lia].
Qed.

(** the literal matcher returns an occurrence of the separator at or after [pos] *)
Lemma m_lit_spec (sep s : str) (pos i j : nat) : m_lit sep s pos = Some (i, j) ->
  pos <= i /\ j = i + length sep /\ slice s i j = sep /\ i <= length s.
Proof.
  unfold m_lit, find_from. destruct (Nat.ltb (length s) pos) eqn:L; [discriminate|].
  apply Nat.ltb_ge in L.
  destruct (find_sub (skipn pos s) sep) as [k|] eqn:F; [|discriminate].
  intros H. inversion H. subst i j. clear H.
  destruct (find_sub_spec _ _ _ F) as [A B]. rewrite skipn_skipn in A. rewrite skipn_length in B.
  split; [lia|]. split; [reflexivity|]. split; [|lia].
  unfold slice. replace (pos + k + length sep - (pos + k)) with (length sep) by lia.
  replace (pos + k) with (k + pos) by lia. apply startswith_firstn. exact A.
Qed.

(** * Verbatim text

    [vb] is the (abstract, injected) source text of an opaque node; the text
    of a chars node is its [chars]. *)
Section Verb.
  Variable vb : node -> str.

  Definition verb1 (o : option node) : str :=
    match o with
    | None => []
    | Some (NChars _ _ _ c) => c
    | Some n => vb n
    end.
  Definition verb (l : items) : str := concat (map verb1 l).
  Definition verb_part (n : node) : str := verb (node_items n).

  Lemma verb_app a b : verb (a ++ b) = verb a ++ verb b.
  Proof. unfold verb. rewrite map_app, concat_app. reflexivity. Qed.

  Lemma verb_part_flush nodes pe : verb_part (flush nodes pe) = verb nodes.
  Proof. reflexivity. Qed.

  (** parts interleaved with separators *)
  Fixpoint weave (ps seps : list str) : str :=
    match ps, seps with
    | p :: ps', s :: seps' => p ++ s ++ weave ps' seps'
    | p :: _, [] => p
    | [], _ => []
    end.

  (** every part followed by its separator *)
  Fixpoint wtext (ps : list node) (seps : list str) : str :=
    match ps, seps with
    | p :: ps', s :: seps' => verb_part p ++ s ++ wtext ps' seps'
    | _, _ => []
    end.

  Lemma wtext_app ps1 seps1 ps2 seps2 : length ps1 = length seps1 ->
    wtext (ps1 ++ ps2) (seps1 ++ seps2) = wtext ps1 seps1 ++ wtext ps2 seps2.
  Proof.
    revert seps1. induction ps1 as [|p ps1 IH]; intros [|s seps1] H; cbn in H; try discriminate.
    - reflexivity.
    - cbn [app wtext]. rewrite IH by lia. rewrite !app_assoc. reflexivity.
  Qed.

  Lemma weave_wtext ps seps last : length ps = length seps ->
    weave (map verb_part (ps ++ [last])) seps = wtext ps seps ++ verb_part last.
  Proof.
    revert seps. induction ps as [|p ps IH]; intros [|s seps] H; cbn in H; try discriminate.
    - reflexivity.
    - cbn [app map weave wtext]. rewrite IH by lia. rewrite !app_assoc. reflexivity.
  Qed.

  Lemma weave_join (sep : str) ps seps : length ps = S (length seps) ->
    Forall (eq sep) seps -> weave ps seps = join sep ps.
  Proof.
    revert seps. induction ps as [|p ps IH]; intros seps H F; [discriminate|].
    destruct seps as [|s seps].
    - destruct ps; [reflexivity | discriminate].
    - inversion F; subst. destruct ps as [|q ps]; [discriminate|].
      change (weave (p :: q :: ps) (s :: seps)) with (p ++ s ++ weave (q :: ps) seps).
      rewrite (IH seps); [reflexivity| cbn in *; lia | assumption].
  Qed.
End Verb.

(** * The join law (keep_empty = True), any matcher *)
Section Join.
  Variable vb : node -> str.
  Variable m : matcher.
  Variable ms : option nat.
  Variable skipnone : bool.
  Variable lm : nmode.
  Variable list_end : option nat.

  (** [sep] is the text of a match the matcher reported *)
  Definition is_match (sep : str) : Prop :=
    exists chars pos i j, m chars pos = Some (i, j) /\ sep = slice chars i j.

  Lemma next_split_some n chars prev i j :
    next_split m ms n chars prev = Some (i, j) -> m chars prev = Some (i, j).
  Proof. unfold next_split. destruct (maxed ms n); [discriminate | auto]. Qed.

  Lemma chars_loop_join p e md chars : forall fuel prev parts pend parts' pend',
    chars_loop m ms true lm fuel (NChars p e md chars) p chars prev parts pend = Ok (parts', pend') ->
    (prev = 0 \/ pend = []) ->
    exists np seps, parts' = parts ++ np /\ length np = length seps /\ Forall is_match seps /\
      verb vb pend ++ skipn prev chars = wtext vb np seps ++ verb vb pend'.
  Proof.
    induction fuel as [|f IH]; intros prev parts pend parts' pend' H Hinv; [discriminate|].
    cbn [chars_loop] in H.
    destruct (next_split m ms (length parts) chars prev) as [[i j]|] eqn:NS.
    - apply next_split_some in NS.
      destruct (Nat.leb prev i && Nat.ltb i j) eqn:G; cbn [negb] in H; [|discriminate].
      apply andb_true_iff in G. destruct G as [G1 G2].
      apply Nat.leb_le in G1. apply Nat.ltb_lt in G2.
      assert (SEP : is_match (slice chars i j)) by (exists chars, prev, i, j; auto).
      destruct (Nat.eqb prev 0) eqn:P0.
      + apply Nat.eqb_eq in P0. subst prev. rewrite orb_true_r in H.
        apply IH in H; [|right; reflexivity].
        destruct H as (np & seps & E1 & E2 & E3 & E4).
        eexists (_ :: np), (slice chars i j :: seps). split; [rewrite E1, <- app_assoc; reflexivity|].
        split; [cbn; lia|]. split; [constructor; assumption|].
        cbn [wtext]. rewrite verb_part_flush. cbn [verb concat map app] in E4. rewrite <- !app_assoc, <- E4.
        rewrite (slice_split3 chars 0 i j) by lia.
        destruct (slice chars 0 i) eqn:S0; cbn [nonempty].
        * cbn [app]. reflexivity.
        * rewrite verb_app. unfold mk_piece. cbn [verb map verb1 concat]. rewrite S0, app_nil_r, <- app_assoc.
          reflexivity.
      + apply Nat.eqb_neq in P0. destruct Hinv as [|Hp]; [congruence|]. subst pend.
        rewrite orb_true_r in H.
        apply IH in H; [|right; reflexivity].
        destruct H as (np & seps & E1 & E2 & E3 & E4).
        eexists (_ :: np), (slice chars i j :: seps). split; [rewrite E1, <- app_assoc; reflexivity|].
        split; [cbn; lia|]. split; [constructor; assumption|].
        cbn [wtext]. rewrite verb_part_flush. cbn [verb concat map app] in E4 |- *.
        rewrite <- !app_assoc. cbn [verb concat map app] in E4. rewrite <- E4.
        rewrite (slice_split3 chars prev i j) by lia.
        destruct (slice chars prev i) eqn:S0; cbn [nonempty].
        * reflexivity.
        * unfold mk_piece. cbn [verb map verb1 concat]. rewrite S0, app_nil_r. reflexivity.
    - destruct (Nat.eqb prev 0) eqn:P0.
      + apply Nat.eqb_eq in P0. subst prev. inversion H; subst.
        exists [], []. split; [rewrite app_nil_r; reflexivity|]. split; [reflexivity|]. split; [constructor|].
        cbn [wtext app skipn]. rewrite verb_app. cbn [verb map verb1 concat]. rewrite app_nil_r. reflexivity.
      + inversion H; subst. exists [], [].
        split; [rewrite app_nil_r; reflexivity|]. split; [reflexivity|]. split; [constructor|].
        cbn [wtext app]. rewrite slice_to_end.
        destruct (skipn prev chars) eqn:S0; cbn [nonempty].
        * rewrite app_nil_r. reflexivity.
        * rewrite verb_app. unfold mk_piece. cbn [verb map verb1 concat]. rewrite slice_to_end, S0, app_nil_r.
          reflexivity.
  Qed.

  Lemma split_loop_join : forall l parts pend res,
    split_loop m ms true skipnone lm list_end l parts pend = Ok res ->
    exists np seps last, res = parts ++ np ++ [last] /\ length np = length seps /\ Forall is_match seps /\
      verb vb pend ++ verb vb l = wtext vb np seps ++ verb_part vb last.
  Proof.
    induction l as [|o l IH]; intros parts pend res H.
    - cbn [split_loop] in H. rewrite orb_true_r in H. inversion H; subst.
      exists [], [], (flush pend list_end). split; [reflexivity|]. split; [reflexivity|]. split; [constructor|].
      cbn [wtext app]. rewrite verb_part_flush. cbn [verb map concat]. rewrite app_nil_r. reflexivity.
    - destruct o as [n|].
      + destruct n; cbn [split_loop] in H;
          try (apply IH in H; destruct H as (np & seps & last & E1 & E2 & E3 & E4);
               exists np, seps, last; split; [exact E1|]; split; [exact E2|]; split; [exact E3|];
               rewrite <- E4, verb_app; cbn [verb map verb1 concat]; rewrite app_nil_r, <- app_assoc; reflexivity);
          [|discriminate].
        destruct (chars_loop m ms true lm (S (length chars)) (NChars p e m0 chars) p chars 0 parts pend)
          as [[parts1 pend1]|] eqn:CL; [|discriminate].
        apply chars_loop_join in CL; [|left; reflexivity].
        destruct CL as (np1 & seps1 & F1 & F2 & F3 & F4).
        apply IH in H. destruct H as (np & seps & last & E1 & E2 & E3 & E4).
        exists (np1 ++ np), (seps1 ++ seps), last. subst parts1.
        split; [rewrite E1, <- !app_assoc; reflexivity|]. split; [rewrite !app_length; lia|].
        split; [apply Forall_app; split; assumption|].
        rewrite wtext_app by exact F2. rewrite <- app_assoc, <- E4, app_assoc, <- F4.
        cbn [verb map verb1 concat skipn]. rewrite <- app_assoc. reflexivity.
      + cbn [split_loop] in H. apply IH in H. destruct H as (np & seps & last & E1 & E2 & E3 & E4).
        exists np, seps, last. split; [exact E1|]. split; [exact E2|]. split; [exact E3|].
        rewrite <- E4. cbn [verb map verb1 concat app].
        destruct skipnone; [reflexivity|]. rewrite verb_app. cbn [verb map verb1 concat]. rewrite app_nil_r.
        reflexivity.
  Qed.

  (** C18_matcher: the parts interleaved with the matched separator texts are
      the text of the list. *)
  Theorem split_joins_matcher : forall l parts,
    split_at_chars m ms true skipnone lm list_end l = Ok parts ->
    exists seps, length parts = S (length seps) /\ Forall is_match seps /\
      weave (map (verb_part vb) parts) seps = verb vb l.
  Proof.
    intros l parts H. unfold split_at_chars in H. apply split_loop_join in H.
    destruct H as (np & seps & last & E1 & E2 & E3 & E4). cbn [app verb map concat] in E1, E4.
    exists seps. subst parts. split; [rewrite app_length; cbn; lia|]. split; [exact E3|].
    rewrite weave_wtext by exact E2. symmetry. exact E4.
  Qed.
End Join.

(** C18_split_joins: literal separator *)
Theorem split_joins_literal (vb : node -> str) (sep : str) ms skipnone lm list_end l parts :
  split_at_chars (m_lit sep) ms true skipnone lm list_end l = Ok parts ->
  join sep (map (verb_part vb) parts) = verb vb l.
Proof.
  intros H. destruct (split_joins_matcher vb _ _ _ _ _ _ _ H) as (seps & L & F & W).
  rewrite <- W. symmetry. apply weave_join; [rewrite map_length; exact L|].
  eapply Forall_impl; [|exact F]. intros s (chars & pos & i & j & M & E).
  apply m_lit_spec in M. destruct M as (_ & _ & S & _). congruence.
Qed.

(** an empty literal separator is refused (fix C18-empty-separator), never splits *)
Lemma m_lit_nonempty sep s pos i j : sep <> [] -> m_lit sep s pos = Some (i, j) -> pos <= i /\ i < j /\ j <= length s.
Proof.
  intros NE M. pose proof (m_lit_spec _ _ _ _ _ M) as (A & B & C & D).
  split; [exact A|]. destruct sep; [congruence|]. cbn [length] in B. split; [lia|].
  destruct (Nat.le_gt_cases j (length s)) as [|G]; [assumption|].
  assert (length (slice s i j) = length (n :: sep)) by (rewrite C; reflexivity).
  unfold slice in H. rewrite firstn_length, skipn_length in H. cbn [length] in H. lia.
Qed.

(** * keep_empty only decides whether empty parts are kept (max_split = None) *)
Definition ne_part (n : node) : bool := nonempty (node_items n).

Definition res_map {A B} (f : A -> B) (r : sres A) : sres B :=
  match r with Ok a => Ok (f a) | Exn e => Exn e end.

Section DropEmpty.
  Variable m : matcher.
  Variable skipnone : bool.
  Variable lm : nmode.
  Variable list_end : option nat.

  Lemma filter_snoc_flush pt nodes pe :
    filter ne_part (pt ++ [flush nodes pe]) =
    if nonempty nodes || false then filter ne_part pt ++ [flush nodes pe] else filter ne_part pt.
  Proof.
    rewrite filter_app. cbn [filter]. unfold ne_part at 2. cbn [flush mk_nodelist node_items].
    rewrite orb_false_r. destruct (nonempty nodes); [reflexivity | apply app_nil_r].
  Qed.

  Lemma chars_loop_drop orig p chars : forall fuel prev pt pend,
    chars_loop m None false lm fuel orig p chars prev (filter ne_part pt) pend =
    match chars_loop m None true lm fuel orig p chars prev pt pend with
    | Ok (pt', pend') => Ok (filter ne_part pt', pend')
    | Exn e => Exn e
    end.
  Proof.
    induction fuel as [|f IH]; intros prev pt pend; [reflexivity|].
    cbn [chars_loop]. unfold next_split, maxed.
    destruct (m chars prev) as [[i j]|]; [|destruct (Nat.eqb prev 0); reflexivity].
    destruct (negb (Nat.leb prev i && Nat.ltb i j)); [reflexivity|].
    destruct (Nat.eqb prev 0).
    - rewrite orb_true_r, <- filter_snoc_flush. apply IH.
    - rewrite orb_true_r, <- filter_snoc_flush. apply IH.
  Qed.

  Lemma split_loop_drop : forall l pt pend,
    split_loop m None false skipnone lm list_end l (filter ne_part pt) pend =
    res_map (filter ne_part) (split_loop m None true skipnone lm list_end l pt pend).
  Proof.
    induction l as [|o l IH]; intros pt pend.
    - cbn [split_loop res_map]. rewrite orb_true_r, filter_snoc_flush. reflexivity.
    - destruct o as [n|]; [|cbn [split_loop]; apply IH].
      destruct n; cbn [split_loop]; try apply IH; [|reflexivity].
      rewrite chars_loop_drop.
      destruct (chars_loop m None true lm (S (length chars)) (NChars p e m0 chars) p chars 0 pt pend)
        as [[pt1 pend1]|]; [apply IH | reflexivity].
  Qed.

  Theorem split_drop_empty l :
    split_at_chars m None false skipnone lm list_end l =
    res_map (filter ne_part) (split_at_chars m None true skipnone lm list_end l).
  Proof. unfold split_at_chars. apply (split_loop_drop l [] []). Qed.
End DropEmpty.

(** * max_split *)
Section MaxSplit.
  Variable m : matcher.
  Variable keep skipnone : bool.
  Variable lm : nmode.
  Variable list_end : option nat.
  Variable n : nat.

  (** at most [n] parts are flushed inside the loops, whatever the options *)
  Lemma chars_loop_count orig p chars : forall fuel prev parts pend parts' pend',
    chars_loop m (Some n) keep lm fuel orig p chars prev parts pend = Ok (parts', pend') ->
    length parts <= n -> length parts' <= n.
  Proof.
    induction fuel as [|f IH]; intros prev parts pend parts' pend' H L; [discriminate|].
    cbn [chars_loop] in H. unfold next_split, maxed in H.
    destruct (Nat.leb n (length parts)) eqn:MX.
    - destruct (Nat.eqb prev 0); inversion H; subst; exact L.
    - apply Nat.leb_gt in MX.
      destruct (m chars prev) as [[i j]|]; [|destruct (Nat.eqb prev 0); inversion H; subst; exact L].
      destruct (negb (Nat.leb prev i && Nat.ltb i j)); [discriminate|].
      destruct (Nat.eqb prev 0).
      + apply IH in H; [exact H|]. destruct (_ || keep); [rewrite app_length; cbn; lia | lia].
      + apply IH in H; [exact H|]. destruct (_ || keep); [rewrite app_length; cbn; lia | lia].
  Qed.

  Lemma split_loop_count : forall l parts pend res,
    split_loop m (Some n) keep skipnone lm list_end l parts pend = Ok res ->
    length parts <= n -> length res <= S n.
  Proof.
    induction l as [|o l IH]; intros parts pend res H L.
    - cbn [split_loop] in H. inversion H; subst. destruct (_ || keep); [rewrite app_length; cbn; lia | lia].
    - destruct o as [nd|]; [|cbn [split_loop] in H; eapply IH; eauto].
      destruct nd; cbn [split_loop] in H; try (eapply IH; eauto; fail); [|discriminate].
      destruct (chars_loop m (Some n) keep lm (S (length chars)) (NChars p e m0 chars) p chars 0 parts pend)
        as [[parts1 pend1]|] eqn:CL; [|discriminate].
      apply chars_loop_count in CL; [|exact L]. eapply IH; eauto.
  Qed.

  (** C18_max_split (count): at most [n] splits *)
  Theorem split_max_count l res :
    split_at_chars m (Some n) keep skipnone lm list_end l = Ok res -> length res <= S n.
  Proof. intros H. eapply split_loop_count; [exact H | cbn; lia]. Qed.
End MaxSplit.

(** ** max_split = n against the unlimited split (keep_empty = True) *)
Section MaxSplitPrefix.
  Variable m : matcher.
  Variable skipnone : bool.
  Variable lm : nmode.
  Variable list_end : option nat.
  Variable n : nat.

  (** the loops only ever append to the list of parts *)
  Lemma chars_loop_prefix ms keep orig p chars : forall fuel prev parts pend parts' pend',
    chars_loop m ms keep lm fuel orig p chars prev parts pend = Ok (parts', pend') ->
    exists np, parts' = parts ++ np.
  Proof.
    induction fuel as [|f IH]; intros prev parts pend parts' pend' H; [discriminate|].
    cbn [chars_loop] in H.
    destruct (next_split m ms (length parts) chars prev) as [[i j]|].
    - destruct (negb (Nat.leb prev i && Nat.ltb i j)); [discriminate|].
      destruct (Nat.eqb prev 0); apply IH in H; destruct H as [np E]; subst parts';
        (destruct (_ || keep); [rewrite <- app_assoc; eexists; reflexivity | eexists; reflexivity]).
    - destruct (Nat.eqb prev 0); inversion H; subst; exists []; rewrite app_nil_r; reflexivity.
  Qed.

  (** once [n] parts exist, a chars node produces no further part *)
  Lemma chars_loop_maxed keep orig p chars fuel prev parts pend parts' pend' :
    n <= length parts ->
    chars_loop m (Some n) keep lm fuel orig p chars prev parts pend = Ok (parts', pend') ->
    parts' = parts.
  Proof.
    intros L H. destruct fuel as [|f]; [discriminate|]. cbn [chars_loop] in H.
    unfold next_split, maxed in H. apply Nat.leb_le in L. rewrite L in H.
    destruct (Nat.eqb prev 0); inversion H; reflexivity.
  Qed.

  Definition lock (pn : list node) (qn : items) (pf : list node) (qf : items) : Prop :=
    length pn <= n /\ ((pn = pf /\ qn = qf) \/ (length pn = n /\ exists extra, pf = pn ++ extra)).

  Lemma chars_loop_lock orig p chars : forall fuel prev parts pend pn qn pf qf,
    length parts <= n ->
    chars_loop m (Some n) true lm fuel orig p chars prev parts pend = Ok (pn, qn) ->
    chars_loop m None true lm fuel orig p chars prev parts pend = Ok (pf, qf) ->
    lock pn qn pf qf.
  Proof.
    induction fuel as [|f IH]; intros prev parts pend pn qn pf qf L Hn Hf; [discriminate|].
    destruct (Nat.leb n (length parts)) eqn:MX.
    - apply Nat.leb_le in MX.
      apply chars_loop_maxed in Hn; [|exact MX]. apply chars_loop_prefix in Hf. destruct Hf as [np E].
      subst. split; [exact L|]. right. split; [lia|]. exists np. reflexivity.
    - cbn [chars_loop] in Hn, Hf. unfold next_split, maxed in Hn, Hf. rewrite MX in Hn.
      apply Nat.leb_gt in MX.
      destruct (m chars prev) as [[i j]|].
      + destruct (negb (Nat.leb prev i && Nat.ltb i j)); [discriminate|].
        destruct (Nat.eqb prev 0); rewrite orb_true_r in Hn, Hf;
          (eapply IH; [|exact Hn|exact Hf]; rewrite app_length; cbn; lia).
      + destruct (Nat.eqb prev 0); inversion Hn; inversion Hf; subst;
          (split; [lia|]; left; split; reflexivity).
  Qed.

  Lemma split_loop_lock : forall l pn qn pf qf rn rf,
    lock pn qn pf qf ->
    split_loop m (Some n) true skipnone lm list_end l pn qn = Ok rn ->
    split_loop m None true skipnone lm list_end l pf qf = Ok rf ->
    firstn n rn = firstn n rf /\ length rn = Nat.min (length rf) (S n).
  Proof.
    induction l as [|o l IH]; intros pn qn pf qf rn rf [L R] Hn Hf.
    - cbn [split_loop] in Hn, Hf. rewrite orb_true_r in Hn, Hf. inversion Hn; inversion Hf; subst. clear Hn Hf.
      destruct R as [[E1 E2]|[E1 [extra E2]]]; [subst pf qf | subst pf].
      + split; [reflexivity|]. rewrite app_length. cbn [length]. lia.
      + split.
        * rewrite <- app_assoc. rewrite !firstn_app. rewrite E1, Nat.sub_diag. cbn [firstn].
          rewrite <- E1, firstn_all. reflexivity.
        * rewrite !app_length. cbn [length]. lia.
    - destruct o as [nd|].
      + destruct nd; cbn [split_loop] in Hn, Hf;
          try (eapply IH; [|exact Hn|exact Hf]; split; [exact L|];
               destruct R as [[E1 E2]|R]; [left; subst; split; reflexivity | right; exact R]; fail);
          [|discriminate].
        destruct (chars_loop m (Some n) true lm (S (length chars)) (NChars p e m0 chars) p chars 0 pn qn)
          as [[pn1 qn1]|] eqn:CN; [|discriminate].
        destruct (chars_loop m None true lm (S (length chars)) (NChars p e m0 chars) p chars 0 pf qf)
          as [[pf1 qf1]|] eqn:CF; [|discriminate].
        eapply IH; [|exact Hn|exact Hf].
        destruct R as [[E1 E2]|[E1 [extra E2]]]; [subst pf qf | subst pf].
        * eapply chars_loop_lock; [exact L|exact CN|exact CF].
        * apply chars_loop_maxed in CN; [|lia]. apply chars_loop_prefix in CF. destruct CF as [np E]. subst pn1 pf1.
          split; [exact L|]. right. split; [exact E1|]. exists (extra ++ np). rewrite app_assoc. reflexivity.
      + cbn [split_loop] in Hn, Hf. eapply IH; [|exact Hn|exact Hf]. split; [exact L|].
        destruct R as [[E1 E2]|R]; [left; subst; split; reflexivity | right; exact R].
  Qed.

  (** C18_max_split (prefix): the first [n] parts are those of the unlimited
      split, and there is exactly one more part (the unsplit remainder) when
      the unlimited split has more than [n] parts *)
  Theorem split_max_prefix l rn rf :
    split_at_chars m (Some n) true skipnone lm list_end l = Ok rn ->
    split_at_chars m None true skipnone lm list_end l = Ok rf ->
    firstn n rn = firstn n rf /\ length rn = Nat.min (length rf) (S n).
  Proof.
    intros Hn Hf. eapply split_loop_lock; [|exact Hn|exact Hf].
    split; [cbn; lia|]. left. split; reflexivity.
  Qed.
End MaxSplitPrefix.

(** * Positions: every returned item is an original item or a correctly
    positioned slice of an original chars node *)
Definition matcher_ok (m : matcher) : Prop :=
  forall s pos i j, m s pos = Some (i, j) -> j <= length s.

Section Pieces.
  Variable m : matcher.
  Variable ms : option nat.
  Variable keep skipnone : bool.
  Variable lm : nmode.
  Variable list_end : option nat.
  Variable P : option node -> Prop.
  Hypothesis m_ok : matcher_ok m.

  Definition parts_ok (parts : list node) : Prop :=
    Forall (fun part => Forall P (node_items part)) parts.

  Lemma parts_ok_snoc parts nodes pe : parts_ok parts -> Forall P nodes -> parts_ok (parts ++ [flush nodes pe]).
  Proof. intros A B. apply Forall_app. split; [exact A|]. constructor; [exact B | constructor]. Qed.

  Lemma chars_loop_pieces orig p chars :
    P (Some orig) ->
    (forall a b, a < b -> b <= length chars -> P (mk_piece lm p chars a b)) ->
    forall fuel prev parts pend parts' pend',
    chars_loop m ms keep lm fuel orig p chars prev parts pend = Ok (parts', pend') ->
    parts_ok parts -> Forall P pend -> parts_ok parts' /\ Forall P pend'.
  Proof.
    intros PO PP. induction fuel as [|f IH]; intros prev parts pend parts' pend' H A B; [discriminate|].
    cbn [chars_loop] in H.
    destruct (next_split m ms (length parts) chars prev) as [[i j]|] eqn:NS.
    - apply next_split_some in NS. pose proof (m_ok _ _ _ _ NS) as JL.
      destruct (Nat.leb prev i && Nat.ltb i j) eqn:G; cbn [negb] in H; [|discriminate].
      apply andb_true_iff in G. destruct G as [G1 G2]. apply Nat.leb_le in G1. apply Nat.ltb_lt in G2.
      assert (PC : slice chars prev i <> [] -> P (mk_piece lm p chars prev i)).
      { intros NE. apply slice_nonempty_lt in NE. apply PP; lia. }
      destruct (Nat.eqb prev 0).
      + set (pend1 := if nonempty (slice chars prev i) then pend ++ [mk_piece lm p chars prev i] else pend) in H.
        assert (B1 : Forall P pend1).
        { subst pend1. destruct (slice chars prev i) eqn:S0; cbn [nonempty]; [exact B|].
          apply Forall_app. split; [exact B|]. constructor; [|constructor]. apply PC. congruence. }
        apply IH in H; [exact H | | constructor].
        destruct (_ || keep); [apply parts_ok_snoc; assumption | exact A].
      + set (the := if nonempty (slice chars prev i) then [mk_piece lm p chars prev i] else []) in H.
        assert (B1 : Forall P the).
        { subst the. destruct (slice chars prev i) eqn:S0; cbn [nonempty]; [constructor|].
          constructor; [|constructor]. apply PC. congruence. }
        apply IH in H; [exact H | | exact B].
        destruct (_ || keep); [apply parts_ok_snoc; assumption | exact A].
    - destruct (Nat.eqb prev 0).
      + inversion H; subst. split; [exact A|]. apply Forall_app. split; [exact B|]. constructor; [exact PO|constructor].
      + inversion H; subst. split; [exact A|].
        destruct (slice chars prev (length chars)) eqn:S0; cbn [nonempty]; [exact B|].
        apply Forall_app. split; [exact B|]. constructor; [|constructor].
        assert (NE : slice chars prev (length chars) <> []) by congruence.
        apply slice_nonempty_lt in NE. apply PP; lia.
  Qed.

  Lemma split_loop_pieces : forall l parts pend res,
    (forall o, In o l -> P o) ->
    (forall p e md chars a b, In (Some (NChars p e md chars)) l -> a < b -> b <= length chars ->
       P (mk_piece lm p chars a b)) ->
    split_loop m ms keep skipnone lm list_end l parts pend = Ok res ->
    parts_ok parts -> Forall P pend -> parts_ok res.
  Proof.
    induction l as [|o l IH]; intros parts pend res PI PP H A B.
    - cbn [split_loop] in H. inversion H; subst. destruct (_ || keep); [apply parts_ok_snoc; assumption | exact A].
    - assert (PI' : forall o', In o' l -> P o') by (intros; apply PI; right; assumption).
      assert (PP' : forall p e md chars a b, In (Some (NChars p e md chars)) l -> a < b -> b <= length chars ->
                P (mk_piece lm p chars a b)) by (intros; eapply PP; eauto; right; eassumption).
      assert (PO : P o) by (apply PI; left; reflexivity).
      destruct o as [nd|].
      + destruct nd; cbn [split_loop] in H;
          try (eapply IH; [exact PI'|exact PP'|exact H|exact A|];
               apply Forall_app; split; [exact B|]; constructor; [exact PO|constructor]; fail);
          [|discriminate].
        destruct (chars_loop m ms keep lm (S (length chars)) (NChars p e m0 chars) p chars 0 parts pend)
          as [[parts1 pend1]|] eqn:CL; [|discriminate].
        eapply chars_loop_pieces in CL; [|exact PO| |exact A|exact B].
        * destruct CL as [A1 B1]. eapply IH; [exact PI'|exact PP'|exact H|exact A1|exact B1].
        * intros a b Hab Hb. eapply PP; [left; reflexivity|exact Hab|exact Hb].
      + cbn [split_loop] in H. eapply IH; [exact PI'|exact PP'|exact H|exact A|].
        destruct skipnone; [exact B|]. apply Forall_app. split; [exact B|]. constructor; [exact PO|constructor].
  Qed.
End Pieces.

Definition piece_of (lm : nmode) (l : items) (o : option node) : Prop :=
  In o l \/
  exists p e md chars a b, In (Some (NChars p e md chars)) l /\ a < b /\ b <= length chars /\
    o = Some (NChars (p + a) (p + b) lm (slice chars a b)).

(** C18_positions *)
Theorem split_pieces m ms keep skipnone lm list_end l parts :
  matcher_ok m ->
  split_at_chars m ms keep skipnone lm list_end l = Ok parts ->
  Forall (fun part => Forall (piece_of lm l) (node_items part)) parts.
Proof.
  intros MO H. eapply (split_loop_pieces m ms keep skipnone lm list_end (piece_of lm l) MO l [] []);
    [| |exact H|constructor|constructor].
  - intros o I. left. exact I.
  - intros p e md chars a b I Hab Hb. right. exists p, e, md, chars, a, b. repeat split; assumption.
Qed.

(** a chars node agrees with the source text [src] *)
Definition chars_agrees (src : str) (o : option node) : Prop :=
  match o with
  | Some (NChars p e _ chars) => e = p + length chars /\ slice src p e = chars
  | _ => True
  end.

Theorem split_positions src m ms keep skipnone lm list_end l parts :
  matcher_ok m ->
  (forall o, In o l -> chars_agrees src o) ->
  split_at_chars m ms keep skipnone lm list_end l = Ok parts ->
  Forall (fun part => Forall (chars_agrees src) (node_items part)) parts.
Proof.
  intros MO W H. pose proof (split_pieces _ _ _ _ _ _ _ _ MO H) as F.
  eapply Forall_impl; [|exact F]. intros part FP. eapply Forall_impl; [|exact FP].
  intros o [I|(p & e & md & chars & a & b & I & Hab & Hb & E)]; [apply W; exact I|].
  subst o. apply W in I. cbn [chars_agrees] in I |- *. destruct I as [I1 I2].
  split; [rewrite slice_length by exact Hb; lia|].
  rewrite <- I2. rewrite slice_slice by lia. reflexivity.
Qed.

Lemma m_lit_ok sep : sep <> [] -> matcher_ok (m_lit sep).
Proof. intros NE s pos i j M. eapply m_lit_nonempty in M; [lia | exact NE]. Qed.

(** * [split_at_node] *)
Definition is_none (o : option node) : bool := match o with None => true | Some _ => false end.

(** the entries the loops look at *)
Definition live (skipnone : bool) (l : items) : items :=
  filter (fun o => negb (skipnone && is_none o)) l.

(** node lists interleaved with separator nodes *)
Fixpoint wv (ps : list items) (seps : items) : items :=
  match ps, seps with
  | p :: ps', s :: seps' => p ++ s :: wv ps' seps'
  | p :: _, [] => p
  | [], _ => []
  end.

Section SplitNodeProofs.
  Variable pred : option node -> bool.
  Variable skipnone : bool.
  Variable ms : option nat.

  Lemma san_keep : forall l done cur nomore,
    concat (san_loop pred skipnone true ms l done cur nomore) = concat done ++ cur ++ live skipnone l.
  Proof.
    induction l as [|o l IH]; intros done cur nomore; cbn [san_loop live filter].
    - rewrite concat_app. cbn. rewrite !app_nil_r. reflexivity.
    - fold (is_none o). destruct (skipnone && is_none o) eqn:SK; cbn [negb].
      + apply IH.
      + destruct (negb nomore && pred o).
        * rewrite IH, concat_app. cbn [concat]. rewrite app_nil_r, <- !app_assoc. reflexivity.
        * rewrite IH, <- !app_assoc. reflexivity.
  Qed.

  Lemma san_nokeep : forall l done cur nomore, exists rest seps,
    san_loop pred skipnone false ms l done cur nomore = done ++ rest /\
    length rest = S (length seps) /\ Forall (fun o => pred o = true) seps /\
    wv rest seps = cur ++ live skipnone l.
  Proof.
    induction l as [|o l IH]; intros done cur nomore; cbn [san_loop live filter].
    - exists [cur], []. repeat split; [constructor | cbn; rewrite app_nil_r; reflexivity].
    - fold (is_none o). destruct (skipnone && is_none o) eqn:SK; cbn [negb].
      + apply IH.
      + destruct (negb nomore && pred o) eqn:PR.
        * apply andb_true_iff in PR. destruct PR as [_ PR].
          destruct (IH (done ++ [cur]) [] (match ms with Some k => Nat.leb k (length (done ++ [cur]) + 1) | None => false end))
            as (rest & seps & E1 & E2 & E3 & E4).
          exists (cur :: rest), (o :: seps). rewrite E1, <- app_assoc. repeat split.
          -- cbn; lia.
          -- constructor; assumption.
          -- cbn [wv]. rewrite E4. reflexivity.
        * destruct (IH done (cur ++ [o]) nomore) as (rest & seps & E1 & E2 & E3 & E4).
          exists rest, seps. repeat split; try assumption. rewrite E4, <- app_assoc. reflexivity.
  Qed.

  Lemma san_count n : ms = Some n -> forall l done cur nomore,
    length done <= n -> (nomore = false -> length done + 1 <= n) ->
    length (san_loop pred skipnone false ms l done cur nomore) <= S n /\
    length (san_loop pred skipnone true ms l done cur nomore) <= S n.
  Proof.
    intros M. subst ms. induction l as [|o l IH]; intros done cur nomore L1 L2; cbn [san_loop].
    - rewrite app_length. cbn. lia.
    - destruct (skipnone && _); [apply IH; assumption|].
      destruct nomore; cbn [negb andb]; [split; apply IH; assumption|].
      specialize (L2 eq_refl).
      destruct (pred o); [|split; apply IH; auto].
      split; apply IH; rewrite ?app_length; cbn [length]; try lia;
        intros Hn; apply Nat.leb_gt in Hn; rewrite ?app_length in Hn; cbn [length] in Hn; lia.
  Qed.

  Lemma san_all_split : ms = None -> forall l done cur,
    Forall (Forall (fun o => pred o = false)) done -> Forall (fun o => pred o = false) cur ->
    Forall (Forall (fun o => pred o = false)) (san_loop pred skipnone false ms l done cur false).
  Proof.
    intros M. subst ms. induction l as [|o l IH]; intros done cur A B; cbn [san_loop].
    - apply Forall_app. split; [exact A|]. constructor; [exact B|constructor].
    - destruct (skipnone && _); [apply IH; assumption|]. cbn [negb andb].
      destruct (pred o) eqn:PR.
      + apply IH; [|constructor]. apply Forall_app. split; [exact A|]. constructor; [exact B|constructor].
      + apply IH; [exact A|]. apply Forall_app. split; [exact B|]. constructor; [exact PR|constructor].
  Qed.
End SplitNodeProofs.

Lemma map_items_mk (ls : list items) : map node_items (map (mk_nodelist None None) ls) = ls.
Proof. rewrite map_map. cbn [mk_nodelist node_items]. apply map_id. Qed.

(** C18_split_at_node, keep_separators = True: the parts concatenated are the list *)
Theorem split_at_node_partition_keep pred skipnone ms l :
  concat (map node_items (split_at_node pred skipnone true ms l)) = live skipnone l.
Proof. unfold split_at_node. rewrite map_items_mk, san_keep. reflexivity. Qed.

(** keep_separators = False: the parts interleaved with separator nodes (each
    satisfying the predicate) are the list *)
Theorem split_at_node_partition pred skipnone ms l :
  exists seps, length (split_at_node pred skipnone false ms l) = S (length seps) /\
    Forall (fun o => pred o = true) seps /\
    wv (map node_items (split_at_node pred skipnone false ms l)) seps = live skipnone l.
Proof.
  unfold split_at_node. rewrite map_items_mk, map_length.
  destruct (san_nokeep pred skipnone ms l [] [] (match ms with Some 0 => true | _ => false end))
    as (rest & seps & E1 & E2 & E3 & E4).
  exists seps. rewrite E1. cbn [app]. repeat split; assumption.
Qed.

Theorem split_at_node_max pred skipnone keepsep n l :
  length (split_at_node pred skipnone keepsep (Some n) l) <= S n.
Proof.
  unfold split_at_node. rewrite map_length.
  destruct (san_count pred skipnone (Some n) n eq_refl l [] [] (match n with 0 => true | _ => false end)) as [A B].
  - cbn; lia.
  - destruct n; [discriminate | cbn; lia].
  - destruct keepsep; assumption.
Qed.

Theorem split_at_node_all_split pred skipnone l :
  Forall (fun part => Forall (fun o => pred o = false) (node_items part))
         (split_at_node pred skipnone false None l).
Proof.
  unfold split_at_node. apply Forall_map.
  eapply Forall_impl; [|apply (san_all_split pred skipnone None eq_refl l [] []); constructor].
  intros a H. exact H.
Qed.

(** * [filter] *)
Section FilterProofs.
  Variable pred : option (option node -> bool).
  Variable skipnone skipcomments skipws : bool.

  Definition is_comment (o : option node) : bool :=
    match o with Some (NComment _ _ _ _ _) => true | _ => false end.
  Definition is_ws_chars (o : option node) : bool :=
    match o with Some (NChars _ _ _ c) => forallb py_isspace c | _ => false end.

  (** the declarative predicate of [filter] *)
  Definition keepb (o : option node) : bool :=
    negb (skipnone && is_none o) && negb (skipcomments && is_comment o)
    && negb (skipws && is_ws_chars o)
    && match pred with Some f => f o | None => true end.

  Lemma strip_left_forallb f s : strip_left f s = [] <-> forallb f s = true.
  Proof.
    induction s as [|c s IH]; cbn [strip_left forallb]; [tauto|].
    destruct (f c); cbn [andb]; [exact IH|]. split; discriminate.
  Qed.

  Lemma strip_empty_forallb f s : Nat.eqb (length (strip f s)) 0 = forallb f s.
  Proof.
    unfold strip, strip_right. rewrite rev_length.
    destruct (forallb f s) eqn:E.
    - apply strip_left_forallb in E. rewrite E. reflexivity.
    - destruct (strip_left f s) as [|c0 t] eqn:S0.
      + apply strip_left_forallb in S0. congruence.
      + (* the first character of [strip_left f s] does not satisfy [f] *)
        assert (HF : f c0 = false).
        { clear E. revert S0. induction s as [|c s IH]; cbn [strip_left]; [discriminate|].
          destruct (f c) eqn:FC; [exact IH|]. intros H. inversion H. subst. exact FC. }
        assert (NE : strip_left f (rev (c0 :: t)) <> []).
        { intros C. apply strip_left_forallb in C. rewrite forallb_forall in C.
          specialize (C c0). rewrite C in HF; [discriminate|]. apply in_rev. rewrite rev_involutive. left. reflexivity. }
        destruct (strip_left f (rev (c0 :: t))); [congruence | reflexivity].
  Qed.

  Lemma filter_one_keepb o b : filter_one pred skipnone skipcomments skipws o = Ok b -> b = keepb o.
  Proof.
    unfold filter_one, keepb, has_isnodetype.
    destruct o as [n|].
    - cbn [is_none]. rewrite andb_false_r. cbn [negb andb].
      destruct pred; destruct n; destruct skipcomments, skipws; cbn [sbind is_comment is_ws_chars andb negb];
        try rewrite strip_empty_forallb;
        try (intros H; inversion H; reflexivity); try discriminate;
        try (destruct (forallb py_isspace chars); cbn [negb andb]; intros H; inversion H; reflexivity).
    - cbn [is_none is_comment is_ws_chars]. rewrite !andb_false_r, andb_true_r. cbn [negb andb].
      destruct skipnone; cbn [negb andb]; [intros H; inversion H; reflexivity|].
      destruct skipcomments; cbn [sbind]; [discriminate|].
      destruct skipws; cbn [sbind]; [discriminate|]. destruct pred; intros H; inversion H; reflexivity.
  Qed.

  Lemma filter_loop_spec : forall l fl,
    filter_loop pred skipnone skipcomments skipws l = Ok fl -> fl = filter keepb l.
  Proof.
    induction l as [|o l IH]; intros fl H; cbn [filter_loop] in H; [inversion H; reflexivity|].
    destruct (filter_one pred skipnone skipcomments skipws o) as [b|] eqn:F1; cbn [sbind] in H; [|discriminate].
    destruct (filter_loop pred skipnone skipcomments skipws l) as [r|] eqn:FL; cbn [sbind] in H; [|discriminate].
    inversion H; subst. apply filter_one_keepb in F1. subst b. cbn [filter]. rewrite (IH r eq_refl). reflexivity.
  Qed.

  (** C18_filter: the result holds exactly the entries that pass the
      declarative predicate, in their original order; an empty result is
      positioned at the end of the list *)
  Theorem filter_list_spec p e l r :
    filter_list pred skipnone skipcomments skipws (NList p e l) = Ok r ->
    node_items r = filter keepb l /\
    (filter keepb l = [] -> r = NList e e []).
  Proof.
    cbn [filter_list]. destruct (filter_loop pred skipnone skipcomments skipws l) as [fl|] eqn:FL; cbn [sbind]; [|discriminate].
    intros H. inversion H; subst. apply filter_loop_spec in FL. subst fl. split; [reflexivity|].
    intros E. rewrite E. unfold mk_nodelist. destruct e; reflexivity.
  Qed.
End FilterProofs.

(** * [parse_keyval_content] = combine policy over the two splits *)
Fixpoint mapM {A B} (f : A -> sres B) (l : list A) : sres (list B) :=
  match l with
  | [] => Ok []
  | a :: r => sbind (f a) (fun b => sbind (mapM f r) (fun bs => Ok (b :: bs)))
  end.

Fixpoint somes {A} (l : list (option A)) : list A :=
  match l with
  | [] => []
  | Some a :: r => a :: somes r
  | None :: r => somes r
  end.

Section KeyValProofs.
  Variable mcomma meq : matcher.
  Variable pol : policy.
  Variable dflt : option node.
  Variable extract : bool.
  Variable lm : nmode.

  (** what one comma-separated part contributes: nothing (no non-empty piece
      around the first [=]) or a key with its value — split at [=] with
      [max_split=1], key text of the first piece, value from the second *)
  Definition kv_pair (part : node) : sres (option (str * node)) :=
    sbind (split_list_at_chars meq (Some 1) false true lm part) (fun eqparts =>
    match eqparts with
    | [] => Ok None
    | key_nl :: rest =>
        sbind (kv_value dflt extract rest) (fun value =>
        sbind (content_chars (node_items key_nl)) (fun key_s => Ok (Some (key_s, value))))
    end).

  (** how a repeated key is combined, as the policy names it *)
  Definition comb (prev value : node) : node :=
    match pol with
    | PFirst => prev
    | PLast => value
    | PConcat => mk_nodelist (node_pos prev) None (node_items prev ++ node_items value)
    | PError => prev
    end.

  Definition kv_add (d : kvs) (kv : str * node) : kvs :=
    kv_set (fst kv) (match kv_lookup (fst kv) d with Some prev => comb prev (snd kv) | None => snd kv end) d.

  (** policy 'error': no key is seen twice *)
  Fixpoint keys_fresh (d : kvs) (ps : list (str * node)) : Prop :=
    match ps with
    | [] => True
    | kv :: r => (pol = PError -> kv_lookup (fst kv) d = None) /\ keys_fresh (kv_add d kv) r
    end.

  Lemma kv_step_pair part d :
    kv_step meq pol dflt extract lm part d =
    sbind (kv_pair part) (fun o =>
      match o with
      | None => Ok d
      | Some (k, v) =>
          sbind (match kv_lookup k d with Some prev => kv_combine pol prev v | None => Ok v end)
                (fun v1 => Ok (kv_set k v1 d))
      end).
  Proof.
    unfold kv_step, kv_pair.
    destruct (split_list_at_chars meq (Some 1) false true lm part) as [[|key_nl rest]|]; cbn [sbind]; try reflexivity.
    destruct (kv_value dflt extract rest); cbn [sbind]; [|reflexivity].
    destruct (content_chars (node_items key_nl)); cbn [sbind]; reflexivity.
  Qed.

  Lemma kv_loop_spec : forall parts d d',
    kv_loop meq pol dflt extract lm parts d = Ok d' <->
    exists po, mapM kv_pair parts = Ok po /\ keys_fresh d (somes po) /\ d' = fold_left kv_add (somes po) d.
  Proof.
    induction parts as [|part r IH]; intros d d'; cbn [kv_loop mapM].
    - split.
      + intros H. inversion H. exists []. cbn. auto.
      + intros (po & E & _ & F). inversion E. subst. reflexivity.
    - rewrite kv_step_pair. destruct (kv_pair part) as [o|]; cbn [sbind].
      2:{ split; [discriminate | intros (po & E & _); discriminate]. }
      destruct o as [[k v]|].
      + destruct (kv_lookup k d) as [prev|] eqn:LK.
        * unfold kv_combine. destruct pol eqn:PL; cbn [sbind].
          all: try (rewrite IH; split;
            [ intros (po & E & F & G); exists (Some (k, v) :: po); rewrite E; cbn [sbind somes keys_fresh fold_left];
              unfold kv_add at 1 3; cbn [fst snd]; rewrite LK; unfold comb; rewrite PL;
              (split; [reflexivity|]); (split; [split; [discriminate|exact F] | exact G])
            | intros (po & E & F & G); destruct (mapM kv_pair r) as [po'|]; cbn [sbind] in E; [|discriminate];
              inversion E; subst po; cbn [somes keys_fresh fold_left] in F, G; destruct F as [_ F];
              unfold kv_add at 1 in F; unfold kv_add at 2 in G; cbn [fst snd] in F, G; rewrite LK in F, G;
              unfold comb in F, G; rewrite PL in F, G; exists po'; auto ]).
          split; [discriminate|].
          intros (po & E & F & G). destruct (mapM kv_pair r) as [po'|]; cbn [sbind] in E; [|discriminate].
          inversion E; subst po. cbn [somes keys_fresh] in F. destruct F as [F _]. cbn [fst] in F.
          rewrite F in LK; [discriminate | exact PL].
        * cbn [sbind]. rewrite IH. split.
          -- intros (po & E & F & G). exists (Some (k, v) :: po). rewrite E. cbn [sbind somes keys_fresh fold_left].
             unfold kv_add at 1 3. cbn [fst snd]. rewrite LK. split; [reflexivity|]. split; [split; [auto|exact F] | exact G].
          -- intros (po & E & F & G). destruct (mapM kv_pair r) as [po'|]; cbn [sbind] in E; [|discriminate].
             inversion E; subst po. cbn [somes keys_fresh fold_left] in F, G. destruct F as [_ F].
             unfold kv_add at 1 in F. unfold kv_add at 2 in G. cbn [fst snd] in F, G. rewrite LK in F, G.
             exists po'. auto.
      + cbn [sbind]. rewrite IH. split.
        * intros (po & E & F & G). exists (None :: po). rewrite E. cbn [sbind somes]. auto.
        * intros (po & E & F & G). destruct (mapM kv_pair r) as [po'|]; cbn [sbind] in E; [|discriminate].
          inversion E; subst po. cbn [somes] in F, G. exists po'. auto.
  Qed.

  (** C18_keyval *)
  Theorem parse_keyval_spec nl d :
    parse_keyval_content mcomma meq pol dflt extract lm nl = Ok d <->
    exists parts po,
      split_list_at_chars mcomma None false true lm nl = Ok parts /\
      mapM kv_pair parts = Ok po /\
      keys_fresh [] (somes po) /\
      d = fold_left kv_add (somes po) [].
  Proof.
    unfold parse_keyval_content.
    destruct (split_list_at_chars mcomma None false true lm nl) as [parts|]; cbn [sbind].
    - rewrite kv_loop_spec. split.
      + intros (po & A & B & C). exists parts, po. auto.
      + intros (parts' & po & A & B & C & D). inversion A; subst. exists po. auto.
    - split; [discriminate | intros (parts' & po & A & _); discriminate].
  Qed.
End KeyValProofs.

(** * Children are opaque: splitting commutes with any change of the inside of
    non-chars nodes *)
Section Opaque.
  Variable f : node -> node.
  Hypothesis f_chars : forall p e md c, f (NChars p e md c) = NChars p e md c.
  (** [f] keeps the class of a node as far as the loop can see it *)
  Hypothesis f_kind : forall n,
    match n with
    | NChars _ _ _ _ => True
    | NList _ _ _ => match f n with NList _ _ _ => True | _ => False end
    | _ => match f n with NChars _ _ _ _ | NList _ _ _ => False | _ => True end
    end.
  Hypothesis f_pos : forall n, node_pos (f n) = node_pos n.
  Hypothesis f_end : forall n, node_end (f n) = node_end n.

  Variable m : matcher.
  Variable ms : option nat.
  Variable keep skipnone : bool.
  Variable lm : nmode.
  Variable list_end : option nat.

  Definition fo (o : option node) : option node := option_map f o.
  Definition fpart (n : node) : node :=
    match n with NList p e l => NList p e (map fo l) | _ => n end.

  Lemma first_pos_map l : first_pos (map fo l) = first_pos l.
  Proof. induction l as [|[n|] l IH]; cbn [map fo option_map first_pos]; [reflexivity|apply f_pos|exact IH]. Qed.
  Lemma first_end_map l : first_end (map fo l) = first_end l.
  Proof. induction l as [|[n|] l IH]; cbn [map fo option_map first_end]; [reflexivity|apply f_end|exact IH]. Qed.
  Lemma last_end_map l : last_end (map fo l) = last_end l.
  Proof. unfold last_end. rewrite <- map_rev. apply first_end_map. Qed.

  Lemma flush_map nodes pe : flush (map fo nodes) pe = fpart (flush nodes pe).
  Proof.
    unfold flush, mk_nodelist. cbn [fpart]. rewrite first_pos_map, last_end_map.
    destruct nodes; reflexivity.
  Qed.

  Lemma nonempty_map {A B} (g : A -> B) l : nonempty (map g l) = nonempty l.
  Proof. destruct l; reflexivity. Qed.

  Lemma map_fo_piece pend p chars a b :
    map fo (pend ++ [mk_piece lm p chars a b]) = map fo pend ++ [mk_piece lm p chars a b].
  Proof. rewrite map_app. cbn [map fo option_map mk_piece]. rewrite f_chars. reflexivity. Qed.

  Lemma map_fpart_snoc parts x : map fpart (parts ++ [x]) = map fpart parts ++ [fpart x].
  Proof. rewrite map_app. reflexivity. Qed.

  Definition fres (r : sres (list node * items)) : sres (list node * items) :=
    match r with Ok (ps, pd) => Ok (map fpart ps, map fo pd) | Exn e => Exn e end.

  Lemma chars_loop_opaque p e md chars : forall fuel prev parts pend,
    chars_loop m ms keep lm fuel (NChars p e md chars) p chars prev (map fpart parts) (map fo pend) =
    fres (chars_loop m ms keep lm fuel (NChars p e md chars) p chars prev parts pend).
  Proof.
    induction fuel as [|fu IH]; intros prev parts pend; [reflexivity|].
    cbn [chars_loop]. rewrite map_length.
    destruct (next_split m ms (length parts) chars prev) as [[i j]|].
    - destruct (negb (Nat.leb prev i && Nat.ltb i j)); [reflexivity|].
      destruct (Nat.eqb prev 0).
      + destruct (nonempty (slice chars prev i)).
        * rewrite <- map_fo_piece, nonempty_map, flush_map.
          destruct (nonempty (pend ++ [mk_piece lm p chars prev i]) || keep).
          -- rewrite <- map_fpart_snoc. apply (IH j _ []).
          -- apply (IH j _ []).
        * rewrite nonempty_map, flush_map. destruct (nonempty pend || keep).
          -- rewrite <- map_fpart_snoc. apply (IH j _ []).
          -- apply (IH j _ []).
      + destruct (nonempty (slice chars prev i)); cbn [nonempty orb].
        * replace (map fpart parts ++ [flush [mk_piece lm p chars prev i] (Some (p + i))])
            with (map fpart (parts ++ [flush [mk_piece lm p chars prev i] (Some (p + i))])).
          -- apply IH.
          -- rewrite map_fpart_snoc. f_equal. f_equal. rewrite <- flush_map.
             cbn [map fo option_map mk_piece]. rewrite f_chars. reflexivity.
        * destruct keep; [|apply IH].
          replace (map fpart parts ++ [flush [] (Some (p + i))])
            with (map fpart (parts ++ [flush [] (Some (p + i))])) by (rewrite map_fpart_snoc; reflexivity).
          apply IH.
    - destruct (Nat.eqb prev 0); cbn [fres].
      + rewrite map_app. cbn [map fo option_map]. rewrite f_chars. reflexivity.
      + destruct (nonempty (slice chars prev (length chars))); [rewrite map_fo_piece|]; reflexivity.
  Qed.

  Lemma split_loop_opaque : forall l parts pend,
    split_loop m ms keep skipnone lm list_end (map fo l) (map fpart parts) (map fo pend) =
    res_map (map fpart) (split_loop m ms keep skipnone lm list_end l parts pend).
  Proof.
    induction l as [|o l IH]; intros parts pend; cbn [map split_loop res_map].
    - rewrite nonempty_map, flush_map. destruct (nonempty pend || keep); [rewrite map_fpart_snoc|]; reflexivity.
    - destruct o as [nd|]; cbn [fo option_map].
      + pose proof (f_kind nd) as K.
        destruct nd;
          try (destruct (f _) eqn:FE; try contradiction;
               rewrite <- FE;
               match goal with |- context [pend ++ [Some ?x]] =>
                 change (map fo pend ++ [Some (f x)]) with (map fo pend ++ map fo [Some x]);
                 rewrite <- map_app; apply IH end).
        * rewrite f_chars. cbn [split_loop]. rewrite chars_loop_opaque.
          destruct (chars_loop m ms keep lm (S (length chars)) (NChars p e m0 chars) p chars 0 parts pend)
            as [[ps pd]|]; cbn [fres]; [apply IH | reflexivity].
        * destruct (f (NList p e items)); try contradiction. reflexivity.
      + destruct skipnone; [apply IH|].
        change (map fo pend ++ [None]) with (map fo pend ++ map fo [None]). rewrite <- map_app. apply IH.
  Qed.

  (** C18_children_opaque *)
  Theorem split_opaque l :
    split_at_chars m ms keep skipnone lm list_end (map fo l) =
    res_map (map fpart) (split_at_chars m ms keep skipnone lm list_end l).
  Proof. unfold split_at_chars. apply (split_loop_opaque l [] []). Qed.
End Opaque.

(** a list without top-level chars nodes is never split, whatever its nodes contain *)
Definition opaque_item (o : option node) : bool :=
  match o with Some (NChars _ _ _ _) | Some (NList _ _ _) => false | _ => true end.

Lemma split_loop_no_chars m ms keep skipnone lm list_end : forall l parts pend,
  forallb opaque_item l = true ->
  split_loop m ms keep skipnone lm list_end l parts pend =
  Ok (let pend' := pend ++ live skipnone l in
      if nonempty pend' || keep then parts ++ [flush pend' list_end] else parts).
Proof.
  induction l as [|o l IH]; intros parts pend H; cbn [split_loop live filter].
  - rewrite app_nil_r. reflexivity.
  - cbn [forallb] in H. apply andb_true_iff in H. destruct H as [H1 H2].
    destruct o as [nd|].
    + rewrite andb_false_r. cbn [negb].
      destruct nd; try discriminate; rewrite IH by exact H2; unfold live; rewrite <- app_assoc; reflexivity.
    + cbn [is_none]. rewrite andb_true_r. rewrite IH by exact H2.
      destruct skipnone; cbn [negb]; [reflexivity|]. unfold live. rewrite <- app_assoc. reflexivity.
Qed.

Theorem split_no_chars m ms keep skipnone lm list_end l :
  forallb opaque_item l = true ->
  split_at_chars m ms keep skipnone lm list_end l =
  Ok (if nonempty (live skipnone l) || keep then [flush (live skipnone l) list_end] else []).
Proof. intros H. unfold split_at_chars. rewrite split_loop_no_chars by exact H. reflexivity. Qed.

(** * Every returned list is a [flush]: its [pos_end] is the start of the
    separator that ended it (or the end of the whole list) and its [pos] is
    that of its first node (or, when empty, its [pos_end]) *)
Section Spans.
  Variable m : matcher.
  Variable ms : option nat.
  Variable keep skipnone : bool.
  Variable lm : nmode.
  Variable list_end : option nat.
  Variable l0 : items.

  Definition sep_start (pe : option nat) : Prop :=
    exists p e md chars prev i j,
      In (Some (NChars p e md chars)) l0 /\ m chars prev = Some (i, j) /\ prev <= i < j /\ pe = Some (p + i).

  Definition part_span (part : node) : Prop :=
    exists nodes pe, part = flush nodes pe /\ (pe = list_end \/ sep_start pe).

  Lemma chars_loop_spans p e md chars : In (Some (NChars p e md chars)) l0 ->
    forall fuel prev parts pend parts' pend',
    chars_loop m ms keep lm fuel (NChars p e md chars) p chars prev parts pend = Ok (parts', pend') ->
    Forall part_span parts -> Forall part_span parts'.
  Proof.
    intros I. induction fuel as [|f IH]; intros prev parts pend parts' pend' H A; [discriminate|].
    cbn [chars_loop] in H.
    destruct (next_split m ms (length parts) chars prev) as [[i j]|] eqn:NS.
    - apply next_split_some in NS.
      destruct (Nat.leb prev i && Nat.ltb i j) eqn:G; cbn [negb] in H; [|discriminate].
      apply andb_true_iff in G. destruct G as [G1 G2]. apply Nat.leb_le in G1. apply Nat.ltb_lt in G2.
      assert (S : sep_start (Some (p + i))) by (exists p, e, md, chars, prev, i, j; repeat split; auto).
      destruct (Nat.eqb prev 0); (apply IH in H; [exact H|]);
        (destruct (_ || keep); [|exact A]); apply Forall_app; (split; [exact A|]);
        (constructor; [|constructor]); eexists _, _; (split; [reflexivity|right; exact S]).
    - destruct (Nat.eqb prev 0); inversion H; subst; exact A.
  Qed.

  Lemma split_loop_spans : forall l parts pend res,
    (forall o, In o l -> In o l0) ->
    split_loop m ms keep skipnone lm list_end l parts pend = Ok res ->
    Forall part_span parts -> Forall part_span res.
  Proof.
    induction l as [|o l IH]; intros parts pend res SUB H A.
    - cbn [split_loop] in H. inversion H; subst. destruct (_ || keep); [|exact A].
      apply Forall_app. split; [exact A|]. constructor; [|constructor]. eexists _, _. split; [reflexivity|left; reflexivity].
    - assert (SUB' : forall o', In o' l -> In o' l0) by (intros; apply SUB; right; assumption).
      destruct o as [nd|]; [|cbn [split_loop] in H; eapply IH; eauto].
      destruct nd; cbn [split_loop] in H; try (eapply IH; eauto; fail); [|discriminate].
      destruct (chars_loop m ms keep lm (S (length chars)) (NChars p e m0 chars) p chars 0 parts pend)
        as [[parts1 pend1]|] eqn:CL; [|discriminate].
      eapply chars_loop_spans in CL; [|apply SUB; left; reflexivity|exact A]. eapply IH; eauto.
  Qed.
End Spans.

Theorem split_part_spans m ms keep skipnone lm list_end l parts :
  split_at_chars m ms keep skipnone lm list_end l = Ok parts ->
  Forall (part_span m list_end l) parts.
Proof.
  intros H. eapply split_loop_spans; [|exact H|constructor]. auto.
Qed.

(** * Witnesses *)
Definition lit_comma : matcher := m_lit [44%N].
Definition ex_chars (p : nat) (s : str) : option node := Some (NChars p (p + length s) text_mode s).

(** with [max_split] given, keep_empty=False is not a filter of keep_empty=True *)
Lemma drop_empty_maxsplit_witness :
  let l := [ex_chars 0 [44; 97; 44; 44; 98; 44]%N] in      (* ",a,,b," *)
  split_at_chars lit_comma (Some 1) false true text_mode (Some 6) l <>
  res_map (filter ne_part) (split_at_chars lit_comma (Some 1) true true text_mode (Some 6) l).
Proof. vm_compute. discriminate. Qed.

(** [split_at_node(max_split=2)] performs a single split although three separators are there *)
Lemma split_at_node_count_witness :
  let sep := Some (NComment 0 1 text_mode [] []) in
  let l := [sep; sep; sep] in
  let pr := fun o : option node => match o with Some (NComment _ _ _ _ _) => true | _ => false end in
  length (split_at_node pr true false (Some 2) l) = 2 /\ length (split_at_node pr true false None l) = 4.
Proof. vm_compute. split; reflexivity. Qed.

(** * max_split: the last part is the unsplit remainder (literal separator) *)
Lemma join_prefix (sep : str) (A B : list str) : B <> [] ->
  join sep (A ++ B) = concat (map (fun a => a ++ sep) A) ++ join sep B.
Proof.
  intros NE. induction A as [|a A IH]; [reflexivity|].
  cbn [app map concat]. rewrite <- app_assoc, <- IH.
  destruct (A ++ B) as [|x t] eqn:E.
  - apply app_eq_nil in E. destruct E; congruence.
  - change (join sep (a :: x :: t)) with (a ++ sep ++ join sep (x :: t)). rewrite app_assoc. reflexivity.
Qed.

Theorem split_max_remainder (vb : node -> str) (sep : str) n skipnone lm list_end l rn rf :
  split_at_chars (m_lit sep) (Some n) true skipnone lm list_end l = Ok rn ->
  split_at_chars (m_lit sep) None true skipnone lm list_end l = Ok rf ->
  n < length rf ->
  exists rem, rn = firstn n rf ++ [rem] /\
              verb_part vb rem = join sep (map (verb_part vb) (skipn n rf)).
Proof.
  intros Hn Hf L.
  destruct (split_max_prefix _ _ _ _ _ _ _ _ Hn Hf) as [P1 P2].
  pose proof (split_joins_literal vb _ _ _ _ _ _ _ Hn) as Jn.
  pose proof (split_joins_literal vb _ _ _ _ _ _ _ Hf) as Jf.
  assert (LN : length rn = S n) by lia.
  assert (E : exists rem, skipn n rn = [rem]).
  { pose proof (skipn_length n rn) as SL. rewrite LN in SL.
    destruct (skipn n rn) as [|x [|y t]]; cbn [length] in SL;
      [exfalso; lia | exists x; reflexivity | exfalso; lia]. }
  destruct E as [rem E]. exists rem.
  assert (RN : rn = firstn n rf ++ [rem]) by (rewrite <- P1, <- E; symmetry; apply firstn_skipn).
  split; [exact RN|].
  rewrite RN in Jn. rewrite <- (firstn_skipn n rf) in Jf at 1. rewrite <- Jf in Jn.
  rewrite !map_app in Jn. rewrite !join_prefix in Jn.
  - apply app_inv_head in Jn. exact Jn.
  - intros C. apply map_eq_nil in C. pose proof (skipn_length n rf) as SL. rewrite C in SL. cbn in SL. lia.
  - discriminate.
Qed.

(** * What the fold of the policies computes *)
Lemma str_eqb_eq (a b : str) : str_eqb a b = true <-> a = b.
Proof.
  unfold str_eqb. revert b. induction a as [|x a IH]; intros [|y b]; split; intros H; try discriminate; try reflexivity.
  - apply andb_true_iff in H. destruct H as [H1 H2]. apply N.eqb_eq in H1. apply IH in H2. congruence.
  - inversion H; subst. apply andb_true_iff. split; [apply N.eqb_refl | apply IH; reflexivity].
Qed.

Lemma kv_lookup_set k k' v d :
  kv_lookup k' (kv_set k v d) = if str_eqb k' k then Some v else kv_lookup k' d.
Proof.
  induction d as [|[k0 v0] d IH]; cbn [kv_set kv_lookup]; [reflexivity|].
  destruct (str_eqb k k0) eqn:E1; cbn [kv_lookup].
  - apply str_eqb_eq in E1. subst k0. destruct (str_eqb k' k); reflexivity.
  - destruct (str_eqb k' k0) eqn:E2.
    + destruct (str_eqb k' k) eqn:E3; [|reflexivity].
      apply str_eqb_eq in E2. apply str_eqb_eq in E3. subst. rewrite (proj2 (str_eqb_eq k0 k0) eq_refl) in E1. discriminate.
    + exact IH.
Qed.

(** the values given for key [k], in order *)
Fixpoint values_of (k : str) (ps : list (str * node)) : list node :=
  match ps with
  | [] => []
  | (k', v) :: r => if str_eqb k k' then v :: values_of k r else values_of k r
  end.

Definition opt_items (o : option node) : items := match o with Some n => node_items n | None => [] end.

Lemma kv_fold_lookup pol k : forall ps d,
  kv_lookup k (fold_left (kv_add pol) ps d) =
  fold_left (fun acc v => Some (match acc with Some prev => comb pol prev v | None => v end))
            (values_of k ps) (kv_lookup k d).
Proof.
  induction ps as [|[k' v] ps IH]; intros d; cbn [fold_left values_of]; [reflexivity|].
  rewrite IH. unfold kv_add at 1. cbn [fst snd]. rewrite kv_lookup_set.
  destruct (str_eqb k k') eqn:E; [|reflexivity].
  apply str_eqb_eq in E. subst k'. cbn [fold_left]. reflexivity.
Qed.

(** 'first': the first value given for the key; 'last': the last one *)
Theorem kv_first_spec k ps :
  kv_lookup k (fold_left (kv_add PFirst) ps []) = hd_error (values_of k ps).
Proof.
  rewrite kv_fold_lookup. cbn [kv_lookup]. destruct (values_of k ps) as [|v vs]; [reflexivity|].
  cbn [fold_left hd_error]. generalize v. induction vs as [|w vs IH]; intros v0; [reflexivity|]. apply IH.
Qed.

Theorem kv_last_spec k ps :
  kv_lookup k (fold_left (kv_add PLast) ps []) = hd_error (rev (values_of k ps)).
Proof.
  rewrite kv_fold_lookup. cbn [kv_lookup comb].
  assert (G : forall vs (o : option node),
             fold_left (fun (acc : option node) v => Some (match acc with Some _ => v | None => v end)) vs o =
             match hd_error (rev vs) with Some v => Some v | None => o end).
  { induction vs as [|v vs IH]; intros o; [reflexivity|].
    cbn [fold_left rev]. rewrite IH. destruct (rev vs); cbn [hd_error app]; [destruct o|]; reflexivity. }
  rewrite G. destruct (hd_error (rev (values_of k ps))); reflexivity.
Qed.

(** 'concatenate': the entries of all values given for the key, in order *)
Theorem kv_concat_spec k ps :
  opt_items (kv_lookup k (fold_left (kv_add PConcat) ps [])) = concat (map node_items (values_of k ps)) /\
  (kv_lookup k (fold_left (kv_add PConcat) ps []) = None <-> values_of k ps = []).
Proof.
  rewrite kv_fold_lookup. cbn [kv_lookup comb].
  set (step := fun (acc : option node) v =>
                 Some (match acc with
                       | Some prev => mk_nodelist (node_pos prev) None (node_items prev ++ node_items v)
                       | None => v end)).
  assert (G : forall vs o, opt_items (fold_left step vs o) = opt_items o ++ concat (map node_items vs) /\
      (fold_left step vs o = None <-> o = None /\ vs = [])).
  { induction vs as [|v vs IH]; intros o; cbn [fold_left map concat].
    - rewrite app_nil_r. split; [reflexivity|]. split; [auto | intros [A _]; exact A].
    - destruct (IH (step o v)) as [A B]. split.
      + rewrite A. unfold step. destruct o; cbn [opt_items mk_nodelist node_items]; rewrite <- ?app_assoc; reflexivity.
      + rewrite B. unfold step. split; intros [C D]; discriminate. }
  destruct (G (values_of k ps) None) as [A B]. split; [exact A|].
  rewrite B. split; [intros [_ D]; exact D | auto].
Qed.

(** * Spans of the returned lists for a tiled input (C01 adjacency) *)

(** the nodes of [l] tile [a, b): each node starts where the previous one ended
    ([None] entries are transparent); chars nodes are as long as their text *)
Fixpoint tiled (a b : nat) (l : items) : Prop :=
  match l with
  | [] => a = b
  | None :: r => tiled a b r
  | Some n :: r =>
      node_pos n = Some a /\
      (match n with NChars p e _ c => e = p + length c | _ => True end) /\
      exists c, node_end n = Some c /\ a <= c /\ tiled c b r
  end.

Definition has_node (l : items) : bool := existsb (fun o => negb (is_none o)) l.

Lemma tiled_le a b l : tiled a b l -> a <= b.
Proof.
  revert a. induction l as [|[n|] l IH]; intros a H; cbn [tiled] in H; [lia| |auto].
  destruct H as (_ & _ & c & _ & L & T). apply IH in T. lia.
Qed.

Lemma tiled_app a b c l1 l2 : tiled a b l1 -> tiled b c l2 -> tiled a c (l1 ++ l2).
Proof.
  revert a. induction l1 as [|[n|] l1 IH]; intros a H1 H2; cbn [tiled app] in *.
  - subst. exact H2.
  - destruct H1 as (P & W & d & E & L & T). split; [exact P|]. split; [exact W|]. exists d. auto.
  - auto.
Qed.

Lemma tiled_first_pos a b l : tiled a b l -> has_node l = true -> first_pos l = Some a.
Proof.
  revert a. induction l as [|[n|] l IH]; intros a H N; cbn [tiled has_node existsb first_pos is_none negb orb] in *.
  - discriminate.
  - destruct H as (P & _). exact P.
  - apply IH; assumption.
Qed.

Lemma tiled_no_node a b l : tiled a b l -> has_node l = false -> a = b.
Proof.
  revert a. induction l as [|[n|] l IH]; intros a H N; cbn [tiled has_node existsb is_none negb orb] in *;
    [exact H | discriminate | auto].
Qed.

(** a returned list [NList ps pe items]: [items] tile [a, b), [pe = b], and
    [ps = a] unless the list consists of [None] entries only *)
Definition part_tiled (part : node) : Prop :=
  match part with
  | NList ps pe its =>
      exists a b, pe = Some b /\ tiled a b its /\ (has_node its = true \/ its = [] -> ps = Some a)
  | _ => False
  end.

Lemma flush_tiled a b nodes : tiled a b nodes -> part_tiled (flush nodes (Some b)).
Proof.
  intros T. unfold flush, mk_nodelist. exists a, b. split; [destruct nodes; reflexivity|]. split; [exact T|].
  intros [N|E].
  - destruct nodes; [discriminate|]. apply tiled_first_pos with (b := b); assumption.
  - subst nodes. cbn [tiled] in T. subst. reflexivity.
Qed.

Section Tiling.
  Variable m : matcher.
  Variable ms : option nat.
  Variable keep skipnone : bool.
  Variable lm : nmode.
  Hypothesis m_ok : matcher_ok m.

  Lemma piece_tiled p chars a b : a <= b -> b <= length chars ->
    tiled (p + a) (p + b) (if nonempty (slice chars a b) then [mk_piece lm p chars a b] else []).
  Proof.
    intros Hab Hb. destruct (slice chars a b) eqn:S0; cbn [nonempty].
    - cbn [tiled]. assert (length (slice chars a b) = 0) by (rewrite S0; reflexivity).
      rewrite slice_length in H by exact Hb. lia.
    - unfold mk_piece. cbn [tiled node_pos node_end]. split; [reflexivity|].
      split; [rewrite slice_length by exact Hb; lia|]. exists (p + b). repeat split; lia.
  Qed.

  Lemma chars_loop_tiled p md chars : forall fuel prev parts pend parts' pend' a,
    chars_loop m ms keep lm fuel (NChars p (p + length chars) md chars) p chars prev parts pend = Ok (parts', pend') ->
    prev <= length chars ->
    ((prev = 0 /\ tiled a p pend) \/ (0 < prev /\ pend = [] /\ a = p + prev)) ->
    Forall part_tiled parts ->
    Forall part_tiled parts' /\ exists a', tiled a' (p + length chars) pend'.
  Proof.
    induction fuel as [|f IH]; intros prev parts pend parts' pend' a H PL INV A; [discriminate|].
    cbn [chars_loop] in H.
    destruct (next_split m ms (length parts) chars prev) as [[i j]|] eqn:NS.
    - apply next_split_some in NS. pose proof (m_ok _ _ _ _ NS) as JL.
      destruct (Nat.leb prev i && Nat.ltb i j) eqn:G; cbn [negb] in H; [|discriminate].
      apply andb_true_iff in G. destruct G as [G1 G2]. apply Nat.leb_le in G1. apply Nat.ltb_lt in G2.
      pose proof (piece_tiled p chars prev i G1 ltac:(lia)) as PT.
      destruct (Nat.eqb prev 0) eqn:P0.
      + apply Nat.eqb_eq in P0. destruct INV as [[_ T]|[C _]]; [|lia]. subst prev.
        assert (T1 : tiled a (p + i) (if nonempty (slice chars 0 i) then pend ++ [mk_piece lm p chars 0 i] else pend)).
        { destruct (nonempty (slice chars 0 i)).
          - eapply tiled_app; [exact T|]. rewrite Nat.add_0_r in PT. exact PT.
          - cbn [tiled] in PT. replace (p + i) with p by lia. exact T. }
        eapply (IH j _ [] _ _ (p + j)) in H; [exact H | lia | right; repeat split; lia |].
        destruct (_ || keep); [|exact A]. apply Forall_app. split; [exact A|]. constructor; [|constructor].
        apply flush_tiled with (a := a). exact T1.
      + apply Nat.eqb_neq in P0. destruct INV as [[C _]|(_ & E & _)]; [congruence|]. subst pend.
        eapply (IH j _ [] _ _ (p + j)) in H; [exact H | lia | right; repeat split; lia |].
        destruct (_ || keep); [|exact A]. apply Forall_app. split; [exact A|]. constructor; [|constructor].
        apply flush_tiled with (a := p + prev). exact PT.
    - destruct (Nat.eqb prev 0) eqn:P0.
      + apply Nat.eqb_eq in P0. destruct INV as [[_ T]|[C _]]; [|lia]. inversion H; subst. split; [exact A|].
        exists a. eapply tiled_app; [exact T|]. cbn [tiled node_pos node_end]. repeat split; try reflexivity.
        exists (p + length chars). repeat split; lia.
      + apply Nat.eqb_neq in P0. destruct INV as [[C _]|(_ & E & _)]; [congruence|]. subst pend.
        inversion H; subst. split; [exact A|]. exists (p + prev).
        pose proof (piece_tiled p chars prev (length chars) PL ltac:(lia)) as PT.
        destruct (nonempty (slice chars prev (length chars))); exact PT.
  Qed.

  Lemma split_loop_tiled : forall l parts pend res a c b,
    split_loop m ms keep skipnone lm (Some b) l parts pend = Ok res ->
    tiled a c pend -> tiled c b l -> Forall part_tiled parts -> Forall part_tiled res.
  Proof.
    induction l as [|o l IH]; intros parts pend res a c b H TP TL A.
    - cbn [split_loop] in H. inversion H; subst. cbn [tiled] in TL. subst c.
      destruct (_ || keep); [|exact A]. apply Forall_app. split; [exact A|]. constructor; [|constructor].
      apply flush_tiled with (a := a). exact TP.
    - destruct o as [nd|].
      + cbn [tiled] in TL. destruct TL as (P & W & d & E & L & T).
        assert (STEP : tiled a d (pend ++ [Some nd])).
        { eapply tiled_app; [exact TP|]. cbn [tiled]. split; [exact P|]. split; [exact W|]. exists d. auto. }
        destruct nd; cbn [split_loop] in H; try (eapply IH; [exact H|exact STEP|exact T|exact A]; fail); [|discriminate].
        cbn [node_pos node_end] in P, E. inversion P; inversion E; subst. clear P E.
        destruct (chars_loop m ms keep lm (S (length chars)) (NChars c (c + length chars) m0 chars) c chars 0 parts pend)
          as [[parts1 pend1]|] eqn:CL; [|discriminate].
        eapply chars_loop_tiled in CL; [|lia|left; split; [reflexivity|exact TP]|exact A].
        destruct CL as [A1 [a' T1]]. eapply IH; [exact H|exact T1|exact T|exact A1].
      + cbn [split_loop] in H. cbn [tiled] in TL. eapply IH; [exact H| |exact TL|exact A].
        destruct skipnone; [exact TP|]. eapply tiled_app; [exact TP|]. cbn [tiled]. reflexivity.
  Qed.
End Tiling.

(** C18_list_spans: for an input whose nodes tile [a, b) with [pos_end = b],
    every returned list's nodes tile its own [pos, pos_end) *)
Theorem split_list_spans m ms keep skipnone lm a b l parts :
  matcher_ok m -> tiled a b l ->
  split_at_chars m ms keep skipnone lm (Some b) l = Ok parts ->
  Forall part_tiled parts.
Proof.
  intros MO T H. eapply (split_loop_tiled m ms keep skipnone lm MO l [] [] parts a a b); [exact H| |exact T|constructor].
  cbn [tiled]. reflexivity.
Qed.
