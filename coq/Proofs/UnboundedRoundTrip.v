(** C08, unbounded composition — the round trip of strings of ANY length.

    [cover_ok p sl c]: a decidable condition on ONE character [c] (protection
    [p], whitespace policy [sl]): its chunk is read by the chunk reader as atoms
    whose written form is the chunk, that pass the per-chunk check of C13
    ([atoms_okb]), that have the right shape ([shape_ok]: the character itself,
    or firm atoms — non-blank characters at which no specials sequence starts,
    structured items that are CORE constructs of C03) and whose text is [c].

    [roundtrip_covered]: for EVERY string [s] of covered characters without a
    ligature pair and with clean whitespace runs (at most one newline, or two
    adjacent ones), [roundtrip p sl s = Some s].  Ingredients: the encoder is
    chunk-wise; the chunks' atoms compose ([good_atoms_app]); the assembler
    gives one document of the extended grammar ([UnboundedAsm]); C02's round
    trip and C03's tree-level theorem, composed in [end_to_end2], give the text
    [render ks]; [UnboundedText] computes it as the concatenation of the atoms'
    texts; no ligature in the input means no specials sequence across chunks
    ([calm_atoms]). *)
From Coq Require Import NArith List Bool Arith Lia.
From PLV Require Import Base.PyStr Tok.PState Tok.Tokenizer Parse.Nodes Parse.Parser Parse.ParseWire
                        Doc.DocGrammar Doc.DocGrammar2 Gen.GenWalkerCtx Gen.GenL2TCtx
                        L2T.L2T L2T.L2TWire L2T.Render
                        Enc.Encoder Enc.Builtin Enc.RoundTrip
                        Proofs.FsProofs Proofs.RoundTripTok Proofs.RoundTrip2 Proofs.RenderDefaults Proofs.ComposeRender
                        Proofs.EncBuiltinFacts Proofs.FastProtection Proofs.RoundTripDefs
                        Proofs.UnboundedDefs Proofs.UnboundedFollow Proofs.UnboundedClosed Proofs.UnboundedAsm
                        Proofs.UnboundedChunks Proofs.UnboundedTheorems
                        Proofs.UnboundedRenderDefs Proofs.UnboundedRender Proofs.UnboundedText.
Import ListNotations.
Local Open Scope N_scope.

Notation specs0 := (map fst (cx_specials cx0)).
Definition acc0 := nfc_accent lt0.

(** * The predicate on one character *)
Definition catoms (p : prot) (c : N) : list atom :=
  match chunk_atoms cx0 (keep_chunk_fast false p c) with Some al => al | None => [] end.

Definition cover_ok (p : prot) (sl : sls) (c : N) : bool :=
  match chunk_atoms cx0 (keep_chunk_fast false p c) with
  | Some al => str_eqb (flat al) (keep_chunk_fast false p c) && atoms_okb cx0 ps0 al
               && shape_ok lt0 cx0 al c && str_eqb (flat_text lt0 cx0 acc0 (l2t_opts sl) sl al) [c]
  | None => false
  end.

Lemma cover_facts p sl c : cover_ok p sl c = true ->
  flat (catoms p c) = keep_chunk false p c /\ (forall F, good_atoms cx0 ps0 F (catoms p c))
  /\ shape_ok lt0 cx0 (catoms p c) c = true /\ flat_text lt0 cx0 acc0 (l2t_opts sl) sl (catoms p c) = [c].
Proof.
  unfold cover_ok, catoms. rewrite <- keep_chunk_fast_eq.
  destruct (chunk_atoms cx0 (keep_chunk false p c)) as [al|]; [|discriminate]. intros H.
  repeat (apply andb_true_iff in H; destruct H as [H ?]).
  split; [apply str_eqb_true; assumption|]. split.
  - apply (atoms_okb_sound default_ctx (cx_brace _ default_cx_ok) (cx_dollar _ default_cx_ok)). assumption.
  - split; [assumption|apply str_eqb_true; assumption].
Qed.

(** * Facts about the default databases (all by evaluation) *)
Lemma par_core0 pre mid : core_of2 lt0 cx0 (Par2 pre mid) = Some KPar.
Proof.
  change (core_of2 lt0 cx0 (Par2 pre mid)) with (if par_spec_ok cx0 then specials_core lt0 [10; 10] else None).
  vm_compute. reflexivity.
Qed.

(** every specials sequence that starts with the first character of a ligature starts with a ligature *)
Lemma specs_ligatures :
  forallb (fun sc : str => match sc with
                           | d :: _ => negb (ligcap d) || existsb (fun l => startswith sc l) ligatures
                           | [] => true
                           end) specs0 = true.
Proof. vm_compute. reflexivity. Qed.

(** the second characters of the ligatures start specials sequences themselves *)
Lemma lig_seconds : forallb (fun x => negb (nospec cx0 x)) [39; 45; 96] = true.
Proof. vm_compute. reflexivity. Qed.

(** * No ligature, no specials sequence *)
Lemma startswith_trans (X sc l : str) : startswith X sc = true -> startswith sc l = true -> startswith X l = true.
Proof.
  intros A B. apply startswith_iff in A. apply startswith_iff in B. destruct A as [u ->]. destruct B as [v ->].
  apply startswith_iff. exists (v ++ u). rewrite <- app_assoc. reflexivity.
Qed.

Lemma test_specials_keep (l : list str) (X : str) :
  (forall sc, In sc l -> startswith X sc = false \/ sc = []) -> forall best, test_specials l X best = best.
Proof.
  induction l as [|sc l IH]; intros H best; [reflexivity|]. cbn [test_specials].
  destruct (H sc (or_introl eq_refl)) as [E| ->].
  - rewrite E, andb_false_r. apply IH. intros sc' Hs. apply H. right. exact Hs.
  - cbn [length]. destruct (Nat.ltb_spec (match best with Some b => length b | None => 0%nat end) 0) as [L|L]; [lia|]. cbn [andb].
    apply IH. intros sc' Hs. apply H. right. exact Hs.
Qed.

Lemma lig_none c F : ligcap c = true -> (forall l, In l ligatures -> startswith (c :: F) l = false) ->
  test_specials specs0 (c :: F) None = None.
Proof.
  intros LC NL. apply test_specials_keep. intros sc Hs.
  destruct sc as [|d t]; [right; reflexivity|left].
  destruct (startswith (c :: F) (d :: t)) eqn:S; [|reflexivity]. exfalso.
  pose proof specs_ligatures as SL. rewrite forallb_forall in SL. specialize (SL _ Hs). cbn beta iota in SL.
  assert (d = c). { cbn [startswith] in S. apply andb_true_iff in S. destruct S as [S _]. apply N.eqb_eq in S. exact S. }
  subst d. rewrite LC in SL. cbn [negb orb] in SL. apply existsb_exists in SL. destruct SL as (l & Hl & Sl).
  pose proof (startswith_trans _ _ _ S Sl) as T. rewrite (NL l Hl) in T. discriminate.
Qed.

Lemma nospec_none c F : nospec cx0 c = true -> test_specials specs0 (c :: F) None = None.
Proof. intros H. exact (test_specials_none specs0 c F H). Qed.

(** * Shapes of chunks *)
Lemma shape_cases lt cx al c : shape_ok lt cx al c = true ->
  (al = [AC c] /\ (is_space c || nospec cx c || ligcap c) = true)
  \/ (al <> [] /\ is_space c = false /\ forallb (firm_atom lt cx) al = true).
Proof.
  unfold shape_ok. destruct al as [|[d|i] [|a2 r]]; try discriminate; intros H.
  - left. apply andb_true_iff in H. destruct H as [H1 H2]. apply N.eqb_eq in H1. subst d. split; [reflexivity|exact H2].
  - right. apply andb_true_iff in H. destruct H as [H1 H2]. apply negb_true_iff in H1. split; [discriminate|]. split; assumption.
  - right. apply andb_true_iff in H. destruct H as [H1 H2]. apply negb_true_iff in H1. split; [discriminate|]. split; assumption.
  - right. apply andb_true_iff in H. destruct H as [H1 H2]. apply negb_true_iff in H1. split; [discriminate|]. split; assumption.
Qed.

(** the first character of a chunk; when it could continue a ligature, the chunk is the character itself *)
Lemma first_char al c : shape_ok lt0 cx0 al c = true ->
  exists x r, flat al = x :: r /\ (mem_c x [39; 45; 96] = true -> x = c).
Proof.
  intros H. destruct (shape_cases _ _ _ _ H) as [[-> _]|(NE & _ & FA)].
  - exists c, []. split; [reflexivity|]. intros _. reflexivity.
  - destruct al as [|[d|i] r]; [contradiction NE; reflexivity| |]; cbn [forallb firm_atom] in FA;
      apply andb_true_iff in FA; destruct FA as [FA _].
    + exists d, (flat r). split; [reflexivity|]. intros M. exfalso.
      apply andb_true_iff in FA. destruct FA as [_ NS].
      pose proof lig_seconds as LS. rewrite forallb_forall in LS.
      unfold mem_c in M. apply existsb_exists in M. destruct M as (y & Hy & Ey). apply N.eqb_eq in Ey. subst y.
      specialize (LS d Hy). rewrite NS in LS. discriminate.
    + apply andb_true_iff in FA. destruct FA as [TS _].
      destruct (top_shape_hd i TS) as (x & r0 & E & M).
      exists x, (r0 ++ flat r). split; [cbn [flat flat_map flat_atom]; rewrite E; reflexivity|].
      intros M2. exfalso. cbn [mem_c existsb] in M, M2. rewrite orb_false_r in M, M2.
      repeat (apply orb_true_iff in M; destruct M as [M|M]); apply N.eqb_eq in M; subst x; discriminate M2.
Qed.

(** * The atoms of a string *)
Section Atoms.
  Variable p : prot.
  Variable sl : sls.
  Hypothesis Hbmc : s_bmc sl = true.
  Hypothesis Hblc : s_blc sl = true.
  Notation o := (l2t_opts sl).

  Definition atoms (s : str) : list atom := flat_map (catoms p) s.

  Lemma atoms_cons c s : atoms (c :: s) = catoms p c ++ atoms s.
  Proof. reflexivity. Qed.

  Lemma atoms_flat s : (forall c, In c s -> cover_ok p sl c = true) ->
    flat (atoms s) = concat (map (keep_chunk false p) s).
  Proof.
    induction s as [|c s IH]; intros H; [reflexivity|].
    rewrite atoms_cons, flat_app. cbn [map concat].
    rewrite (proj1 (cover_facts p sl c (H c (or_introl eq_refl)))), IH; [reflexivity|].
    intros d Hd. apply H. right. exact Hd.
  Qed.

  Lemma atoms_good s : (forall c, In c s -> cover_ok p sl c = true) -> forall F, good_atoms cx0 ps0 F (atoms s).
  Proof.
    induction s as [|c s IH]; intros H F; [exact I|].
    rewrite atoms_cons. apply good_atoms_app.
    - exact (proj1 (proj2 (cover_facts p sl c (H c (or_introl eq_refl))))).
    - apply IH. intros d Hd. apply H. right. exact Hd.
  Qed.

  Lemma flat_text_app a b : flat_text lt0 cx0 acc0 o sl (a ++ b)
    = flat_text lt0 cx0 acc0 o sl a ++ flat_text lt0 cx0 acc0 o sl b.
  Proof. unfold flat_text. apply flat_map_app. Qed.

  Lemma atoms_text s : (forall c, In c s -> cover_ok p sl c = true) -> flat_text lt0 cx0 acc0 o sl (atoms s) = s.
  Proof.
    induction s as [|c s IH]; intros H; [reflexivity|].
    rewrite atoms_cons, flat_text_app.
    rewrite (proj2 (proj2 (proj2 (cover_facts p sl c (H c (or_introl eq_refl)))))), IH; [reflexivity|].
    intros d Hd. apply H. right. exact Hd.
  Qed.

  (** ** the structured atoms are core constructs *)
  Lemma cored_app a b : cored lt0 cx0 a -> cored lt0 cx0 b -> cored lt0 cx0 (a ++ b).
  Proof.
    induction a as [|[c|i] a IH]; intros A B; [exact B| |]; cbn [app cored] in *.
    - apply IH; assumption.
    - destruct A as (T & C & A). repeat split; try assumption. apply IH; assumption.
  Qed.

  Lemma firm_cored al : forallb (firm_atom lt0 cx0) al = true -> cored lt0 cx0 al.
  Proof.
    induction al as [|[c|i] al IH]; intros H; [exact I| |]; cbn [forallb firm_atom cored] in *;
      apply andb_true_iff in H; destruct H as [H1 H2].
    - apply IH. exact H2.
    - apply andb_true_iff in H1. destruct H1 as [T C]. split; [exact T|]. split; [|apply IH; exact H2].
      destruct (core_of2 lt0 cx0 i); [discriminate|discriminate C].
  Qed.

  Lemma atoms_cored s : (forall c, In c s -> cover_ok p sl c = true) -> cored lt0 cx0 (atoms s).
  Proof.
    induction s as [|c s IH]; intros H; [exact I|].
    rewrite atoms_cons. apply cored_app; [|apply IH; intros d Hd; apply H; right; exact Hd].
    pose proof (proj1 (proj2 (proj2 (cover_facts p sl c (H c (or_introl eq_refl)))))) as SH.
    destruct (shape_cases _ _ _ _ SH) as [[-> _]|(_ & _ & FA)]; [exact I|apply firm_cored; exact FA].
  Qed.

  (** ** no ligature in the input: no specials sequence between top-level characters *)
  Lemma calm_pre_app l1 : forall l2 F, calm_pre cx0 l1 (flat l2 ++ F) -> calm_pre cx0 l2 F -> calm_pre cx0 (l1 ++ l2) F.
  Proof.
    induction l1 as [|[c|i] l1 IH]; intros l2 F A B; [exact B| |]; cbn [app calm_pre] in *.
    - destruct A as [A1 A2]. split; [|apply IH; assumption].
      intros NS. rewrite flat_app, <- app_assoc. exact (A1 NS).
    - apply IH; assumption.
  Qed.

  Lemma calm_firm al F : forallb (firm_atom lt0 cx0) al = true -> calm_pre cx0 al F.
  Proof.
    induction al as [|[c|i] al IH]; intros H; [exact I| |]; cbn [forallb firm_atom calm_pre] in *;
      apply andb_true_iff in H; destruct H as [H1 H2].
    - split; [|apply IH; exact H2]. intros _. apply andb_true_iff in H1. destruct H1 as [_ NS].
      apply nospec_none. exact NS.
    - apply IH. exact H2.
  Qed.

  Lemma calm_atoms s : (forall c, In c s -> cover_ok p sl c = true) -> has_ligature s = false ->
    calm_pre cx0 (atoms s) [].
  Proof.
    induction s as [|c s IH]; intros H HL; [exact I|].
    cbn [has_ligature] in HL. apply orb_false_iff in HL. destruct HL as [HL1 HL2].
    assert (Hs : forall d, In d s -> cover_ok p sl d = true) by (intros d Hd; apply H; right; exact Hd).
    rewrite atoms_cons. apply calm_pre_app; [|exact (IH Hs HL2)].
    pose proof (proj1 (proj2 (proj2 (cover_facts p sl c (H c (or_introl eq_refl)))))) as SH.
    destruct (shape_cases _ _ _ _ SH) as [[-> SO]|(_ & _ & FA)]; [|apply calm_firm; exact FA].
    cbn [calm_pre]. split; [|exact I]. intros NS. cbn [flat flat_map app]. rewrite app_nil_r.
    rewrite NS in SO. cbn [orb] in SO. apply orb_true_iff in SO. destruct SO as [SO|LC]; [apply nospec_none; exact SO|].
    apply lig_none; [exact LC|]. intros l Hl.
    destruct (startswith (c :: flat (atoms s)) l) eqn:S; [|reflexivity]. exfalso.
    (* the ligature would be in the input *)
    assert (HLl : startswith (c :: s) l = false).
    { destruct (startswith (c :: s) l) eqn:E; [|reflexivity].
      assert (X : existsb (fun l0 => startswith (c :: s) l0) ligatures = true) by (apply existsb_exists; exists l; split; assumption).
      rewrite X in HL1. discriminate. }
    assert (L2 : exists l1 l2, l = [l1; l2] /\ mem_c l2 [39; 45; 96] = true).
    { cbn [ligatures In] in Hl. destruct Hl as [<-|[<-|[<-|[<-|[<-|[]]]]]]; eexists; eexists; split; reflexivity. }
    destruct L2 as (l1 & l2 & -> & M2).
    cbn [startswith] in S, HLl. apply andb_true_iff in S. destruct S as [S1 S2].
    rewrite S1 in HLl. cbn [andb] in HLl.
    destruct s as [|c' s']; [cbn in S2; discriminate S2|].
    rewrite atoms_cons, flat_app in S2.
    pose proof (proj1 (proj2 (proj2 (cover_facts p sl c' (H c' (or_intror (or_introl eq_refl))))))) as SH'.
    destruct (first_char _ _ SH') as (x & r & E & FX). rewrite E in S2. cbn [app] in S2.
    apply andb_true_iff in S2. destruct S2 as [S2 _]. apply N.eqb_eq in S2. subst x.
    specialize (FX M2). subst c'. cbn [startswith] in HLl. rewrite N.eqb_refl, FsProofs.startswith_nil in HLl. discriminate HLl.
  Qed.

  (** ** clean whitespace runs *)
  Lemma wsclean_nil : wsclean [] = true. Proof. reflexivity. Qed.

  Lemma runs_firm al : forallb (firm_atom lt0 cx0) al = true -> al <> [] -> forall ws A,
    runs_clean ws (al ++ A) = wsclean ws && runs_clean [] A.
  Proof.
    induction al as [|a al IH]; intros FA NE ws A; [contradiction NE; reflexivity|].
    cbn [forallb] in FA. apply andb_true_iff in FA. destruct FA as [F1 F2].
    assert (T : runs_clean [] (al ++ A) = runs_clean [] A).
    { destruct al as [|a2 al2]; [reflexivity|]. rewrite (IH F2 ltac:(discriminate) [] A). reflexivity. }
    destruct a as [d|i]; cbn [app runs_clean].
    - cbn [firm_atom] in F1. apply andb_true_iff in F1. destruct F1 as [NS _]. apply negb_true_iff in NS.
      rewrite NS, T. reflexivity.
    - rewrite T. reflexivity.
  Qed.

  Lemma atoms_runs s : (forall c, In c s -> cover_ok p sl c = true) -> forall ws,
    par_clean_from ws s = true -> runs_clean ws (atoms s) = true.
  Proof.
    induction s as [|c s IH]; intros H ws PC; [exact PC|].
    assert (Hs : forall d, In d s -> cover_ok p sl d = true) by (intros d Hd; apply H; right; exact Hd).
    pose proof (proj1 (proj2 (proj2 (cover_facts p sl c (H c (or_introl eq_refl)))))) as SH.
    rewrite atoms_cons. cbn [par_clean_from] in PC.
    destruct (shape_cases _ _ _ _ SH) as [[-> _]|(NE & NS & FA)].
    - cbn [app runs_clean]. destruct (is_space c).
      + apply IH; assumption.
      + apply andb_true_iff in PC. destruct PC as [P1 P2]. rewrite P1, (IH Hs [] P2). reflexivity.
    - rewrite NS in PC. apply andb_true_iff in PC. destruct PC as [P1 P2].
      rewrite (runs_firm _ FA NE), P1, (IH Hs [] P2). reflexivity.
  Qed.

  (** * The round trip *)
  Theorem roundtrip_covered s :
    (forall c, In c s -> cover_ok p sl c = true) -> has_ligature s = false -> par_clean s = true ->
    roundtrip p sl s = Some s.
  Proof.
    intros H HL PC. unfold roundtrip. rewrite encode_builtin_keep. rewrite <- (atoms_flat s H).
    pose proof (atoms_good s H []) as G.
    destruct (asm_total cx0 default_cx_ok ps0 (atoms s) [] [] G (startswith_nil _) eq_refl) as [[its tr] A].
    pose proof (asm_unparse cx0 ps0 (atoms s) [] [] [] its tr G (or_introl eq_refl) eq_refl A) as U.
    destruct (asm_ok cx0 default_cx_ok ps0 (atoms s) [] [] its tr G (or_introl eq_refl) eq_refl A) as [O1 O2].
    destruct (asm_text lt0 cx0 acc0 o sl par_core0 (atoms s) [] its tr (atoms_cored s H) (calm_atoms s H HL) A) as [HC TX].
    pose (d := {| d_items2 := its; d_trail2 := tr |}).
    assert (OD : ok_doc2 cx0 d = true).
    { unfold ok_doc2, ok_doc2_in, d. cbn [d_items2 d_trail2]. change (walker_state cx0) with ps0.
      rewrite O1, O2. reflexivity. }
    destruct (cores_items2_total lt0 cx0 its HC k0) as [k' CK].
    assert (DC : doc_cores2 lt0 cx0 d = Some (kclose k' tr)).
    { unfold doc_cores2, d. cbn [d_items2 d_trail2]. rewrite CK. reflexivity. }
    assert (UD : unparse2 d = flat (atoms s)).
    { unfold unparse2, d. cbn [d_items2 d_trail2]. cbn [app] in U. symmetry. exact U. }
    rewrite <- UD, (end_to_end2 d _ OD DC o). cbn [d_err d0]. change (o_sls o) with sl. fold acc0.
    rewrite (doc_text lt0 cx0 acc0 o sl Hbmc Hblc d _ DC). unfold d. cbn [d_items2 d_trail2]. rewrite TX.
    rewrite (ntext_clean lt0 cx0 acc0 o sl par_core0 (atoms s) [] eq_refl (atoms_runs s H [] PC)).
    cbn [app]. rewrite (atoms_text s H). reflexivity.
  Qed.
End Atoms.
