(** Property C03, compositionality: the only interaction between neighbouring
    items of [Render.render] is the junction rule (post-space of a bare symbol
    macro in front of text); everything else is concatenation.  Consequences:
    blocks joined by a paragraph break or by spaces, at the level of [render]
    and of the latex2text model [L2T.node_text]. *)
From Coq Require Import NArith ZArith List Bool Arith Lia.
From PLV Require Import Base.PyStr Tok.Tokenizer Parse.Nodes Parse.Parser L2T.L2T L2T.Render.
From PLV Require Import Proofs.FsProofs Proofs.VisitorProofs Proofs.RenderModel Proofs.RenderProofs.
Import ListNotations.

(** * Blank strings *)
Lemma strip_left_nil_iff f s : strip_left f s = [] <-> forallb f s = true.
Proof.
  induction s as [|c r IH]; cbn [strip_left forallb]; [tauto|].
  destruct (f c); cbn [andb]; [exact IH|]. split; discriminate.
Qed.
Lemma strip_left_app_keep f a c : f c = false -> strip_left f (a ++ [c]) <> [].
Proof.
  intros Hc. induction a as [|x a IH]; cbn [app strip_left].
  - rewrite Hc. discriminate.
  - destruct (f x); [exact IH|discriminate].
Qed.
Lemma strip_nil_iff f s : strip f s = [] <-> forallb f s = true.
Proof.
  unfold strip, strip_right. split.
  - intros H. apply strip_left_nil_iff.
    destruct (strip_left f s) as [|c r] eqn:E; [reflexivity|]. exfalso.
    (* the first kept character does not satisfy [f]: it survives the right strip *)
    assert (Hc : f c = false).
    { clear H. induction s as [|x s IH]; [discriminate E|]. cbn [strip_left] in E.
      destruct (f x) eqn:Ex; [now apply IH|]. injection E as <- _. exact Ex. }
    apply (f_equal (@rev N)) in H. rewrite rev_involutive in H. cbn [rev] in H.
    revert H. apply strip_left_app_keep. exact Hc.
  - intros H. apply strip_left_nil_iff in H. rewrite H. reflexivity.
Qed.
Lemma is_blank_forallb x : is_blank x = forallb is_space x.
Proof.
  unfold is_blank, py_strip. destruct (strip is_space x) as [|c r] eqn:E.
  - symmetry. now apply strip_nil_iff.
  - destruct (forallb is_space x) eqn:F; [|reflexivity]. apply strip_nil_iff in F. congruence.
Qed.
Lemma is_blank_app x y : is_blank (x ++ y) = is_blank x && is_blank y.
Proof. rewrite !is_blank_forallb. apply forallb_app. Qed.

Section Compose.
  Variable acc : N -> N -> str.
  Variable o : opts.

  (** the item in front of what follows the list [a] (itself following [pk]) *)
  Fixpoint last_item (pk : option core) (a : list core) : option core :=
    match a with [] => pk | k :: r => last_item (Some k) r end.

  Lemma last_item_app pk a b : last_item pk (a ++ b) = last_item (last_item pk a) b.
  Proof. revert pk. induction a as [|k r IH]; intros pk; cbn [app last_item]; [reflexivity|apply IH]. Qed.
  Lemma last_item_snoc pk a k : last_item pk (a ++ [k]) = Some k.
  Proof. now rewrite last_item_app. Qed.

  Lemma glue_none sl k : glue sl None k = [].
  Proof. reflexivity. Qed.

  Lemma render_single sl k : render acc o sl [k] = render1 acc o sl k.
  Proof. unfold render. cbn [render_from]. now rewrite glue_none, app_nil_r. Qed.

  Lemma render_from_glue sl pk l :
    render_from acc o sl pk l = match l with [] => [] | k :: _ => glue sl pk k end ++ render acc o sl l.
  Proof. destruct l as [|k r]; [reflexivity|]. unfold render. cbn [render_from]. now rewrite glue_none. Qed.

  Lemma render_from_app sl pk a b :
    render_from acc o sl pk (a ++ b) = render_from acc o sl pk a ++ render_from acc o sl (last_item pk a) b.
  Proof.
    revert pk. induction a as [|k r IH]; intros pk; cbn [app render_from last_item]; [reflexivity|].
    now rewrite IH, !app_assoc.
  Qed.

  (** what is emitted between the lists [a] and [b] when they are put side by side *)
  Definition junction (sl : sls) (a b : list core) : str :=
    match b with [] => [] | k :: _ => glue sl (last_item None a) k end.

  (** THE compositionality law *)
  Theorem render_app sl a b :
    render acc o sl (a ++ b) = render acc o sl a ++ junction sl a b ++ render acc o sl b.
  Proof. unfold render at 1. rewrite render_from_app. fold (render acc o sl a). now rewrite render_from_glue. Qed.

  (** ... and exactly when the junction is empty *)
  Definition ends_with_spaced_symbol (a : list core) : bool :=
    match last_item None a with Some (KSymbol _ (_ :: _)) => true | _ => false end.
  Definition starts_with_text (b : list core) : bool :=
    match b with KText _ :: _ => true | _ => false end.

  Lemma junction_nil_iff sl a b :
    junction sl a b = [] <->
    (s_bmc sl = true \/ ends_with_spaced_symbol a = false \/ starts_with_text b = false).
  Proof.
    unfold junction, ends_with_spaced_symbol, starts_with_text.
    destruct b as [|k r]; [tauto|]. rewrite glue_eq.
    destruct (last_item None a) as [[]|]; cbn [bare_post]; try tauto.
    destruct k; cbn [is_text andb]; try tauto.
    destruct (s_bmc sl); cbn [negb]; [tauto|].
    destruct post; [tauto|]. split; [discriminate|]. intros [H|[H|H]]; discriminate H.
  Qed.

  Theorem render_app_free sl a b :
    s_bmc sl = true \/ ends_with_spaced_symbol a = false \/ starts_with_text b = false ->
    render acc o sl (a ++ b) = render acc o sl a ++ render acc o sl b.
  Proof. intros H. apply junction_nil_iff in H. now rewrite render_app, H. Qed.

  Theorem render_app_not_free sl a b :
    s_bmc sl = false -> ends_with_spaced_symbol a = true -> starts_with_text b = true ->
    render acc o sl (a ++ b) <> render acc o sl a ++ render acc o sl b.
  Proof.
    intros H1 H2 H3 E. rewrite render_app in E. apply app_inv_head in E.
    assert (J : junction sl a b = []).
    { apply (f_equal (@length N)) in E. rewrite app_length in E.
      destruct (junction sl a b); [reflexivity|]. cbn [length] in E. lia. }
    apply junction_nil_iff in J. destruct J as [J|[J|J]]; congruence.
  Qed.

  (** an item that neither is text nor a bare symbol macro separates its neighbours completely *)
  Theorem render_around sl a k b :
    is_text k = false -> bare_post (Some k) = None ->
    render acc o sl (a ++ [k] ++ b) = render acc o sl a ++ render1 acc o sl k ++ render acc o sl b.
  Proof.
    intros Hk1 Hk2. rewrite render_app. rewrite (render_app sl [k] b).
    assert (J1 : junction sl a ([k] ++ b) = []).
    { unfold junction. cbn [app]. rewrite glue_eq. rewrite Hk1.
      destruct (bare_post (last_item None a)); reflexivity. }
    assert (J2 : junction sl [k] b = []).
    { unfold junction. destruct b as [|k' r]; [reflexivity|]. cbn [last_item]. rewrite glue_eq, Hk2. reflexivity. }
    rewrite J1, J2, render_single. reflexivity.
  Qed.

  (** blocks joined by a paragraph break: no side condition at all *)
  Theorem compositional_par sl a b :
    render acc o sl (a ++ [KPar] ++ b) = render acc o sl a ++ [10; 10]%N ++ render acc o sl b.
  Proof. now rewrite render_around. Qed.

  (** * Whitespace next to text is part of the character node *)
  Definition text_kept (sl : sls) (t : str) : Prop := s_blc sl = true \/ is_blank t = false.

  Lemma render1_text_kept sl t : text_kept sl t -> render1 acc o sl (KText t) = t.
  Proof. intros [H|H]; cbn [render1]; rewrite H; [reflexivity|]. now rewrite andb_false_r. Qed.
  Lemma text_kept_app_r sl t w : text_kept sl t -> text_kept sl (t ++ w).
  Proof. intros [H|H]; [now left|right]. now rewrite is_blank_app, H. Qed.
  Lemma text_kept_app_l sl t w : text_kept sl t -> text_kept sl (w ++ t).
  Proof. intros [H|H]; [now left|right]. now rewrite is_blank_app, H, andb_false_r. Qed.

  Lemma render_snoc_text sl a t :
    render acc o sl (a ++ [KText t]) = render acc o sl a ++ junction sl a [KText t] ++ render1 acc o sl (KText t).
  Proof. now rewrite render_app, render_single. Qed.

  (** trailing whitespace of the last text of a block *)
  Theorem render_text_end sl a0 t w :
    text_kept sl t -> render acc o sl (a0 ++ [KText (t ++ w)]) = render acc o sl (a0 ++ [KText t]) ++ w.
  Proof.
    intros H. rewrite !render_snoc_text.
    rewrite (render1_text_kept sl (t ++ w)) by now apply text_kept_app_r.
    rewrite (render1_text_kept sl t) by exact H.
    unfold junction. now rewrite <- !app_assoc.
  Qed.

  Lemma render_cons_text sl t b0 :
    render acc o sl (KText t :: b0) = render1 acc o sl (KText t) ++ render acc o sl b0.
  Proof.
    change (KText t :: b0) with ([KText t] ++ b0). rewrite render_app.
    assert (J : junction sl [KText t] b0 = []).
    { unfold junction. destruct b0; [reflexivity|]. cbn [last_item]. now rewrite glue_eq. }
    now rewrite J, render_single.
  Qed.

  (** leading whitespace of the first text of a block *)
  Theorem render_text_start sl w u b0 :
    text_kept sl u -> render acc o sl (KText (w ++ u) :: b0) = w ++ render acc o sl (KText u :: b0).
  Proof.
    intros H. rewrite !render_cons_text.
    rewrite (render1_text_kept sl (w ++ u)) by now apply text_kept_app_l.
    rewrite (render1_text_kept sl u) by exact H. now rewrite <- app_assoc.
  Qed.

  (** two blocks, the first ending with text [t], the second starting with text
      [u], joined by the characters [ws] (spaces, a single newline): in the tree
      the three runs are ONE character node *)
  Theorem compositional_space sl a0 t ws u b0 :
    text_kept sl t -> text_kept sl u ->
    render acc o sl (a0 ++ [KText (t ++ ws ++ u)] ++ b0)
    = render acc o sl (a0 ++ [KText t]) ++ ws ++ render acc o sl (KText u :: b0).
  Proof.
    intros Ht Hu. rewrite app_assoc, render_app.
    assert (J : junction sl (a0 ++ [KText (t ++ ws ++ u)]) b0 = []).
    { unfold junction. destruct b0; [reflexivity|]. now rewrite last_item_snoc, glue_eq. }
    rewrite J. cbn [app]. rewrite render_text_end by exact Ht.
    rewrite render_cons_text, (render1_text_kept sl u) by exact Hu. now rewrite <- !app_assoc.
  Qed.

  (** the same with a paragraph break: the whitespace [pre] in front of the first
      newline joins the text before, the whitespace [tail] after the last
      newline joins the text after *)
  Theorem compositional_par_text sl a0 t pre tail u b0 :
    text_kept sl t -> text_kept sl u ->
    render acc o sl ((a0 ++ [KText (t ++ pre)]) ++ [KPar] ++ (KText (tail ++ u) :: b0))
    = render acc o sl (a0 ++ [KText t]) ++ pre ++ [10; 10]%N ++ tail ++ render acc o sl (KText u :: b0).
  Proof.
    intros Ht Hu. rewrite compositional_par, render_text_end, render_text_start by assumption.
    now rewrite <- !app_assoc.
  Qed.
End Compose.

(** * The same for the model *)
Section ModelCompose.
  Variable src : str.
  Variable lt : l2tctx.
  Variable cx : context.
  Variable o : opts.
  Notation nt := (node_text src lt cx o).
  Notation absl := (abstract_items src lt).
  Notation acc := (nfc_accent lt).

  Lemma abstract_items_app na nb :
    absl (na ++ nb) = match absl na, absl nb with Some a, Some b => Some (a ++ b) | _, _ => None end.
  Proof.
    induction na as [|[n|] r IH]; cbn [app abstract_items].
    - now destruct (absl nb).
    - destruct (abstract src lt n); [|reflexivity]. rewrite IH.
      destruct (absl r), (absl nb); reflexivity.
    - reflexivity.
  Qed.

  (** the text of a core node list *)
  Definition text_of (sl : sls) (l : list (option node)) : str := fst (nt sl d0 (NList None None l)).

  Lemma text_of_core sl l ks : absl l = Some ks -> text_of sl l = render acc o sl ks.
  Proof. intros H. unfold text_of. now rewrite (tree_level src lt cx o l ks H). Qed.

  Theorem model_compositional_par sl st p e na nb a b par :
    absl na = Some a -> absl nb = Some b -> abstract src lt par = Some KPar ->
    nt sl st (NList p e (na ++ [Some par] ++ nb)) = (text_of sl na ++ [10; 10]%N ++ text_of sl nb, st).
  Proof.
    intros Ha Hb Hp.
    assert (H : absl (na ++ [Some par] ++ nb) = Some (a ++ [KPar] ++ b)).
    { rewrite !abstract_items_app, Ha, Hb. cbn [abstract_items]. now rewrite Hp. }
    rewrite (tree_level src lt cx o _ _ H), compositional_par.
    now rewrite (text_of_core sl na a Ha), (text_of_core sl nb b Hb).
  Qed.

  Theorem model_compositional_space sl st p e na0 nb0 a0 b0 t ws u p1 e1 m1 p2 e2 m2 p3 e3 m3 :
    absl na0 = Some a0 -> absl nb0 = Some b0 -> text_kept sl t -> text_kept sl u ->
    nt sl st (NList p e (na0 ++ [Some (NChars p1 e1 m1 (t ++ ws ++ u))] ++ nb0))
    = (text_of sl (na0 ++ [Some (NChars p2 e2 m2 t)]) ++ ws ++ text_of sl (Some (NChars p3 e3 m3 u) :: nb0), st).
  Proof.
    intros Ha Hb Ht Hu.
    assert (H : absl (na0 ++ [Some (NChars p1 e1 m1 (t ++ ws ++ u))] ++ nb0)
                = Some (a0 ++ [KText (t ++ ws ++ u)] ++ b0)).
    { rewrite !abstract_items_app, Ha, Hb. reflexivity. }
    assert (H1 : absl (na0 ++ [Some (NChars p2 e2 m2 t)]) = Some (a0 ++ [KText t])).
    { rewrite abstract_items_app, Ha. reflexivity. }
    assert (H2 : absl (Some (NChars p3 e3 m3 u) :: nb0) = Some (KText u :: b0)).
    { cbn [abstract_items abstract]. now rewrite Hb. }
    rewrite (tree_level src lt cx o _ _ H), compositional_space by assumption.
    now rewrite (text_of_core sl _ _ H1), (text_of_core sl _ _ H2).
  Qed.
End ModelCompose.

(** * The documented rules, read off the specification *)
Theorem render_rules (acc : N -> N -> str) (o : opts) (sl : sls) :
  (* text is copied; whitespace-only text is dropped unless strict between-latex-constructs *)
  (forall c, is_blank c = false -> render1 acc o sl (KText c) = c)
  /\ (forall c, is_blank c = true -> render1 acc o sl (KText c) = if s_blc sl then c else [])
  (* comments vanish, leaving their post-space unless strict after-comment *)
  /\ (forall c p, o_keep_comments o = false -> render1 acc o sl (KComment c p) = if s_ac sl then [] else p)
  (* groups and formatting macros are transparent *)
  /\ (forall b, o_kbg o = false -> render1 acc o sl (KGroup b) = render acc o sl b)
  /\ (forall b, render1 acc o sl (KTransparent b) = render acc o sl b)
  /\ (forall b, render1 acc o sl (KEnvBody b) = render acc o sl b)
  /\ (forall pre post b, render1 acc o sl (KEnvWrap pre post b) = pre ++ render acc o sl b ++ post)
  (* symbols and specials become their replacement *)
  /\ (forall r p, render1 acc o sl (KSymbol r p) = r) /\ (forall r, render1 acc o sl (KSpecials r) = r)
  (* accents: every character of the stripped text of the argument's CONTENTS gets the combining mark: a braced
     argument contributes the rendering of its body (its braces are argument delimiters: never kept, whatever
     keep_braced_groups says), any other argument (a single token) its own rendering *)
  /\ (forall comb b, render1 acc o sl (KAccent comb (KGroup b))
                     = flat_map (fun ch => acc ch comb) (py_strip (render acc o sl b)))
  /\ (forall comb k, (forall b, k <> KGroup b) ->
                     render1 acc o sl (KAccent comb k)
                     = flat_map (fun ch => acc ch comb) (py_strip (render1 acc o sl k)))
  (* inline math is inlined, display math is an indented block, under the in-equations policy *)
  /\ (forall dl dr v b, o_math o = MMText ->
        render1 acc o sl (KMath false dl dr v b) = py_strip (render acc o (push_eq sl) b)
        /\ render1 acc o sl (KMath true dl dr v b) = indent_block (py_strip (render acc o (push_eq sl) b)))
  (* the post-space of a bare symbol macro goes in front of following text unless strict between-macro-and-chars *)
  /\ (forall r p c k, render acc o sl [KSymbol r p; KText c]
                      = r ++ (if s_bmc sl then [] else p) ++ render1 acc o sl (KText c)
                      /\ (is_text k = false -> render acc o sl [KSymbol r p; k] = r ++ render1 acc o sl k)).
Proof.
  repeat split; intros.
  - cbn [render1]. now rewrite H, andb_false_r.
  - cbn [render1]. rewrite H, andb_true_r. now destruct (s_blc sl).
  - cbn [render1]. now rewrite H.
  - rewrite render1_group, H. reflexivity.
  - destruct k; try reflexivity. now elim (H body).
  - rewrite render1_math, H. reflexivity.
  - rewrite render1_math, H. reflexivity.
  - unfold render. cbn [render_from glue render1]. rewrite app_nil_r. reflexivity.
  - unfold render. cbn [render_from]. rewrite !glue_eq, H. cbn [bare_post andb render1 app]. now rewrite app_nil_r.
Qed.
