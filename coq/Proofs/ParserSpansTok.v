(** C01 — token-level facts the span proofs need beyond [TokProofs]: what a
    token's text is (relative to the source slice of its span), what stands at
    a token's position, the invariant of the parsing states the parser builds,
    and the context conditions. *)
From Coq Require Import NArith List Bool Arith Lia.
From PLV Require Import Base.PyStr Tok.PState Tok.Tokenizer Parse.Nodes Parse.Parser
  Proofs.PyStrFacts Proofs.TokProofs Proofs.PStateProofs Proofs.ParserSpansDefs.
Import ListNotations.

(** * Small string facts *)
Lemma sp_str_eqb_eq (a b : str) : str_eqb a b = true -> a = b.
Proof.
  unfold str_eqb. revert b. induction a as [|x a IH]; intros [|y b] H; try discriminate; auto.
  apply andb_prop in H. destruct H as [H1 H2]. apply N.eqb_eq in H1. subst. f_equal. auto.
Qed.

Lemma startswith_firstn (x d : str) : startswith x d = true -> firstn (length d) x = d.
Proof.
  revert x. induction d as [|c d IH]; intros x H; [reflexivity|].
  destruct x as [|y x]; [discriminate|]. cbn [startswith] in H.
  apply andb_true_iff in H. destruct H as [H1 H2]. apply N.eqb_eq in H1. subst y.
  cbn [length firstn]. f_equal. apply IH. exact H2.
Qed.

Lemma startswith_slice (s d : str) p : startswith (skipn p s) d = true -> slice s p (p + length d) = d.
Proof. intros H. rewrite <- slice_prefix. apply startswith_firstn. exact H. Qed.

Lemma nth_error_skipn_ex (s : str) p c : nth_error s p = Some c -> exists r, skipn p s = c :: r.
Proof.
  revert s. induction p as [|p IH]; intros [|x s] H; try discriminate.
  - cbn in H. injection H as ->. eexists. reflexivity.
  - cbn [nth_error] in H. cbn [skipn]. apply IH. exact H.
Qed.

Lemma span_rest_head f (l a b : str) c : span f l = (a, c :: b) -> f c = false.
Proof.
  revert a. induction l as [|x l IH]; intros a H; cbn [span] in H; [discriminate|].
  destruct (f x) eqn:E.
  - destruct (span f l) as [a' b'] eqn:S. injection H as <- ->. eapply IH. reflexivity.
  - injection H as <- -> ->. exact E.
Qed.

(** * Strict mode reads tokens with [impl_peek] *)
Lemma next_tok_strict s ps p : next_tok s false ps p = impl_peek ps s p.
Proof.
  unfold next_tok, next_token, peek_token, rd_at. cbn [r_s r_pos r_tol].
  destruct (impl_peek ps s p); reflexivity.
Qed.
Lemma peek_tok_strict s ps p : peek_tok s false ps p = impl_peek ps s p.
Proof.
  unfold peek_tok, peek_token, rd_at. cbn [r_s r_pos r_tol].
  destruct (impl_peek ps s p); reflexivity.
Qed.

(** * Whitespace after a macro / comment is a slice *)
Lemma post_space_at_txt s p : p <= length s ->
  fst (post_space_at s p) = slice s p (snd (post_space_at s p)) /\
  p <= snd (post_space_at s p) /\ snd (post_space_at s p) <= length s.
Proof.
  intros H. pose proof (post_space_at_spec s p H) as [Q1 Q2]. split; [|split; assumption].
  unfold post_space_at in *.
  destruct (peek_space_spec s p H) as (A & B & C).
  destruct (peek_space s p) as [sp pe] eqn:E. cbn [fst snd] in *.
  destruct (Nat.leb 2 (count_c 10 sp)); cbn [fst snd] in *.
  - rewrite B at 2. rewrite firstn_firstn_le by apply find_nl_le. apply slice_prefix.
  - rewrite B at 1. subst pe. apply slice_prefix.
Qed.

(** * The kinds in the math tables *)
Definition is_math_kind (k : tokkind) : bool :=
  match k with TkMathInline | TkMathDisplay => true | _ => false end.
Definition math_kinds_ok (ps : pstate) : bool :=
  forallb (fun x : str * tokkind => is_math_kind (snd x)) (c_math_by_len (ps_c ps))
  && match c_expect_close (ps_c ps) with Some (_, k) => is_math_kind k | None => true end.

(** * Token text *)
Definition tok_txt (s cm : str) (t : token) : Prop :=
  match tk t with
  | TkChar | TkBraceOpen | TkBraceClose | TkMathInline | TkMathDisplay =>
      targ t = slice s (tpos t) (tend t)
  | TkSpecials => targ t = slice s (tpos t) (tend t) \/ targ t = [10; 10]%N
  | TkComment => cm ++ targ t ++ tpost t = slice s (tpos t) (tend t)
  | _ => True
  end.

Definition nonspace_at (s : str) (p : nat) : Prop :=
  exists c, nth_error s p = Some c /\ is_space c = false.

Section DispatchTxt.
  Variables (ps : pstate) (s rest : str) (pos : nat) (pre : str) (c : N).
  Hypothesis MK : math_kinds_ok ps = true.
  Hypothesis Hrest : skipn pos s = rest.
  Hypothesis Hc : exists r, rest = c :: r.

  (** text of a token produced by the first-character dispatch *)
  Definition dtxt (t : token) : Prop :=
    match tk t with
    | TkChar | TkBraceOpen | TkBraceClose | TkMathInline | TkMathDisplay | TkSpecials =>
        targ t = slice s (tpos t) (tend t)
    | TkComment => f_comment (ps_f ps) ++ targ t ++ tpost t = slice s (tpos t) (tend t)
    | _ => True
    end.

  Lemma sw_slice d : startswith rest d = true -> d = slice s pos (pos + length d).
  Proof. intros H. rewrite <- Hrest in H. symmetry. apply startswith_slice. exact H. Qed.

  Lemma c_at_pos : nth_error s pos = Some c.
  Proof. destruct Hc as [r Hr]. rewrite Hr in Hrest. eapply nth_error_skipn. exact Hrest. Qed.

  Lemma stage_math_txt t : stage_math ps rest pos pre c = Some (TokOk t) -> dtxt t.
  Proof.
    unfold stage_math. destruct (_ && _); [|discriminate].
    destruct (read_math ps rest pos pre) as [t0|] eqn:E; [|discriminate].
    intros H. injection H as ->.
    unfold math_kinds_ok in MK. apply andb_true_iff in MK. destruct MK as [W1 W2].
    assert (LOOP : forall l, forallb (fun x : str * tokkind => is_math_kind (snd x)) l = true ->
       forall t0,
       (fix go (l : list (str * tokkind)) : option token :=
          match l with
          | [] => None
          | (d, k) :: r => if startswith rest d then Some (mk k d pos (pos + length d) pre []) else go r
          end) l = Some t0 -> dtxt t0).
    { induction l as [|[d k] l IH]; intros F t0 H; [discriminate|].
      cbn [forallb snd] in F. apply andb_true_iff in F. destruct F as [F1 F2].
      destruct (startswith rest d) eqn:S.
      - injection H as <-. unfold dtxt, mk. cbn [tk targ tpos tend].
        apply sw_slice in S. destruct k; try discriminate; exact S.
      - apply IH; assumption. }
    unfold read_math in E.
    destruct (f_in_math (ps_f ps)).
    - destruct (c_expect_close (ps_c ps)) as [[cd k]|].
      + destruct (startswith rest cd) eqn:S.
        * injection E as <-. unfold dtxt, mk. cbn [tk targ tpos tend].
          apply sw_slice in S. destruct k; try discriminate; exact S.
        * eapply LOOP; eassumption.
      + eapply LOOP; eassumption.
    - eapply LOOP; eassumption.
  Qed.

  Lemma read_macro_txt t : read_macro ps s pos pre = TokOk t -> dtxt t.
  Proof.
    unfold read_macro. destruct (skipn (S pos) s) as [|d r]; [discriminate|].
    destruct (mem_c d (f_alpha (ps_f ps))).
    - destruct (post_space_at s _) as [post pe]. intros H. injection H as <-. exact I.
    - intros H. injection H as <-. exact I.
  Qed.

  Lemma read_environment_txt b t : read_environment ps s pos b pre = TokOk t -> dtxt t.
  Proof.
    unfold read_environment. destruct (match_envname _) as [[nm len]|]; [|discriminate].
    intros H. injection H as <-. unfold dtxt, mk. cbn [tk]. destruct b; exact I.
  Qed.

  Lemma stage_escape_txt t : stage_escape ps s pos pre c = Some (TokOk t) -> dtxt t.
  Proof.
    unfold stage_escape. destruct (str_eqb [c] (f_escape (ps_f ps))); [|discriminate].
    set (r1 := skipn (S pos) s).
    assert (M : forall x, (if f_en_macros (ps_f ps) then Some (read_macro ps s pos pre) else None)
                          = Some (TokOk x) -> dtxt x).
    { intros x. destruct (f_en_macros (ps_f ps)); [|discriminate]. intros H. injection H as H.
      apply read_macro_txt. exact H. }
    destruct (f_en_envs (ps_f ps)); [|apply M].
    destruct (startswith r1 kw_begin).
    - destruct (char_at s (pos + 1 + 5)) as [d|].
      + destruct (mem_c d (f_alpha (ps_f ps))); [apply M|].
        intros H. injection H as H. eapply read_environment_txt. exact H.
      + intros H. injection H as H. eapply read_environment_txt. exact H.
    - destruct (startswith r1 kw_end); [|apply M].
      destruct (char_at s (pos + 1 + 3)) as [d|].
      + destruct (mem_c d (f_alpha (ps_f ps))); [apply M|].
        intros H. injection H as H. eapply read_environment_txt. exact H.
      + intros H. injection H as H. eapply read_environment_txt. exact H.
  Qed.

  Lemma stage_comment_txt t : stage_comment ps s rest pos pre c = Some (TokOk t) -> dtxt t.
  Proof.
    unfold stage_comment. destruct (f_comment (ps_f ps)) as [|c0 cr] eqn:CE; [discriminate|].
    destruct (_ && _) eqn:G; [|discriminate]. intros H. injection H as <-.
    apply andb_true_iff in G. destruct G as [_ G].
    pose proof (sw_slice _ G) as SL.
    assert (PB : pos + length (c0 :: cr) <= length s).
    { apply startswith_length in G. rewrite <- Hrest, skipn_length in G.
      destruct Hc as [r Hr]. rewrite Hr in Hrest. apply skipn_cons_lt in Hrest. lia. }
    unfold read_comment. rewrite CE. set (inner := pos + length (c0 :: cr)) in *.
    destruct (find_from s [10%N] inner) as [sp|] eqn:F.
    - apply find_from_bound in F. cbn [length] in F. destruct F as [F1 F2].
      assert (SPL : sp <= length s) by lia.
      destruct (post_space_at_txt s sp SPL) as (T1 & T2 & T3).
      destruct (post_space_at s sp) as [post pe]. cbn [fst snd] in *.
      unfold dtxt, mk. cbn [tk targ tpost tpos tend]. rewrite CE.
      rewrite SL at 1. fold inner. rewrite T1.
      rewrite (slice_app3 s inner sp pe) by lia. apply slice_app3; lia.
    - unfold dtxt, mk. cbn [tk targ tpost tpos tend]. rewrite CE. rewrite app_nil_r.
      rewrite SL at 1. fold inner. apply slice_app3; lia.
  Qed.

  Lemma stage_group_txt t : stage_group ps pos pre c = Some (TokOk t) -> dtxt t.
  Proof.
    pose proof (slice_one s pos c c_at_pos) as S1.
    unfold stage_group. destruct (f_en_groups (ps_f ps)); [|discriminate].
    destruct (existsb _ (c_group_open _)).
    - intros H. injection H as <-. unfold dtxt, mk. cbn [tk targ tpos tend]. symmetry. exact S1.
    - destruct (existsb _ (c_group_close _)); [|discriminate].
      intros H. injection H as <-. unfold dtxt, mk. cbn [tk targ tpos tend]. symmetry. exact S1.
  Qed.

  Lemma stage_specials_txt t : stage_specials ps rest pos pre = Some (TokOk t) -> dtxt t.
  Proof.
    unfold stage_specials. destruct (f_ctx_specials (ps_f ps)) as [l|]; [|discriminate].
    destruct (f_en_specials (ps_f ps)); [|discriminate].
    destruct (test_specials l rest None) as [sc|] eqn:E; [|discriminate].
    intros H. injection H as <-. apply test_specials_spec in E. destruct E as [E|[E1 E2]]; [discriminate|].
    unfold dtxt, mk. cbn [tk targ tpos tend]. apply sw_slice. exact E1.
  Qed.

  Lemma char_token_txt t : char_token ps c pos pre = TokOk t -> dtxt t.
  Proof.
    pose proof (slice_one s pos c c_at_pos) as S1.
    unfold char_token. destruct (mem_c c (f_forbidden (ps_f ps))); [discriminate|].
    intros H. injection H as <-. unfold dtxt, mk. cbn [tk targ tpos tend]. symmetry. exact S1.
  Qed.

  Lemma dispatch_txt t : dispatch ps s rest pos pre c = TokOk t -> dtxt t.
  Proof.
    unfold dispatch, orelse.
    destruct (stage_math ps rest pos pre c) eqn:E1; [intros ->; apply stage_math_txt; exact E1|].
    destruct (stage_escape ps s pos pre c) eqn:E2; [intros ->; apply stage_escape_txt; exact E2|].
    destruct (stage_comment ps s rest pos pre c) eqn:E3; [intros ->; apply stage_comment_txt; exact E3|].
    destruct (stage_group ps pos pre c) eqn:E4; [intros ->; apply stage_group_txt; exact E4|].
    destruct (stage_specials ps rest pos pre) eqn:E5; [intros ->; apply stage_specials_txt; exact E5|].
    apply char_token_txt.
  Qed.
End DispatchTxt.

(** ** [impl_peek] as a whole: text, and what stands at the token position *)
Theorem impl_peek_txt ps s pos t : ps_wf ps = true -> math_kinds_ok ps = true -> pos <= length s ->
  impl_peek ps s pos = TokOk t ->
  tok_txt s (f_comment (ps_f ps)) t /\
  (tk t <> TkChar -> tk t <> TkSpecials -> nonspace_at s (tpos t)).
Proof.
  intros WF MK H. unfold impl_peek.
  destruct (peek_space_spec s pos H) as (A & B & C).
  unfold peek_space in *. destruct (span is_space (skipn pos s)) as [pre0 rest0] eqn:SP.
  cbn [fst snd] in *.
  destruct (f_en_dnp (ps_f ps) && Nat.leb 2 (count_c 10 pre0)) eqn:G.
  - intros E. injection E as <-. unfold par_token.
    destruct (match f_ctx_specials (ps_f ps) with Some l => existsb (str_eqb [10; 10]%N) l | None => false end).
    + split; [|cbn; congruence]. unfold tok_txt, mk. cbn [tk targ]. right. reflexivity.
    + split; [|cbn; congruence]. unfold tok_txt, mk. cbn [tk targ tpos tend]. reflexivity.
  - destruct (skipn (pos + length pre0) s) as [|c rest] eqn:R; [discriminate|].
    intros E.
    pose proof (dispatch_txt ps s (c :: rest) (pos + length pre0) pre0 c MK R (ex_intro _ rest eq_refl) t E) as D.
    pose proof (dispatch_placed ps s (c :: rest) (pos + length pre0) pre0 c WF R (ex_intro _ rest eq_refl)) as P.
    rewrite E in P. cbn [res_placed] in P. destruct P as (P1 & P2 & P3 & P4).
    split.
    + unfold dtxt in D. unfold tok_txt. destruct (tk t); auto.
    + intros _ _. rewrite P1. exists c. split; [eapply nth_error_skipn; exact R|].
      (* the first character after the whitespace run is not whitespace *)
      destruct (span_spec _ _ _ _ SP) as [SS _].
      assert (rest0 = c :: rest) as ->.
      { rewrite <- skipn_skipn', SS in R.
        rewrite skipn_app, skipn_all, Nat.sub_diag in R. cbn [skipn app] in R. exact R. }
      eapply span_rest_head. exact SP.
Qed.

(** reading at a non-whitespace character: no leading space, never the end *)
Lemma impl_peek_at_nonspace ps s p : ps_wf ps = true -> nonspace_at s p ->
  match impl_peek ps s p with
  | TokOk t => tpos t = p /\ tpre t = []
  | TokEOS _ => False
  | TokErr _ => True
  end.
Proof.
  intros WF (c & N & NS). destruct (nth_error_skipn_ex s p c N) as [r R].
  unfold impl_peek, peek_space. rewrite R. cbn [span]. rewrite NS. cbn [fst length count_c Nat.leb].
  rewrite andb_false_r, Nat.add_0_r, R.
  pose proof (dispatch_placed ps s (c :: r) p [] c WF R (ex_intro _ r eq_refl)) as P.
  destruct (dispatch ps s (c :: r) p [] c); cbn [res_placed] in P; auto.
  destruct P as (P1 & P2 & _). auto.
Qed.

(** * The parsing states the parser builds *)
Definition good (ps : pstate) : Prop :=
  Inv ps /\ f_inline_delims (ps_f ps) = default_inline_delims
  /\ f_display_delims (ps_f ps) = default_display_delims
  /\ f_comment (ps_f ps) = [37%N].

Definition upd_safe (u : update) : bool :=
  match u with UInlineDelims _ | UDisplayDelims _ | UComment _ => false | _ => true end.

Lemma fold_safe l : forallb upd_safe l = true -> forall f,
  let g := fold_left apply_update l f in
  f_inline_delims g = f_inline_delims f /\ f_display_delims g = f_display_delims f /\
  f_comment g = f_comment f.
Proof.
  induction l as [|u l IH]; intros F f; cbn [fold_left]; [auto|].
  cbn [forallb] in F. apply andb_true_iff in F. destruct F as [F1 F2].
  destruct (IH F2 (apply_update f u)) as (A & B & C). cbn zeta in *. rewrite A, B, C.
  destruct u; try discriminate; cbn; auto.
Qed.

Lemma normalize_comment f : f_comment (normalize f) = f_comment f.
Proof. unfold normalize. destruct (_ && _); reflexivity. Qed.

Lemma forallb_filter {A} (P Q : A -> bool) l : forallb P l = true -> forallb P (filter Q l) = true.
Proof.
  induction l as [|x l IH]; [reflexivity|]. cbn [forallb filter]. intros H.
  apply andb_true_iff in H. destruct H as [H1 H2]. destruct (Q x); cbn [forallb]; [rewrite H1|]; auto.
Qed.

Lemma good_sub_context ps kw : good ps -> forallb upd_safe kw = true -> good (sub_context ps kw).
Proof.
  intros (I & A & B & C) F. split; [apply inv_sub_context; exact I|].
  unfold sub_context. cbn [ps_f]. rewrite normalize_inline, normalize_display, normalize_comment.
  destruct (fold_safe _ (forallb_filter upd_safe (changes (ps_f ps)) kw F) (ps_f ps)) as (X & Y & Z).
  cbn zeta in *. rewrite X, Y, Z. auto.
Qed.

Lemma good_fresh f : f_inline_delims f = default_inline_delims ->
  f_display_delims f = default_display_delims -> f_comment f = [37%N] -> good (fresh f).
Proof.
  intros A B C. split; [apply inv_fresh|]. unfold fresh. cbn [ps_f].
  rewrite normalize_inline, normalize_display, normalize_comment. auto.
Qed.

Lemma good_enter_math ps d : good ps -> good (ps_enter_math ps d).
Proof. intros G. apply good_sub_context; [exact G | reflexivity]. Qed.
Lemma good_leave_math ps : good ps -> good (ps_leave_math ps).
Proof. intros G. apply good_sub_context; [exact G | reflexivity]. Qed.
Lemma good_adelta ps d : good ps -> good (apply_adelta ps d).
Proof. intros G. destruct d; cbn [apply_adelta]; auto using good_enter_math, good_leave_math. Qed.
Lemma good_add_group ps o c : good ps -> good (ps_add_group ps o c).
Proof.
  intros G. unfold ps_add_group. destruct (pair_in _ _ _); [exact G|].
  apply good_sub_context; [exact G | reflexivity].
Qed.
Lemma good_noenvs ps : good ps -> good (sub_context ps [UEnEnvs false]).
Proof. intros G. apply good_sub_context; [exact G | reflexivity]. Qed.

Lemma good_ps_wf ps : good ps -> ps_wf ps = true /\ math_kinds_ok ps = true.
Proof.
  intros ((Ic & In_) & A & B & C).
  unfold ps_wf, math_kinds_ok. rewrite Ic. cbn [compute_caches c_math_by_len c_expect_close].
  assert (BL : compute_by_len (ps_f ps) =
               sort_by_len (map (fun d => (d, TkMathInline)) (delim_set default_inline_delims)
                            ++ map (fun d => (d, TkMathDisplay)) (delim_set default_display_delims))).
  { unfold compute_by_len. rewrite A, B. reflexivity. }
  assert (BO : compute_by_open (ps_f ps) =
               map (fun pr : str * str => (fst pr, (snd pr, TkMathInline))) default_inline_delims
               ++ map (fun pr : str * str => (fst pr, (snd pr, TkMathDisplay))) default_display_delims).
  { unfold compute_by_open. rewrite A, B. reflexivity. }
  rewrite BL, BO.
  assert (EX : forall d cd k,
     dict_get (map (fun pr : str * str => (fst pr, (snd pr, TkMathInline))) default_inline_delims
               ++ map (fun pr : str * str => (fst pr, (snd pr, TkMathDisplay))) default_display_delims) d
     = Some (cd, k) -> nonempty cd = true /\ is_math_kind k = true).
  { intros d cd k E. apply dict_get_in in E. cbn in E.
    repeat (destruct E as [E|E]; [injection E as <- <-; split; reflexivity|]). contradiction. }
  split; apply andb_true_iff; split; try (vm_compute; reflexivity).
  - unfold compute_expect. destruct (negb (f_in_math (ps_f ps))); [reflexivity|].
    destruct (f_math_delim (ps_f ps)) as [d|]; [|reflexivity].
    destruct (dict_get _ d) as [[cd k]|] eqn:E; [|reflexivity]. apply EX in E. tauto.
  - unfold compute_expect. destruct (negb (f_in_math (ps_f ps))); [reflexivity|].
    destruct (f_math_delim (ps_f ps)) as [d|]; [|reflexivity].
    destruct (dict_get _ d) as [[cd k]|] eqn:E; [|reflexivity]. apply EX in E. tauto.
Qed.

(** ** the token facts, packaged for a good state in strict mode *)
Record tokfacts (s : str) (pos : nat) (t : token) : Prop := {
  tf_pos : tpos t = pos + length (tpre t);
  tf_pre : tpre t = slice s pos (tpos t);
  tf_lt : tpos t < tend t;
  tf_end : tend t <= length s;
  tf_txt : tok_txt s [37%N] t;
  tf_ns : tk t <> TkChar -> tk t <> TkSpecials -> nonspace_at s (tpos t);
}.

Lemma good_peek s ps pos : good ps -> pos <= length s ->
  match impl_peek ps s pos with
  | TokOk t => tokfacts s pos t
  | TokEOS fin => fin = skipn pos s
  | TokErr _ => True
  end.
Proof.
  intros G H. destruct (good_ps_wf ps G) as [WF MK].
  pose proof (impl_peek_ok ps s pos WF H) as P.
  destruct (impl_peek ps s pos) as [t|fin|e] eqn:E; cbn [peek_ok] in P; auto.
  destruct P as (P1 & P2 & P3 & P4).
  destruct (impl_peek_txt ps s pos t WF MK H E) as [T1 T2].
  destruct G as (_ & _ & _ & C). rewrite C in T1.
  constructor; auto.
Qed.

Lemma good_peek_nonspace s ps p : good ps -> nonspace_at s p ->
  match impl_peek ps s p with
  | TokOk t => tpos t = p /\ tpre t = []
  | TokEOS _ => False
  | TokErr _ => True
  end.
Proof. intros G. apply impl_peek_at_nonspace. apply good_ps_wf. exact G. Qed.

(** * Context conditions *)
(** the optional-chars marker of the standard argument kinds [*], [s], [t<c>]
    is a single character (the only form the context translator produces) *)
Definition kind_ok (k : argkind) : bool :=
  match k with AKChars ch _ _ => Nat.eqb (length ch) 1 | _ => true end.
Definition spec_ok (sp : cspec) : bool :=
  match sp_args sp with
  | APStd l => forallb (fun a => kind_ok (a_kind a)) l
  | APLegacy _ => true
  end.
Definition ctx_ok (cx : context) : bool :=
  forallb (fun x : str * cspec => spec_ok (snd x)) (cx_macros cx)
  && forallb (fun x : str * cspec => spec_ok (snd x)) (cx_envs cx)
  && forallb (fun x : str * cspec => spec_ok (snd x)) (cx_specials cx)
  && match cx_unk_macro cx with Some sp => spec_ok sp | None => true end
  && match cx_unk_env cx with Some sp => spec_ok sp | None => true end.

Lemma assoc_ok (l : list (str * cspec)) k sp :
  forallb (fun x : str * cspec => spec_ok (snd x)) l = true -> assoc l k = Some sp -> spec_ok sp = true.
Proof.
  induction l as [|[k' v] l IH]; cbn [assoc forallb snd]; [discriminate|].
  intros F. apply andb_true_iff in F. destruct F as [F1 F2].
  destruct (str_eqb k' k); [intros E; injection E as <-; exact F1 | apply IH; exact F2].
Qed.

Lemma ctx_ok_spec cx k nm sp : ctx_ok cx = true ->
  match k with
  | TkMacro => get_macro_spec cx nm
  | TkBeginEnv => get_env_spec cx nm
  | _ => get_specials_spec cx nm
  end = Some sp -> spec_ok sp = true.
Proof.
  unfold ctx_ok. intros H. repeat (apply andb_true_iff in H; destruct H as [H ?]).
  assert (M : get_macro_spec cx nm = Some sp -> spec_ok sp = true).
  { unfold get_macro_spec. destruct (assoc (cx_macros cx) nm) eqn:E.
    - intros X. injection X as <-. eapply assoc_ok; [|exact E]. assumption.
    - destruct (cx_unk_macro cx); [|discriminate]. intros X. injection X as <-. assumption. }
  assert (V : get_env_spec cx nm = Some sp -> spec_ok sp = true).
  { unfold get_env_spec. destruct (assoc (cx_envs cx) nm) eqn:E.
    - intros X. injection X as <-. eapply assoc_ok; [|exact E]. assumption.
    - destruct (cx_unk_env cx); [|discriminate]. intros X. injection X as <-. assumption. }
  assert (S : get_specials_spec cx nm = Some sp -> spec_ok sp = true).
  { unfold get_specials_spec. intros X. eapply assoc_ok; [|exact X]. assumption. }
  destruct k; auto.
Qed.

(** * Tolerant mode: a token error becomes its placeholder token *)
Lemma next_tok_tol s ps p :
  next_tok s true ps p = match impl_peek ps s p with TokErr e => TokOk (te_placeholder e) | x => x end.
Proof.
  unfold next_tok, next_token, peek_token, rd_at. cbn [r_s r_pos r_tol].
  destruct (impl_peek ps s p); reflexivity.
Qed.
Lemma peek_tok_tol s ps p :
  peek_tok s true ps p = match impl_peek ps s p with TokErr e => TokOk (te_placeholder e) | x => x end.
Proof.
  unfold peek_tok, peek_token, rd_at. cbn [r_s r_pos r_tol].
  destruct (impl_peek ps s p); reflexivity.
Qed.

(** placeholders are character tokens no longer than their span; the empty one
    (escape character at the very end) ends at the end of the input *)
Definition char_len_ok (s : str) (t : token) : Prop :=
  tk t = TkChar -> length (targ t) <= tend t - tpos t /\ (targ t = [] -> length s <= tend t).

Lemma placeholder_char ps s pos e : impl_peek ps s pos = TokErr e ->
  tk (te_placeholder e) = TkChar /\ char_len_ok s (te_placeholder e).
Proof.
  unfold impl_peek. destruct (peek_space s pos) as [pre0 p2].
  destruct (_ && _); [discriminate|].
  destruct (skipn p2 s) as [|c rest] eqn:R; [discriminate|].
  unfold dispatch, orelse.
  destruct (stage_math ps (c :: rest) p2 pre0 c) as [r|] eqn:E1.
  { intros ->. exfalso. unfold stage_math in E1. destruct (_ && _); [|discriminate].
    destruct (read_math _ _ _ _); discriminate. }
  destruct (stage_escape ps s p2 pre0 c) as [r|] eqn:E2.
  { intros ->. unfold stage_escape in E2. destruct (str_eqb _ _); [|discriminate].
    assert (RM : read_macro ps s p2 pre0 = TokErr e ->
                 tk (te_placeholder e) = TkChar /\ char_len_ok s (te_placeholder e)).
    { unfold read_macro. destruct (skipn (S p2) s) as [|d r] eqn:SK.
      - intros H. injection H as <-. unfold char_len_ok. cbn [te_placeholder mk tk targ tpos tend length]. split; [reflexivity|]. intros _.
        apply skipn_nil_len in SK. split; [lia|]. intros _. exact SK.
      - destruct (mem_c d _); [destruct (post_space_at _ _)|]; discriminate. }
    assert (RE : forall b, read_environment ps s p2 b pre0 = TokErr e ->
                 tk (te_placeholder e) = TkChar /\ char_len_ok s (te_placeholder e)).
    { intros b. unfold read_environment. destruct (match_envname _) as [[nm len]|]; [discriminate|].
      intros H. injection H as <-. unfold char_len_ok. cbn [te_placeholder mk tk targ tpos tend length]. split; [reflexivity|]. intros _. split; [lia|].
      intros Z. apply app_eq_nil in Z. destruct Z as [_ Z]. destruct b; discriminate. }
    assert (M : (if f_en_macros (ps_f ps) then Some (read_macro ps s p2 pre0) else None) = Some (TokErr e) ->
                tk (te_placeholder e) = TkChar /\ char_len_ok s (te_placeholder e)).
    { destruct (f_en_macros _); [|discriminate]. intros H. injection H as H. auto. }
    destruct (f_en_envs _); [|auto].
    destruct (startswith _ kw_begin).
    - destruct (char_at s _) as [d|]; [destruct (mem_c d _); [auto|]|]; injection E2 as E2; eauto.
    - destruct (startswith _ kw_end); [|auto].
      destruct (char_at s _) as [d|]; [destruct (mem_c d _); [auto|]|]; injection E2 as E2; eauto. }
  destruct (stage_comment ps s (c :: rest) p2 pre0 c) as [r|] eqn:E3.
  { intros ->. exfalso. unfold stage_comment in E3. destruct (f_comment _); [discriminate|].
    destruct (_ && _); discriminate. }
  destruct (stage_group ps p2 pre0 c) as [r|] eqn:E4.
  { intros ->. exfalso. unfold stage_group in E4. destruct (f_en_groups _); [|discriminate].
    destruct (existsb _ _); [discriminate|]. destruct (existsb _ _); discriminate. }
  destruct (stage_specials ps (c :: rest) p2 pre0) as [r|] eqn:E5.
  { intros ->. exfalso. unfold stage_specials in E5. destruct (f_ctx_specials _); [|discriminate].
    destruct (f_en_specials _); [|discriminate]. destruct (test_specials _ _ _); discriminate. }
  unfold char_token. destruct (mem_c c _); [|discriminate].
  intros H. injection H as <-. unfold char_len_ok. cbn [te_placeholder mk tk targ tpos tend length]. split; [reflexivity|]. intros _. split; [lia|discriminate].
Qed.

(** what the tolerant proofs use of a token *)
Record tokfacts_t (s : str) (pos : nat) (t : token) : Prop := {
  tt_pos : tpos t = pos + length (tpre t);
  tt_lt : tpos t < tend t;
  tt_end : tend t <= length s;
  tt_len : char_len_ok s t;
  tt_ns : tk t <> TkChar -> tk t <> TkSpecials -> nonspace_at s (tpos t);
}.

Lemma good_peek_tol s ps pos : good ps -> pos <= length s ->
  match impl_peek ps s pos with
  | TokOk t => tokfacts_t s pos t
  | TokEOS fin => fin = skipn pos s
  | TokErr e => tokfacts_t s pos (te_placeholder e)
  end.
Proof.
  intros G H. pose proof (good_peek s ps pos G H) as P. destruct (good_ps_wf ps G) as [WF MK].
  pose proof (impl_peek_ok ps s pos WF H) as Q.
  destruct (impl_peek ps s pos) as [t|fin|e] eqn:E; auto.
  - destruct P as [F1 F2 F3 F4 F5 F6]. constructor; auto.
    intros K. unfold tok_txt in F5. rewrite K in F5.
    assert (LEN : length (targ t) = tend t - tpos t) by (rewrite F5; apply slice_length; exact F4).
    split; [lia|]. intros Z. rewrite Z in LEN. cbn in LEN. lia.
  - cbn [peek_ok] in Q. destruct Q as [(Q1 & Q2 & Q3 & Q4) _].
    destruct (placeholder_char ps s pos e E) as [K C].
    constructor; auto. intros NK. congruence.
Qed.

Lemma good_peek_nonspace_tol s ps p : good ps -> nonspace_at s p ->
  match impl_peek ps s p with
  | TokOk t => tpre t = []
  | TokEOS _ => False
  | TokErr e => tpre (te_placeholder e) = []
  end.
Proof.
  intros G (c & N & NS). destruct (good_ps_wf ps G) as [WF _].
  destruct (nth_error_skipn_ex s p c N) as [r R].
  unfold impl_peek, peek_space. rewrite R. cbn [span]. rewrite NS. cbn [fst length count_c Nat.leb].
  rewrite andb_false_r, Nat.add_0_r, R.
  pose proof (dispatch_placed ps s (c :: r) p [] c WF R (ex_intro _ r eq_refl)) as P.
  destruct (dispatch ps s (c :: r) p [] c); cbn [res_placed] in P; auto.
  - destruct P as (_ & P2 & _). exact P2.
  - destruct P as ((_ & P2 & _) & _). exact P2.
Qed.
