(** The module-level helper [latexencode.unicode_to_latex] is transparent:
    whatever calls came before, a call returns what a fresh encoder built
    from the same option tuple returns ([Enc/Builtin.v]). *)
From Coq Require Import NArith List Bool Arith Lia.
From PLV Require Import Base.PyStr Enc.Encoder Enc.Builtin.
Import ListNotations.

Lemma str_eqb_eq (a b : str) : str_eqb a b = true -> a = b.
Proof.
  unfold str_eqb. revert b. induction a as [|x a IH]; intros [|y b] H; try discriminate; auto.
  apply andb_prop in H. destruct H as [H1 H2]. apply N.eqb_eq in H1. subst. f_equal. auto.
Qed.

Lemma str_eqb_refl (a : str) : str_eqb a a = true.
Proof. unfold str_eqb. induction a as [|x a IH]; auto. rewrite N.eqb_refl. exact IH. Qed.

Lemma hkey_eqb_eq a b : hkey_eqb a b = true -> a = b.
Proof.
  unfold hkey_eqb. intros H. repeat (apply andb_prop in H; destruct H as [H ?]).
  destruct a, b; cbn in *. apply Bool.eqb_prop in H. apply Bool.eqb_prop in H0.
  apply str_eqb_eq in H1. apply str_eqb_eq in H2. subst. reflexivity.
Qed.

Lemma hkey_eqb_refl a : hkey_eqb a a = true.
Proof. unfold hkey_eqb. rewrite !Bool.eqb_reflx, !str_eqb_refl. reflexivity. Qed.

(** invariant of [_u2l_obj_cache]: every cached object is the encoder its key builds *)
Definition cache_ok (c : cache) : Prop := forall k e, In (k, e) c -> mk_encoder k = Some e.

Lemma cache_get_ok c k e : cache_ok c -> cache_get c k = Some e -> mk_encoder k = Some e.
Proof.
  induction c as [|[k' e'] c IH]; cbn [cache_get]; intros Hok H; [discriminate|].
  destruct (hkey_eqb k' k) eqn:E.
  - injection H as <-. apply hkey_eqb_eq in E. subst. apply Hok. left; auto.
  - apply IH; auto. intros k0 e0 Hin. apply Hok. right; auto.
Qed.

Lemma helper_call_fresh c k s : cache_ok c ->
  snd (helper_call c k s) = fresh_call k s /\ cache_ok (fst (helper_call c k s)).
Proof.
  intros Hok. unfold helper_call, fresh_call. destruct (cache_get c k) as [e|] eqn:Eg.
  - rewrite (cache_get_ok c k e Hok Eg). split; auto.
  - destruct (mk_encoder k) as [e|] eqn:Em; cbn [fst snd]; split; auto.
    intros k0 e0 [H|H]; [injection H as <- <-; auto|auto].
Qed.

Lemma helper_run_ok c h : cache_ok c -> cache_ok (fst (helper_run c h)).
Proof.
  revert c. induction h as [|[k s] h IH]; intros c Hok; cbn [helper_run]; auto.
  destruct (helper_call c k s) as [c1 r] eqn:E1.
  assert (Hok1 : cache_ok c1).
  { pose proof (helper_call_fresh c k s Hok) as [_ H]. now rewrite E1 in H. }
  specialize (IH c1 Hok1). destruct (helper_run c1 h) as [c2 rs]. exact IH.
Qed.

(** every call of every history returns what a fresh encoder returns *)
Theorem helper_run_fresh c h : cache_ok c ->
  snd (helper_run c h) = map (fun ks => fresh_call (fst ks) (snd ks)) h.
Proof.
  revert c. induction h as [|[k s] h IH]; intros c Hok; cbn [helper_run map fst snd]; auto.
  pose proof (helper_call_fresh c k s Hok) as [Hr Hc].
  destruct (helper_call c k s) as [c1 r]. cbn [fst snd] in *.
  specialize (IH c1 Hc). destruct (helper_run c1 h) as [c2 rs]. cbn [snd] in *. now subst.
Qed.

(** after ANY history (from the empty cache of a fresh process), a call is
    indistinguishable from a fresh encoder with the same option tuple *)
Theorem helper_transparent h k s :
  snd (helper_call (fst (helper_run [] h)) k s) = fresh_call k s.
Proof.
  apply helper_call_fresh. apply helper_run_ok. intros ? ? [].
Qed.

(** the cache does its job: a repeated key does not build a second object *)
Lemma cache_get_hit c k e : cache_get ((k, e) :: c) k = Some e.
Proof. cbn [cache_get]. now rewrite hkey_eqb_refl. Qed.
