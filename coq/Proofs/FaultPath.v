(** C05 (injected faults) — the LEFT CONTEXT of a position inside a document
    of the core grammar: a nesting path of frames, each frame being the items
    that precede an enclosing construct in its body, and that construct's
    opening (a group's brace, a formula's opening delimiter, a macro call up to
    and including the opening brace of one of its arguments).  Theorem
    [lpath_err]: in strict mode a parse error raised by the innermost
    collector propagates to the outermost one — same position, same raise site
    — whatever follows. *)
From Coq Require Import NArith List Bool Arith Lia.
From PLV Require Import Base.PyStr Tok.PState Tok.Tokenizer Parse.Nodes Parse.Parser Parse.ParseWire
                        Proofs.PyStrFacts Proofs.ParserMono Proofs.ParserErrorsBase
                        Doc.DocGrammar Proofs.RoundTripTok Proofs.RoundTripRules Proofs.RoundTrip
                        Proofs.FaultRules Proofs.FaultTok Proofs.FaultDoc.
Import ListNotations.

(** * Frames *)
Inductive lframe :=
| LGrp (before : list item) (ws : str)                          (* before ws {            *)
| LMath (before : list item) (ws : str) (k : mathkind)          (* before ws $   (or \( \[) *)
| LMac (before : list item) (ws name post : str) (args1 : list item).   (* before ws \name post {a1}…{ak} {  *)

Definition lf_before (f : lframe) : list item :=
  match f with LGrp b _ | LMath b _ _ | LMac b _ _ _ _ => b end.
Definition lf_ws (f : lframe) : str :=
  match f with LGrp _ w | LMath _ w _ | LMac _ w _ _ _ => w end.
Definition lf_open (f : lframe) : str :=
  match f with
  | LGrp _ _ => [123%N]
  | LMath _ _ k => m_open k
  | LMac _ _ name post args1 => 92%N :: name ++ post ++ unparse_items args1 ++ [123%N]
  end.
Definition lf_text (f : lframe) : str := unparse_items (lf_before f) ++ lf_ws f ++ lf_open f.

(** the argument slot of the macro [name] that the hole is in *)
Definition mac_hole (cx : context) (name : str) (n : nat) : option (cspec * list argspec * argspec) :=
  match get_macro_spec cx name with
  | Some sp => match sp_args sp with
               | APStd l => match nth_error l n with Some spc => Some (sp, l, spc) | None => None end
               | APLegacy _ => None
               end
  | None => None
  end.

(** the parsing state inside the frame's construct *)
Definition lf_state (cx : context) (ps : pstate) (f : lframe) : pstate :=
  match f with
  | LGrp _ _ => ps
  | LMath _ _ k => ps_enter_math ps (Some (m_open k))
  | LMac _ _ name _ args1 =>
      match mac_hole cx name (length args1) with
      | Some (_, _, spc) => apply_adelta ps (a_delta spc)
      | None => ps
      end
  end.

(** the options of the collector that reads the frame's body *)
Definition lf_opts (ips : pstate) (f : lframe) : genopts :=
  match f with LMath _ _ k => math_opts k | _ => grp_opts ips end.

(** [ok_lframe cx ps f nxt]: the frame is unambiguous when written in state
    [ps] and followed by the character [nxt] *)
Definition ok_lframe (cx : context) (ps : pstate) (f : lframe) (nxt : option N) : bool :=
  match f with
  | LGrp before ws => ok_items cx ps before (hd_error (ws ++ [123%N])) && ws_ok ws
  | LMath before ws k =>
      ok_items cx ps before (hd_error (ws ++ m_open k)) && ws_ok ws && negb (f_in_math (ps_f ps))
      && match k with MDollar => negb (otest (fun c => N.eqb c 36) nxt) | _ => true end
  | LMac before ws name post args1 =>
      ok_items cx ps before (hd_error (ws ++ [92%N])) && ws_ok ws && ws_ok post && name_ok name post
      && match mac_hole cx name (length args1) with
         | Some (_, l, spc) =>
             ok_args cx ps args1 (firstn (length args1) l)
             && match a_kind spc with AKExpr _ => true | _ => false end
             && mac_follow_ok name post (Some 123%N)
         | None => false
         end
  end.

(** * Paths (outermost frame first) *)
Definition lp_text (path : list lframe) : str := flat_map lf_text path.

Fixpoint lp_state (cx : context) (ps : pstate) (path : list lframe) : pstate :=
  match path with [] => ps | f :: r => lp_state cx (lf_state cx ps f) r end.

Fixpoint lp_opts (cx : context) (ps : pstate) (o : genopts) (path : list lframe) : genopts :=
  match path with
  | [] => o
  | f :: r => lp_opts cx (lf_state cx ps f) (lf_opts (lf_state cx ps f) f) r
  end.

Definition lp_st (st : collstate) (path : list lframe) : collstate :=
  match path with [] => st | _ => cs_empty end.

Fixpoint ok_lpath (cx : context) (ps : pstate) (path : list lframe) (nxt : option N) : bool :=
  match path with
  | [] => true
  | f :: r => ok_lframe cx ps f (hd_error (lp_text r ++ ostr nxt)) && ok_lpath cx (lf_state cx ps f) r nxt
  end.

(** * States and options along a path *)
Lemma stde_lf_state cx ps f : StdE cx ps -> StdE cx (lf_state cx ps f).
Proof.
  intros H. destruct f as [b w|b w k|b w name post a1]; cbn [lf_state];
    [exact H | apply stde_enter_math; exact H|].
  destruct (mac_hole cx name (length a1)) as [[[sp l] spc]|]; [apply stde_adelta; exact H | exact H].
Qed.

Lemma stde_lp_state cx path : forall ps, StdE cx ps -> StdE cx (lp_state cx ps path).
Proof. induction path as [|f r IH]; intros ps H; [exact H|]. cbn [lp_state]. apply IH, stde_lf_state, H. Qed.

Lemma opts_ok_lf cx ps f nxt : ok_lframe cx ps f nxt = true ->
  opts_ok (lf_state cx ps f) (lf_opts (lf_state cx ps f) f).
Proof.
  intros OK. destruct f as [b w|b w k|b w name post a1]; cbn [lf_state lf_opts].
  - apply opts_ok_grp.
  - apply opts_ok_math. apply enter_math_fields.
  - apply opts_ok_grp.
Qed.

Lemma opts_ok_lp cx path : forall ps o nxt, opts_ok ps o -> ok_lpath cx ps path nxt = true ->
  opts_ok (lp_state cx ps path) (lp_opts cx ps o path).
Proof.
  induction path as [|f r IH]; intros ps o nxt O OK; [exact O|]. cbn [ok_lpath] in OK.
  apply andb_true_iff in OK. destruct OK as [O1 O2]. cbn [lp_state lp_opts].
  eapply IH; [|exact O2]. eapply opts_ok_lf. exact O1.
Qed.

(** the first written character of a list of braced arguments followed by [{] is [{] *)
Lemma args_hd cx ps args1 : forall l rest, ok_args cx ps args1 l = true ->
  hd_error (unparse_items args1 ++ 123%N :: rest) = Some 123%N.
Proof.
  intros l rest H. destruct args1 as [|a r]; [reflexivity|].
  destruct l as [|spc l]; [discriminate|]. cbn [ok_args] in H.
  apply andb_true_iff in H. destruct H as [H _]. apply andb_true_iff in H. destruct H as [_ H].
  destruct a as [|ws b tr| | | |]; try discriminate. destruct ws; [|discriminate]. reflexivity.
Qed.

Section Path.
  Variable s : str.
  Variable cx : context.
  Notation R := (run s false cx).

  (** ** a prefix of the arguments of a macro call *)
  Lemma args_pre : forall args1 l1 lrest ps acc pa fol n r,
    Std cx ps -> ok_args cx ps args1 l1 = true -> r <> OutOfFuel ->
    skipn pa s = unparse_items args1 ++ fol ->
    R n (TArgs ps lrest (acc ++ fst (arg_nodes cx ps pa args1 l1)) (pa + length (unparse_items args1))) = r ->
    R (n + 8 * length (unparse_items args1)) (TArgs ps (l1 ++ lrest) acc pa) = r.
  Proof.
    induction args1 as [|a args IHa]; intros [|spc l] lrest ps acc pa fol n r SD OKA NR SK H; try discriminate.
    - cbn [unparse_items flat_map length arg_nodes fst app] in *. rewrite app_nil_r in H.
      rewrite Nat.add_0_r in H. rewrite Nat.mul_0_r, Nat.add_0_r. exact H.
    - cbn [ok_args] in OKA. apply andb_true_iff in OKA. destruct OKA as [OKA OKR].
      apply andb_true_iff in OKA. destruct OKA as [KD OKI].
      destruct (a_kind spc) as [aps| | |] eqn:AK; try discriminate.
      destruct a as [|ws b tr| | | |]; try discriminate. destruct ws; [|discriminate].
      set (ps' := apply_adelta ps (a_delta spc)) in *.
      assert (SD' : Std cx ps') by (apply std_adelta; exact SD).
      rewrite ok_item_grp in OKI. apply andb_true_iff in OKI. destruct OKI as [OKI OKB].
      apply andb_true_iff in OKI. destruct OKI as [_ W].
      assert (SK' : skipn pa s = 123%N :: unparse_items b ++ tr ++ 125%N :: (unparse_items args ++ fol)).
      { unfold unparse_items in *. cbn [flat_map unparse_item app] in SK.
        rewrite <- !app_assoc in SK. cbn [app] in SK. rewrite <- ?app_assoc in SK. exact SK. }
      assert (TP : forall q, Std cx q -> impl_peek q s pa = TokOk (mk TkBraceOpen [123%N] pa (S pa) [] [])).
      { intros q SQ. rewrite (impl_peek_dispatch q s pa [] 123%N _ eq_refl SK' space_123). cbn [length].
        rewrite Nat.add_0_r. apply (dispatch_open cx q (std_view_of cx q SQ)). }
      pose proof (grp_run s cx (lsize b) (items_sim s cx (lsize b)) ps' pa [] b tr (unparse_items args ++ fol)
                    SD' (le_n _) W OKB SK') as G.
      pose proof (rule_texpr s cx _ ps' aps aps true pa _ _ (TP _ (std_no_envs cx ps' SD')) G) as G2.
      pose proof (rule_tstdarg s cx _ ps' aps pa _ _ G2) as G3.
      set (nd := node_of cx ps' pa (Grp [] b tr)) in *.
      set (pe := pa + 1 + length (unparse_items b) + length tr + 1) in *.
      assert (PE : pe = pa + ilen (Grp [] b tr)) by (rewrite ilen_grp; cbn [length]; unfold pe; lia).
      assert (SKr : skipn pe s = unparse_items args ++ fol).
      { change (123%N :: unparse_items b ++ tr ++ 125%N :: unparse_items args ++ fol)
          with ([123%N] ++ unparse_items b ++ tr ++ [125%N] ++ unparse_items args ++ fol) in SK'.
        apply skipn_shift in SK'. apply skipn_shift in SK'. apply skipn_shift in SK'. apply skipn_shift in SK'.
        cbn [length] in SK'. exact SK'. }
      assert (L : length (unparse_items (Grp [] b tr :: args)) = ilen (Grp [] b tr) + length (unparse_items args)).
      { unfold unparse_items, ilen. cbn [flat_map]. rewrite app_length. reflexivity. }
      cbn [arg_nodes fst] in H. fold ps' in H. fold nd in H. rewrite L in H.
      replace (pa + (ilen (Grp [] b tr) + length (unparse_items args))) with (pe + length (unparse_items args)) in H
        by lia.
      rewrite <- PE in H.
      change (acc ++ nd :: fst (arg_nodes cx ps pe args l)) with (acc ++ [nd] ++ fst (arg_nodes cx ps pe args l)) in H.
      rewrite app_assoc in H.
      pose proof (IHa l lrest ps (acc ++ [nd]) pe fol n r SD OKR NR SKr H) as A.
      set (N0 := n + 6 + 8 * length (unparse_items b) + 8 * length (unparse_items args)).
      apply (lift s cx (S N0)); [|exact NR|rewrite L, ilen_grp; unfold N0; cbn [length]; lia].
      rewrite <- AK in G3. cbn [app].
      apply (rule_targs_cons s cx N0 ps spc (l ++ lrest) acc pa _ nd pe _ (TP ps SD)).
      + apply (lift s cx _ N0) in G3; [exact G3|discriminate|unfold N0; lia].
      + apply (lift s cx _ N0) in A; [exact A|exact NR|unfold N0; lia].
  Qed.

  (** ** one frame *)
  Lemma frame_err f ps o st pos rest k e p :
    Std cx ps -> opts_ok ps o -> ok_lframe cx ps f (hd_error rest) = true ->
    skipn pos s = lf_text f ++ rest ->
    R k (TCollect (lf_state cx ps f) (lf_opts (lf_state cx ps f) f) cs_empty (pos + length (lf_text f))) = PErr e p ->
    exists e', R (k + 8 * length (lf_text f)) (TCollect ps o st pos) = PErr e' p
               /\ pe_pos e' = pe_pos e /\ pe_what e' = pe_what e.
  Proof.
    intros SD OK OKF SK H. pose proof (std_view_of cx ps SD) as V.
    set (before := lf_before f). set (ws := lf_ws f).
    set (pb := pos + length (unparse_items before)).
    assert (SKb : skipn pb s = ws ++ lf_open f ++ rest).
    { unfold lf_text in SK. fold before ws in SK. rewrite <- !app_assoc in SK. apply skipn_shift in SK. exact SK. }
    assert (LT : length (lf_text f) = length (unparse_items before) + length ws + length (lf_open f)).
    { unfold lf_text. fold before ws. rewrite !app_length. lia. }
    assert (SIM : forall m e', ok_items cx ps before (hd_error (ws ++ lf_open f ++ rest)) = true ->
              m + 8 * length (unparse_items before) <= k + 8 * length (lf_text f) ->
              R m (TCollect ps o (fst (absorb cx ps pos st before)) pb) = PErr e' p ->
              R (k + 8 * length (lf_text f)) (TCollect ps o st pos) = PErr e' p).
    { intros m e' OKB LE HM.
      assert (SK0 : skipn pos s = unparse_items before ++ (ws ++ lf_open f ++ rest)).
      { unfold lf_text in SK. fold before ws in SK. rewrite <- !app_assoc in SK. exact SK. }
      pose proof (items_sim s cx (lsize before) before (le_n _) ps o st pos _ m (PErr e' p) SD OK
                    ltac:(discriminate) OKB SK0 HM) as S1.
      apply (lift s cx _ _ _ _ S1); [discriminate | exact LE]. }
    destruct f as [b w|b w mk|b w name post a1]; cbn [lf_before lf_ws lf_open lf_state lf_opts ok_lframe] in *.
    - (* group *)
      apply andb_true_iff in OKF. destruct OKF as [OKB W].
      assert (T : impl_peek ps s pb = TokOk (mk TkBraceOpen [123%N] (pb + length ws) (S (pb + length ws)) ws [])).
      { cbn [app] in SKb. rewrite (impl_peek_dispatch ps s pb ws 123%N _ W SKb space_123). apply (dispatch_open cx ps V). }
      pose proof (skipn_shift _ _ _ _ SKb) as SK1. cbn [app] in SK1.
      assert (T1 : impl_peek ps s (pb + length ws) = TokOk (mk TkBraceOpen [123%N] (pb + length ws) (S (pb + length ws)) [] [])).
      { rewrite (impl_peek_dispatch ps s _ [] 123%N _ eq_refl SK1 space_123). cbn [length].
        rewrite Nat.add_0_r. apply (dispatch_open cx ps V). }
      replace (pos + length (lf_text (LGrp b w))) with (S (pb + length ws)) in H
        by (rewrite LT; cbn [lf_open length]; unfold pb; lia).
      pose proof (erule_general s cx _ _ _ _ _ _ H) as E1.
      pose proof (erule_tgroup s cx _ ps _ _ _ (sv_gdelims _ _ V) T1 E1) as E2.
      pose proof (erule_group s cx _ ps o (fst (absorb cx ps pos st before)) pb ws _ _ (opts_ok_2 _ _ OK) T E2) as E3.
      eexists. split; [refine (SIM _ _ _ _ E3)|split; reflexivity].
      + unfold ws. destruct w; exact OKB.
      + rewrite LT. cbn [lf_open length]. lia.
    - (* math *)
      apply andb_true_iff in OKF. destruct OKF as [OKF DL].
      apply andb_true_iff in OKF. destruct OKF as [OKF M]. apply negb_true_iff in M.
      apply andb_true_iff in OKF. destruct OKF as [OKB W].
      set (mps := ps_enter_math ps (Some (m_open mk))) in *.
      pose proof (expect_enter ps mk (proj1 SD)) as E. fold mps in E.
      assert (DL' : mk = MDollar -> hd_not (fun c => N.eqb c 36) rest).
      { intros ->. apply negb_true_iff in DL. apply otest_hd_not. exact DL. }
      assert (T : impl_peek ps s pb
                  = TokOk (PLV.Tok.Tokenizer.mk (m_tok mk) (m_open mk) (pb + length ws)
                              (pb + length ws + length (m_open mk)) ws [])).
      { pose proof (dispatch_math_open cx ps V s (pb + length ws) ws mk _ M DL') as D.
        destruct mk; cbn [m_open app] in SKb.
        - rewrite (impl_peek_dispatch ps s pb ws 36%N _ W SKb space_36). exact D.
        - rewrite (impl_peek_dispatch ps s pb ws 92%N _ W SKb space_92). exact D.
        - rewrite (impl_peek_dispatch ps s pb ws 92%N _ W SKb space_92). exact D.
        - rewrite (impl_peek_dispatch ps s pb ws 36%N _ W SKb space_36). exact D. }
      pose proof (skipn_shift _ _ _ _ SKb) as SK1.
      assert (T1 : impl_peek ps s (pb + length ws)
                   = TokOk (PLV.Tok.Tokenizer.mk (m_tok mk) (m_open mk) (pb + length ws)
                               (pb + length ws + length (m_open mk)) [] [])).
      { pose proof (dispatch_math_open cx ps V s (pb + length ws) [] mk _ M DL') as D.
        destruct mk; cbn [m_open app] in SK1.
        - rewrite (impl_peek_dispatch ps s _ [] 36%N _ eq_refl SK1 space_36). cbn [length]. rewrite Nat.add_0_r. exact D.
        - rewrite (impl_peek_dispatch ps s _ [] 92%N _ eq_refl SK1 space_92). cbn [length]. rewrite Nat.add_0_r. exact D.
        - rewrite (impl_peek_dispatch ps s _ [] 92%N _ eq_refl SK1 space_92). cbn [length]. rewrite Nat.add_0_r. exact D.
        - rewrite (impl_peek_dispatch ps s _ [] 36%N _ eq_refl SK1 space_36). cbn [length]. rewrite Nat.add_0_r. exact D. }
      replace (pos + length (lf_text (LMath b w mk))) with (pb + length ws + length (m_open mk)) in H
        by (rewrite LT; cbn [lf_open]; unfold pb; lia).
      pose proof (erule_general s cx _ _ _ _ _ _ H) as E1.
      pose proof (erule_tmath s cx _ ps mk _ _ _ _ T1 E E1) as E2.
      pose proof (erule_math s cx _ ps o (fst (absorb cx ps pos st before)) pb ws mk _ _ (opts_ok_2 _ _ OK) (proj1 SD) M T E2) as E3.
      eexists. split; [refine (SIM _ _ _ _ E3)|split; reflexivity].
      + unfold ws. destruct w; [|exact OKB]. cbn [app] in *. destruct mk; exact OKB.
      + rewrite LT. cbn [lf_open]. destruct mk; cbn [m_open length]; lia.
    - (* macro argument *)
      apply andb_true_iff in OKF. destruct OKF as [OKF OKM].
      apply andb_true_iff in OKF. destruct OKF as [OKF NM].
      apply andb_true_iff in OKF. destruct OKF as [OKF Wp].
      apply andb_true_iff in OKF. destruct OKF as [OKB W].
      unfold mac_hole in *.
      destruct (get_macro_spec cx name) as [sp|] eqn:GS; [|discriminate].
      destruct (sp_args sp) as [l|lk] eqn:SA; [|discriminate].
      destruct (nth_error l (length a1)) as [spc|] eqn:NTH; [|discriminate].
      apply andb_true_iff in OKM. destruct OKM as [OKM FO].
      apply andb_true_iff in OKM. destruct OKM as [OKA KD].
      destruct (a_kind spc) as [aps| | |] eqn:AK; try discriminate.
      set (ps' := apply_adelta ps (a_delta spc)) in *.
      assert (SD' : Std cx ps') by (apply std_adelta; exact SD).
      set (p0 := pb + length ws).
      set (pe := p0 + 1 + length name + length post).
      assert (SK' : skipn pb s = ws ++ 92%N :: name ++ post ++ (unparse_items a1 ++ 123%N :: rest)).
      { cbn [app] in SKb. rewrite <- !app_assoc in SKb. cbn [app] in SKb. exact SKb. }
      pose proof (skipn_shift _ _ _ _ SK') as SK0. fold p0 in SK0.
      pose proof (args_hd cx ps a1 _ rest OKA) as HD.
      assert (T : impl_peek ps s pb = TokOk (mk TkMacro name p0 pe ws post)).
      { destruct name as [|c nm]; [discriminate|]. cbn [name_ok] in NM. cbn [mac_follow_ok] in FO.
        cbn [app] in SK', SK0.
        rewrite (impl_peek_dispatch ps s pb ws 92%N _ W SK' space_92). fold p0.
        destruct (is_alpha c) eqn:AC.
        - apply andb_true_iff in NM. destruct NM as [NM NE]. apply andb_true_iff in NM. destruct NM as [NA NB].
          apply negb_true_iff in NE. apply negb_true_iff in NB.
          rewrite (dispatch_macro_word cx ps V s p0 ws c nm post (unparse_items a1 ++ 123%N :: rest) SK0 AC NA Wp);
            [| | |exact NB|exact NE].
          + unfold pe. cbn [length]. f_equal. f_equal. lia.
          + destruct (unparse_items a1 ++ 123%N :: rest); [exact I|]. injection HD as ->. exact space_123.
          + intros _. destruct (unparse_items a1 ++ 123%N :: rest); [exact I|]. injection HD as ->. reflexivity.
        - destruct nm; [|discriminate]. destruct post; [|discriminate].
          apply negb_true_iff in NM. cbn [mem_c existsb] in NM.
          repeat (apply orb_false_iff in NM; destruct NM as [? NM]).
          cbn [app] in SK0 |- *.
          rewrite (dispatch_macro_sym cx ps V s p0 ws c _ SK0 AC) by assumption.
          unfold pe. cbn [length]. f_equal. f_equal. lia. }
      assert (SKa : skipn pe s = unparse_items a1 ++ 123%N :: rest).
      { change (92%N :: name ++ post ++ unparse_items a1 ++ 123%N :: rest)
          with ([92%N] ++ name ++ post ++ unparse_items a1 ++ 123%N :: rest) in SK0.
        apply skipn_shift in SK0. apply skipn_shift in SK0. apply skipn_shift in SK0.
        cbn [length] in SK0. exact SK0. }
      set (ph := pe + length (unparse_items a1)).
      assert (SKh : skipn ph s = 123%N :: rest) by (apply skipn_shift in SKa; exact SKa).
      assert (TP : forall q, Std cx q -> impl_peek q s ph = TokOk (mk TkBraceOpen [123%N] ph (S ph) [] [])).
      { intros q SQ. rewrite (impl_peek_dispatch q s ph [] 123%N _ eq_refl SKh space_123). cbn [length].
        rewrite Nat.add_0_r. apply (dispatch_open cx q (std_view_of cx q SQ)). }
      assert (LO : length (lf_open (LMac b w name post a1))
                   = 1 + length name + length post + length (unparse_items a1) + 1).
      { cbn [lf_open length]. rewrite !app_length. cbn [length]. lia. }
      replace (pos + length (lf_text (LMac b w name post a1))) with (S ph) in H
        by (rewrite LT; cbn [length] in *; rewrite ?app_length in *; cbn [length] in *; unfold ph, pe, p0, pb, ws; lia).
      pose proof (erule_general s cx _ _ _ _ _ _ H) as E1.
      pose proof (erule_tgroup s cx _ ps' _ _ _ (sv_gdelims _ _ (std_view_of cx ps' SD')) (TP ps' SD') E1) as E2.
      pose proof (erule_texpr s cx _ ps' aps aps true ph _ _ (TP _ (std_no_envs cx ps' SD')) E2) as E3.
      pose proof (erule_tstdarg s cx _ ps' aps ph _ _ E3) as E4. rewrite <- AK in E4.
      (* the argument specifications: those before the hole, the hole's, the rest *)
      assert (SPL : l = firstn (length a1) l ++ spc :: skipn (S (length a1)) l).
      { clear -NTH. revert l NTH. induction (length a1) as [|n IH]; intros [|x l] NTH; try discriminate.
        - cbn in NTH. injection NTH as ->. reflexivity.
        - cbn [nth_error] in NTH. cbn [firstn skipn app]. f_equal. apply IH. exact NTH. }
      pose proof (erule_targs_cons s cx _ ps spc (skipn (S (length a1)) l)
                    ([] ++ fst (arg_nodes cx ps pe a1 (firstn (length a1) l))) ph _ _ _ (TP ps SD) E4) as E5.
      pose proof (args_pre a1 (firstn (length a1) l) (spc :: skipn (S (length a1)) l) ps [] pe _ _
                    (PErr (rewrap (S ph) e) p)
                    SD OKA ltac:(discriminate) SKa E5) as E6.
      rewrite <- SPL in E6.
      pose proof (erule_tcall s cx _ ps (mk TkMacro name p0 pe [] post) sp l pe _ _ SA E6) as E7.
      pose proof (erule_macro s cx _ ps o (fst (absorb cx ps pos st before)) pb ws name pe post sp _ _ (opts_ok_2 _ _ OK) GS T E7) as E8.
      eexists. split; [refine (SIM _ _ _ _ E8)|split; reflexivity].
      + unfold ws. destruct w; exact OKB.
      + rewrite LT. cbn [length]. rewrite !app_length. cbn [length]. lia.
  Qed.

  (** ** a whole path *)
  Theorem lpath_err : forall path ps o st pos rest k e p,
    Std cx ps -> opts_ok ps o -> ok_lpath cx ps path (hd_error rest) = true ->
    skipn pos s = lp_text path ++ rest ->
    R k (TCollect (lp_state cx ps path) (lp_opts cx ps o path) (lp_st st path) (pos + length (lp_text path)))
    = PErr e p ->
    exists e', R (k + 8 * length (lp_text path)) (TCollect ps o st pos) = PErr e' p
               /\ pe_pos e' = pe_pos e /\ pe_what e' = pe_what e.
  Proof.
    induction path as [|f path IH]; intros ps o st pos rest k e p SD OK OKP SK H.
    - cbn [lp_text flat_map length lp_state lp_opts lp_st] in *. rewrite Nat.add_0_r in H.
      rewrite Nat.mul_0_r, Nat.add_0_r. exists e. auto.
    - cbn [ok_lpath] in OKP. apply andb_true_iff in OKP. destruct OKP as [OKF OKP].
      rewrite hd_error_ostr in OKF.
      assert (LT : lp_text (f :: path) = lf_text f ++ lp_text path) by reflexivity.
      rewrite LT, <- app_assoc in SK. rewrite LT, app_length in H |- *.
      pose proof (skipn_shift _ _ _ _ SK) as SK1.
      cbn [lp_state lp_opts lp_st] in H.
      set (ips := lf_state cx ps f) in *.
      assert (SDi : Std cx ips).
      { unfold ips. destruct f as [b w|b w mk|b w name post a1]; cbn [lf_state];
          [exact SD|apply std_enter_math; exact SD|].
        destruct (mac_hole cx name (length a1)) as [[[sp l] spc]|]; [apply std_adelta; exact SD|exact SD]. }
      assert (HI : R k (TCollect (lp_state cx ips path) (lp_opts cx ips (lf_opts ips f) path) (lp_st cs_empty path)
                          (pos + length (lf_text f) + length (lp_text path))) = PErr e p).
      { replace (pos + length (lf_text f) + length (lp_text path)) with (pos + (length (lf_text f) + length (lp_text path)))
          by lia. destruct path; exact H. }
      destruct (IH ips (lf_opts ips f) cs_empty _ rest k e p SDi (opts_ok_lf cx ps f _ OKF) OKP SK1 HI)
        as (e1 & H1 & P1 & W1).
      destruct (frame_err f ps o st pos (lp_text path ++ rest) _ e1 p SD OK OKF SK H1) as (e2 & H2 & P2 & W2).
      exists e2. split; [|split; congruence].
      replace (k + 8 * (length (lf_text f) + length (lp_text path)))
        with (k + 8 * length (lp_text path) + 8 * length (lf_text f)) by lia. exact H2.
  Qed.
End Path.
