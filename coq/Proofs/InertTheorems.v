(** C13: the statements of Properties/C13.v assembled from the unbounded
    encoder facts ([EncBuiltinFacts]) and the sweeps ([InertSweeps],
    [InertSweepActive]); non-vacuity witnesses. *)
From Coq Require Import NArith List Bool Arith Lia String.
Local Open Scope string_scope.
Local Open Scope list_scope.
From PLV Require Import Base.PyStr Enc.Encoder Enc.Builtin Enc.RoundTrip.
From PLV Require Import Proofs.EncoderProofs Proofs.EncBuiltinFacts Proofs.FastProtection Proofs.RoundTripDefs.
From PLV Require Import Proofs.InertDefs Proofs.InertSweeps Proofs.InertSweepActive.
From PLV Require Import Gen.GenBaseline.
Import ListNotations.
Local Open Scope N_scope.

Lemma all_prots_named p : In p all_prots -> named_prot p.
Proof. unfold all_prots. cbn [In]. intros [<-|[<-|[<-|[<-|[<-|[]]]]]]; exact I. Qed.

Definition ascii_policies : list policy := [UReplace; UIgnore; UUnihex].

Lemma ascii_policies_ok pol : In pol ascii_policies -> ascii_policy pol.
Proof. unfold ascii_policies. cbn [In]. intros [<-|[<-|[<-|[]]]]; exact I. Qed.

(** ASCII-only output, all strings *)
Theorem ascii_output : forall xml p pol s t,
  In p all_prots -> In pol ascii_policies ->
  encode_builtin xml p pol s = EncOk t -> is_ascii_str t = true.
Proof.
  intros xml p pol s t Hp Hq. apply encode_builtin_ascii; [now apply all_prots_named|now apply ascii_policies_ok].
Qed.

(** one-character strings: a character with a rule (not a known finding) or a
    pass-through character, every scheme, every policy *)
Theorem one_character_inert : forall xml p pol c,
  In p all_prots -> ~ In c (excluded xml) ->
  (In c (map fst (table_of xml)) \/ passthrough c = true) ->
  exists t m, encode_builtin xml p pol [c] = EncOk t /\ parse_encoded t = IParsed 0 0 m /\
              (m <> O -> exists r, In (c, r) (table_of xml) /\ In 36 r).
Proof.
  intros xml p pol c Hp Hex Hc.
  unfold encode_builtin. rewrite encode_builtin_chunks. cbn [chunks]. unfold char_chunk.
  destruct (map_lookup (map_of xml) c) as [r|] eqn:E.
  - destruct (single_characters_parse xml p c r Hp E Hex) as (m & Hm & H36).
    exists (apply_protection p r), m. cbn [res_map flatten List.concat]. rewrite app_nil_r.
    split; [reflexivity|]. split; [exact Hm|]. intros Hne. exists r. split; [exact (map_of_find xml c r E)|auto].
  - destruct Hc as [Hc|Hc]; [apply map_of_find_none in E; contradiction|]. rewrite Hc.
    exists [c], O. cbn [res_map flatten List.concat app]. split; [reflexivity|].
    split; [exact (copied_characters_parse xml c E Hc)|]. intros H; congruence.
Qed.
