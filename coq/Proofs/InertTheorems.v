(** C13: the statements of Properties/C13.v assembled from the unbounded
    encoder facts ([EncBuiltinFacts]) and the sweeps ([InertSweeps],
    [InertSweepActive]); non-vacuity witnesses. *)
From Coq Require Import NArith List Bool Arith Lia String.
Local Open Scope string_scope.
Local Open Scope list_scope.
From PLV Require Import Base.PyStr Enc.Encoder Enc.Builtin Enc.RoundTrip.
From PLV Require Import Proofs.EncoderProofs Proofs.EncBuiltinFacts Proofs.FastProtection Proofs.RoundTripDefs.
From PLV Require Import Proofs.InertDefs Proofs.InertSweeps Proofs.InertSweepActive.
From PLV Require Import Gen.GenBaseline.
Import ListNotations.
Local Open Scope N_scope.

Lemma all_prots_named p : In p all_prots -> named_prot p.
Proof. unfold all_prots. cbn [In]. intros [<-|[<-|[<-|[<-|[<-|[]]]]]]; exact I. Qed.

Definition ascii_policies : list policy := [UReplace; UIgnore; UUnihex].

Lemma ascii_policies_ok pol : In pol ascii_policies -> ascii_policy pol.
Proof. unfold ascii_policies. cbn [In]. intros [<-|[<-|[<-|[]]]]; exact I. Qed.

(** ASCII-only output, all strings *)
Theorem ascii_output : forall xml p pol s t,
  In p all_prots -> In pol ascii_policies ->
  encode_builtin xml p pol s = EncOk t -> is_ascii_str t = true.
Proof.
  intros xml p pol s t Hp Hq. apply encode_builtin_ascii; [now apply all_prots_named|now apply ascii_policies_ok].
Qed.

(** one-character strings: a character with a rule (not a known finding) or a
    pass-through character, every scheme, every policy *)
Theorem one_character_inert : forall xml p pol c,
  In p all_prots -> ~ In c (excluded xml) ->
  (In c (map fst (table_of xml)) \/ passthrough c = true) ->
  exists t m, encode_builtin xml p pol [c] = EncOk t /\ parse_encoded t = IParsed 0 0 m /\
              (m <> O -> exists r, In (c, r) (table_of xml) /\ In 36 r).
Proof.
  intros xml p pol c Hp Hex Hc.
  unfold encode_builtin. rewrite encode_builtin_chunks. cbn [chunks]. unfold char_chunk.
  destruct (map_lookup (map_of xml) c) as [r|] eqn:E.
  - destruct (single_characters_parse xml p c r Hp E Hex) as (m & Hm & H36).
    exists (apply_protection p r), m. cbn [res_map flatten List.concat]. rewrite app_nil_r.
    split; [reflexivity|]. split; [exact Hm|]. intros Hne. exists r. split; [exact (map_of_find xml c r E)|auto].
  - destruct Hc as [Hc|Hc]; [apply map_of_find_none in E; contradiction|]. rewrite Hc.
    exists [c], O. cbn [res_map flatten List.concat app]. split; [reflexivity|].
    split; [exact (copied_characters_parse xml c E Hc)|]. intros H; congruence.
Qed.

(** * Non-vacuity witnesses *)
Lemma ex_ascii :
  In PBraces all_prots /\ In UUnihex ascii_policies /\
  encode_builtin false PBraces UUnihex [233; 20013; 128512]
  = EncOk (lit "\'e\ensuremath{\langle}\texttt{U+4E2D}\ensuremath{\rangle}\ensuremath{\langle}\texttt{U+1F600}\ensuremath{\rangle}") /\
  encode_builtin true PBracesAll UReplace [233; 20013] = EncOk (lit "{\'{e}}{\bfseries ?}") /\
  (* 'keep' does emit non-ASCII *)
  (exists t, encode_builtin false PBraces UKeep [20013] = EncOk t /\ is_ascii_str t = false).
Proof.
  split; [right; left; reflexivity|]. split; [right; right; left; reflexivity|].
  split; [vm_compute; reflexivity|]. split; [vm_compute; reflexivity|].
  eexists. split; vm_compute; reflexivity.
Qed.

Lemma ex_fail :
  encode_builtin false PBraces UFail [97; 7] = EncValueError /\
  no_rule false 7 /\ passthrough 7 = false /\
  encode_builtin false PBraces UFail [97; 233; 37] = EncOk (lit "a\'e\%").
Proof.
  split; [vm_compute; reflexivity|]. split; [|split; vm_compute; reflexivity].
  apply map_of_find_none. vm_compute. reflexivity.
Qed.

Lemma ex_active :
  In 37 active_ascii /\ In PNone all_prots /\
  map_lookup (map_of false) 37 = Some (lit "\%") /\ map_lookup (map_of true) 94 = Some (lit "\^{}") /\
  (* a bare % WOULD be a comment, a bare $ WOULD open math *)
  parse_encoded [97; 37; 98] = IParsed 1 0 0 /\ parse_encoded [36; 97; 36] = IParsed 0 0 1 /\
  encode_builtin false PNone UKeep [97; 37; 98] = EncOk (lit "a\%b") /\
  parse_encoded (lit "a\%b") = IParsed 0 0 0.
Proof.
  split; [repeat (try (left; reflexivity); right)|]. split; [left; reflexivity|].
  split; [vm_compute; reflexivity|]. split; [vm_compute; reflexivity|].
  split; [vm_compute; reflexivity|]. split; [vm_compute; reflexivity|].
  split; vm_compute; reflexivity.
Qed.

Lemma ex_known :
  In 779 known_xml_unparseable /\ map_lookup (map_of true) 779 = Some (lit "\H") /\
  encode_builtin true PBraces UKeep [97; 779] = EncOk (lit "a{\H}") /\
  parse_encoded (lit "a{\H}") = IParseError (Some 4%nat) /\
  (* not a key of the default table: nothing to exclude there *)
  map_lookup (map_of false) 779 = None.
Proof.
  split; [apply (proj1 (mem_N_In 779 known_xml_unparseable)); vm_compute; reflexivity|].
  split; [vm_compute; reflexivity|]. split; [vm_compute; reflexivity|].
  split; vm_compute; reflexivity.
Qed.

Lemma ex_orderings :
  In PBraces all_prots /\
  encode_builtin false PBraces UFail [92; 97; 37] = EncOk (lit "{\textbackslash}a\%") /\
  parse_encoded (lit "{\textbackslash}a\%") = IParsed 0 0 0 /\
  (* without protection the control word swallows the letter (still inert: an unknown macro) *)
  encode_builtin false PNone UFail [92; 97; 37] = EncOk (lit "\textbackslasha\%").
Proof.
  split; [right; left; reflexivity|]. split; [vm_compute; reflexivity|]. split; vm_compute; reflexivity.
Qed.
