(** C02 — rule lemmas: one per branch of [Parser.run] that the core document
    grammar exercises, in the form "if the nested call(s) return this with
    fuel [n], the whole returns that with fuel [S n]".  Fuels are equalised by
    [run_mono] in the simulation ([Proofs/RoundTrip.v]). *)
From Coq Require Import NArith List Bool Arith Lia.
From PLV Require Import Base.PyStr Tok.PState Tok.Tokenizer Parse.Nodes Parse.Parser Parse.ParseWire
                        Proofs.ParserMono Proofs.ParserSpansStep Proofs.ParserErrorsBase
                        Doc.DocGrammar Proofs.RoundTripTok.
Import ListNotations.

Lemma next_tok_strict s ps p : next_tok s false ps p = impl_peek ps s p.
Proof.
  unfold next_tok, next_token, peek_token, rd_at. cbn [r_s r_pos r_tol].
  destruct (impl_peek ps s p); reflexivity.
Qed.
Lemma peek_tok_strict s ps p : peek_tok s false ps p = impl_peek ps s p.
Proof.
  unfold peek_tok, peek_token, rd_at. cbn [r_s r_pos r_tol].
  destruct (impl_peek ps s p); reflexivity.
Qed.

Definition is_mk (k : tokkind) : bool := match k with TkMathInline | TkMathDisplay => true | _ => false end.

(** the collectors of the grammar: no node-list stop condition, the stop
    token's whitespace is included, every child is parsed in the collector's
    own state, the stop condition is none / a closing brace / a closing math
    delimiter (then the state is in math mode) / the end of an environment *)
Definition opts_ok (ps : pstate) (o : genopts) : Prop :=
  g_nl o = NLNone /\ g_incl_pre o = true /\ (forall t, child_state o ps t = ps) /\
  match g_stop o with
  | SNone | SBraceClose _ | SEndEnv _ => True
  | SMathClose k _ => is_mk k = true /\ f_in_math (ps_f ps) = true
  | _ => False
  end.

Lemma push_pending_twice st a p b q :
  push_pending (push_pending st a p) b q = push_pending st (a ++ b) p.
Proof.
  unfold push_pending. cbn [cs_acc cs_pend cs_ppos]. rewrite app_assoc.
  destruct (cs_ppos st); reflexivity.
Qed.

Section Rules.
  Variable s : str.
  Variable cx : context.
  Notation R := (run s false cx).

  (** ** the collector *)
  Lemma rule_char n ps o st pos ws c r :
    opts_ok ps o ->
    impl_peek ps s pos = TokOk (mk TkChar [c] (pos + length ws) (S (pos + length ws)) ws []) ->
    R n (TCollect ps o (push_pending st (ws ++ [c]) pos) (S (pos + length ws))) = r ->
    R (S n) (TCollect ps o st pos) = r.
  Proof.
    intros (_ & _ & _ & ST) T H. rewrite run_collect. unfold collect_step.
    rewrite next_tok_strict, T.
    assert (SM : stop_matches (g_stop o) (mk TkChar [c] (pos + length ws) (S (pos + length ws)) ws []) = false).
    { destruct (g_stop o) as [|cc|k cc|nm|? ? ?]; try reflexivity; [|contradiction].
      destruct ST as [K _]. cbn. destruct k; try discriminate; reflexivity. }
    rewrite SM. cbn [mk tk tpre targ tpos tend]. rewrite Nat.add_sub. exact H.
  Qed.

  Lemma rule_stop n ps o st pos t :
    opts_ok ps o -> impl_peek ps s pos = TokOk t -> stop_matches (g_stop o) t = true ->
    R (S n) (TCollect ps o st pos)
    = Ok (OColl (close_state ps st (tpre t) (tpos t - length (tpre t))) (Some t) false false) (tpos t).
  Proof.
    intros (NL & IP & _ & _) T SM. rewrite run_collect. unfold collect_step.
    rewrite next_tok_strict, T, SM. unfold c_stop, c_finish. rewrite IP, NL. cbn [nl_stop_met].
    rewrite andb_false_r. reflexivity.
  Qed.

  Lemma rule_eos_ws n ps o st pos c ws r :
    impl_peek ps s pos = TokEOS (c :: ws) ->
    R n (TCollect ps o (push_pending st (c :: ws) pos) (pos + length (c :: ws))) = r ->
    R (S n) (TCollect ps o st pos) = r.
  Proof. intros T H. rewrite run_collect. unfold collect_step. rewrite next_tok_strict, T. exact H. Qed.

  Lemma rule_eos n ps o st pos :
    opts_ok ps o -> impl_peek ps s pos = TokEOS [] ->
    R (S n) (TCollect ps o st pos) = Ok (OColl (flush ps st) None false true) pos.
  Proof.
    intros (NL & _) T. rewrite run_collect. unfold collect_step. rewrite next_tok_strict, T.
    unfold c_finish. rewrite NL. cbn [nl_stop_met]. rewrite andb_false_r. reflexivity.
  Qed.

  (** the whitespace in front of a non-character token *)
  Lemma c_pre_result_nl ps o st k a p0 e ws post : g_nl o = NLNone ->
    c_pre_result ps o st (mk k a (p0 + length ws) e ws post) = (pre_flush ps st ws p0, false).
  Proof.
    intros NL. unfold c_pre_result, pre_flush. rewrite NL. cbn [mk tpre tpos nl_stop_met].
    destruct (cs_pend st); [|reflexivity]. destruct ws; [reflexivity|].
    rewrite Nat.add_sub. reflexivity.
  Qed.

  Lemma stop_no_match ps o k a p e pre post : opts_ok ps o ->
    (k = TkBraceOpen \/ k = TkMacro \/ k = TkComment \/ k = TkSpecials
     \/ (is_mk k = true /\ f_in_math (ps_f ps) = false)) ->
    stop_matches (g_stop o) (mk k a p e pre post) = false.
  Proof.
    intros (_ & _ & _ & ST) K.
    destruct (g_stop o) as [|cc|k' cc|nm|? ? ?]; try reflexivity; try contradiction.
    - cbn. destruct K as [->|[->|[->|[->|[K _]]]]]; try reflexivity. destruct k; try discriminate; reflexivity.
    - destruct ST as [K' M]. cbn. destruct K as [->|[->|[->|[->|[K M']]]]].
      + destruct k'; try discriminate; reflexivity.
      + destruct k'; try discriminate; reflexivity.
      + destruct k'; try discriminate; reflexivity.
      + destruct k'; try discriminate; reflexivity.
      + congruence.
    - cbn. destruct K as [->|[->|[->|[->|[K _]]]]]; try reflexivity. destruct k; try discriminate; reflexivity.
  Qed.

  Lemma rule_group n ps o st pos ws nd p' r :
    opts_ok ps o ->
    impl_peek ps s pos = TokOk (mk TkBraceOpen [123%N] (pos + length ws) (S (pos + length ws)) ws []) ->
    R n (TGroup ps (GDStr [123%N]) false false (pos + length ws)) = Ok (ONode nd) p' ->
    R n (TCollect ps o (push_node (pre_flush ps st ws pos) nd) p') = r ->
    R (S n) (TCollect ps o st pos) = r.
  Proof.
    intros OK T G H. pose proof OK as (NL & _ & CH & _). rewrite run_collect. unfold collect_step.
    rewrite next_tok_strict, T, (stop_no_match ps o _ _ _ _ _ _ OK) by (left; reflexivity).
    cbn [mk tk]. rewrite (c_pre_result_nl ps o st _ _ pos _ ws [] NL). cbn [fst snd].
    unfold c_dispatch. cbn [mk tk targ tpos]. rewrite CH, G. cbn [parse_content].
    unfold c_push_check. rewrite NL. cbn [nl_stop_met]. exact H.
  Qed.

  Lemma rule_math n ps o st pos ws k nd p' r :
    opts_ok ps o -> Good ps -> f_in_math (ps_f ps) = false ->
    impl_peek ps s pos = TokOk (mk (m_tok k) (m_open k) (pos + length ws)
                                   (pos + length ws + length (m_open k)) ws []) ->
    R n (TMath ps (m_open k) (pos + length ws)) = Ok (ONode (Some nd)) p' ->
    R n (TCollect ps o (push_node (pre_flush ps st ws pos) (Some nd)) p') = r ->
    R (S n) (TCollect ps o st pos) = r.
  Proof.
    intros OK GD M T G H. pose proof OK as (NL & _ & CH & _). rewrite run_collect. unfold collect_step.
    rewrite next_tok_strict, T, (stop_no_match ps o _ _ _ _ _ _ OK)
      by (right; right; right; right; split; [destruct k; reflexivity | exact M]).
    assert (TK : tk (mk (m_tok k) (m_open k) (pos + length ws) (pos + length ws + length (m_open k)) ws [])
                 = m_tok k) by reflexivity.
    assert (BO : by_open_has ps (m_open k) = true).
    { rewrite (good_by_open_has ps _ GD). destruct k; reflexivity. }
    destruct k; cbn [m_tok] in *; rewrite TK;
      rewrite (c_pre_result_nl ps o st _ _ pos _ ws [] NL); cbn [fst snd];
      unfold c_dispatch; rewrite TK; cbn [mk targ tpos]; rewrite BO; cbn [negb];
      rewrite CH, G; cbn [parse_content]; unfold c_push_check; rewrite NL; cbn [nl_stop_met]; exact H.
  Qed.

  Lemma rule_macro n ps o st pos ws name pe post sp nd p' r :
    opts_ok ps o -> get_macro_spec cx name = Some sp ->
    impl_peek ps s pos = TokOk (mk TkMacro name (pos + length ws) pe ws post) ->
    R n (TCall ps (mk TkMacro name (pos + length ws) pe [] post) sp pe) = Ok (ONode (Some nd)) p' ->
    R n (TCollect ps o (push_node (pre_flush ps st ws pos) (Some nd)) p') = r ->
    R (S n) (TCollect ps o st pos) = r.
  Proof.
    intros OK SP T G H. pose proof OK as (NL & _ & CH & _). rewrite run_collect. unfold collect_step.
    rewrite next_tok_strict, T, (stop_no_match ps o _ _ _ _ _ _ OK) by (right; left; reflexivity).
    cbn [mk tk]. rewrite (c_pre_result_nl ps o st _ _ pos _ ws post NL). cbn [fst snd].
    unfold c_dispatch. cbn [mk tk targ tpos tend tpost]. rewrite SP, CH. unfold c_tok0. cbn [mk tk targ tpos tend tpost].
    rewrite G. cbn [parse_content]. unfold c_push_check. rewrite NL. cbn [nl_stop_met]. exact H.
  Qed.

  Lemma rule_comment n ps o st pos ws text pe post r :
    opts_ok ps o ->
    impl_peek ps s pos = TokOk (mk TkComment text (pos + length ws) pe ws post) ->
    R n (TCollect ps o (push_node (pre_flush ps st ws pos)
                                  (Some (NComment (pos + length ws) pe (ps_mode ps) text post))) pe) = r ->
    R (S n) (TCollect ps o st pos) = r.
  Proof.
    intros OK T H. pose proof OK as (NL & _ & CH & _). rewrite run_collect. unfold collect_step.
    rewrite next_tok_strict, T, (stop_no_match ps o _ _ _ _ _ _ OK) by (right; right; left; reflexivity).
    cbn [mk tk]. rewrite (c_pre_result_nl ps o st _ _ pos _ ws post NL). cbn [fst snd].
    unfold c_dispatch. cbn [mk tk targ tpos tend tpost]. unfold c_push_check. rewrite NL. cbn [nl_stop_met].
    exact H.
  Qed.

  Lemma rule_specials n ps o st pos ws chars pe sp nd p' r :
    opts_ok ps o -> get_specials_spec cx chars = Some sp ->
    impl_peek ps s pos = TokOk (mk TkSpecials chars (pos + length ws) pe ws []) ->
    R n (TCall ps (mk TkSpecials chars (pos + length ws) pe [] []) sp pe) = Ok (ONode (Some nd)) p' ->
    R n (TCollect ps o (push_node (pre_flush ps st ws pos) (Some nd)) p') = r ->
    R (S n) (TCollect ps o st pos) = r.
  Proof.
    intros OK SP T G H. pose proof OK as (NL & _ & CH & _). rewrite run_collect. unfold collect_step.
    rewrite next_tok_strict, T, (stop_no_match ps o _ _ _ _ _ _ OK) by (right; right; right; left; reflexivity).
    cbn [mk tk]. rewrite (c_pre_result_nl ps o st _ _ pos _ ws [] NL). cbn [fst snd].
    unfold c_dispatch. cbn [mk tk targ tpos tend tpost]. rewrite SP, CH. unfold c_tok0. cbn [mk tk targ tpos tend tpost].
    rewrite G. cbn [parse_content]. unfold c_push_check. rewrite NL. cbn [nl_stop_met]. exact H.
  Qed.

  Lemma rule_tcall_specials n ps chars p0 pe sp :
    sp_args sp = APStd [] ->
    R (S (S n)) (TCall ps (mk TkSpecials chars p0 pe [] []) sp pe)
    = Ok (ONode (Some (NSpecials p0 pe (ps_mode ps) chars (Some ([], []))))) pe.
  Proof. intros A. cbn [run]. rewrite A. reflexivity. Qed.

  (** ** the general-nodes parser *)
  Lemma rule_general_stop n ps o pos st t p :
    g_require o = true -> g_handle_stop o = true -> stop_is_none (g_stop o) = false ->
    R n (TCollect ps o cs_empty pos) = Ok (OColl st (Some t) false false) p ->
    R (S n) (TGeneral ps o pos) = Ok (ONode (Some (gen_nodelist pos (cs_acc st)))) (tend t).
  Proof.
    intros RQ HS SN H. cbn [run]. rewrite H, RQ, HS, SN. cbn [negb]. reflexivity.
  Qed.

  Lemma rule_general_top n ps st p :
    R n (TCollect ps top_opts cs_empty 0) = Ok (OColl st None false true) p ->
    R (S n) (TGeneral ps top_opts 0) = Ok (ONode (Some (gen_nodelist 0 (cs_acc st)))) p.
  Proof. intros H. cbn [run]. rewrite H. reflexivity. Qed.

  (** ** delimited group *)
  Definition grp_opts (ps : pstate) : genopts :=
    {| g_stop := SBraceClose [125%N]; g_nl := NLNone; g_require := true;
       g_child := CPGroup ps ps [123%N]; g_incl_pre := true; g_handle_stop := true |}.

  Lemma rule_tgroup n ps p0 body p :
    f_group_delims (ps_f ps) = default_group_delims ->
    impl_peek ps s p0 = TokOk (mk TkBraceOpen [123%N] p0 (S p0) [] []) ->
    R n (TGeneral ps (grp_opts ps) (S p0)) = Ok (ONode body) p ->
    R (S n) (TGroup ps (GDStr [123%N]) false false p0)
    = Ok (ONode (Some (NGroup p0 p (ps_mode ps) [123%N] [125%N] body))) p.
  Proof.
    intros GD T H. cbn [run]. rewrite next_tok_strict, T. cbn [mk tk targ tpre tpos tend tokkind_eqb str_eqb].
    unfold group_close_of. rewrite GD. cbn. fold (grp_opts ps). rewrite H. reflexivity.
  Qed.

  (** ** math *)
  Definition math_opts (k : mathkind) : genopts :=
    {| g_stop := SMathClose (m_tok k) (m_close k); g_nl := NLNone; g_require := true;
       g_child := CPSelf; g_incl_pre := true; g_handle_stop := true |}.

  Lemma rule_tmath n ps k p0 kk body p :
    impl_peek ps s p0 = TokOk (mk (m_tok k) (m_open k) p0 (p0 + length (m_open k)) [] []) ->
    c_expect_close (ps_c (ps_enter_math ps (Some (m_open k)))) = Some (m_close k, kk) ->
    R n (TGeneral (ps_enter_math ps (Some (m_open k))) (math_opts k) (p0 + length (m_open k))) = Ok (ONode body) p ->
    R (S n) (TMath ps (m_open k) p0)
    = Ok (ONode (Some (NMath p0 p (ps_mode ps) (m_display k) (m_open k) (m_close k) body))) p.
  Proof.
    intros T E H. cbn [run]. rewrite next_tok_strict, T.
    unfold mode_of_tok. cbn [mk tk targ tpre tpos tend].
    replace (str_eqb (m_open k) (m_open k)) with true by (destruct k; reflexivity).
    replace (tokkind_eqb (m_tok k) TkMathInline || tokkind_eqb (m_tok k) TkMathDisplay) with true
      by (destruct k; reflexivity).
    cbn [negb andb]. rewrite E. fold (math_opts k). rewrite H.
    cbn [parse_content]. destruct k; reflexivity.
  Qed.

  (** ** macro call, arguments, expression *)
  Lemma rule_tcall n ps name p0 pe post sp l al p :
    sp_args sp = APStd l ->
    R n (TArgs ps l [] pe) = Ok (OArgs (Some ([], al))) p ->
    R (S n) (TCall ps (mk TkMacro name p0 pe [] post) sp pe)
    = Ok (ONode (Some (NMacro p0 p (ps_mode ps) name post (Some (map a_spec l, al))))) p.
  Proof. intros A H. cbn [run]. rewrite A, H. reflexivity. Qed.

  Lemma rule_targs_nil n ps acc pos : R (S n) (TArgs ps [] acc pos) = Ok (OArgs (Some ([], acc))) pos.
  Proof. reflexivity. Qed.

  Lemma rule_targs_cons n ps a rest acc pos t nd p r :
    impl_peek ps s pos = TokOk t ->
    R n (TStdArg (apply_adelta ps (a_delta a)) (a_kind a) pos) = Ok (ONode nd) p ->
    R n (TArgs ps rest (acc ++ [nd]) p) = r ->
    R (S n) (TArgs ps (a :: rest) acc pos) = r.
  Proof. intros T A H. cbn [run]. rewrite peek_tok_strict, T, A. cbn [parse_content]. exact H. Qed.

  Lemma rule_tstdarg n ps aps pos nd p :
    R n (TExpr ps aps aps false true [] pos) = Ok (ONode nd) p ->
    R (S n) (TStdArg ps (AKExpr aps) pos) = Ok (ONode nd) p.
  Proof. intros H. cbn [run]. rewrite H. reflexivity. Qed.

  Lemma rule_texpr n ps aps apc sterr pos nd p :
    impl_peek (sub_context ps [UEnEnvs false]) s pos = TokOk (mk TkBraceOpen [123%N] pos (S pos) [] []) ->
    R n (TGroup ps (GDStr [123%N]) false false pos) = Ok (ONode nd) p ->
    R (S n) (TExpr ps aps apc false sterr [] pos) = Ok (ONode nd) p.
  Proof.
    intros T H. rewrite run_expr. unfold expr_step. rewrite next_tok_strict, T.
    cbn [mk tk targ tpre tpos tend]. rewrite H. cbn [parse_content]. reflexivity.
  Qed.
End Rules.
