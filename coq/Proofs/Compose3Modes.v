(** Composition (C10 x C02) over the THIRD document grammar
    ([Doc/DocGrammar3.v], [Proofs/RoundTrip3*.v]).

    - [grammar_modes3_tree]: the tree that EVERY document of the third grammar
      means (the extended grammar plus paragraph-like whitespace runs in a
      context without the paragraph specials [WPar3], a paragraph break as a
      single-token argument [PArg3], delimited groups written directly in the
      body of a delimited argument [BGrp3]) is [implied] w.r.t. text mode.
    - [grammar_modes3]: the strict and the tolerant parse of its written form
      succeed, consume the input, return that tree, and the tree is implied. *)
From Coq Require Import NArith ZArith List Bool Arith Lia.
From PLV Require Import Base.PyStr Tok.PState Tok.Tokenizer Parse.Nodes Parse.Parser Parse.ParseWire
                        Doc.DocGrammar Doc.DocGrammar2 Doc.DocGrammar3
                        Proofs.RoundTrip3 Proofs.RoundTrip3Embed
                        Proofs.ParserModesSpec Proofs.ParserModesState Proofs.ParserModes.
Import ListNotations.

Theorem grammar_modes3_tree : forall cx d, ok_doc3 cx d = true ->
  implied cx text_mode (gen_nodelist 0 (fst (tree_of3 cx (walker_state cx) 0 d))).
Proof.
  intros cx d O. exact (parse_top_modes (unparse3 d) false cx _ _ (parse_unparse3 cx d O)).
Qed.

Theorem grammar_modes3 : forall cx d, ok_doc3 cx d = true ->
  forall tol, exists nl,
    parse_top (unparse3 d) tol cx (walker_state cx) = Ok (ONode (Some nl)) (length (unparse3 d))
    /\ nl = gen_nodelist 0 (fst (tree_of3 cx (walker_state cx) 0 d))
    /\ implied cx text_mode nl.
Proof.
  intros cx d O tol. eexists. split; [exact (parse_unparse3_modes cx d tol O)|].
  split; [reflexivity|]. exact (grammar_modes3_tree cx d O).
Qed.

(** the extended grammar's theorem is the instance at embedded documents *)
Corollary grammar_modes2_from_third : forall cx d, ok_doc2 cx d = true ->
  implied cx text_mode (gen_nodelist 0 (fst (tree_of2 cx (walker_state cx) 0 d))).
Proof.
  intros cx d O. destruct (grammar2_embeds cx d) as (A & _ & C).
  rewrite <- (C (walker_state cx) 0). apply grammar_modes3_tree. rewrite A. exact O.
Qed.
