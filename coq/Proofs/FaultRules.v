(** C05 (injected faults) / C06 (prefix) — rule lemmas of [Parser.run] that hold
    in BOTH modes ([tol] arbitrary): the collector steps of the core grammar
    given the results of the nested calls, the failing steps on a stray closing
    token, and the propagation of a parse error through the enclosing parsers
    in strict mode.  Companion of [Proofs/RoundTripRules.v] (strict mode only). *)
From Coq Require Import NArith List Bool Arith Lia.
From PLV Require Import Base.PyStr Tok.PState Tok.Tokenizer Parse.Nodes Parse.Parser Parse.ParseWire
                        Proofs.ParserMono Proofs.ParserSpansStep Proofs.ParserErrorsBase
                        Doc.DocGrammar Proofs.RoundTripTok Proofs.RoundTripRules.
Import ListNotations.

(** the tokenizer: the two modes differ only on token errors *)
Lemma next_tok_ok s tol ps p t : impl_peek ps s p = TokOk t -> next_tok s tol ps p = TokOk t.
Proof.
  intros H. unfold next_tok, next_token, peek_token, rd_at. cbn [r_s r_pos r_tol]. rewrite H. reflexivity.
Qed.
Lemma next_tok_eos s tol ps p w : impl_peek ps s p = TokEOS w -> next_tok s tol ps p = TokEOS w.
Proof.
  intros H. unfold next_tok, next_token, peek_token, rd_at. cbn [r_s r_pos r_tol]. rewrite H. reflexivity.
Qed.
Lemma peek_tok_ok s tol ps p t : impl_peek ps s p = TokOk t -> peek_tok s tol ps p = TokOk t.
Proof.
  intros H. unfold peek_tok, peek_token, rd_at. cbn [r_s r_pos r_tol]. rewrite H. reflexivity.
Qed.

(** the state after the whitespace in front of a non-character token has no
    pending characters *)
Lemma pre_flush_pend ps st ws p : cs_pend (pre_flush ps st ws p) = [].
Proof.
  unfold pre_flush. destruct (cs_pend st) as [|c r] eqn:E.
  - destruct ws; [exact E | cbn [push_node cs_pend]; exact E].
  - unfold flush. cbn [cs_pend]. destruct ((c :: r) ++ ws) eqn:E2; [destruct r; discriminate|reflexivity].
Qed.
Lemma flush_pre_flush ps st ws p : flush ps (pre_flush ps st ws p) = pre_flush ps st ws p.
Proof. unfold flush at 1. rewrite pre_flush_pend. reflexivity. Qed.

(** the collectors of the core grammar ([opts_ok]) and the collector of an
    environment body (stop condition [\end{name}]) *)
Definition opts_ok2 (ps : pstate) (o : genopts) : Prop :=
  g_nl o = NLNone /\ g_incl_pre o = true /\ (forall t, child_state o ps t = ps) /\
  match g_stop o with
  | SNone | SBraceClose _ | SEndEnv _ => True
  | SMathClose k _ => is_mk k = true /\ f_in_math (ps_f ps) = true
  | SLegacy _ _ _ => False
  end.

Lemma opts_ok_2 ps o : opts_ok ps o -> opts_ok2 ps o.
Proof.
  intros (A & B & C & D). repeat split; assumption.
Qed.

Lemma stop_no_match2 ps o k a p e pre post : opts_ok2 ps o ->
  (k = TkBraceOpen \/ k = TkMacro \/ k = TkComment \/ k = TkSpecials \/ k = TkBeginEnv
   \/ (is_mk k = true /\ f_in_math (ps_f ps) = false)) ->
  stop_matches (g_stop o) (mk k a p e pre post) = false.
Proof.
  intros (_ & _ & _ & ST) K.
  destruct (g_stop o) as [|cc|k' cc|nm|? ? ?]; try reflexivity; try contradiction.
  - cbn. destruct K as [->|[->|[->|[->|[->|[K _]]]]]]; try reflexivity. destruct k; try discriminate; reflexivity.
  - destruct ST as [K' M]. cbn. destruct K as [->|[->|[->|[->|[->|[K M']]]]]].
    + destruct k'; try discriminate; reflexivity.
    + destruct k'; try discriminate; reflexivity.
    + destruct k'; try discriminate; reflexivity.
    + destruct k'; try discriminate; reflexivity.
    + destruct k'; try discriminate; reflexivity.
    + congruence.
  - cbn. destruct K as [->|[->|[->|[->|[->|[K _]]]]]]; try reflexivity. destruct k; try discriminate; reflexivity.
Qed.

Section Rules.
  Variable s : str.
  Variable cx : context.
  Variable tol : bool.
  Notation R := (run s tol cx).

  (** ** the collector, either mode *)
  Lemma trule_char n ps o st pos ws c r :
    opts_ok2 ps o ->
    impl_peek ps s pos = TokOk (mk TkChar [c] (pos + length ws) (S (pos + length ws)) ws []) ->
    R n (TCollect ps o (push_pending st (ws ++ [c]) pos) (S (pos + length ws))) = r ->
    R (S n) (TCollect ps o st pos) = r.
  Proof.
    intros (_ & _ & _ & ST) T H. rewrite run_collect. unfold collect_step.
    rewrite (next_tok_ok _ _ _ _ _ T).
    assert (SM : stop_matches (g_stop o) (mk TkChar [c] (pos + length ws) (S (pos + length ws)) ws []) = false).
    { destruct (g_stop o) as [|cc|k cc|nm|? ? ?]; try reflexivity; [|contradiction].
      destruct ST as [K _]. cbn. destruct k; try discriminate; reflexivity. }
    rewrite SM. cbn [mk tk tpre targ tpos tend]. rewrite Nat.add_sub. exact H.
  Qed.

  Lemma trule_stop n ps o st pos t :
    opts_ok2 ps o -> impl_peek ps s pos = TokOk t -> stop_matches (g_stop o) t = true ->
    R (S n) (TCollect ps o st pos)
    = Ok (OColl (close_state ps st (tpre t) (tpos t - length (tpre t))) (Some t) false false) (tpos t).
  Proof.
    intros (NL & IP & _ & _) T SM. rewrite run_collect. unfold collect_step.
    rewrite (next_tok_ok _ _ _ _ _ T), SM. unfold c_stop, c_finish. rewrite IP, NL. cbn [nl_stop_met].
    rewrite andb_false_r. reflexivity.
  Qed.

  Lemma trule_eos_ws n ps o st pos c ws r :
    impl_peek ps s pos = TokEOS (c :: ws) ->
    R n (TCollect ps o (push_pending st (c :: ws) pos) (pos + length (c :: ws))) = r ->
    R (S n) (TCollect ps o st pos) = r.
  Proof. intros T H. rewrite run_collect. unfold collect_step. rewrite (next_tok_eos _ _ _ _ _ T). exact H. Qed.

  Lemma trule_eos n ps o st pos :
    opts_ok2 ps o -> impl_peek ps s pos = TokEOS [] ->
    R (S n) (TCollect ps o st pos) = Ok (OColl (flush ps st) None false true) pos.
  Proof.
    intros (NL & _) T. rewrite run_collect. unfold collect_step. rewrite (next_tok_eos _ _ _ _ _ T).
    unfold c_finish. rewrite NL. cbn [nl_stop_met]. rewrite andb_false_r. reflexivity.
  Qed.

  Lemma trule_group n ps o st pos ws nd p' r :
    opts_ok2 ps o ->
    impl_peek ps s pos = TokOk (mk TkBraceOpen [123%N] (pos + length ws) (S (pos + length ws)) ws []) ->
    R n (TGroup ps (GDStr [123%N]) false false (pos + length ws)) = Ok (ONode nd) p' ->
    R n (TCollect ps o (push_node (pre_flush ps st ws pos) nd) p') = r ->
    R (S n) (TCollect ps o st pos) = r.
  Proof.
    intros OK T G H. pose proof OK as (NL & _ & CH & _). rewrite run_collect. unfold collect_step.
    rewrite (next_tok_ok _ _ _ _ _ T), (stop_no_match2 ps o _ _ _ _ _ _ OK) by (left; reflexivity).
    cbn [mk tk]. rewrite (c_pre_result_nl ps o st _ _ pos _ ws [] NL). cbn [fst snd].
    unfold c_dispatch. cbn [mk tk targ tpos]. rewrite CH, G. cbn [parse_content].
    unfold c_push_check. rewrite NL. cbn [nl_stop_met]. exact H.
  Qed.

  Lemma trule_math n ps o st pos ws k nd p' r :
    opts_ok2 ps o -> Good ps -> f_in_math (ps_f ps) = false ->
    impl_peek ps s pos = TokOk (mk (m_tok k) (m_open k) (pos + length ws)
                                   (pos + length ws + length (m_open k)) ws []) ->
    R n (TMath ps (m_open k) (pos + length ws)) = Ok (ONode (Some nd)) p' ->
    R n (TCollect ps o (push_node (pre_flush ps st ws pos) (Some nd)) p') = r ->
    R (S n) (TCollect ps o st pos) = r.
  Proof.
    intros OK GD M T G H. pose proof OK as (NL & _ & CH & _). rewrite run_collect. unfold collect_step.
    rewrite (next_tok_ok _ _ _ _ _ T), (stop_no_match2 ps o _ _ _ _ _ _ OK)
      by (right; right; right; right; right; split; [destruct k; reflexivity | exact M]).
    assert (TK : tk (mk (m_tok k) (m_open k) (pos + length ws) (pos + length ws + length (m_open k)) ws [])
                 = m_tok k) by reflexivity.
    assert (BO : by_open_has ps (m_open k) = true).
    { rewrite (good_by_open_has ps _ GD). destruct k; reflexivity. }
    destruct k; cbn [m_tok] in *; rewrite TK;
      rewrite (c_pre_result_nl ps o st _ _ pos _ ws [] NL); cbn [fst snd];
      unfold c_dispatch; rewrite TK; cbn [mk targ tpos]; rewrite BO; cbn [negb];
      rewrite CH, G; cbn [parse_content]; unfold c_push_check; rewrite NL; cbn [nl_stop_met]; exact H.
  Qed.

  Lemma trule_macro n ps o st pos ws name pe post sp nd p' r :
    opts_ok2 ps o -> get_macro_spec cx name = Some sp ->
    impl_peek ps s pos = TokOk (mk TkMacro name (pos + length ws) pe ws post) ->
    R n (TCall ps (mk TkMacro name (pos + length ws) pe [] post) sp pe) = Ok (ONode (Some nd)) p' ->
    R n (TCollect ps o (push_node (pre_flush ps st ws pos) (Some nd)) p') = r ->
    R (S n) (TCollect ps o st pos) = r.
  Proof.
    intros OK SP T G H. pose proof OK as (NL & _ & CH & _). rewrite run_collect. unfold collect_step.
    rewrite (next_tok_ok _ _ _ _ _ T), (stop_no_match2 ps o _ _ _ _ _ _ OK) by (right; left; reflexivity).
    cbn [mk tk]. rewrite (c_pre_result_nl ps o st _ _ pos _ ws post NL). cbn [fst snd].
    unfold c_dispatch. cbn [mk tk targ tpos tend tpost]. rewrite SP, CH. unfold c_tok0. cbn [mk tk targ tpos tend tpost].
    rewrite G. cbn [parse_content]. unfold c_push_check. rewrite NL. cbn [nl_stop_met]. exact H.
  Qed.

  Lemma trule_comment n ps o st pos ws text pe post r :
    opts_ok2 ps o ->
    impl_peek ps s pos = TokOk (mk TkComment text (pos + length ws) pe ws post) ->
    R n (TCollect ps o (push_node (pre_flush ps st ws pos)
                                  (Some (NComment (pos + length ws) pe (ps_mode ps) text post))) pe) = r ->
    R (S n) (TCollect ps o st pos) = r.
  Proof.
    intros OK T H. pose proof OK as (NL & _ & CH & _). rewrite run_collect. unfold collect_step.
    rewrite (next_tok_ok _ _ _ _ _ T), (stop_no_match2 ps o _ _ _ _ _ _ OK) by (right; right; left; reflexivity).
    cbn [mk tk]. rewrite (c_pre_result_nl ps o st _ _ pos _ ws post NL). cbn [fst snd].
    unfold c_dispatch. cbn [mk tk targ tpos tend tpost]. unfold c_push_check. rewrite NL. cbn [nl_stop_met].
    exact H.
  Qed.

  Lemma trule_specials n ps o st pos ws chars pe sp nd p' r :
    opts_ok2 ps o -> get_specials_spec cx chars = Some sp ->
    impl_peek ps s pos = TokOk (mk TkSpecials chars (pos + length ws) pe ws []) ->
    R n (TCall ps (mk TkSpecials chars (pos + length ws) pe [] []) sp pe) = Ok (ONode (Some nd)) p' ->
    R n (TCollect ps o (push_node (pre_flush ps st ws pos) (Some nd)) p') = r ->
    R (S n) (TCollect ps o st pos) = r.
  Proof.
    intros OK SP T G H. pose proof OK as (NL & _ & CH & _). rewrite run_collect. unfold collect_step.
    rewrite (next_tok_ok _ _ _ _ _ T), (stop_no_match2 ps o _ _ _ _ _ _ OK) by (right; right; right; left; reflexivity).
    cbn [mk tk]. rewrite (c_pre_result_nl ps o st _ _ pos _ ws [] NL). cbn [fst snd].
    unfold c_dispatch. cbn [mk tk targ tpos tend tpost]. rewrite SP, CH. unfold c_tok0. cbn [mk tk targ tpos tend tpost].
    rewrite G. cbn [parse_content]. unfold c_push_check. rewrite NL. cbn [nl_stop_met]. exact H.
  Qed.

  Lemma trule_tcall_specials n ps chars p0 pe sp :
    sp_args sp = APStd [] ->
    R (S (S n)) (TCall ps (mk TkSpecials chars p0 pe [] []) sp pe)
    = Ok (ONode (Some (NSpecials p0 pe (ps_mode ps) chars (Some ([], []))))) pe.
  Proof. intros A. cbn [run]. rewrite A. reflexivity. Qed.

  (** ** the collector meets a token it rejects: an unexpected closing brace
      (2), an unexpected [\end] (3), a math delimiter that does not open math
      mode (4).  The error carries the nodes collected so far, the whitespace
      in front of the token included. *)
  Definition fail_err (ps : pstate) (st : collstate) (pos : nat) (k : tokkind) (a : str) (e : nat)
             (ws post : str) (what : nat) : perr :=
    mkerr (Some (pos + length ws)) what
          (Some (NList None None (cs_acc (pre_flush ps st ws pos))))
          true None (Some (mk k a (pos + length ws) e [] post)).

  Definition rejected (ps : pstate) (k : tokkind) (a : str) (what : nat) : Prop :=
    (k = TkBraceClose /\ what = 2) \/ (k = TkEndEnv /\ what = 3) \/
    (is_mk k = true /\ by_open_has ps a = false /\ what = 4).

  Lemma trule_fail n ps o st pos k a e ws post what :
    g_nl o = NLNone ->
    impl_peek ps s pos = TokOk (mk k a (pos + length ws) e ws post) ->
    stop_matches (g_stop o) (mk k a (pos + length ws) e ws post) = false ->
    rejected ps k a what ->
    R (S n) (TCollect ps o st pos) = PErr (fail_err ps st pos k a e ws post what) e.
  Proof.
    intros NL T SM RJ. rewrite run_collect. unfold collect_step.
    rewrite (next_tok_ok _ _ _ _ _ T), SM.
    assert (NC : k <> TkChar).
    { destruct RJ as [[-> _]|[[-> _]|[K _]]]; try discriminate. intros ->. discriminate. }
    destruct RJ as [[-> ->]|[[-> ->]|(K & B & ->)]].
    - cbn [mk tk]. rewrite (c_pre_result_nl ps o st _ _ pos _ ws post NL). cbn [fst snd].
      unfold c_dispatch, c_fail, fail_err, c_tok0. cbn [mk tk targ tpos tend tpost].
      rewrite flush_pre_flush. reflexivity.
    - cbn [mk tk]. rewrite (c_pre_result_nl ps o st _ _ pos _ ws post NL). cbn [fst snd].
      unfold c_dispatch, c_fail, fail_err, c_tok0. cbn [mk tk targ tpos tend tpost].
      rewrite flush_pre_flush. reflexivity.
    - destruct k; try discriminate; cbn [mk tk];
        rewrite (c_pre_result_nl ps o st _ _ pos _ ws post NL); cbn [fst snd];
        unfold c_dispatch, c_fail, fail_err, c_tok0; cbn [mk tk targ tpos tend tpost];
        rewrite B, flush_pre_flush; reflexivity.
  Qed.

End Rules.

(** * Strict mode: a parse error of a nested call propagates through the
    enclosing parsers; only the general-nodes parser re-wraps it (new recovery
    nodes, same position and same raise site). *)
Definition rewrap (pos : nat) (e : perr) : perr :=
  mkerr (pe_pos e) (pe_what e)
        (Some (match pe_nodes e with
               | Some (NList _ _ items) =>
                   match mk_nodelist None None items with
                   | NList a b it => NList (match a with Some _ => a | None => Some pos end)
                                           (match b with Some _ => b | None => Some pos end) it
                   | x => x end
               | _ => NList (Some pos) (Some pos) []
               end)) true None None.

Section ErrRules.
  Variable s : str.
  Variable cx : context.
  Notation R := (run s false cx).

  Lemma erule_general n ps o pos e p :
    R n (TCollect ps o cs_empty pos) = PErr e p -> R (S n) (TGeneral ps o pos) = PErr (rewrap pos e) p.
  Proof. intros H. cbn [run]. rewrite H. reflexivity. Qed.

  Lemma erule_tgroup n ps p0 e p :
    f_group_delims (ps_f ps) = default_group_delims ->
    impl_peek ps s p0 = TokOk (mk TkBraceOpen [123%N] p0 (S p0) [] []) ->
    R n (TGeneral ps (grp_opts ps) (S p0)) = PErr e p ->
    R (S n) (TGroup ps (GDStr [123%N]) false false p0) = PErr e p.
  Proof.
    intros GD T H. cbn [run]. rewrite next_tok_strict, T. cbn [mk tk targ tpre tpos tend tokkind_eqb str_eqb].
    unfold group_close_of. rewrite GD. cbn. fold (grp_opts ps). rewrite H. reflexivity.
  Qed.

  Lemma erule_tmath n ps k p0 kk e p :
    impl_peek ps s p0 = TokOk (mk (m_tok k) (m_open k) p0 (p0 + length (m_open k)) [] []) ->
    c_expect_close (ps_c (ps_enter_math ps (Some (m_open k)))) = Some (m_close k, kk) ->
    R n (TGeneral (ps_enter_math ps (Some (m_open k))) (math_opts k) (p0 + length (m_open k))) = PErr e p ->
    R (S n) (TMath ps (m_open k) p0) = PErr e p.
  Proof.
    intros T E H. cbn [run]. rewrite next_tok_strict, T.
    unfold mode_of_tok. cbn [mk tk targ tpre tpos tend].
    replace (str_eqb (m_open k) (m_open k)) with true by (destruct k; reflexivity).
    replace (tokkind_eqb (m_tok k) TkMathInline || tokkind_eqb (m_tok k) TkMathDisplay) with true
      by (destruct k; reflexivity).
    cbn [negb andb]. rewrite E. fold (math_opts k). rewrite H. reflexivity.
  Qed.

  Lemma erule_group n ps o st pos ws e p :
    opts_ok2 ps o ->
    impl_peek ps s pos = TokOk (mk TkBraceOpen [123%N] (pos + length ws) (S (pos + length ws)) ws []) ->
    R n (TGroup ps (GDStr [123%N]) false false (pos + length ws)) = PErr e p ->
    R (S n) (TCollect ps o st pos) = PErr e p.
  Proof.
    intros OK T G. pose proof OK as (NL & _ & CH & _). rewrite run_collect. unfold collect_step.
    rewrite next_tok_strict, T, (stop_no_match2 ps o _ _ _ _ _ _ OK) by (left; reflexivity).
    cbn [mk tk]. rewrite (c_pre_result_nl ps o st _ _ pos _ ws [] NL). cbn [fst snd].
    unfold c_dispatch. cbn [mk tk targ tpos]. rewrite CH, G. reflexivity.
  Qed.

  Lemma erule_math n ps o st pos ws k e p :
    opts_ok2 ps o -> Good ps -> f_in_math (ps_f ps) = false ->
    impl_peek ps s pos = TokOk (mk (m_tok k) (m_open k) (pos + length ws)
                                   (pos + length ws + length (m_open k)) ws []) ->
    R n (TMath ps (m_open k) (pos + length ws)) = PErr e p ->
    R (S n) (TCollect ps o st pos) = PErr e p.
  Proof.
    intros OK GD M T G. pose proof OK as (NL & _ & CH & _). rewrite run_collect. unfold collect_step.
    rewrite next_tok_strict, T, (stop_no_match2 ps o _ _ _ _ _ _ OK)
      by (right; right; right; right; right; split; [destruct k; reflexivity | exact M]).
    assert (TK : tk (mk (m_tok k) (m_open k) (pos + length ws) (pos + length ws + length (m_open k)) ws [])
                 = m_tok k) by reflexivity.
    assert (BO : by_open_has ps (m_open k) = true).
    { rewrite (good_by_open_has ps _ GD). destruct k; reflexivity. }
    destruct k; cbn [m_tok] in *; rewrite TK;
      rewrite (c_pre_result_nl ps o st _ _ pos _ ws [] NL); cbn [fst snd];
      unfold c_dispatch; rewrite TK; cbn [mk targ tpos]; rewrite BO; cbn [negb];
      rewrite CH, G; reflexivity.
  Qed.

  Lemma erule_macro n ps o st pos ws name pe post sp e p :
    opts_ok2 ps o -> get_macro_spec cx name = Some sp ->
    impl_peek ps s pos = TokOk (mk TkMacro name (pos + length ws) pe ws post) ->
    R n (TCall ps (mk TkMacro name (pos + length ws) pe [] post) sp pe) = PErr e p ->
    R (S n) (TCollect ps o st pos) = PErr e p.
  Proof.
    intros OK SP T G. pose proof OK as (NL & _ & CH & _). rewrite run_collect. unfold collect_step.
    rewrite next_tok_strict, T, (stop_no_match2 ps o _ _ _ _ _ _ OK) by (right; left; reflexivity).
    cbn [mk tk]. rewrite (c_pre_result_nl ps o st _ _ pos _ ws post NL). cbn [fst snd].
    unfold c_dispatch. cbn [mk tk targ tpos tend tpost]. rewrite SP, CH. unfold c_tok0. cbn [mk tk targ tpos tend tpost].
    rewrite G. reflexivity.
  Qed.

  Lemma erule_tcall n ps t sp l pe e p :
    sp_args sp = APStd l ->
    R n (TArgs ps l [] pe) = PErr e p ->
    R (S n) (TCall ps t sp pe) = PErr e p.
  Proof. intros A H. cbn [run]. rewrite A, H. reflexivity. Qed.

  Lemma erule_targs_cons n ps a rest acc pos t e p :
    impl_peek ps s pos = TokOk t ->
    R n (TStdArg (apply_adelta ps (a_delta a)) (a_kind a) pos) = PErr e p ->
    R (S n) (TArgs ps (a :: rest) acc pos) = PErr e p.
  Proof. intros T A. cbn [run]. rewrite peek_tok_strict, T, A. reflexivity. Qed.

  Lemma erule_tstdarg n ps aps pos e p :
    R n (TExpr ps aps aps false true [] pos) = PErr e p ->
    R (S n) (TStdArg ps (AKExpr aps) pos) = PErr e p.
  Proof. intros H. cbn [run]. rewrite H. reflexivity. Qed.

  Lemma erule_texpr n ps aps apc sterr pos e p :
    impl_peek (sub_context ps [UEnEnvs false]) s pos = TokOk (mk TkBraceOpen [123%N] pos (S pos) [] []) ->
    R n (TGroup ps (GDStr [123%N]) false false pos) = PErr e p ->
    R (S n) (TExpr ps aps apc false sterr [] pos) = PErr e p.
  Proof.
    intros T H. rewrite run_expr. unfold expr_step. rewrite next_tok_strict, T.
    cbn [mk tk targ tpre tpos tend]. rewrite H. reflexivity.
  Qed.

  (** ** the general-nodes parser of a delimited construct reaches the end of
      the input without meeting its closing delimiter: error 6, located at the
      first node collected (or at the start of the body if there is none) *)
  Lemma erule_general_unclosed n ps o pos st p :
    g_require o = true -> stop_is_none (g_stop o) = false ->
    R n (TCollect ps o cs_empty pos) = Ok (OColl st None false true) p ->
    R (S n) (TGeneral ps o pos)
    = PErr (mkerr (Some (match coll_pos_start st with Some q => q | None => pos end)) 6
                  (Some (gen_nodelist pos (cs_acc st))) true None None) p.
  Proof. intros RQ SN H. cbn [run]. rewrite H, RQ, SN. reflexivity. Qed.

  (** ** [\begin{x}]: the call parser of an environment without arguments,
      the environment body parser *)
  Definition env_opts (name : str) : genopts :=
    {| g_stop := SEndEnv name; g_nl := NLNone; g_require := true;
       g_child := CPSelf; g_incl_pre := true; g_handle_stop := true |}.
  Definition env_body_state (ps : pstate) (sp : cspec) : pstate :=
    if sp_body_math sp then ps_enter_math ps None else ps.

  Lemma erule_tcall_env n ps name p0 pe sp e p :
    sp_args sp = APStd [] ->
    R n (TGeneral (env_body_state ps sp) (env_opts name) pe) = PErr e p ->
    R (S (S n)) (TCall ps (mk TkBeginEnv name p0 pe [] []) sp pe) = PErr e p.
  Proof.
    intros A H. cbn [run]. rewrite A. cbn [parse_content_args parse_content mk tk targ].
    fold (env_opts name). fold (env_body_state ps sp).
    destruct n as [|n]; [discriminate|]. rewrite H. reflexivity.
  Qed.

  Lemma erule_begin n ps o st pos ws name pe sp e p :
    opts_ok2 ps o -> get_env_spec cx name = Some sp ->
    impl_peek ps s pos = TokOk (mk TkBeginEnv name (pos + length ws) pe ws []) ->
    R n (TCall ps (mk TkBeginEnv name (pos + length ws) pe [] []) sp pe) = PErr e p ->
    R (S n) (TCollect ps o st pos) = PErr e p.
  Proof.
    intros OK SP T G. pose proof OK as (NL & _ & CH & _). rewrite run_collect. unfold collect_step.
    rewrite next_tok_strict, T, (stop_no_match2 ps o _ _ _ _ _ _ OK) by (right; right; right; right; left; reflexivity).
    cbn [mk tk]. rewrite (c_pre_result_nl ps o st _ _ pos _ ws [] NL). cbn [fst snd].
    unfold c_dispatch. cbn [mk tk targ tpos tend tpost]. rewrite SP, CH. unfold c_tok0. cbn [mk tk targ tpos tend tpost].
    rewrite G. reflexivity.
  Qed.

  (** an environment the context does not know and has no fallback for: error 5 at the token *)
  Lemma erule_unknown_env n ps o st pos ws name pe :
    opts_ok2 ps o -> get_env_spec cx name = None ->
    impl_peek ps s pos = TokOk (mk TkBeginEnv name (pos + length ws) pe ws []) ->
    R (S n) (TCollect ps o st pos)
    = PErr (mkerr (Some (pos + length ws)) 5 (Some (NList None None (cs_acc (pre_flush ps st ws pos)))) false None None) pe.
  Proof.
    intros OK SP T. pose proof OK as (NL & _ & CH & _). rewrite run_collect. unfold collect_step.
    rewrite next_tok_strict, T, (stop_no_match2 ps o _ _ _ _ _ _ OK) by (right; right; right; right; left; reflexivity).
    cbn [mk tk]. rewrite (c_pre_result_nl ps o st _ _ pos _ ws [] NL). cbn [fst snd].
    unfold c_dispatch. cbn [mk tk targ tpos tend tpost]. rewrite SP, flush_pre_flush. reflexivity.
  Qed.
End ErrRules.
