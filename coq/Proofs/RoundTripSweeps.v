(** C08: the eight per-configuration sweeps combined, and the encoder side of
    the round trip for all strings. *)
From Coq Require Import NArith List Bool Arith Lia String.
Local Open Scope string_scope.
Local Open Scope list_scope.
From PLV Require Import Base.PyStr L2T.L2T L2T.L2TWire Enc.Encoder Enc.Builtin Enc.RoundTrip.
From PLV Require Import Proofs.EncoderProofs Proofs.EncBuiltinFacts Proofs.RoundTripDefs.
From PLV Require Import Gen.GenBaseline.
From PLV Require Proofs.RoundTripSweepBracesM Proofs.RoundTripSweepBracesT
                 Proofs.RoundTripSweepAllM Proofs.RoundTripSweepAllT
                 Proofs.RoundTripSweepAlmostM Proofs.RoundTripSweepAlmostT
                 Proofs.RoundTripSweepAfterM Proofs.RoundTripSweepAfterT.
Import ListNotations.
Local Open Scope N_scope.

(* keep unification from evaluating the big lists *)
Local Opaque representatives c08_alphabet rep_pairs shape.

(** * Single characters: the whole alphabet, 4 schemes x 2 policies *)
Theorem single_characters : forall c p sl,
  In c c08_alphabet -> In p schemes -> In sl policies -> roundtrip p sl [c] = Some [c].
Proof.
  intros c p sl Hc Hp Hs. apply roundtrip_ok_true.
  unfold schemes in Hp. unfold policies in Hs. cbn [In] in Hp, Hs.
  destruct Hp as [<-|[<-|[<-|[<-|[]]]]]; destruct Hs as [<-|[<-|[]]].
  - exact (filter_negb_nil (fun c => roundtrip_ok PBraces sls_macros [c]) c08_alphabet RoundTripSweepBracesM.singles c Hc).
  - exact (filter_negb_nil (fun c => roundtrip_ok PBraces sls_alltrue [c]) c08_alphabet RoundTripSweepBracesT.singles c Hc).
  - exact (filter_negb_nil (fun c => roundtrip_ok PBracesAll sls_macros [c]) c08_alphabet RoundTripSweepAllM.singles c Hc).
  - exact (filter_negb_nil (fun c => roundtrip_ok PBracesAll sls_alltrue [c]) c08_alphabet RoundTripSweepAllT.singles c Hc).
  - exact (filter_negb_nil (fun c => roundtrip_ok PBracesAlmostAll sls_macros [c]) c08_alphabet RoundTripSweepAlmostM.singles c Hc).
  - exact (filter_negb_nil (fun c => roundtrip_ok PBracesAlmostAll sls_alltrue [c]) c08_alphabet RoundTripSweepAlmostT.singles c Hc).
  - exact (filter_negb_nil (fun c => roundtrip_ok PBracesAfterMacro sls_macros [c]) c08_alphabet RoundTripSweepAfterM.singles c Hc).
  - exact (filter_negb_nil (fun c => roundtrip_ok PBracesAfterMacro sls_alltrue [c]) c08_alphabet RoundTripSweepAfterT.singles c Hc).
Qed.

(** the boolean form of the same sweep *)
Corollary single_characters_bool :
  forallb (fun c => forallb (fun p => forallb (fun sl => roundtrip_ok p sl [c]) policies) schemes)
          c08_alphabet = true.
Proof.
  apply forallb_forall. intros c Hc. apply forallb_forall. intros p Hp.
  apply forallb_forall. intros sl Hs. unfold roundtrip_ok.
  rewrite <- roundtrip_fast_eq. rewrite (single_characters c p sl Hc Hp Hs). cbn [opt_str_eqb str_eqb]. rewrite N.eqb_refl. reflexivity.
Qed.

(** * Class pairs: every ordered pair of representatives *)
Lemma in_rep_pairs a b :
  In a representatives -> In b representatives -> has_ligature [a; b] = false -> In [a; b] rep_pairs.
Proof.
  intros Ha Hb Hl. Local Transparent rep_pairs. unfold rep_pairs. Local Opaque rep_pairs.
  apply (proj2 (filter_In (fun s => negb (has_ligature s)) [a; b]
                          (flat_map (fun a => map (fun b => [a; b]) representatives) representatives))).
  split; [|now rewrite Hl].
  apply (proj2 (in_flat_map (fun a => map (fun b => [a; b]) representatives) representatives [a; b])).
  exists a. split; [exact Ha|].
  apply (proj2 (in_map_iff (fun b => [a; b]) representatives [a; b])). exists b. auto.
Qed.

Theorem class_pairs : forall a b p sl,
  In a representatives -> In b representatives -> has_ligature [a; b] = false ->
  In p schemes -> In sl policies -> roundtrip p sl [a; b] = Some [a; b].
Proof.
  intros a b p sl Ha Hb Hl Hp Hs. apply roundtrip_ok_true.
  pose proof (in_rep_pairs a b Ha Hb Hl) as Hin.
  unfold schemes in Hp. unfold policies in Hs. cbn [In] in Hp, Hs.
  destruct Hp as [<-|[<-|[<-|[<-|[]]]]]; destruct Hs as [<-|[<-|[]]].
  - exact (filter_negb_nil (fun s => roundtrip_ok PBraces sls_macros s) rep_pairs RoundTripSweepBracesM.pairs _ Hin).
  - exact (filter_negb_nil (fun s => roundtrip_ok PBraces sls_alltrue s) rep_pairs RoundTripSweepBracesT.pairs _ Hin).
  - exact (filter_negb_nil (fun s => roundtrip_ok PBracesAll sls_macros s) rep_pairs RoundTripSweepAllM.pairs _ Hin).
  - exact (filter_negb_nil (fun s => roundtrip_ok PBracesAll sls_alltrue s) rep_pairs RoundTripSweepAllT.pairs _ Hin).
  - exact (filter_negb_nil (fun s => roundtrip_ok PBracesAlmostAll sls_macros s) rep_pairs RoundTripSweepAlmostM.pairs _ Hin).
  - exact (filter_negb_nil (fun s => roundtrip_ok PBracesAlmostAll sls_alltrue s) rep_pairs RoundTripSweepAlmostT.pairs _ Hin).
  - exact (filter_negb_nil (fun s => roundtrip_ok PBracesAfterMacro sls_macros s) rep_pairs RoundTripSweepAfterM.pairs _ Hin).
  - exact (filter_negb_nil (fun s => roundtrip_ok PBracesAfterMacro sls_alltrue s) rep_pairs RoundTripSweepAfterT.pairs _ Hin).
Qed.

Lemma pair_eqb_true a b : pair_eqb a b = true -> a = b.
Proof.
  destruct a, b. unfold pair_eqb. cbn [fst snd]. intros H. apply andb_true_iff in H.
  destruct H as [H1 H2]. apply N.eqb_eq in H1, H2. congruence.
Qed.

(** every character of the alphabet has the shape of some representative,
    and the representatives are themselves characters of the alphabet *)
Theorem classes_covered : forall c, In c c08_alphabet ->
  exists r, In r representatives /\ In r c08_alphabet /\ shape r = shape c.
Proof.
  intros c Hc. pose proof every_class_represented as H.
  pose proof (proj1 (forallb_forall (fun c => existsb (pair_eqb (shape c)) rep_shapes) c08_alphabet) H c Hc) as H1.
  cbv beta in H1.
  destruct (proj1 (existsb_exists (pair_eqb (shape c)) rep_shapes) H1) as (k & Hk & He).
  apply pair_eqb_true in He.
  destruct (proj1 (in_map_iff shape representatives k) Hk) as (r & Hr & Hin).
  exists r. split; [exact Hin|]. split; [|congruence].
  pose proof representatives_in_alphabet as HA.
  pose proof (proj1 (forallb_forall (fun r => mem_N r c08_alphabet) representatives) HA r Hin) as H2.
  apply mem_N_In. exact H2.
Qed.

(** * The encoder side, all strings *)

(** under the default rules and policy 'keep' the encoder output is the
    concatenation of one chunk per character, for every protection scheme
    (including an arbitrary callable) *)
Theorem encoding_is_chunkwise : forall p s,
  encode_builtin false p UKeep s = EncOk (List.concat (map (keep_chunk false p) s)).
Proof. intros p s. apply encode_builtin_keep. Qed.

Corollary encoding_concat : forall p a b ta tb,
  encode_builtin false p UKeep a = EncOk ta -> encode_builtin false p UKeep b = EncOk tb ->
  encode_builtin false p UKeep (a ++ b) = EncOk (ta ++ tb).
Proof.
  intros p a b ta tb. rewrite !encoding_is_chunkwise. intros Ha Hb.
  injection Ha as <-. injection Hb as <-. now rewrite map_app, concat_app.
Qed.

(** the round trip of a string is the decoding of the concatenated chunks:
    what remains for the unbounded theorem is a statement about the parser and
    latex2text alone *)
Theorem roundtrip_decode_of_chunks : forall p sl s,
  roundtrip p sl s = decode sl (List.concat (map (keep_chunk false p) s)).
Proof. intros p sl s. apply roundtrip_is_decode_of_chunks. Qed.

(** * The proved restriction of the unbounded statement *)
Lemma roundtrip_nil : forall p sl, roundtrip p sl [] = Some [].
Proof. intros p sl. rewrite roundtrip_is_decode_of_chunks. destruct sl as [[] [] [] []]; vm_compute; reflexivity. Qed.

Theorem roundtrip_bounded : forall p sl s,
  In p schemes -> In sl policies -> has_ligature s = false ->
  (s = [] \/ (exists c, s = [c] /\ In c c08_alphabet) \/
   (exists a b, s = [a; b] /\ In a representatives /\ In b representatives)) ->
  roundtrip p sl s = Some s.
Proof.
  intros p sl s Hp Hs Hl [->|[(c & -> & Hc)|(a & b & -> & Ha & Hb)]].
  - apply roundtrip_nil.
  - now apply single_characters.
  - now apply class_pairs.
Qed.
