(** The encoder with a built-in rule set, character by character (shared by
    C08 and C13).  With one dictionary rule the encoder output is the
    concatenation of one chunk per input character:

      - the table replacement wrapped by the protection scheme, or
      - the character itself (ASCII pass-through range), or
      - what the unknown-character policy says.

    Everything here is proved for ALL strings (no sweep), except the two table
    facts at the end ([table_ascii]: every replacement string of both
    regenerated tables is ASCII), which are finite sweeps over the tables. *)
From Coq Require Import NArith List Bool Arith Lia FMapPositive String.
Local Open Scope string_scope.
Local Open Scope list_scope.
From PLV Require Import Base.PyStr Enc.Encoder Enc.Builtin Enc.RoundTrip.
From PLV Require Import Proofs.EncoderProofs Proofs.FamilyProofs.
From PLV Require Gen.GenUni2Latex Gen.GenUni2LatexXml.
Import ListNotations.
Local Open Scope N_scope.

(** * The trie built from a table answers exactly the table *)

Lemma succ_pos_inj a b : N.succ_pos a = N.succ_pos b -> a = b.
Proof. intros H. rewrite <- (N.pos_pred_succ a), <- (N.pos_pred_succ b). now rewrite H. Qed.

Definition add_kv (m : PositiveMap.t str) (kv : N * str) : PositiveMap.t str :=
  PositiveMap.add (N.succ_pos (fst kv)) (snd kv) m.

Lemma fold_add_find (t : list (N * str)) : forall m c v,
  PositiveMap.find (N.succ_pos c) (fold_left add_kv t m) = Some v ->
  In (c, v) t \/ PositiveMap.find (N.succ_pos c) m = Some v.
Proof.
  induction t as [|[k w] t IH]; intros m c v H; cbn [fold_left] in H; [right; exact H|].
  apply IH in H. destruct H as [H|H]; [left; right; exact H|].
  unfold add_kv in H. cbn [fst snd] in H.
  destruct (N.eq_dec k c) as [->|Hne].
  - rewrite PositiveMap.gss in H. injection H as ->. left; left; reflexivity.
  - rewrite PositiveMap.gso in H; [right; exact H|].
    intros E. apply Hne. symmetry. now apply succ_pos_inj.
Qed.

Lemma fold_add_find_none (t : list (N * str)) : forall m c,
  PositiveMap.find (N.succ_pos c) (fold_left add_kv t m) = None <->
  (~ In c (map fst t) /\ PositiveMap.find (N.succ_pos c) m = None).
Proof.
  induction t as [|[k w] t IH]; intros m c; cbn [fold_left map fst].
  - split; [intros H; split; [intros []|exact H]|intros [_ H]; exact H].
  - rewrite IH. unfold add_kv. cbn [fst snd]. destruct (N.eq_dec k c) as [->|Hne].
    + rewrite PositiveMap.gss. split; [intros [_ H]; discriminate|].
      intros [H _]. exfalso. apply H. left; reflexivity.
    + rewrite PositiveMap.gso by (intros E; apply Hne; symmetry; now apply succ_pos_inj).
      split.
      * intros [H1 H2]. split; [|exact H2]. intros [E|E]; [congruence|auto].
      * intros [H1 H2]. split; [|exact H2]. intros E. apply H1. right; exact E.
Qed.

Lemma build_map_find t c v : map_lookup (build_map t) c = Some v -> In (c, v) t.
Proof.
  unfold map_lookup, build_map. intros H.
  apply (fold_add_find t (PositiveMap.empty str) c v) in H.
  destruct H as [H|H]; [exact H|]. rewrite PositiveMap.gempty in H. discriminate.
Qed.

Lemma build_map_find_none t c : map_lookup (build_map t) c = None <-> ~ In c (map fst t).
Proof.
  unfold map_lookup, build_map.
  rewrite (fold_add_find_none t (PositiveMap.empty str) c). rewrite PositiveMap.gempty.
  split; [intros [H _]; exact H|intros H; split; [exact H|reflexivity]].
Qed.

(** * The built-in configurations *)

Definition table_of (xml : bool) : list (N * str) :=
  if xml then Gen.GenUni2LatexXml.table else Gen.GenUni2Latex.table.
Definition map_of (xml : bool) : PositiveMap.t str :=
  if xml then uni2latex_xml_map else uni2latex_map.

Lemma map_of_find xml c v : map_lookup (map_of xml) c = Some v -> In (c, v) (table_of xml).
Proof. destruct xml; apply build_map_find. Qed.

Lemma map_of_find_none xml c : map_lookup (map_of xml) c = None <-> ~ In c (map fst (table_of xml)).
Proof. destruct xml; apply build_map_find_none. Qed.

(** what one character becomes, whatever surrounds it *)
Definition char_chunk (xml : bool) (p : prot) (pol : policy) (c : N) : str + exn :=
  match map_lookup (map_of xml) c with
  | Some r => inl (apply_protection p r)
  | None => if passthrough c then inl [c] else do_unknown_char pol c
  end.

Fixpoint chunks (xml : bool) (p : prot) (pol : policy) (s : str) : res (list str) :=
  match s with
  | [] => Ok []
  | c :: r => match char_chunk xml p pol c with
              | inl ch => res_map (cons ch) (chunks xml p pol r)
              | inr e => Exn e
              end
  end.

Lemma enc_cfg_per_char xml p pol : per_char_rules (enc_cfg xml p pol).
Proof. unfold per_char_rules, enc_cfg. destruct xml; repeat constructor; apply dict_rule_per_char. Qed.

Lemma char_step_builtin xml p pol c :
  char_step (enc_cfg xml p pol) c =
  match char_chunk xml p pol c with inl ch => SEmit 1 ch | inr e => SRaise e end.
Proof.
  unfold char_step, spec_step, char_chunk, skip_ascii.
  replace (non_ascii_only (enc_cfg xml p pol)) with false by reflexivity. cbn [andb].
  replace (rules (enc_cfg xml p pol)) with
    [ {| rbody := RDict (map_lookup (map_of xml)); rprot := None |} ] by (destruct xml; reflexivity).
  cbn [first_some]. unfold rule_answer, apply_rule. cbn [rbody nth].
  destruct (map_lookup (map_of xml) c) as [r|]; [reflexivity|].
  destruct (passthrough c); [reflexivity|].
  replace (upolicy (enc_cfg xml p pol)) with pol by reflexivity.
  destruct (do_unknown_char pol c); reflexivity.
Qed.

Lemma enc_chars_builtin xml p pol s : enc_chars (enc_cfg xml p pol) s = chunks xml p pol s.
Proof.
  induction s as [|c s IH]; cbn [enc_chars chunks]; [reflexivity|].
  rewrite char_step_builtin. destruct (char_chunk xml p pol c); [|reflexivity]. now rewrite IH.
Qed.

(** the encoder with a built-in rule set IS the chunk-by-chunk function *)
Theorem encode_builtin_chunks xml p pol s : encode (enc_cfg xml p pol) s = chunks xml p pol s.
Proof.
  pose proof (enc_cfg_per_char xml p pol) as HP.
  rewrite encode_is_spec by (apply per_char_consume; exact HP).
  rewrite encode_spec_per_char by exact HP. apply enc_chars_builtin.
Qed.

Lemma chunks_app xml p pol a b :
  chunks xml p pol (a ++ b) = res_app (chunks xml p pol a) (chunks xml p pol b).
Proof. rewrite <- !enc_chars_builtin. apply enc_chars_app. Qed.

(** ** policy 'keep' never raises: the default configuration of C08 *)
Definition keep_chunk (xml : bool) (p : prot) (c : N) : str :=
  match map_lookup (map_of xml) c with Some r => apply_protection p r | None => [c] end.

Lemma chunks_keep xml p s : chunks xml p UKeep s = Ok (map (keep_chunk xml p) s).
Proof.
  induction s as [|c s IH]; cbn [chunks map]; [reflexivity|].
  unfold char_chunk, keep_chunk. destruct (map_lookup (map_of xml) c).
  - rewrite IH. reflexivity.
  - cbn [do_unknown_char]. destruct (passthrough c); rewrite IH; reflexivity.
Qed.

Theorem encode_builtin_keep xml p s :
  encode_builtin xml p UKeep s = EncOk (List.concat (map (keep_chunk xml p) s)).
Proof. unfold encode_builtin. rewrite encode_builtin_chunks, chunks_keep. reflexivity. Qed.

(** * ASCII *)

Definition ascii_c (c : N) : bool := N.ltb c 128.

Lemma is_ascii_app a b : is_ascii_str (a ++ b) = is_ascii_str a && is_ascii_str b.
Proof. unfold is_ascii_str. apply forallb_app. Qed.

Lemma is_ascii_concat l : forallb is_ascii_str l = true -> is_ascii_str (List.concat l) = true.
Proof.
  induction l as [|x l IH]; cbn [forallb List.concat]; [reflexivity|].
  intros H. apply andb_true_iff in H. destruct H as [Hx Hl].
  rewrite is_ascii_app, Hx, IH by exact Hl. reflexivity.
Qed.

Lemma braces_ascii r : is_ascii_str r = true -> is_ascii_str (braces r) = true.
Proof.
  intros H. unfold braces. change (123 :: r ++ [125]) with ([123] ++ r ++ [125]).
  rewrite !is_ascii_app, H. reflexivity.
Qed.

(** the five named protection schemes only add braces *)
Definition named_prot (p : prot) : Prop := match p with PFun _ => False | _ => True end.

Lemma apply_protection_ascii p r : named_prot p ->
  is_ascii_str r = true -> is_ascii_str (apply_protection p r) = true.
Proof.
  intros Hp H. destruct p; cbn [apply_protection]; try exact H; try (apply braces_ascii; exact H).
  - destruct (dangling_macro r); [apply braces_ascii|]; exact H.
  - destruct r as [|c r]; [exact H|]. destruct (N.eqb c 92); [apply braces_ascii|]; exact H.
  - destruct (dangling_macro r); [|exact H]. rewrite is_ascii_app, H. reflexivity.
  - destruct Hp.
Qed.

Lemma hexdigit_ascii d : d < 16 -> ascii_c (hexdigit d) = true.
Proof.
  intros H. unfold hexdigit, ascii_c. destruct (d <? 10) eqn:E; apply N.ltb_lt; lia.
Qed.

Lemma hex_aux_ascii fuel : forall n acc, is_ascii_str acc = true -> is_ascii_str (hex_aux fuel n acc) = true.
Proof.
  induction fuel as [|f IH]; intros n acc H; cbn [hex_aux]; [exact H|].
  destruct (n =? 0); [exact H|]. apply IH. cbn [is_ascii_str forallb].
  change (forallb (fun c => c <? 128) acc) with (is_ascii_str acc). rewrite H, andb_true_r.
  apply hexdigit_ascii. apply N.mod_lt. discriminate.
Qed.

Lemma repeat_ascii k : is_ascii_str (repeat 48 k) = true.
Proof. induction k as [|k IH]; [reflexivity|]. cbn [repeat is_ascii_str forallb]. exact IH. Qed.

Lemma HexstrN_ascii n : is_ascii_str (HexstrN n) = true.
Proof.
  unfold HexstrN, zfill. rewrite is_ascii_app, repeat_ascii. cbn [andb].
  unfold hexstr. destruct (n =? 0); [reflexivity|]. apply hex_aux_ascii. reflexivity.
Qed.

Lemma unihex_ascii c :
  is_ascii_str (lit "\ensuremath{\langle}\texttt{U+" ++ HexstrN c ++ lit "}\ensuremath{\rangle}") = true.
Proof. rewrite !is_ascii_app, HexstrN_ascii. reflexivity. Qed.

(** the three policies that promise ASCII *)
Definition ascii_policy (pol : policy) : Prop :=
  match pol with UReplace | UIgnore | UUnihex => True | _ => False end.

Lemma do_unknown_char_ascii pol c ch : ascii_policy pol ->
  do_unknown_char pol c = inl ch -> is_ascii_str ch = true.
Proof.
  intros Hp H. destruct pol; try destruct Hp; cbn [do_unknown_char] in H; injection H as <-.
  - reflexivity.
  - reflexivity.
  - exact (unihex_ascii c).
Qed.

Lemma passthrough_ascii c : passthrough c = true -> is_ascii_str [c] = true.
Proof.
  unfold passthrough, is_ascii_str. cbn [forallb]. rewrite andb_true_r. intros H.
  apply N.ltb_lt.
  repeat (apply orb_true_iff in H; destruct H as [H|H]);
    [apply andb_true_iff in H; destruct H as [_ H]; apply N.leb_le in H; lia
    | apply N.eqb_eq in H; lia ..].
Qed.

(** sweeps are stated as "the list of failing elements is empty", so that a
    broken sweep names the offenders in the error message *)
Lemma filter_negb_nil {A} (f : A -> bool) l :
  filter (fun x => negb (f x)) l = [] -> forall x, In x l -> f x = true.
Proof.
  induction l as [|a l IH]; cbn [filter]; intros H x []; subst.
  - destruct (f x); [reflexivity|discriminate].
  - destruct (f a); cbn [negb] in H; [auto|discriminate].
Qed.

Lemma offenders_nil {A} (f : A -> bool) l : filter (fun x => negb (f x)) l = [] -> forallb f l = true.
Proof. intros H. apply forallb_forall. exact (filter_negb_nil f l H). Qed.

(** ** the table obligation: every replacement string is ASCII (finite sweep
    over both regenerated tables) *)
Definition table_ascii (xml : bool) : bool := forallb (fun kv => is_ascii_str (snd kv)) (table_of xml).

(** the offending entries (none) *)
Lemma non_ascii_entries_defaults : filter (fun kv => negb (is_ascii_str (snd kv))) (table_of false) = [].
Proof. vm_compute. reflexivity. Qed.
Lemma non_ascii_entries_xml : filter (fun kv => negb (is_ascii_str (snd kv))) (table_of true) = [].
Proof. vm_compute. reflexivity. Qed.

Lemma tables_ascii : table_ascii false = true /\ table_ascii true = true.
Proof.
  split.
  - exact (offenders_nil (fun kv => is_ascii_str (snd kv)) (table_of false) non_ascii_entries_defaults).
  - exact (offenders_nil (fun kv => is_ascii_str (snd kv)) (table_of true) non_ascii_entries_xml).
Qed.

Lemma table_entry_ascii xml c r : map_lookup (map_of xml) c = Some r -> is_ascii_str r = true.
Proof.
  intros H. apply map_of_find in H.
  assert (T : table_ascii xml = true) by (destruct xml; apply tables_ascii).
  unfold table_ascii in T. rewrite forallb_forall in T. exact (T (c, r) H).
Qed.

Lemma char_chunk_ascii xml p pol c ch : named_prot p -> ascii_policy pol ->
  char_chunk xml p pol c = inl ch -> is_ascii_str ch = true.
Proof.
  intros Hp Hq. unfold char_chunk. destruct (map_lookup (map_of xml) c) as [r|] eqn:E.
  - intros H; injection H as <-. apply apply_protection_ascii; [exact Hp|].
    exact (table_entry_ascii xml c r E).
  - destruct (passthrough c) eqn:Ep.
    + intros H; injection H as <-. now apply passthrough_ascii.
    + apply do_unknown_char_ascii. exact Hq.
Qed.

Lemma chunks_ascii xml p pol : named_prot p -> ascii_policy pol ->
  forall s l, chunks xml p pol s = Ok l -> forallb is_ascii_str l = true.
Proof.
  intros Hp Hq. induction s as [|c s IH]; intros l H; cbn [chunks] in H.
  - injection H as <-. reflexivity.
  - destruct (char_chunk xml p pol c) as [ch|e] eqn:Ec; [|discriminate].
    destruct (chunks xml p pol s) as [l'| |]; cbn [res_map] in H; try discriminate.
    injection H as <-. cbn [forallb]. rewrite (char_chunk_ascii _ _ _ _ _ Hp Hq Ec), (IH l' eq_refl).
    reflexivity.
Qed.

Theorem encode_builtin_ascii xml p pol s t : named_prot p -> ascii_policy pol ->
  encode_builtin xml p pol s = EncOk t -> is_ascii_str t = true.
Proof.
  intros Hp Hq. unfold encode_builtin. rewrite encode_builtin_chunks.
  destruct (chunks xml p pol s) as [l|[]|] eqn:E; try discriminate.
  intros H; injection H as <-. apply is_ascii_concat. exact (chunks_ascii xml p pol Hp Hq s l E).
Qed.

(** * 'fail' *)

Definition no_rule (xml : bool) (c : N) : Prop := ~ In c (map fst (table_of xml)).

Lemma unmatched_char_builtin xml p pol c :
  unmatched_char (enc_cfg xml p pol) c <-> (no_rule xml c /\ passthrough c = false).
Proof.
  unfold unmatched_char, skip_ascii, no_rule.
  replace (non_ascii_only (enc_cfg xml p pol)) with false by reflexivity. cbn [andb].
  replace (rules (enc_cfg xml p pol)) with
    [ {| rbody := RDict (map_lookup (map_of xml)); rprot := None |} ] by (destruct xml; reflexivity).
  rewrite <- map_of_find_none. split.
  - intros (_ & Hr & Hp). split; [|exact Hp].
    specialize (Hr _ (or_introl eq_refl)). unfold apply_rule in Hr. cbn [rbody nth] in Hr.
    destruct (map_lookup (map_of xml) c); [discriminate|reflexivity].
  - intros (Hn & Hp). split; [reflexivity|]. split; [|exact Hp].
    intros r [<-|[]]. unfold apply_rule. cbn [rbody nth]. now rewrite Hn.
Qed.

Theorem encode_builtin_fail_iff xml p s :
  encode_builtin xml p UFail s = EncValueError <->
  exists c, In c s /\ no_rule xml c /\ passthrough c = false.
Proof.
  assert (H1 : encode_builtin xml p UFail s = EncValueError <-> encode (enc_cfg xml p UFail) s = Exn ValueError).
  { unfold encode_builtin. destruct (encode (enc_cfg xml p UFail) s) as [l|[]|]; split; intros H; try discriminate; reflexivity. }
  rewrite H1. rewrite (encode_valueerror_per_char _ s (enc_cfg_per_char xml p UFail) eq_refl).
  split; intros (c & Hin & Hu); exists c; (split; [exact Hin|]); now apply (unmatched_char_builtin xml p UFail c).
Qed.

(** with the other four named policies the encoder never raises *)
Theorem encode_builtin_total xml p pol s : pol <> UFail ->
  exists t, encode_builtin xml p pol s = EncOk t.
Proof.
  intros Hp. unfold encode_builtin. rewrite encode_builtin_chunks.
  assert (H : exists l, chunks xml p pol s = Ok l).
  { induction s as [|c s [l IH]]; cbn [chunks]; [eexists; reflexivity|].
    unfold char_chunk. destruct (map_lookup (map_of xml) c); [rewrite IH; eexists; reflexivity|].
    destruct (passthrough c); [rewrite IH; eexists; reflexivity|].
    destruct pol; cbn [do_unknown_char]; try (rewrite IH; eexists; reflexivity). congruence. }
  destruct H as [l ->]. eexists; reflexivity.
Qed.
