(** Foundations for the strict-mode theorems about [Parse.Parser.run]
    (property C05): the reachable-state invariant [Good], its preservation by
    every state constructor used by the parsers, and what the tokenizer
    guarantees under it (positions inside the input, located token errors,
    opening-brace tokens whose delimiter is a key of the group-delimiter
    dictionary, math tokens of the two math kinds only). *)
From Coq Require Import NArith List Bool Arith Lia.
From PLV Require Import Base.PyStr Tok.PState Tok.Tokenizer Parse.Nodes Parse.Parser Parse.ParseWire
                        Proofs.PyStrFacts Proofs.TokProofs Proofs.PStateProofs.
Import ListNotations.

(** * Strings *)
Lemma pe_str_eqb_eq (a : str) : forall b, str_eqb a b = true <-> a = b.
Proof.
  unfold str_eqb. induction a as [|x a IH]; intros [|y b]; split; intros H; try discriminate; try reflexivity.
  - apply andb_true_iff in H. destruct H as [H1 H2]. apply N.eqb_eq in H1. apply IH in H2. congruence.
  - injection H as -> ->. apply andb_true_iff. split; [apply N.eqb_refl | apply IH; reflexivity].
Qed.

Lemma dict_get_key {A} (l : list (str * A)) k :
  existsb (str_eqb k) (map fst l) = true -> exists v, dict_get l k = Some v.
Proof.
  induction l as [|[k' v'] l IH]; cbn [map existsb fst dict_get]; [discriminate|].
  intros H. destruct (dict_get l k) as [w|] eqn:E; [eexists; reflexivity|].
  apply orb_true_iff in H. destruct H as [H|H].
  - apply pe_str_eqb_eq in H. subst k'.
    assert (R : str_eqb k k = true) by (apply pe_str_eqb_eq; reflexivity). rewrite R. eexists; reflexivity.
  - apply IH in H. destruct H as [v H]. discriminate.
Qed.

(** * The reachable-state invariant *)
Definition Good (ps : pstate) : Prop :=
  Inv ps /\ f_inline_delims (ps_f ps) = default_inline_delims
         /\ f_display_delims (ps_f ps) = default_display_delims.

Definition BO : list (str * (str * tokkind)) := compute_by_open default_fields.
Definition BL : list (str * tokkind) := compute_by_len default_fields.
Definition math_open (d : str) : bool :=
  match dict_get BO d with Some _ => true | None => false end.

Lemma good_by_open ps : Good ps -> c_math_by_open (ps_c ps) = BO.
Proof.
  intros [[Hc _] [Hi Hd]]. rewrite Hc. cbn [compute_caches c_math_by_open].
  unfold BO, compute_by_open. rewrite Hi, Hd. reflexivity.
Qed.

Lemma good_by_len ps : Good ps -> c_math_by_len (ps_c ps) = BL.
Proof.
  intros [[Hc _] [Hi Hd]]. rewrite Hc. cbn [compute_caches c_math_by_len].
  unfold BL, compute_by_len. rewrite Hi, Hd. reflexivity.
Qed.

Lemma good_expect ps : Good ps -> c_expect_close (ps_c ps) = compute_expect (ps_f ps) BO.
Proof.
  intros [[Hc _] [Hi Hd]]. rewrite Hc. cbn [compute_caches c_expect_close].
  unfold BO, compute_by_open. rewrite Hi, Hd. reflexivity.
Qed.

Lemma good_group_open ps : Good ps -> c_group_open (ps_c ps) = map fst (f_group_delims (ps_f ps)).
Proof. intros [[Hc _] _]. rewrite Hc. reflexivity. Qed.

Lemma good_by_open_has ps d : Good ps -> by_open_has ps d = math_open d.
Proof. intros G. unfold by_open_has, math_open. rewrite (good_by_open ps G). reflexivity. Qed.

Lemma good_is_fresh ps : Good ps -> ps = fresh (ps_f ps).
Proof.
  intros [[Hc Hn] _]. unfold fresh. rewrite Hn. destruct ps as [f c]. cbn in *. rewrite Hc. reflexivity.
Qed.

Lemma good_wf ps : Good ps -> ps_wf ps = true.
Proof.
  intros G. rewrite (good_is_fresh ps G). apply fields_wf_ps_wf.
  destruct G as [_ [Hi Hd]]. unfold fields_wf. rewrite Hi, Hd. reflexivity.
Qed.

Lemma good_fresh f : f_inline_delims f = default_inline_delims ->
  f_display_delims f = default_display_delims -> Good (fresh f).
Proof.
  intros Hi Hd. split; [apply inv_fresh|]. cbn [fresh ps_f].
  rewrite normalize_inline, normalize_display. split; assumption.
Qed.

Lemma good_walker cx : Good (walker_state cx).
Proof. apply good_fresh; reflexivity. Qed.

(** ** preservation *)
Lemma filter_no_key K f kw :
  existsb (fun u => ukey_eqb (key_of u) K) kw = false ->
  existsb (fun u => ukey_eqb (key_of u) K) (filter (changes f) kw) = false.
Proof.
  induction kw as [|u kw IH]; [reflexivity|]. cbn [existsb filter]. intros H.
  apply orb_false_iff in H. destruct H as [H1 H2].
  destruct (changes f u); cbn [existsb]; [rewrite H1|]; auto.
Qed.

Lemma sub_context_inline p kw :
  existsb (fun u => ukey_eqb (key_of u) KInline) kw = false ->
  f_inline_delims (ps_f (sub_context p kw)) = f_inline_delims (ps_f p).
Proof.
  intros H. unfold sub_context. cbn [ps_f]. rewrite normalize_inline.
  apply (fold_preserves KInline _ _ step_inline). apply filter_no_key. exact H.
Qed.

Lemma sub_context_display p kw :
  existsb (fun u => ukey_eqb (key_of u) KDisplay) kw = false ->
  f_display_delims (ps_f (sub_context p kw)) = f_display_delims (ps_f p).
Proof.
  intros H. unfold sub_context. cbn [ps_f]. rewrite normalize_display.
  apply (fold_preserves KDisplay _ _ step_display). apply filter_no_key. exact H.
Qed.

Lemma good_sub p kw : Good p ->
  existsb (fun u => ukey_eqb (key_of u) KInline) kw = false ->
  existsb (fun u => ukey_eqb (key_of u) KDisplay) kw = false ->
  Good (sub_context p kw).
Proof.
  intros [I [Hi Hd]] K1 K2. split; [apply inv_sub_context; exact I|].
  rewrite sub_context_inline, sub_context_display by assumption. split; assumption.
Qed.

Lemma good_enter_math ps d : Good ps -> Good (ps_enter_math ps d).
Proof. intros G. apply good_sub; [exact G | reflexivity | reflexivity]. Qed.
Lemma good_leave_math ps : Good ps -> Good (ps_leave_math ps).
Proof. intros G. apply good_sub; [exact G | reflexivity | reflexivity]. Qed.
Lemma good_adelta ps d : Good ps -> Good (apply_adelta ps d).
Proof. intros G. destruct d; cbn [apply_adelta]; auto using good_enter_math, good_leave_math. Qed.
Lemma good_add_group ps o c : Good ps -> Good (ps_add_group ps o c).
Proof.
  intros G. unfold ps_add_group. destruct (pair_in o c _); [exact G|].
  apply good_sub; [exact G | reflexivity | reflexivity].
Qed.
Lemma good_no_envs ps : Good ps -> Good (sub_context ps [UEnEnvs false]).
Proof. intros G. apply good_sub; [exact G | reflexivity | reflexivity]. Qed.

(** ** entering math mode with an opening delimiter sets the expected closing delimiter *)
Lemma enter_math_fields ps d :
  f_in_math (ps_f (ps_enter_math ps (Some d))) = true /\
  f_math_delim (ps_f (ps_enter_math ps (Some d))) = Some d.
Proof.
  unfold ps_enter_math, sub_context. cbn [ps_f filter].
  set (f0 := ps_f ps).
  assert (P : forall f, f_in_math f = true -> f_math_delim f = Some d ->
              f_in_math (normalize f) = true /\ f_math_delim (normalize f) = Some d).
  { intros f H1 H2. unfold normalize. rewrite H1. cbn [negb andb]. split; assumption. }
  assert (H1 : changes f0 (UInMath true) = false -> f_in_math f0 = true).
  { cbn [changes]. intros C1. apply negb_false_iff in C1. apply eqb_prop in C1. symmetry. exact C1. }
  assert (H2 : changes f0 (UMathDelim (Some d)) = false -> f_math_delim f0 = Some d).
  { cbn [changes]. intros C2. apply negb_false_iff in C2.
    destruct (f_math_delim f0) as [d'|] eqn:E; cbn [opt_eqb] in C2; [|discriminate].
    apply pe_str_eqb_eq in C2. subst d'. reflexivity. }
  destruct (changes f0 (UInMath true)) eqn:C1; destruct (changes f0 (UMathDelim (Some d))) eqn:C2;
    cbn [fold_left]; apply P; cbn; auto.
Qed.

Lemma enter_math_expect ps d : Good ps -> math_open d = true ->
  exists cd k, c_expect_close (ps_c (ps_enter_math ps (Some d))) = Some (cd, k).
Proof.
  intros G M. rewrite (good_expect _ (good_enter_math ps (Some d) G)).
  destruct (enter_math_fields ps d) as [H1 H2]. unfold compute_expect. rewrite H1, H2. cbn [negb].
  unfold math_open in M. destruct (dict_get BO d) as [[cd k]|]; [eauto | discriminate].
Qed.

(** * Token kinds *)
Definition is_math_kind (k : tokkind) : bool :=
  match k with TkMathInline | TkMathDisplay => true | _ => false end.

Definition math_kinds (ps : pstate) : bool :=
  forallb (fun x : str * tokkind => is_math_kind (snd x)) (c_math_by_len (ps_c ps))
  && match c_expect_close (ps_c ps) with Some (_, k) => is_math_kind k | None => true end.

Lemma good_math_kinds ps : Good ps -> math_kinds ps = true.
Proof.
  intros G. unfold math_kinds. rewrite (good_by_len ps G), (good_expect ps G).
  apply andb_true_iff. split; [reflexivity|].
  unfold compute_expect. destruct (negb _); [reflexivity|].
  destruct (f_math_delim (ps_f ps)) as [d|]; [|reflexivity].
  destruct (dict_get BO d) as [[cd k]|] eqn:E; [|reflexivity].
  apply dict_get_in in E. cbn in E.
  repeat (destruct E as [E|E]; [injection E as <- <-; reflexivity|]). destruct E.
Qed.

Lemma read_math_kind ps rest pos pre t : math_kinds ps = true ->
  read_math ps rest pos pre = Some t -> is_math_kind (tk t) = true.
Proof.
  intros MK. unfold math_kinds in MK. apply andb_true_iff in MK. destruct MK as [M1 M2].
  assert (LOOP : forall l, forallb (fun x : str * tokkind => is_math_kind (snd x)) l = true ->
     forall t0,
     (fix go (l : list (str * tokkind)) : option token :=
        match l with
        | [] => None
        | (d, k) :: r => if startswith rest d then Some (mk k d pos (pos + length d) pre []) else go r
        end) l = Some t0 -> is_math_kind (tk t0) = true).
  { induction l as [|[d k] l IH]; intros F t0 H; [discriminate|].
    cbn [forallb snd] in F. apply andb_true_iff in F. destruct F as [F1 F2].
    destruct (startswith rest d).
    - injection H as <-. exact F1.
    - apply IH; assumption. }
  unfold read_math. destruct (f_in_math (ps_f ps)).
  - destruct (c_expect_close (ps_c ps)) as [[cd k]|].
    + destruct (startswith rest cd).
      * intros H. injection H as <-. exact M2.
      * apply LOOP. exact M1.
    + apply LOOP. exact M1.
  - apply LOOP. exact M1.
Qed.

(** an opening-brace token carries one of the opening group delimiters of the state *)
Definition brace_from_dict (ps : pstate) (r : tokres) : Prop :=
  match r with
  | TokOk t => tk t = TkBraceOpen -> existsb (str_eqb (targ t)) (c_group_open (ps_c ps)) = true
  | _ => True
  end.

Lemma read_macro_nobrace ps s pos pre : brace_from_dict ps (read_macro ps s pos pre).
Proof.
  unfold read_macro. destruct (skipn (S pos) s) as [|c r]; [exact I|].
  destruct (mem_c c _); [destruct (post_space_at _ _)|]; cbn; discriminate.
Qed.

Lemma read_environment_nobrace ps s pos b pre : brace_from_dict ps (read_environment ps s pos b pre).
Proof.
  unfold read_environment. destruct (match_envname _) as [[nm len]|]; [|exact I].
  destruct b; cbn; discriminate.
Qed.

Lemma dispatch_brace ps s rest pos pre c : math_kinds ps = true ->
  brace_from_dict ps (dispatch ps s rest pos pre c).
Proof.
  intros MK. unfold dispatch, orelse.
  destruct (stage_math ps rest pos pre c) as [r|] eqn:E1.
  { unfold stage_math in E1. destruct (_ && _); [|discriminate].
    destruct (read_math ps rest pos pre) as [t|] eqn:R; [|discriminate]. injection E1 as <-.
    apply (read_math_kind _ _ _ _ _ MK) in R. cbn. intros K. rewrite K in R. discriminate. }
  destruct (stage_escape ps s pos pre c) as [r|] eqn:E2.
  { unfold stage_escape in E2. destruct (str_eqb [c] _); [|discriminate].
    destruct (f_en_envs (ps_f ps)).
    - destruct (startswith _ kw_begin).
      + destruct (char_at s _) as [d|].
        * destruct (mem_c d _).
          -- destruct (f_en_macros _); [|discriminate]. injection E2 as <-. apply read_macro_nobrace.
          -- injection E2 as <-. apply read_environment_nobrace.
        * injection E2 as <-. apply read_environment_nobrace.
      + destruct (startswith _ kw_end).
        * destruct (char_at s _) as [d|].
          -- destruct (mem_c d _).
             ++ destruct (f_en_macros _); [|discriminate]. injection E2 as <-. apply read_macro_nobrace.
             ++ injection E2 as <-. apply read_environment_nobrace.
          -- injection E2 as <-. apply read_environment_nobrace.
        * destruct (f_en_macros _); [|discriminate]. injection E2 as <-. apply read_macro_nobrace.
    - destruct (f_en_macros _); [|discriminate]. injection E2 as <-. apply read_macro_nobrace. }
  destruct (stage_comment ps s rest pos pre c) as [r|] eqn:E3.
  { unfold stage_comment in E3. destruct (f_comment _); [discriminate|].
    destruct (_ && _); [|discriminate]. injection E3 as <-. unfold read_comment.
    destruct (find_from _ _ _); [destruct (post_space_at _ _)|]; cbn; discriminate. }
  destruct (stage_group ps pos pre c) as [r|] eqn:E4.
  { unfold stage_group in E4. destruct (f_en_groups _); [|discriminate].
    destruct (existsb _ (c_group_open _)) eqn:X.
    - injection E4 as <-. cbn. intros _. exact X.
    - destruct (existsb _ (c_group_close _)); [|discriminate]. injection E4 as <-. cbn. discriminate. }
  destruct (stage_specials ps rest pos pre) as [r|] eqn:E5.
  { unfold stage_specials in E5. destruct (f_ctx_specials _); [|discriminate].
    destruct (f_en_specials _); [|discriminate]. destruct (test_specials _ _ _); [|discriminate].
    injection E5 as <-. cbn. discriminate. }
  unfold char_token. destruct (mem_c c _); cbn; [exact I | discriminate].
Qed.

Lemma impl_peek_brace ps s pos : math_kinds ps = true -> brace_from_dict ps (impl_peek ps s pos).
Proof.
  intros MK. unfold impl_peek. destruct (peek_space s pos) as [pre0 p2].
  destruct (_ && _).
  - unfold par_token. destruct (match f_ctx_specials _ with Some _ => _ | None => _ end); cbn; discriminate.
  - destruct (skipn p2 s) as [|c rest]; [exact I|]. apply dispatch_brace. exact MK.
Qed.

(** * Located token errors *)
Definition err_placed (r : tokres) : Prop :=
  match r with
  | TokErr e => te_pos e = tpos (te_placeholder e) \/ te_pos e = tend (te_placeholder e)
  | _ => True
  end.

Lemma read_macro_err ps s pos pre : err_placed (read_macro ps s pos pre).
Proof.
  unfold read_macro. destruct (skipn (S pos) s) as [|c r]; [cbn; right; reflexivity|].
  destruct (mem_c c _); [destruct (post_space_at _ _)|]; exact I.
Qed.

Lemma read_environment_err ps s pos b pre : err_placed (read_environment ps s pos b pre).
Proof.
  unfold read_environment. destruct (match_envname _) as [[nm len]|]; [exact I|]. cbn. left. reflexivity.
Qed.

Lemma dispatch_err ps s rest pos pre c : err_placed (dispatch ps s rest pos pre c).
Proof.
  unfold dispatch, orelse.
  destruct (stage_math ps rest pos pre c) as [r|] eqn:E1.
  { unfold stage_math in E1. destruct (_ && _); [|discriminate].
    destruct (read_math ps rest pos pre) as [t|]; [|discriminate]. injection E1 as <-. exact I. }
  destruct (stage_escape ps s pos pre c) as [r|] eqn:E2.
  { unfold stage_escape in E2. destruct (str_eqb [c] _); [|discriminate].
    destruct (f_en_envs (ps_f ps)).
    - destruct (startswith _ kw_begin).
      + destruct (char_at s _) as [d|].
        * destruct (mem_c d _).
          -- destruct (f_en_macros _); [|discriminate]. injection E2 as <-. apply read_macro_err.
          -- injection E2 as <-. apply read_environment_err.
        * injection E2 as <-. apply read_environment_err.
      + destruct (startswith _ kw_end).
        * destruct (char_at s _) as [d|].
          -- destruct (mem_c d _).
             ++ destruct (f_en_macros _); [|discriminate]. injection E2 as <-. apply read_macro_err.
             ++ injection E2 as <-. apply read_environment_err.
          -- injection E2 as <-. apply read_environment_err.
        * destruct (f_en_macros _); [|discriminate]. injection E2 as <-. apply read_macro_err.
    - destruct (f_en_macros _); [|discriminate]. injection E2 as <-. apply read_macro_err. }
  destruct (stage_comment ps s rest pos pre c) as [r|] eqn:E3.
  { unfold stage_comment in E3. destruct (f_comment _); [discriminate|].
    destruct (_ && _); [|discriminate]. injection E3 as <-. exact I. }
  destruct (stage_group ps pos pre c) as [r|] eqn:E4.
  { unfold stage_group in E4. destruct (f_en_groups _); [|discriminate].
    destruct (existsb _ (c_group_open _)).
    - injection E4 as <-. exact I.
    - destruct (existsb _ (c_group_close _)); [|discriminate]. injection E4 as <-. exact I. }
  destruct (stage_specials ps rest pos pre) as [r|] eqn:E5.
  { unfold stage_specials in E5. destruct (f_ctx_specials _); [|discriminate].
    destruct (f_en_specials _); [|discriminate]. destruct (test_specials _ _ _); [|discriminate].
    injection E5 as <-. exact I. }
  unfold char_token. destruct (mem_c c _); cbn; [left; reflexivity | exact I].
Qed.

Lemma impl_peek_err ps s pos : err_placed (impl_peek ps s pos).
Proof.
  unfold impl_peek. destruct (peek_space s pos) as [pre0 p2].
  destruct (_ && _); [exact I|].
  destruct (skipn p2 s) as [|c rest]; [exact I|]. apply dispatch_err.
Qed.

(** * What a strict read gives under a reachable state *)
Definition tok_facts (s : str) (ps : pstate) (pos : nat) (r : tokres) : Prop :=
  match r with
  | TokOk t => tok_ok s pos t /\
               (tk t = TkBraceOpen -> exists c, dict_get (f_group_delims (ps_f ps)) (targ t) = Some c)
  | TokEOS fin => fin = skipn pos s
  | TokErr e => te_pos e <= length s
  end.

Lemma impl_peek_facts s ps pos : Good ps -> pos <= length s -> tok_facts s ps pos (impl_peek ps s pos).
Proof.
  intros G L.
  pose proof (impl_peek_ok ps s pos (good_wf ps G) L) as P.
  pose proof (impl_peek_brace ps s pos (good_math_kinds ps G)) as B.
  pose proof (impl_peek_err ps s pos) as E.
  destruct (impl_peek ps s pos) as [t|fin|e]; cbn [tok_facts peek_ok brace_from_dict err_placed] in *.
  - split; [exact P|]. intros K. specialize (B K). rewrite (good_group_open ps G) in B.
    apply dict_get_key. exact B.
  - exact P.
  - destruct P as [(A & _ & C & D) _]. destruct E as [E|E]; rewrite E; lia.
Qed.

Lemma next_tok_facts s ps pos : Good ps -> pos <= length s ->
  tok_facts s ps pos (next_tok s false ps pos).
Proof.
  intros G L. pose proof (impl_peek_facts s ps pos G L) as F.
  unfold next_tok, next_token, peek_token, rd_at. cbn [r_s r_pos r_tol].
  destruct (impl_peek ps s pos); exact F.
Qed.

Lemma peek_tok_facts s ps pos : Good ps -> pos <= length s ->
  tok_facts s ps pos (peek_tok s false ps pos).
Proof.
  intros G L. pose proof (impl_peek_facts s ps pos G L) as F.
  unfold peek_tok, peek_token, rd_at. cbn [r_s r_pos r_tol].
  destruct (impl_peek ps s pos); exact F.
Qed.
