(** C13 / C08, unbounded composition — definitions.

    The encoder output is the concatenation of per-character chunks
    ([EncBuiltinFacts.chunks]).  Here: how a chunk is read as a list of ATOMS
    (single top-level characters, and structured items of the extended document
    grammar [Doc/DocGrammar2.v]: brace groups, macro calls, [$]-math), and how
    a list of atoms — the atoms of ALL chunks, concatenated — is ASSEMBLED into
    one document of the grammar, left to right, exactly as the tokenizer cuts
    it: whitespace runs become the leading whitespace of the next item (a run
    with two or more newlines is a paragraph break), plain characters become
    one-character text items or — longest match against everything that is
    written from there on — specials sequences ([''], [---], ...), which may
    well straddle chunk boundaries.

    Executable definitions only (used by [vm_compute] sweeps over the tables and
    by the proofs in [Proofs/Unbounded*.v]). *)
From Coq Require Import NArith List Bool Arith.
From PLV Require Import Base.PyStr Tok.PState Tok.Tokenizer Parse.Nodes Parse.Parser Parse.ParseWire
                        Doc.DocGrammar Doc.DocGrammar2.
Import ListNotations.
Local Open Scope N_scope.

(** * Atoms *)
Inductive atom := AC (c : N) | AI (i : item2).

Definition flat_atom (a : atom) : str := match a with AC c => [c] | AI i => unparse_item2 i end.
Definition flat (l : list atom) : str := flat_map flat_atom l.

(** * Whitespace runs *)

(** [w = pre ++ 10 :: rest], [pre] without newline *)
Fixpoint first_nl_split (w : str) : option (str * str) :=
  match w with
  | [] => None
  | c :: r => if N.eqb c 10 then Some ([], r)
              else match first_nl_split r with Some (a, b) => Some (c :: a, b) | None => None end
  end.

(** [w = mid ++ 10 :: rest], [rest] without newline *)
Fixpoint last_nl_split (w : str) : option (str * str) :=
  match w with
  | [] => None
  | c :: r => match last_nl_split r with
              | Some (m, t) => Some (c :: m, t)
              | None => if N.eqb c 10 then Some ([], r) else None
              end
  end.

(** a whitespace run in front of a token: a paragraph break (when it has two
    or more newlines) and the whitespace that remains in front of the token *)
Definition ws_split (w : str) : list item2 * str :=
  match first_nl_split w with
  | Some (pre, r1) =>
      match last_nl_split r1 with
      | Some (mid, rest) => ([Par2 pre mid], rest)
      | None => ([], w)
      end
  | None => ([], w)
  end.

(** the leading whitespace of a structured item *)
Definition set_ws (w : str) (i : item2) : item2 :=
  match i with
  | Grp2 _ b tr => Grp2 w b tr
  | Mac2 _ name post args => Mac2 w name post args
  | Math2 _ k b tr => Math2 w k b tr
  | x => x
  end.

(** * The assembler.  [specs]: the specials sequences of the context; [fol]:
    what is written after the atoms; [ws]: the whitespace run read so far;
    [pend]: the characters of a specials sequence that are still to come. *)
Fixpoint asm (specs : list str) (fol : str) (ws pend : str) (l : list atom) {struct l}
  : option (list item2 * str) :=
  match l with
  | [] => match pend with
          | [] => Some (ws_split ws)
          | _ => None
          end
  | AC c :: r =>
      match pend with
      | d :: pend' => if N.eqb c d then asm specs fol ws pend' r else None
      | [] =>
          if is_space c then asm specs fol (ws ++ [c]) [] r
          else
            let pw := ws_split ws in
            match test_specials specs (c :: flat r ++ fol) None with
            | None =>
                match asm specs fol [] [] r with
                | Some (its, tr) => Some (fst pw ++ Text2 (snd pw) [c] :: its, tr)
                | None => None
                end
            | Some sc =>
                match asm specs fol [] (tl sc) r with
                | Some (its, tr) => Some (fst pw ++ Spc2 (snd pw) sc [] :: its, tr)
                | None => None
                end
            end
      end
  | AI i :: r =>
      match pend with
      | _ :: _ => None
      | [] =>
          let pw := ws_split ws in
          match asm specs fol [] [] r with
          | Some (its, tr) => Some (fst pw ++ set_ws (snd pw) i :: its, tr)
          | None => None
          end
      end
  end.

(** * The chunk reader: a small LaTeX reader for replacement strings, driven by
    the macro signatures of the context.  Nothing is proved ABOUT it: the sweeps
    check of its result what the composition needs ([unparse] gives the chunk
    back; the side conditions of the grammar hold). *)
Section Reader.
  Variable cx : context.
  Let specs : list str := map fst (cx_specials cx).

  Definition is_alpha_c (c : N) : bool := mem_c c default_alpha.

  (** one argument for the slot [spc], read from [s]: the item and the rest.
      [grp s close] reads a body up to [close] and returns its atoms and the rest. *)
  Definition read_arg (grp : str -> N -> option (list atom * str)) (spc : argspec) (s : str)
    : option (item2 * str) :=
    let (w, r) := span is_space s in
    match a_kind spc with
    | AKExpr _ =>
        match r with
        | 123 :: r1 =>
            match grp r1 125 with
            | Some (b, r2) => match asm specs [125] [] [] b with
                              | Some (its, tr) => Some (Grp2 w its tr, r2)
                              | None => None
                              end
            | None => None
            end
        | 92 :: c :: r1 =>
            if is_alpha_c c then
              let (nm, r2) := span is_alpha_c r1 in
              let (post, r3) := span is_space r2 in
              Some (Mac2 w (c :: nm) post [], r3)
            else Some (Mac2 w [c] [] [], r1)
        | c :: r1 =>
            if mem_c c [125; 36; 37] then None
            else match test_specials specs r None with
                 | Some sc => Some (Spc2 w sc [], skipn (length sc) r)
                 | None => Some (Text2 w [c], r1)
                 end
        | [] => None
        end
    | AKGroup [oc] [cc] optional _ =>
        match r with
        | c :: r1 =>
            if N.eqb c oc then
              match grp r1 cc with
              | Some (b, r2) => match asm specs [cc] [] [] b with
                                | Some (its, tr) => Some (Brk2 w oc cc its tr, r2)
                                | None => None
                                end
              | None => None
              end
            else if optional then Some (Abs2, s) else None
        | [] => if optional then Some (Abs2, s) else None
        end
    | AKChars [ch] _ _ =>
        match r with
        | c :: r1 => if N.eqb c ch then Some (Text2 w [c], r1) else Some (Abs2, s)
        | [] => Some (Abs2, s)
        end
    | _ => None
    end.

  Fixpoint read_args (grp : str -> N -> option (list atom * str)) (l : list argspec) (s : str)
    : option (list item2 * str) :=
    match l with
    | [] => Some ([], s)
    | spc :: l' =>
        match read_arg grp spc s with
        | Some (a, r) => match read_args grp l' r with
                         | Some (al, r') => Some (a :: al, r')
                         | None => None
                         end
        | None => None
        end
    end.

  (** atoms up to the closing character [close] ([None]: up to the end of the
      string); the rest after the closing character *)
  Fixpoint read_atoms (fuel : nat) (s : str) (close : option N) {struct fuel} : option (list atom * str) :=
    match fuel with
    | O => None
    | S f =>
        let grp := fun (x : str) (cc : N) => read_atoms f x (Some cc) in
        match s with
        | [] => match close with None => Some ([], []) | Some _ => None end
        | c :: r =>
            if match close with Some cc => N.eqb c cc | None => false end then Some ([], r)
            else if N.eqb c 123 then
              match grp r 125 with
              | Some (b, r2) =>
                  match asm specs [125] [] [] b, read_atoms f r2 close with
                  | Some (its, tr), Some (al, r3) => Some (AI (Grp2 [] its tr) :: al, r3)
                  | _, _ => None
                  end
              | None => None
              end
            else if N.eqb c 36 then
              match grp r 36 with
              | Some (b, r2) =>
                  match asm specs [36] [] [] b, read_atoms f r2 close with
                  | Some (its, tr), Some (al, r3) => Some (AI (Math2 [] MDollar its tr) :: al, r3)
                  | _, _ => None
                  end
              | None => None
              end
            else if N.eqb c 92 then
              match r with
              | [] => None
              | c1 :: r1 =>
                  let '(name, post, r2) :=
                    if is_alpha_c c1 then
                      let (nm, x) := span is_alpha_c r1 in
                      let (post, y) := span is_space x in (c1 :: nm, post, y)
                    else ([c1], [], r1) in
                  match get_macro_spec cx name with
                  | Some sp =>
                      match sp_args sp with
                      | APStd l =>
                          match read_args grp l r2 with
                          | Some (args, r3) =>
                              match read_atoms f r3 close with
                              | Some (al, r4) => Some (AI (Mac2 [] name post args) :: al, r4)
                              | None => None
                              end
                          | None => None
                          end
                      | APLegacy _ => None
                      end
                  | None => None
                  end
              end
            else if mem_c c [125; 37] then None
            else match read_atoms f r close with
                 | Some (al, r2) => Some (AC c :: al, r2)
                 | None => None
                 end
        end
    end.

  Definition chunk_atoms (s : str) : option (list atom) :=
    match read_atoms (2 * length s + 4) s None with
    | Some (al, []) => Some al
    | _ => None
    end.
End Reader.

(** * The sub-grammar the chunks live in: text, groups, macro calls, math,
    specials, paragraph breaks, delimited / absent arguments — no comment, no
    environment, no verbatim *)
Fixpoint subg (i : item2) : bool :=
  match i with
  | Text2 _ _ | Abs2 | Par2 _ _ => true
  | Grp2 _ b _ | Math2 _ _ b _ | Brk2 _ _ _ b _ => forallb subg b
  | Mac2 _ _ _ a | Spc2 _ _ a => forallb subg a
  | _ => false
  end.

(** the number of math items (an upper bound of the math nodes of the tree) *)
Fixpoint nmath (i : item2) : nat :=
  match i with
  | Math2 _ _ b _ => S (fold_right (fun j n => nmath j + n) 0 b)%nat
  | Grp2 _ b _ | Brk2 _ _ _ b _ => fold_right (fun j n => nmath j + n) 0 b
  | Mac2 _ _ _ a | Spc2 _ _ a => fold_right (fun j n => nmath j + n) 0 a
  | _ => 0
  end%nat.
Definition nmath_items (l : list item2) : nat := fold_right (fun j n => nmath j + n)%nat 0%nat l.
Definition nmath_atoms (l : list atom) : nat :=
  fold_right (fun a n => match a with AI i => nmath i | AC _ => 0 end + n)%nat 0%nat l.

(** * What the sweeps check of a chunk *)
Section Check.
  Variable cx : context.
  Let specs : list str := map fst (cx_specials cx).

  (** a character at which every left-to-right scan of the side conditions
      stops: not whitespace, not a letter, not an environment-name character,
      not the escape character, not [{], in no specials sequence *)
  Definition stopper (b : N) : bool :=
    negb (is_space b) && negb (is_alpha b) && negb (envname_char b) && negb (N.eqb b 92) && negb (N.eqb b 123)
    && forallb (fun sc : str => negb (mem_c b sc)) specs.
  Definition has_stopper (G : str) : bool := existsb stopper G.

  (** no specials sequence starts with [c] *)
  Definition nospec (c : N) : bool :=
    forallb (fun sc : str => match sc with d :: _ => negb (N.eqb d c) | [] => true end) specs.

  Fixpoint last_is_grp (l : list item2) : bool :=
    match l with
    | [] => false
    | [Grp2 _ _ _] => true
    | _ :: r => last_is_grp r
    end.

  (** an item whose side conditions do not depend on what follows it: a group, [$]-math, a
      control symbol without arguments, a macro call that ends with a braced argument, an
      accent-like call with one character as its only argument *)
  Definition closedb (i : item2) : bool :=
    match i with
    | Grp2 _ _ _ => true
    | Math2 _ MDollar _ _ => true
    | Mac2 _ name _ [] => match name with c :: _ => negb (is_alpha c) | [] => false end
    | Mac2 _ name _ [Text2 [] [c]] => nospec c && plain_start c
    | Mac2 _ _ _ args => last_is_grp args
    | _ => false
    end.

  Definition top_shape (i : item2) : bool :=
    match i with
    | Grp2 [] _ _ | Mac2 [] _ _ _ | Math2 [] _ _ _ => true
    | _ => false
    end.

  (** a control sequence without arguments that is followed, in the same chunk, by a
      character other than a newline *)
  Definition bare_next (i : item2) (G : str) : bool :=
    match i, G with
    | Mac2 _ _ _ [], c :: _ => negb (N.eqb c 10)
    | _, _ => false
    end.

  (** the check of one chunk: the top-level characters are not active; every structured
      item is of the sub-grammar, satisfies the side conditions of the grammar when
      followed by the rest of the chunk, and either is closed, or the rest of the chunk
      contains a stopper, or it is a bare control sequence followed by a character *)
  Fixpoint atoms_okb (ps : pstate) (l : list atom) : bool :=
    match l with
    | [] => true
    | AC c :: r => negb (mem_c c [92; 36; 37; 123; 125]) && atoms_okb ps r
    | AI i :: r =>
        top_shape i && subg i && ok_item2 cx ps [] i (flat r)
        && (closedb i || has_stopper (flat r) || bare_next i (flat r)) && atoms_okb ps r
    end.

  (** what the check establishes (for EVERY follow string [F]) *)
  Fixpoint good_atoms (ps : pstate) (F : str) (l : list atom) : Prop :=
    match l with
    | [] => True
    | AC c :: r => mem_c c [92; 36; 37; 123; 125] = false /\ good_atoms ps F r
    | AI i :: r =>
        top_shape i = true /\ subg i = true /\ ok_item2 cx ps [] i (flat r ++ F) = true /\ good_atoms ps F r
    end.
End Check.
