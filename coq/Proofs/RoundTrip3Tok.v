(** C02 (third grammar, [Doc/DocGrammar3.v]) — the token and rule lemmas beyond
    [RoundTrip2Tok.v] / [RoundTrip2Rules.v]: the paragraph token in ANY context (a
    specials token where the context has the [\n\n] specials, a character token
    elsewhere), a character token with several characters in the collector and in the
    expression parser, and the group that a collector running in the state of a
    delimited argument opens at the argument's own opening delimiter. *)
From Coq Require Import NArith List Bool Arith Lia.
From PLV Require Import Base.PyStr Tok.PState Tok.Tokenizer Parse.Nodes Parse.Parser Parse.ParseWire
                        Proofs.PyStrFacts Proofs.ParserMono Proofs.ParserSpansStep Proofs.ParserErrorsBase
                        Doc.DocGrammar Doc.DocGrammar2 Doc.DocGrammar3
                        Proofs.RoundTripTok Proofs.RoundTripRules Proofs.RoundTrip2Tok Proofs.RoundTrip2Rules.
Import ListNotations.

(** * The paragraph token, whatever the context *)
Definition par_tok (cx : context) (p0 : nat) (ws mid : str) : token :=
  if has_par cx then mk TkSpecials [10;10]%N p0 (p0 + 1 + length mid + 1) ws []
  else mk TkChar (10%N :: mid ++ [10%N]) p0 (p0 + 1 + length mid + 1) ws [].

Lemma impl_peek_par_gen cx ps s pos ws mid ind rest : std_view cx ps ->
  skipn pos s = ws ++ 10%N :: mid ++ 10%N :: ind ++ rest ->
  forallb is_space ws = true -> mem_c 10 ws = false -> forallb is_space mid = true ->
  forallb is_space ind = true -> mem_c 10 ind = false ->
  hd_not is_space rest ->
  impl_peek ps s pos = TokOk (par_tok cx (pos + length ws) ws mid).
Proof.
  intros V SK W NW WM WI NI HF.
  set (pre0 := ws ++ 10%N :: mid ++ 10%N :: ind).
  assert (SK' : skipn pos s = pre0 ++ rest).
  { unfold pre0. rewrite <- app_assoc. cbn [app]. rewrite <- app_assoc. cbn [app]. exact SK. }
  assert (W0 : forallb is_space pre0 = true).
  { unfold pre0. rewrite forallb_app. cbn [forallb]. rewrite forallb_app. cbn [forallb].
    rewrite W, WM, WI, space_10. reflexivity. }
  unfold impl_peek. rewrite (peek_space_at s pos pre0 rest SK' W0 HF), (sv_dnp _ _ V).
  assert (C : Nat.leb 2 (count_c 10 pre0) = true).
  { apply Nat.leb_le. unfold pre0. rewrite count_c_app. cbn [count_c]. rewrite count_c_app. cbn [count_c].
    rewrite N.eqb_refl. lia. }
  rewrite C. cbn [andb]. unfold par_token.
  assert (F1 : find_nl pre0 = length ws) by (apply find_nl_app; exact NW).
  assert (F2 : rfind_nl pre0 = length (ws ++ 10%N :: mid)).
  { unfold pre0. change (ws ++ 10%N :: mid ++ 10%N :: ind) with (ws ++ (10%N :: mid) ++ 10%N :: ind).
    rewrite app_assoc. apply rfind_nl_ind. exact NI. }
  assert (FP : firstn (length ws) pre0 = ws) by (unfold pre0; apply firstn_len_app).
  rewrite F1, F2, FP, (sv_specials _ _ V).
  unfold par_tok, has_par. rewrite app_length. cbn [length].
  replace (pos + S (length ws + S (length mid))) with (pos + length ws + 1 + length mid + 1) by lia.
  destruct (existsb (str_eqb [10; 10]%N) (map fst (cx_specials cx))); [reflexivity|].
  f_equal. unfold mk. f_equal.
  unfold slice. rewrite (skipn_shift _ _ _ _ SK).
  replace (pos + length ws + 1 + length mid + 1 - (pos + length ws)) with (length (10%N :: mid ++ [10%N]))
    by (cbn [length]; rewrite app_length; cbn [length]; lia).
  replace (10%N :: mid ++ 10%N :: ind ++ rest) with ((10%N :: mid ++ [10%N]) ++ ind ++ rest)
    by (cbn [app]; rewrite <- app_assoc; reflexivity).
  apply firstn_len_app.
Qed.

Lemma has_par_spec cx : has_par cx = true -> exists sp, get_specials_spec cx [10;10]%N = Some sp.
Proof.
  unfold has_par, get_specials_spec. induction (cx_specials cx) as [|[k v] l IH]; [discriminate|].
  cbn [map fst existsb assoc]. destruct (str_eqb k [10;10]%N) eqn:E.
  - intros _. exists v. reflexivity.
  - assert (E' : str_eqb [10;10]%N k = false).
    { destruct (str_eqb [10;10]%N k) eqn:X; [|reflexivity]. apply pe_str_eqb_eq in X. subst k. discriminate E. }
    rewrite E'. cbn [orb]. exact IH.
Qed.

Lemma par_spec_has_par cx : par_spec_ok cx = true -> has_par cx = true.
Proof.
  unfold par_spec_ok, has_par. destruct (get_specials_spec cx [10;10]%N) as [sp|] eqn:GS; [|discriminate].
  intros _. apply (assoc_existsb _ _ _ GS).
Qed.

Section Rules3.
  Variable s : str.
  Variable cx : context.
  Notation R := (run s false cx).

  (** ** a character token with any text, in the collector *)
  Lemma rule_charsF n cps ps o st pos ws a e r :
    opts_okF cps ps o ->
    impl_peek cps s pos = TokOk (mk TkChar a (pos + length ws) e ws []) ->
    R n (TCollect cps o (push_pending st (ws ++ a) pos) e) = r ->
    R (S n) (TCollect cps o st pos) = r.
  Proof.
    intros (_ & _ & _ & _ & ST) T H. rewrite run_collect. unfold collect_step.
    rewrite next_tok_strict, T.
    assert (SM : stop_matches (g_stop o) (mk TkChar a (pos + length ws) e ws []) = false).
    { destruct (g_stop o) as [|c0|k c0|nm|? ? ?]; try reflexivity; [|contradiction].
      destruct ST as [K _]. cbn. destruct k; try discriminate; reflexivity. }
    rewrite SM. cbn [mk tk tpre targ tpos tend]. rewrite Nat.add_sub. exact H.
  Qed.

  (** ** … and as the single-token argument of the expression parser *)
  Lemma rule_texpr_charsA n ps aps apc sterr acc pos a e :
    impl_peek (sub_context ps [UEnEnvs false]) s pos = TokOk (mk TkChar a pos e [] []) ->
    R (S n) (TExpr ps aps apc false sterr acc pos) = Ok (ONode (Some (mk_chars ps pos e a))) e.
  Proof.
    intros T. rewrite run_expr. unfold expr_step. rewrite next_tok_strict, T.
    cbn [mk tk targ tpre tpos tend]. apply e_finish_last.
  Qed.

  (** ** the group opened by the opening delimiter of a delimited argument, directly
      in the body of that argument: its collector and all its children run in the
      extended state *)
  Definition bare_opts (gps : pstate) (oc cc : N) : genopts :=
    {| g_stop := SBraceClose [cc]; g_nl := NLNone; g_require := true;
       g_child := CPGroup gps gps [oc]; g_incl_pre := true; g_handle_stop := true |}.

  Lemma brk_close_of ps oc cc : Std cx ps -> delim_ok oc cc = true ->
    group_close_of (brk_state ps oc cc) [oc] = Some [cc].
  Proof.
    intros SD D. destruct (delim_ok_facts oc cc D) as (PO & _).
    destruct (plain_start_facts oc PO) as (_ & _ & _ & _ & O123 & _).
    rewrite (brk_state_eq cx ps oc cc SD D). unfold group_close_of, brk_delims, default_group_delims.
    cbn [ps_f apply_update f_group_delims app dict_get assoc str_eqb]. rewrite (N.eqb_sym 123 oc), O123.
    cbn [andb]. rewrite N.eqb_refl. reflexivity.
  Qed.

  Lemma rule_tgroup_bare n ps oc cc p0 body p : Std cx ps -> delim_ok oc cc = true ->
    impl_peek (brk_state ps oc cc) s p0 = TokOk (mk TkBraceOpen [oc] p0 (S p0) [] []) ->
    R n (TGeneral (brk_state ps oc cc) (bare_opts (brk_state ps oc cc) oc cc) (S p0)) = Ok (ONode body) p ->
    R (S n) (TGroup (brk_state ps oc cc) (GDStr [oc]) false false p0)
    = Ok (ONode (Some (NGroup p0 p (ps_mode ps) [oc] [cc] body))) p.
  Proof.
    intros SD D T H. cbn [run]. rewrite next_tok_strict, T.
    cbn [mk tk targ tpre tpos tend tokkind_eqb str_eqb]. rewrite N.eqb_refl. cbn [andb orb negb].
    rewrite (brk_close_of ps oc cc SD D). fold (bare_opts (brk_state ps oc cc) oc cc). rewrite H.
    cbn [parse_content]. rewrite (brk_mode cx ps oc cc SD D). reflexivity.
  Qed.

  (** the collector of such a group: every child runs in its own state *)
  Lemma opts_okF_bare gps oc cc : opts_okF gps gps (bare_opts gps oc cc).
  Proof.
    repeat split. intros t _. unfold child_state, bare_opts. cbn [g_child].
    destruct (tokkind_eqb (tk t) TkBraceOpen && str_eqb (targ t) [oc]); reflexivity.
  Qed.

  (** what a collector running in the state of a delimited argument does at the
      argument's own opening delimiter *)
  Lemma rule_bgroupF n cps ps o st pos ws oc nd p' r :
    opts_okF cps ps o -> child_state o cps (mk TkBraceOpen [oc] (pos + length ws) (S (pos + length ws)) ws []) = cps ->
    impl_peek cps s pos = TokOk (mk TkBraceOpen [oc] (pos + length ws) (S (pos + length ws)) ws []) ->
    R n (TGroup cps (GDStr [oc]) false false (pos + length ws)) = Ok (ONode nd) p' ->
    R n (TCollect cps o (push_node (pre_flush ps st ws pos) nd) p') = r ->
    R (S n) (TCollect cps o st pos) = r.
  Proof.
    intros OK CH T G H. pose proof OK as (NL & _ & _ & M & _). rewrite run_collect. unfold collect_step.
    rewrite next_tok_strict, T, (stop_no_matchF cps ps o _ _ _ _ _ _ OK) by (left; reflexivity).
    cbn [mk tk]. rewrite (c_pre_result_nlF cps ps o st _ _ pos _ ws [] NL M). cbn [fst snd].
    unfold c_dispatch. cbn [mk tk targ tpos]. cbn [mk] in CH. rewrite CH. rewrite G. cbn [parse_content].
    unfold c_push_check. rewrite NL. cbn [nl_stop_met]. exact H.
  Qed.
End Rules3.
