(** Facts about the Python string operations of [Base/PyStr.v]. *)
From Coq Require Import NArith List Bool Arith Lia.
From PLV Require Import Base.PyStr.
Import ListNotations.

Lemma span_spec f s : forall a b, span f s = (a, b) -> s = a ++ b /\ forallb f a = true.
Proof.
  induction s as [|c r IH]; intros a b H; cbn [span] in H.
  - injection H as <- <-. split; reflexivity.
  - destruct (f c) eqn:E.
    + destruct (span f r) as [a' b'] eqn:S. injection H as <- <-.
      destruct (IH a' b' eq_refl) as [-> F]. split; [reflexivity|].
      cbn [forallb]. rewrite E, F. reflexivity.
    + injection H as <- <-. split; reflexivity.
Qed.

Lemma span_fst_prefix f s : fst (span f s) = firstn (length (fst (span f s))) s.
Proof.
  destruct (span f s) as [a b] eqn:E. destruct (span_spec f s a b E) as [-> _]. cbn [fst].
  rewrite firstn_app, Nat.sub_diag, firstn_all, firstn_O, app_nil_r. reflexivity.
Qed.

Lemma span_fst_length f s : length (fst (span f s)) <= length s.
Proof.
  destruct (span f s) as [a b] eqn:E. destruct (span_spec f s a b E) as [-> _]. cbn [fst].
  rewrite app_length. lia.
Qed.

Lemma skipn_cons_lt {A} (s : list A) p c r : skipn p s = c :: r -> p < length s /\ skipn (S p) s = r.
Proof.
  revert s. induction p as [|p IH]; intros s H.
  - destruct s as [|x s]; [discriminate|]. cbn in H. injection H as -> ->. cbn. split; [lia|reflexivity].
  - destruct s as [|x s]; [discriminate|]. cbn [skipn] in H. destruct (IH s H) as [L E].
    cbn [length]. split; [lia|]. exact E.
Qed.

Lemma skipn_nil_len {A} (s : list A) p : skipn p s = [] -> length s <= p.
Proof.
  intros H. pose proof (skipn_length p s) as L. rewrite H in L. cbn in L. lia.
Qed.

Lemma slice_prefix (s : str) p k : firstn k (skipn p s) = slice s p (p + k).
Proof. unfold slice. replace (p + k - p) with k by lia. reflexivity. Qed.

Lemma firstn_firstn_le {A} (l : list A) a b : a <= b -> firstn a (firstn b l) = firstn a l.
Proof. intros H. rewrite firstn_firstn. rewrite Nat.min_l by exact H. reflexivity. Qed.

Lemma firstn_app_skipn {A} (l : list A) : forall n m,
  firstn n l ++ firstn m (skipn n l) = firstn (n + m) l.
Proof.
  induction l as [|y l IH]; intros n m.
  - rewrite skipn_nil, !firstn_nil. reflexivity.
  - destruct n; [reflexivity|]. cbn. f_equal. apply IH.
Qed.

Lemma skipn_skipn' {A} (l : list A) : forall x y, skipn x (skipn y l) = skipn (y + x) l.
Proof.
  induction l as [|a l IH]; intros x y.
  - rewrite !skipn_nil. reflexivity.
  - destruct y; [reflexivity|]. cbn [skipn Nat.add]. apply IH.
Qed.

Lemma slice_app3 (s : str) a b c : a <= b -> b <= c -> slice s a b ++ slice s b c = slice s a c.
Proof.
  intros H1 H2. unfold slice.
  replace (c - a) with ((b - a) + (c - b)) by lia.
  rewrite <- firstn_app_skipn. f_equal. f_equal.
  rewrite skipn_skipn'. f_equal. lia.
Qed.

Lemma slice_to_end (s : str) p : slice s p (length s) = skipn p s.
Proof.
  unfold slice. apply firstn_all2. rewrite skipn_length. lia.
Qed.

Lemma slice_nil (s : str) p : slice s p p = [].
Proof. unfold slice. rewrite Nat.sub_diag. reflexivity. Qed.

Lemma startswith_length s p : startswith s p = true -> length p <= length s.
Proof.
  revert s. induction p as [|c p IH]; intros s H; cbn [length]; [lia|].
  destruct s as [|d s]; [discriminate|]. cbn [startswith] in H.
  apply andb_true_iff in H. destruct H as [_ H]. apply IH in H. cbn [length]. lia.
Qed.

Lemma find_sub_bound s p k : find_sub s p = Some k -> k + length p <= length s.
Proof.
  revert k. induction s as [|c r IH]; intros k H; cbn [find_sub] in H.
  - destruct (startswith [] p) eqn:E; [|discriminate]. injection H as <-.
    apply startswith_length in E. lia.
  - destruct (startswith (c :: r) p) eqn:E.
    + injection H as <-. apply startswith_length in E. lia.
    + destruct (find_sub r p) as [k'|] eqn:F; [|discriminate]. injection H as <-.
      specialize (IH k' eq_refl). cbn [length]. lia.
Qed.

Lemma find_from_bound s p pos k :
  find_from s p pos = Some k -> pos <= k /\ k + length p <= length s.
Proof.
  unfold find_from. destruct (Nat.ltb_spec (length s) pos); [discriminate|].
  destruct (find_sub (skipn pos s) p) as [j|] eqn:F; [|discriminate].
  intros E. injection E as <-. apply find_sub_bound in F. rewrite skipn_length in F. lia.
Qed.

Lemma count_c_app c a b : count_c c (a ++ b) = count_c c a + count_c c b.
Proof. induction a as [|x a IH]; cbn [app count_c]; [reflexivity|]. rewrite IH. lia. Qed.

Lemma count_c_rev c a : count_c c (rev a) = count_c c a.
Proof.
  induction a as [|x a IH]; [reflexivity|]. cbn [rev]. rewrite count_c_app, IH. cbn [count_c]. lia.
Qed.
