(** C05 over the EXTENDED grammar — the LEFT CONTEXT of a position inside a
    nested body: a path of frames (outermost first), each frame being the
    extended items that precede an enclosing construct in its body and that
    construct's opening: a group's brace, a formula's opening delimiter, an
    environment's [\begin{name}] with its arguments.  Theorem [lpath_err2]: in
    strict mode a parse error raised by the innermost collector propagates to
    the outermost one — same position, same raise site — whatever follows.
    [brk_hole_err]: the same for the body of a DELIMITED ARGUMENT ([[ … ]]) of a
    macro call.  All side conditions are evaluated against the follow string. *)
From Coq Require Import NArith List Bool Arith Lia.
From PLV Require Import Base.PyStr Tok.PState Tok.Tokenizer Parse.Nodes Parse.Parser Parse.ParseWire
                        Proofs.PyStrFacts Proofs.ParserMono Proofs.ParserSpansStep Proofs.ParserErrorsBase
                        Doc.DocGrammar Proofs.FaultRules Proofs.FaultTok Proofs.FaultDoc Proofs.FaultClose
                        Doc.DocGrammar2 Proofs.RoundTripTok Proofs.RoundTripRules Proofs.RoundTrip
                        Proofs.RoundTrip2Tok Proofs.RoundTrip2Rules Proofs.RoundTrip2
                        Proofs.Prefix2Lock Proofs.Prefix2.
Import ListNotations.

(** * Frames *)
Inductive lframe2 :=
| LGrp2 (before : list item2) (ws : str)                                  (* before ws {                       *)
| LMath2 (before : list item2) (ws : str) (k : mathkind)                  (* before ws $   (or \( \[ $$)       *)
| LEnv2 (before : list item2) (ws bws name : str) (args : list item2).    (* before ws \begin bws {name} args  *)

Definition lf_before2 (f : lframe2) : list item2 :=
  match f with LGrp2 b _ | LMath2 b _ _ | LEnv2 b _ _ _ _ => b end.
Definition lf_ws2 (f : lframe2) : str :=
  match f with LGrp2 _ w | LMath2 _ w _ | LEnv2 _ w _ _ _ => w end.
Definition lf_open2 (f : lframe2) : str :=
  match f with
  | LGrp2 _ _ => [123%N]
  | LMath2 _ _ k => m_open k
  | LEnv2 _ _ bws name args => begin_str bws name ++ unparse_items2 args
  end.
Definition lf_text2 (f : lframe2) : str := unparse_items2 (lf_before2 f) ++ lf_ws2 f ++ lf_open2 f.

(** the parsing state inside the frame's construct *)
Definition lf_state2 (cx : context) (ps : pstate) (f : lframe2) : pstate :=
  match f with
  | LGrp2 _ _ => ps
  | LMath2 _ _ k => ps_enter_math ps (Some (m_open k))
  | LEnv2 _ _ _ name _ =>
      match get_env_spec cx name with Some sp => DocGrammar2.env_body_state ps sp | None => ps end
  end.

(** the options of the collector that reads the frame's body *)
Definition lf_opts2 (ips : pstate) (f : lframe2) : genopts :=
  match f with
  | LGrp2 _ _ => grp_opts ips
  | LMath2 _ _ k => math_opts k
  | LEnv2 _ _ _ name _ => env_opts name
  end.

(** [ok_lframe2 cx ps f fol]: the frame is unambiguous when written in state
    [ps] and followed by the string [fol] (up to the end of the input) *)
Definition ok_lframe2 (cx : context) (ps : pstate) (f : lframe2) (fol : str) : bool :=
  match f with
  | LGrp2 before ws => ok_items2 cx ps [] before (ws ++ 123%N :: fol) && ws_ok ws
  | LMath2 before ws k =>
      ok_items2 cx ps [] before (ws ++ m_open k ++ fol) && ws_ok ws && negb (f_in_math (ps_f ps))
      && match k with MDollar => negb (otest (fun c => N.eqb c 36) (hd_error fol)) | _ => true end
  | LEnv2 before ws bws name args =>
      ok_items2 cx ps [] before (ws ++ begin_str bws name ++ unparse_items2 args ++ fol)
      && ws_ok ws && forallb is_space bws && DocGrammar2.envname_ok name && f_en_envs (ps_f ps)
      && match get_env_spec cx name with
         | Some sp =>
             match sp_args sp with
             | APStd l => ok_args2 cx ps args l fol
             | APLegacy _ => false
             end
         | None => false
         end
  end.

(** * Paths (outermost frame first) *)
Definition lp_text2 (path : list lframe2) : str := flat_map lf_text2 path.

Fixpoint lp_state2 (cx : context) (ps : pstate) (path : list lframe2) : pstate :=
  match path with [] => ps | f :: r => lp_state2 cx (lf_state2 cx ps f) r end.

Fixpoint lp_opts2 (cx : context) (ps : pstate) (o : genopts) (path : list lframe2) : genopts :=
  match path with
  | [] => o
  | f :: r => lp_opts2 cx (lf_state2 cx ps f) (lf_opts2 (lf_state2 cx ps f) f) r
  end.

Definition lp_st2 (st : collstate) (path : list lframe2) : collstate :=
  match path with [] => st | _ => cs_empty end.

Fixpoint ok_lpath2 (cx : context) (ps : pstate) (path : list lframe2) (fol : str) : bool :=
  match path with
  | [] => true
  | f :: r => ok_lframe2 cx ps f (lp_text2 r ++ fol) && ok_lpath2 cx (lf_state2 cx ps f) r fol
  end.

(** * States and options along a path *)
Lemma stde_env_body cx ps sp : StdE cx ps -> StdE cx (DocGrammar2.env_body_state ps sp).
Proof.
  intros H. unfold DocGrammar2.env_body_state. destruct (sp_body_math sp); [apply stde_enter_math|]; exact H.
Qed.

Lemma stde_lf_state2 cx ps f : StdE cx ps -> StdE cx (lf_state2 cx ps f).
Proof.
  intros H. destruct f as [b w|b w k|b w bws name args]; cbn [lf_state2];
    [exact H | apply stde_enter_math; exact H|].
  destruct (get_env_spec cx name); [apply stde_env_body|]; exact H.
Qed.

Lemma stde_lp_state2 cx path : forall ps, StdE cx ps -> StdE cx (lp_state2 cx ps path).
Proof. induction path as [|f r IH]; intros ps H; [exact H|]. cbn [lp_state2]. apply IH, stde_lf_state2, H. Qed.

Lemma opts_ok_env ps name : opts_ok ps (env_opts name).
Proof. repeat split. Qed.

Lemma opts_ok_lf2 cx ps f fol : ok_lframe2 cx ps f fol = true ->
  opts_ok (lf_state2 cx ps f) (lf_opts2 (lf_state2 cx ps f) f).
Proof.
  intros OK. destruct f as [b w|b w k|b w bws name args]; cbn [lf_state2 lf_opts2].
  - apply opts_ok_grp.
  - apply opts_ok_math. apply enter_math_fields.
  - apply opts_ok_env.
Qed.

Lemma opts_ok_lp2 cx path : forall ps o fol, opts_ok ps o -> ok_lpath2 cx ps path fol = true ->
  opts_ok (lp_state2 cx ps path) (lp_opts2 cx ps o path).
Proof.
  induction path as [|f r IH]; intros ps o fol O OK; [exact O|]. cbn [ok_lpath2] in OK.
  apply andb_true_iff in OK. destruct OK as [O1 O2]. cbn [lp_state2 lp_opts2].
  eapply IH; [|exact O2]. eapply opts_ok_lf2. exact O1.
Qed.

Section Path2.
  Variable s : str.
  Variable cx : context.
  (** the units of fuel per written character, as in [Proofs/RoundTrip2.v] *)
  Variable U : nat.
  Hypothesis U8 : 8 <= U.
  Hypothesis UM : max_args cx + 4 <= U.
  Notation R := (run s false cx).
  Ltac ulia := ulia_gen U U8.

  Lemma lift2 n n' t r : R n t = r -> r <> OutOfFuel -> n <= n' -> R n' t = r.
  Proof using Type. clear UM U8 U. intros H NR L. eapply run_mono; eassumption. Qed.

  (** the call parser of an environment: the arguments are read, the body fails *)
  Lemma erule_tcall_env2 n ps name p0 pe sp l al pa e p :
    sp_args sp = APStd l ->
    R (S n) (TArgs ps l [] pe) = Ok (OArgs (Some ([], al))) pa ->
    R n (TGeneral (DocGrammar2.env_body_state ps sp) (env_opts name) pa) = PErr e p ->
    R (S (S n)) (TCall ps (mk TkBeginEnv name p0 pe [] []) sp pe) = PErr e p.
  Proof using Type. clear UM U8 U.
    intros A HA H. cbn [run] in HA |- *. rewrite A. cbn [run] in HA. rewrite HA.
    cbn [parse_content_args parse_content mk tk targ].
    change (if sp_body_math sp then ps_enter_math ps None else ps) with (DocGrammar2.env_body_state ps sp).
    fold (env_opts name). rewrite H. reflexivity.
  Qed.

  (** ** one frame *)
  Lemma frame_err2 f ps o st pos rest k e p :
    StdE cx ps -> opts_ok ps o -> ok_lframe2 cx ps f rest = true ->
    skipn pos s = lf_text2 f ++ rest ->
    R k (TCollect (lf_state2 cx ps f) (lf_opts2 (lf_state2 cx ps f) f) cs_empty (pos + length (lf_text2 f))) = PErr e p ->
    exists e', R (k + U * length (lf_text2 f)) (TCollect ps o st pos) = PErr e' p
               /\ pe_pos e' = pe_pos e /\ pe_what e' = pe_what e.
  Proof.
    intros [SD EE] OK OKF SK H. pose proof (std_view_of cx ps SD) as V.
    set (before := lf_before2 f). set (ws := lf_ws2 f).
    set (pb := pos + length (unparse_items2 before)).
    assert (SKb : skipn pb s = ws ++ lf_open2 f ++ rest).
    { unfold lf_text2 in SK. fold before ws in SK. rewrite <- !app_assoc in SK. apply skipn_shift in SK. exact SK. }
    assert (LT : length (lf_text2 f) = length (unparse_items2 before) + length ws + length (lf_open2 f)).
    { unfold lf_text2. fold before ws. rewrite !app_length. ulia. }
    assert (SIM : forall m e', ok_items2 cx ps [] before (ws ++ lf_open2 f ++ rest) = true ->
              m + U * length (unparse_items2 before) <= k + U * length (lf_text2 f) ->
              R m (TCollect ps o (fst (absorb2 cx ps pos st before)) pb) = PErr e' p ->
              R (k + U * length (lf_text2 f)) (TCollect ps o st pos) = PErr e' p).
    { intros m e' OKB LE HM.
      assert (SK0 : skipn pos s = unparse_items2 before ++ (ws ++ lf_open2 f ++ rest)).
      { unfold lf_text2 in SK. fold before ws in SK. rewrite <- !app_assoc in SK. exact SK. }
      pose proof (items_sim2_std s cx U before ps o st pos _ m (PErr e' p) U8 UM SD OK ltac:(discriminate) OKB SK0 HM) as S1.
      apply (lift2 _ _ _ _ S1); [discriminate | exact LE]. }
    destruct f as [b w|b w mk|b w bws name args]; cbn [lf_before2 lf_ws2 lf_open2 lf_state2 lf_opts2 ok_lframe2] in *.
    - (* group *)
      apply andb_true_iff in OKF. destruct OKF as [OKB W].
      assert (T : impl_peek ps s pb = TokOk (mk TkBraceOpen [123%N] (pb + length ws) (S (pb + length ws)) ws [])).
      { cbn [app] in SKb. rewrite (impl_peek_dispatch ps s pb ws 123%N _ W SKb space_123). apply (dispatch_open cx ps V). }
      pose proof (skipn_shift _ _ _ _ SKb) as SK1. cbn [app] in SK1.
      assert (T1 : impl_peek ps s (pb + length ws) = TokOk (mk TkBraceOpen [123%N] (pb + length ws) (S (pb + length ws)) [] [])).
      { rewrite (impl_peek_dispatch ps s _ [] 123%N _ eq_refl SK1 space_123). cbn [length].
        rewrite Nat.add_0_r. apply (dispatch_open cx ps V). }
      replace (pos + length (lf_text2 (LGrp2 b w))) with (S (pb + length ws)) in H
        by (rewrite LT; cbn [lf_open2 length]; unfold pb; ulia).
      pose proof (erule_general s cx _ _ _ _ _ _ H) as E1.
      pose proof (erule_tgroup s cx _ ps _ _ _ (sv_gdelims _ _ V) T1 E1) as E2.
      pose proof (erule_group s cx _ ps o (fst (absorb2 cx ps pos st before)) pb ws _ _ (opts_ok_2 _ _ OK) T E2) as E3.
      eexists. split; [refine (SIM _ _ _ _ E3)|split; reflexivity].
      + exact OKB.
      + rewrite LT. cbn [lf_open2 length]. ulia.
    - (* math *)
      apply andb_true_iff in OKF. destruct OKF as [OKF DL].
      apply andb_true_iff in OKF. destruct OKF as [OKF M]. apply negb_true_iff in M.
      apply andb_true_iff in OKF. destruct OKF as [OKB W].
      set (mps := ps_enter_math ps (Some (m_open mk))) in *.
      pose proof (expect_enter ps mk (proj1 SD)) as E. fold mps in E.
      assert (DL' : mk = MDollar -> hd_not (fun c => N.eqb c 36) rest).
      { intros ->. apply negb_true_iff in DL. apply otest_hd_not. exact DL. }
      assert (T : impl_peek ps s pb
                  = TokOk (PLV.Tok.Tokenizer.mk (m_tok mk) (m_open mk) (pb + length ws)
                              (pb + length ws + length (m_open mk)) ws [])).
      { pose proof (dispatch_math_open cx ps V s (pb + length ws) ws mk _ M DL') as D.
        destruct mk; cbn [m_open app] in SKb.
        - rewrite (impl_peek_dispatch ps s pb ws 36%N _ W SKb space_36). exact D.
        - rewrite (impl_peek_dispatch ps s pb ws 92%N _ W SKb space_92). exact D.
        - rewrite (impl_peek_dispatch ps s pb ws 92%N _ W SKb space_92). exact D.
        - rewrite (impl_peek_dispatch ps s pb ws 36%N _ W SKb space_36). exact D. }
      pose proof (skipn_shift _ _ _ _ SKb) as SK1.
      assert (T1 : impl_peek ps s (pb + length ws)
                   = TokOk (PLV.Tok.Tokenizer.mk (m_tok mk) (m_open mk) (pb + length ws)
                               (pb + length ws + length (m_open mk)) [] [])).
      { pose proof (dispatch_math_open cx ps V s (pb + length ws) [] mk _ M DL') as D.
        destruct mk; cbn [m_open app] in SK1.
        - rewrite (impl_peek_dispatch ps s _ [] 36%N _ eq_refl SK1 space_36). cbn [length]. rewrite Nat.add_0_r. exact D.
        - rewrite (impl_peek_dispatch ps s _ [] 92%N _ eq_refl SK1 space_92). cbn [length]. rewrite Nat.add_0_r. exact D.
        - rewrite (impl_peek_dispatch ps s _ [] 92%N _ eq_refl SK1 space_92). cbn [length]. rewrite Nat.add_0_r. exact D.
        - rewrite (impl_peek_dispatch ps s _ [] 36%N _ eq_refl SK1 space_36). cbn [length]. rewrite Nat.add_0_r. exact D. }
      replace (pos + length (lf_text2 (LMath2 b w mk))) with (pb + length ws + length (m_open mk)) in H
        by (rewrite LT; cbn [lf_open2]; unfold pb; ulia).
      pose proof (erule_general s cx _ _ _ _ _ _ H) as E1.
      pose proof (erule_tmath s cx _ ps mk _ _ _ _ T1 E E1) as E2.
      pose proof (erule_math s cx _ ps o (fst (absorb2 cx ps pos st before)) pb ws mk _ _ (opts_ok_2 _ _ OK) (proj1 SD) M T E2) as E3.
      eexists. split; [refine (SIM _ _ _ _ E3)|split; reflexivity].
      + exact OKB.
      + rewrite LT. cbn [lf_open2]. destruct mk; cbn [m_open length]; ulia.
    - (* environment *)
      apply andb_true_iff in OKF. destruct OKF as [OKF OKE].
      apply andb_true_iff in OKF. destruct OKF as [OKF EN].
      apply andb_true_iff in OKF. destruct OKF as [OKF NM].
      apply andb_true_iff in OKF. destruct OKF as [OKF WB].
      apply andb_true_iff in OKF. destruct OKF as [OKB W].
      destruct (get_env_spec cx name) as [sp|] eqn:GS; [|discriminate].
      destruct (sp_args sp) as [l|lk] eqn:SA; [|discriminate].
      pose proof OKE as OKA.
      assert (SL : nabs args + 4 <= U * length (begin_str bws name)).
      { apply (slots_paid cx U U8 UM sp l ps args _ _ (ParserTermDefs.env_spec_le cx name sp GS) SA OKA).
        rewrite len_begin_str. lia. }
      set (bps := DocGrammar2.env_body_state ps sp) in *.
      set (p0 := pb + length ws).
      set (pa := p0 + length (begin_str bws name)).
      assert (SK' : skipn pb s = ws ++ begin_str bws name ++ unparse_items2 args ++ rest).
      { rewrite SKb. rewrite <- !app_assoc. reflexivity. }
      pose proof (skipn_shift _ _ _ _ SK') as SK0. fold p0 in SK0.
      pose proof (skipn_shift _ _ _ _ SK0) as SKa. fold pa in SKa.
      assert (SK'' : skipn pb s = ws ++ 92%N :: RoundTrip2Tok.env_kw true ++ bws ++ 123%N :: name ++ 125%N
                                      :: (unparse_items2 args ++ rest)).
      { rewrite SK'. unfold begin_str, RoundTrip2Tok.env_kw. cbn [app]. rewrite <- !app_assoc. cbn [app].
        rewrite <- !app_assoc. reflexivity. }
      assert (T : impl_peek ps s pb = TokOk (Tokenizer.mk TkBeginEnv name p0 pa ws [])).
      { rewrite (impl_peek_dispatch ps s pb ws 92%N _ W SK'' space_92). fold p0.
        rewrite (RoundTrip2Tok.dispatch_env cx ps V s p0 ws true bws name _ (skipn_shift _ _ _ _ SK'') EN WB NM).
        unfold pa. rewrite len_begin_str. cbn [env_tok RoundTrip2Tok.env_kw kw_begin length]. f_equal.
        unfold Tokenizer.mk. f_equal. ulia. }
      pose proof (args_run2 s cx U U8 UM (lsize2 args) (items_sim2 s cx U U8 UM (lsize2 args)) args l ps [] pa _ SD (le_n _) OKA SKa) as A.
      cbn [app] in A.
      set (pbody := pa + length (unparse_items2 args)) in *.
      replace (pos + length (lf_text2 (LEnv2 b w bws name args))) with pbody in H
        by (rewrite LT; cbn [lf_open2]; rewrite app_length; unfold pbody, pa, p0, pb; ulia).
      pose proof (erule_general s cx _ _ _ _ _ _ H) as E1.
      set (N0 := Nat.max (S k) (1 + nabs args + U * length (unparse_items2 args))).
      apply (lift2 _ (S N0)) in A; [|discriminate|unfold N0; ulia].
      apply (lift2 _ N0) in E1; [|discriminate|unfold N0; ulia].
      pose proof (erule_tcall_env2 N0 ps name p0 pa sp l _ _ _ _ SA A E1) as E2.
      pose proof (erule_begin s cx _ ps o (fst (absorb2 cx ps pos st before)) pb ws name pa sp _ _
                    (opts_ok_2 _ _ OK) GS T E2) as E3.
      eexists. split; [refine (SIM _ _ _ _ E3)|split; reflexivity].
      + rewrite <- app_assoc. exact OKB.
      + rewrite LT. cbn [lf_open2]. rewrite app_length. pose proof (len_begin_str bws name) as LB.
        unfold N0. ulia.
  Qed.

  (** ** a whole path *)
  Theorem lpath_err2 : forall path ps o st pos rest k e p,
    StdE cx ps -> opts_ok ps o -> ok_lpath2 cx ps path rest = true ->
    skipn pos s = lp_text2 path ++ rest ->
    R k (TCollect (lp_state2 cx ps path) (lp_opts2 cx ps o path) (lp_st2 st path) (pos + length (lp_text2 path)))
    = PErr e p ->
    exists e', R (k + U * length (lp_text2 path)) (TCollect ps o st pos) = PErr e' p
               /\ pe_pos e' = pe_pos e /\ pe_what e' = pe_what e.
  Proof.
    induction path as [|f path IH]; intros ps o st pos rest k e p SD OK OKP SK H.
    - cbn [lp_text2 flat_map length lp_state2 lp_opts2 lp_st2] in *. rewrite Nat.add_0_r in H.
      rewrite Nat.mul_0_r, Nat.add_0_r. exists e. auto.
    - cbn [ok_lpath2] in OKP. apply andb_true_iff in OKP. destruct OKP as [OKF OKP].
      assert (LT : lp_text2 (f :: path) = lf_text2 f ++ lp_text2 path) by reflexivity.
      rewrite LT, <- app_assoc in SK. rewrite LT, app_length in H |- *.
      pose proof (skipn_shift _ _ _ _ SK) as SK1.
      cbn [lp_state2 lp_opts2 lp_st2] in H.
      set (ips := lf_state2 cx ps f) in *.
      assert (SDi : StdE cx ips) by (apply stde_lf_state2; exact SD).
      assert (HI : R k (TCollect (lp_state2 cx ips path) (lp_opts2 cx ips (lf_opts2 ips f) path) (lp_st2 cs_empty path)
                          (pos + length (lf_text2 f) + length (lp_text2 path))) = PErr e p).
      { replace (pos + length (lf_text2 f) + length (lp_text2 path)) with (pos + (length (lf_text2 f) + length (lp_text2 path)))
          by ulia. destruct path; exact H. }
      destruct (IH ips (lf_opts2 ips f) cs_empty _ rest k e p SDi (opts_ok_lf2 cx ps f _ OKF) OKP SK1 HI)
        as (e1 & H1 & P1 & W1).
      destruct (frame_err2 f ps o st pos (lp_text2 path ++ rest) _ e1 p SD OK OKF SK H1) as (e2 & H2 & P2 & W2).
      exists e2. split; [|split; congruence].
      replace (k + U * (length (lf_text2 f) + length (lp_text2 path)))
        with (k + U * length (lp_text2 path) + U * length (lf_text2 f)) by ulia. exact H2.
  Qed.
End Path2.

(** * The body of a delimited argument ([[ … ]]) of a macro call *)

(** [before ws \name post args1 aws oc]: the items before the call in its body, the call
    up to and including the opening delimiter of the argument that follows [args1] *)
Definition bh_text (before : list item2) (ws name post : str) (args1 : list item2) (aws : str) (oc : N) : str :=
  unparse_items2 before ++ ws ++ 92%N :: name ++ post ++ unparse_items2 args1 ++ aws ++ [oc].

(** the argument slot of the macro [name] that the hole is in *)
Definition mac_hole2 (cx : context) (name : str) (n : nat) : option (cspec * list argspec * argspec) :=
  match get_macro_spec cx name with
  | Some sp => match sp_args sp with
               | APStd l => match nth_error l n with Some spc => Some (sp, l, spc) | None => None end
               | APLegacy _ => None
               end
  | None => None
  end.

Definition ok_brkhole (cx : context) (ps : pstate) (before : list item2) (ws name post : str)
           (args1 : list item2) (aws : str) (oc cc : N) (fol : str) : bool :=
  ok_items2 cx ps [] before (ws ++ 92%N :: name ++ post ++ unparse_items2 args1 ++ aws ++ oc :: fol)
  && ws_ok ws && ws_ok post && name_ok name post
  && match mac_hole2 cx name (length args1) with
     | Some (_, l, spc) =>
         ok_args2 cx ps args1 (firstn (length args1) l) (aws ++ oc :: fol)
         && match a_kind spc with
            | AKGroup [oc'] [cc'] _ sp =>
                N.eqb oc oc' && N.eqb cc cc' && delim_ok oc cc && (sp || is_nil aws) && ws_ok aws
            | _ => false
            end
         && mac_follow_ok2 name post (unparse_items2 args1 ++ aws ++ oc :: fol)
     | None => false
     end.

(** the state the argument is parsed in *)
Definition bh_state (cx : context) (ps : pstate) (name : str) (n : nat) : pstate :=
  match mac_hole2 cx name n with
  | Some (_, _, spc) => apply_adelta ps (a_delta spc)
  | None => ps
  end.

Lemma stray_hd_special c : exists h r, stray_text c = h :: r /\ is_space h = false
                                       /\ mem_c h [92;36;37;123;125]%N = true.
Proof.
  destruct c as [|k|x]; cbn [stray_text].
  - exists 125%N, []. repeat split; vm_compute; reflexivity.
  - destruct k; cbn [m_close]; eexists; eexists; repeat split; vm_compute; reflexivity.
  - unfold env_text. exists 92%N. eexists. repeat split; vm_compute; reflexivity.
Qed.

Section Brk2.
  Variable s : str.
  Variable cx : context.
  (** the units of fuel per written character, as in [Proofs/RoundTrip2.v] *)
  Variable U : nat.
  Hypothesis U8 : 8 <= U.
  Hypothesis UM : max_args cx + 4 <= U.
  Notation R := (run s false cx).
  Ltac ulia := ulia_gen U U8.

  (** ** a prefix of the arguments of a call *)
  Lemma args_pre2 : forall args1 l1 lrest ps acc pa fol n r,
    Std cx ps -> ok_args2 cx ps args1 l1 fol = true -> r <> OutOfFuel -> 2 <= n ->
    skipn pa s = unparse_items2 args1 ++ fol ->
    R n (TArgs ps lrest (acc ++ fst (arg_nodes2 cx ps pa args1 l1)) (pa + length (unparse_items2 args1))) = r ->
    R (n + nabs args1 + U * length (unparse_items2 args1)) (TArgs ps (l1 ++ lrest) acc pa) = r.
  Proof.
    induction args1 as [|a args IHa]; intros [|spc l] lrest ps acc pa fol n r SD OKA NR N2 SK H; try discriminate.
    - cbn [unparse_items2 flat_map length arg_nodes2 fst app nabs filter] in *. rewrite app_nil_r in H.
      rewrite Nat.add_0_r in H. rewrite Nat.mul_0_r, !Nat.add_0_r. exact H.
    - cbn [ok_args2] in OKA. apply andb_true_iff in OKA. destruct OKA as [OKa OKR].
      assert (SK' : skipn pa s = unparse_item2 a ++ unparse_items2 args ++ fol).
      { unfold unparse_items2 in *. cbn [flat_map] in SK. rewrite <- app_assoc in SK. exact SK. }
      destruct (arg_run2 s cx U U8 UM (isize2 a) (items_sim2 s cx U U8 UM (isize2 a)) ps spc a pa _ SD (Nat.le_succ_diag_r _) OKa SK')
        as [A NE].
      set (nd := arg_node2 cx ps spc pa a) in *.
      set (pe := pa + ilen2 a) in *.
      assert (SKr : skipn pe s = unparse_items2 args ++ fol) by (apply skipn_shift in SK'; exact SK').
      assert (L : length (unparse_items2 (a :: args)) = ilen2 a + length (unparse_items2 args)).
      { unfold unparse_items2, ilen2. cbn [flat_map]. rewrite app_length. reflexivity. }
      cbn [arg_nodes2 fst snd] in H. fold nd pe in H. rewrite L in H.
      replace (pa + (ilen2 a + length (unparse_items2 args))) with (pe + length (unparse_items2 args)) in H
        by (unfold pe; ulia).
      change (acc ++ nd :: fst (arg_nodes2 cx ps pe args l)) with (acc ++ [nd] ++ fst (arg_nodes2 cx ps pe args l)) in H.
      rewrite app_assoc in H.
      pose proof (IHa l lrest ps (acc ++ [nd]) pe fol n r SD OKR NR N2 SKr H) as B.
      set (N0 := Nat.max (arg_fuel U a) (n + nabs args + U * length (unparse_items2 args))).
      assert (LE : S N0 <= n + nabs (a :: args) + U * length (unparse_items2 (a :: args))).
      { unfold N0, arg_fuel. rewrite nabs_cons, L. destruct (is_abs a) eqn:AB; [ulia|].
        pose proof (ok_arg_len cx ps spc a _ OKa AB). ulia. }
      apply (lift2 s cx (S N0)); [|exact NR|exact LE].
      cbn [app].
      apply (rule_targs_cons' s cx N0 ps spc (l ++ lrest) acc pa nd pe _ NE).
      + apply (lift_pc s cx _ _ _ _ _ A). unfold N0. ulia.
      + apply (lift2 s cx _ N0) in B; [exact B|exact NR|unfold N0; ulia].
  Qed.

  (** ** error rules of the delimited-group parser and of the argument list *)
  Lemma erule_tgroup_pair n ps oc cc opt aps p0 aws e p :
    impl_peek (brk_state ps oc cc) s p0
    = TokOk (mk TkBraceOpen [oc] (p0 + length aws) (S (p0 + length aws)) aws []) ->
    (aps || is_nil aws) = true ->
    R n (TGeneral (brk_state ps oc cc) (brk_opts ps oc cc) (S (p0 + length aws))) = PErr e p ->
    R (S n) (TGroup ps (GDPair [oc] [cc]) opt aps p0) = PErr e p.
  Proof using Type. clear UM U8 U.
    intros T A H. cbn [run]. fold (brk_state ps oc cc). rewrite next_tok_strict, T.
    cbn [mk tk targ tpre tpos tend tokkind_eqb str_eqb]. rewrite N.eqb_refl. cbn [andb].
    unfold is_nil in A. rewrite A. cbn [negb andb]. fold (brk_opts ps oc cc). rewrite H. reflexivity.
  Qed.

  Lemma erule_targs_cons' n ps a rest acc pos e p :
    (forall e0, impl_peek ps s pos <> TokErr e0) ->
    R n (TStdArg (apply_adelta ps (a_delta a)) (a_kind a) pos) = PErr e p ->
    R (S n) (TArgs ps (a :: rest) acc pos) = PErr e p.
  Proof using Type. clear UM U8 U.
    intros T A. cbn [run]. rewrite peek_tok_strict.
    destruct (impl_peek ps s pos) as [t|fin|e0] eqn:E; [| |exfalso; apply (T e0); reflexivity];
      rewrite A; reflexivity.
  Qed.

  (** ** from the body of the delimited argument to the collector the call stands in *)
  Lemma brk_hole_err ps o st pos before ws name post args1 aws oc cc rest k e p :
    StdE cx ps -> opts_ok ps o ->
    ok_brkhole cx ps before ws name post args1 aws oc cc rest = true ->
    skipn pos s = bh_text before ws name post args1 aws oc ++ rest ->
    let aps := bh_state cx ps name (length args1) in
    R k (TCollect (brk_state aps oc cc) (brk_opts aps oc cc) cs_empty
                  (pos + length (bh_text before ws name post args1 aws oc))) = PErr e p ->
    exists e', R (k + U * length (bh_text before ws name post args1 aws oc)) (TCollect ps o st pos) = PErr e' p
               /\ pe_pos e' = pe_pos e /\ pe_what e' = pe_what e.
  Proof.
    intros [SD EE] OK OKH SK aps H. pose proof (std_view_of cx ps SD) as V.
    unfold ok_brkhole in OKH.
    apply andb_true_iff in OKH. destruct OKH as [OKH OKM].
    apply andb_true_iff in OKH. destruct OKH as [OKH NM].
    apply andb_true_iff in OKH. destruct OKH as [OKH Wp].
    apply andb_true_iff in OKH. destruct OKH as [OKB W].
    unfold bh_state in aps. unfold mac_hole2 in *.
    destruct (get_macro_spec cx name) as [sp|] eqn:GS; [|discriminate].
    destruct (sp_args sp) as [l|lk] eqn:SA; [|discriminate].
    destruct (nth_error l (length args1)) as [spc|] eqn:NTH; [|discriminate].
    apply andb_true_iff in OKM. destruct OKM as [OKM FO].
    apply andb_true_iff in OKM. destruct OKM as [OKA KD].
    assert (SL : nabs args1 + 4 <= U * (1 + length name)).
    { pose proof (nabs_le args1) as NL. pose proof (ParserTermDefs.macro_spec_le cx name sp GS) as M.
      unfold nargs in M. rewrite SA in M.
      assert (length args1 < length l) by (apply nth_error_Some; rewrite NTH; discriminate). lia. }
    destruct (a_kind spc) as [|o' c' opt sp'| |] eqn:AK; try discriminate.
    destruct o' as [|oc' [|? ?]]; try discriminate. destruct c' as [|cc' [|? ?]]; try discriminate.
    apply andb_true_iff in KD. destruct KD as [KD WA].
    apply andb_true_iff in KD. destruct KD as [KD AP].
    apply andb_true_iff in KD. destruct KD as [KD D].
    apply andb_true_iff in KD. destruct KD as [EO EC].
    apply N.eqb_eq in EO. apply N.eqb_eq in EC. subst oc' cc'.
    assert (SDa : Std cx aps) by (apply std_adelta; exact SD).
    destruct (delim_ok_facts oc cc D) as (PO & PC & _).
    destruct (plain_start_facts oc PO) as (SPO & O92 & _).
    set (pb := pos + length (unparse_items2 before)).
    set (p0 := pb + length ws).
    set (pe := p0 + 1 + length name + length post).
    set (ph := pe + length (unparse_items2 args1)).
    set (q0 := ph + length aws).
    assert (LT : length (bh_text before ws name post args1 aws oc)
                 = length (unparse_items2 before) + length ws + 1 + length name + length post
                   + length (unparse_items2 args1) + length aws + 1).
    { unfold bh_text. rewrite !app_length. cbn [length]. rewrite !app_length. cbn [length]. ulia. }
    assert (SK0 : skipn pos s = unparse_items2 before
                                ++ (ws ++ 92%N :: name ++ post ++ unparse_items2 args1 ++ aws ++ oc :: rest)).
    { rewrite SK. unfold bh_text. repeat (rewrite <- app_assoc; cbn [app]). reflexivity. }
    pose proof (skipn_shift _ _ _ _ SK0) as SKb. fold pb in SKb.
    assert (T : impl_peek ps s pb = TokOk (mk TkMacro name p0 pe ws post)).
    { apply (mac_tok2 s cx ps pb ws name post _ SD W Wp NM FO SKb). }
    pose proof (skipn_shift _ _ _ _ SKb) as SKm. fold p0 in SKm.
    assert (SKa : skipn pe s = unparse_items2 args1 ++ aws ++ oc :: rest).
    { change (92%N :: name ++ post ++ unparse_items2 args1 ++ aws ++ oc :: rest)
        with ([92%N] ++ name ++ post ++ unparse_items2 args1 ++ aws ++ oc :: rest) in SKm.
      apply skipn_shift in SKm. apply skipn_shift in SKm. apply skipn_shift in SKm.
      cbn [length] in SKm. exact SKm. }
    pose proof (skipn_shift _ _ _ _ SKa) as SKh. fold ph in SKh.
    set (gps := brk_state aps oc cc) in *.
    assert (T1 : impl_peek gps s ph = TokOk (mk TkBraceOpen [oc] q0 (S q0) aws [])).
    { rewrite (impl_peek_dispatch gps s ph aws oc _ WA SKh SPO). apply (dispatch_brk_open cx aps oc cc SDa D). }
    assert (NE : forall e0, impl_peek ps s ph <> TokErr e0)
      by (apply (peek_no_err s cx ps ph aws oc rest SD WA SPO O92 SKh)).
    replace (pos + length (bh_text before ws name post args1 aws oc)) with (S q0) in H
      by (rewrite LT; unfold q0, ph, pe, p0, pb; ulia).
    pose proof (erule_general s cx _ _ _ _ _ _ H) as E1.
    pose proof (erule_tgroup_pair _ aps oc cc opt sp' ph aws _ _ T1 AP E1) as E2.
    assert (E3 : R (S (S (S k))) (TStdArg aps (AKGroup [oc] [cc] opt sp') ph) = PErr (rewrap (S q0) e) p).
    { rewrite rule_tstdarg_group, E2. reflexivity. }
    rewrite <- AK in E3.
    assert (SPL : l = firstn (length args1) l ++ spc :: skipn (S (length args1)) l).
    { clear -NTH. revert l NTH. induction (length args1) as [|n IH]; intros [|x l] NTH; try discriminate.
      - cbn in NTH. injection NTH as ->. reflexivity.
      - cbn [nth_error] in NTH. cbn [firstn skipn app]. f_equal. apply IH. exact NTH. }
    pose proof (erule_targs_cons' _ ps spc (skipn (S (length args1)) l)
                  ([] ++ fst (arg_nodes2 cx ps pe args1 (firstn (length args1) l))) ph _ _ NE E3) as E4.
    pose proof (args_pre2 args1 (firstn (length args1) l) (spc :: skipn (S (length args1)) l) ps [] pe _
                  (S (S (S (S k)))) (PErr (rewrap (S q0) e) p) SD OKA ltac:(discriminate) ltac:(ulia) SKa E4) as E5.
    rewrite <- SPL in E5.
    pose proof (erule_tcall s cx _ ps (mk TkMacro name p0 pe [] post) sp l pe _ _ SA E5) as E6.
    pose proof (erule_macro s cx _ ps o (fst (absorb2 cx ps pos st before)) pb ws name pe post sp _ _
                  (opts_ok_2 _ _ OK) GS T E6) as E7.
    pose proof (items_sim2_std s cx U before ps o st pos _ _ (PErr (rewrap (S q0) e) p) U8 UM SD OK ltac:(discriminate) OKB SK0 E7) as S1.
    exists (rewrap (S q0) e). split; [|split; reflexivity].
    apply (lift2 s cx _ _ _ _ S1); [discriminate|]. rewrite LT. ulia.
  Qed.

  (** ** extended items in the body of a delimited argument, then the stray token *)
  Lemma stray_collect2_brk aps oc cc st pos l1 fws c g : StdE cx aps -> delim_ok oc cc = true ->
    ok_items2 cx aps [oc; cc] l1 (fws ++ stray_text c ++ g) = true -> ws_ok fws = true -> stray_wf c ->
    skipn pos s = unparse_items2 l1 ++ fws ++ stray_text c ++ g ->
    let gps := brk_state aps oc cc in
    let q := pos + length (unparse_items2 l1) in
    R (1 + U * length (unparse_items2 l1)) (TCollect gps (brk_opts aps oc cc) st pos)
    = PErr (fail_err gps (fst (absorb2 cx aps pos st l1)) q (stray_tk c) (stray_arg c)
                     (q + length fws + length (stray_text c)) fws [] (stray_what c))
           (q + length fws + length (stray_text c)).
  Proof.
    intros SE D OKL W WF SK gps q. pose proof SE as [SD EE].
    pose proof (skipn_shift _ _ _ _ SK) as SK1. fold q in SK1.
    pose proof (frame_brk cx aps oc cc SD D) as F.
    destruct (delim_ok_facts oc cc D) as (PO & PC & _).
    destruct (plain_start_facts cc PC) as (_ & _ & _ & _ & _ & C125).
    assert (T : impl_peek gps s q
                = TokOk (mk (stray_tk c) (stray_arg c) (q + length fws) (q + length fws + length (stray_text c)) fws [])).
    { destruct (stray_hd_special c) as (h & r & EH & SH & MH).
      assert (SKh : skipn q s = fws ++ h :: (r ++ g)) by (rewrite SK1, EH; reflexivity).
      rewrite (frame_peek1 cx [oc; cc] gps aps s q fws h _ F SKh W SH (frame_ex_special cx _ gps aps h F MH)).
      apply (stray_tok s cx aps q fws c g SE W WF SK1). }
    assert (SM : stop_matches (g_stop (brk_opts aps oc cc))
                   (mk (stray_tk c) (stray_arg c) (q + length fws) (q + length fws + length (stray_text c)) fws [])
                 = false).
    { cbn [brk_opts g_stop stop_matches mk tk targ]. destruct c as [|kk|x]; cbn [stray_tk stray_arg].
      - cbn [tokkind_eqb andb str_eqb]. rewrite (N.eqb_sym 125 cc), C125. reflexivity.
      - destruct kk; reflexivity.
      - reflexivity. }
    pose proof (trule_fail s cx false 0 gps (brk_opts aps oc cc) (fst (absorb2 cx aps pos st l1)) q
                  (stray_tk c) (stray_arg c) _ fws [] (stray_what c) eq_refl T SM
                  (stray_rejected gps c (brk_good cx aps oc cc SD) WF)) as HF.
    refine (items_sim2 s cx U U8 UM (lsize2 l1) l1 (le_n _) [oc; cc] gps aps (brk_opts aps oc cc) st pos _ 1 _ F
              (opts_okF_brk cx aps oc cc SD D) _ OKL SK HF). discriminate.
  Qed.
End Brk2.
