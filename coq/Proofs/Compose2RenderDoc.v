(** C03 over the extended document grammar, end to end with a SYNTACTIC side
    condition: [doc_cores2 lt cx kbg d : option (list core)] is computed from the
    document [d] of [Doc/DocGrammar2.v] alone (no positions, no collector: the
    accumulator [kst] of [Proofs/ComposeRender.v]) and, when it is [Some ks], the
    meaning [tree_of2 d] is recognised by [Compose2Render.abstract2] with exactly
    these items — hence [latex_to_text o (unparse2 d) = render .. ks].

    What is core ([core_of2]): comments, paragraph breaks, groups, the four kinds
    of formulas, environments rendered as their body or wrapped ([KEnvBody],
    [KEnvWrap]; whatever their arguments), specials, bare symbol macros,
    formatting / accent macros with one braced argument (accents also with a
    one-character token), [\item] with its optional argument absent or (when
    [keep_braced_groups] is off) written, and every %-template macro ([\frac],
    [\sqrt], [\footnote] ...) whose arguments are braced groups, optional groups
    written or absent, single characters, possibly preceded by comments. *)
From Coq Require Import NArith ZArith List Bool Arith Lia.
From PLV Require Import Base.PyStr Tok.PState Tok.Tokenizer Parse.Nodes Parse.Parser Parse.ParseWire
                        Proofs.PyStrFacts Doc.DocGrammar Doc.DocGrammar2 Proofs.RoundTripTok Proofs.RoundTrip
                        Proofs.RoundTrip2 L2T.L2T L2T.L2TWire L2T.Render
                        Proofs.FsProofs Proofs.RenderModel Proofs.RenderProofs Proofs.RenderDefaults
                        Proofs.ComposeRender Proofs.Compose2Comments Proofs.Compose2Render.
Import ListNotations.

Section DocCores2.
  Variable lt : l2tctx.
  Variable cx : context.
  Variable kbg : bool.

  Definition is_expr_kind (k : argkind) : bool := match k with AKExpr _ => true | _ => false end.
  Definition is_tok_kind (k : argkind) : bool := match k with AKExpr _ | AKChars _ _ _ => true | _ => false end.

  Fixpoint core_of2 (i : item2) {struct i} : option core :=
    let body := fix go (st : kst) (l : list item2) {struct l} : option kst :=
        match l with
        | [] => Some st
        | j :: r =>
            match j with
            | Text2 ws cs => go (kpush st (ws ++ cs)) r
            | _ => match core_of2 j with
                   | Some k => go (kpush_node (kpre_flush st (item_ws2 j)) k) r
                   | None => None
                   end
            end
        end in
    let closed := fun (b : list item2) (tr : str) =>
        match body k0 b with Some st => Some (kclose st tr) | None => None end in
    (* the contents of an argument written for a slot of kind [ex] / [tok] *)
    let argc := fix argc (ex tok : bool) (a : item2) {struct a} : option (list core) :=
        match a with
        | Grp2 _ b tr => closed b tr
        | Brk2 _ _ _ b tr => closed b tr
        | Abs2 => Some []
        | Text2 _ cs => if tok then Some [KText cs] else None
        | Pre2 _ _ _ a' => if ex then argc ex tok a' else None
        | _ => None
        end in
    let argsc := fix argsc (al : list item2) (specs : list argspec) {struct al} : option (list (list core)) :=
        match al, specs with
        | [], [] => Some []
        | a :: r, spc :: specs' =>
            match argc (is_expr_kind (a_kind spc)) (is_tok_kind (a_kind spc)) a, argsc r specs' with
            | Some c, Some cs => Some (c :: cs)
            | _, _ => None
            end
        | _, _ => None
        end in
    (* the single argument of a formatting macro: a group (after comments, where the slot skips them) *)
    let grpc := fix grpc (ex : bool) (a : item2) {struct a} : option (list core) :=
        match a with
        | Grp2 _ b tr => closed b tr
        | Brk2 _ _ _ b tr => closed b tr
        | Pre2 _ _ _ a' => if ex then grpc ex a' else None
        | _ => None
        end in
    (* the single argument of an accent macro: a braced group or a one-character token *)
    let accarg := fix accarg (ex : bool) (a : item2) {struct a} : option core :=
        match a with
        | Grp2 _ b tr => option_map KGroup (closed b tr)
        | Text2 _ cs => if ex then Some (KText cs) else None
        | Pre2 _ _ _ a' => if ex then accarg ex a' else None
        | _ => None
        end in
    match i with
    | Text2 _ _ => None
    | Cmt2 _ text post => Some (KComment text post)
    | Par2 _ _ =>
        if par_spec_ok cx
        then match assoc (lt_specials lt) [10; 10]%N with None => Some KPar | Some _ => None end
        else None
    | Grp2 _ b tr => option_map KGroup (closed b tr)
    | Math2 _ k b tr =>
        option_map (KMath (m_display k) (m_open k) (m_close k) (m_open k ++ unparse_items2 b ++ tr ++ m_close k))
                   (closed b tr)
    | Env2 _ _ name _ b tr _ =>
        match get_env_spec cx name with
        | Some sp =>
            match sp_args sp with
            | APStd _ =>
                if transparent_env lt name then option_map KEnvBody (closed b tr)
                else match wrap_env lt name with
                     | Some (pre, post) => option_map (KEnvWrap pre post) (closed b tr)
                     | None => None
                     end
            | APLegacy _ => None
            end
        | None => None
        end
    | Spc2 _ chars _ =>
        match get_specials_spec cx chars with
        | Some sp =>
            match sp_args sp with
            | APStd _ =>
                match assoc (lt_specials lt) chars with
                | None => Some (if str_eqb chars [10; 10]%N then KPar else KSpecials chars)
                | Some _ => option_map KSpecials (specials_repl lt chars)
                end
            | APLegacy _ => None
            end
        | None => None
        end
    | Mac2 _ name post args =>
        match get_macro_spec cx name with
        | Some sp =>
            match sp_args sp with
            | APStd l =>
                match macro_template lt name with
                | Some items =>
                    (* as many arguments as slots, and at least one argument node that
                       keeps the macro from being "bare" for the neighbour rule *)
                    if Nat.eqb (length args) (length l)
                       && Nat.ltb (snd (legacy_idx (Some (map a_spec l, [])))) (length l)
                    then match argsc args l with
                         | Some cs => option_map KTransparent (fill items (pad_cores cs (length l)))
                         | None => None
                         end
                    else None
                | None =>
                    match args, l with
                    | [], [] => option_map (fun r => KSymbol r post) (symbol_repl lt name)
                    | [a], [spc] =>
                        if str_eqb (a_spec spc) [123%N] then
                          match accent_macro lt name with
                          | Some comb => option_map (KAccent comb) (accarg (is_expr_kind (a_kind spc)) a)
                          | None =>
                              if transparent_macro lt name
                              then option_map KTransparent (grpc (is_expr_kind (a_kind spc)) a)
                              else None
                          end
                        else if str_eqb (a_spec spc) [91%N] && item_macro lt name then
                          match a with
                          | Abs2 => Some (KSymbol item_text post)
                          | Brk2 _ _ _ b tr =>
                              if kbg then None
                              else option_map (fun bd => KTransparent [KSpecials item_label_prefix; KTransparent bd])
                                              (closed b tr)
                          | _ => None
                          end
                        else None
                    | _, _ => None
                    end
                end
            | APLegacy _ => None
            end
        | None => None
        end
    | _ => None
    end.

  Definition kabsorb_item2 (st : kst) (j : item2) : option kst :=
    match j with
    | Text2 ws cs => Some (kpush st (ws ++ cs))
    | _ => match core_of2 j with
           | Some k => Some (kpush_node (kpre_flush st (item_ws2 j)) k)
           | None => None
           end
    end.

  Definition cores_items2 : kst -> list item2 -> option kst :=
    fix go (st : kst) (l : list item2) {struct l} : option kst :=
      match l with
      | [] => Some st
      | j :: r =>
          match j with
          | Text2 ws cs => go (kpush st (ws ++ cs)) r
          | _ => match core_of2 j with
                 | Some k => go (kpush_node (kpre_flush st (item_ws2 j)) k) r
                 | None => None
                 end
          end
      end.
  Definition closed2 (b : list item2) (tr : str) : option (list core) :=
    match cores_items2 k0 b with Some st => Some (kclose st tr) | None => None end.
  Definition argc2 : bool -> bool -> item2 -> option (list core) :=
    fix argc (ex tok : bool) (a : item2) {struct a} : option (list core) :=
      match a with
      | Grp2 _ b tr => closed2 b tr
      | Brk2 _ _ _ b tr => closed2 b tr
      | Abs2 => Some []
      | Text2 _ cs => if tok then Some [KText cs] else None
      | Pre2 _ _ _ a' => if ex then argc ex tok a' else None
      | _ => None
      end.
  Definition grpc2 : bool -> item2 -> option (list core) :=
    fix grpc (ex : bool) (a : item2) {struct a} : option (list core) :=
      match a with
      | Grp2 _ b tr => closed2 b tr
      | Brk2 _ _ _ b tr => closed2 b tr
      | Pre2 _ _ _ a' => if ex then grpc ex a' else None
      | _ => None
      end.
  Definition accarg2 : bool -> item2 -> option core :=
    fix accarg (ex : bool) (a : item2) {struct a} : option core :=
      match a with
      | Grp2 _ b tr => option_map KGroup (closed2 b tr)
      | Text2 _ cs => if ex then Some (KText cs) else None
      | Pre2 _ _ _ a' => if ex then accarg ex a' else None
      | _ => None
      end.
  Definition argsc2 : list item2 -> list argspec -> option (list (list core)) :=
    fix argsc (al : list item2) (specs : list argspec) {struct al} : option (list (list core)) :=
      match al, specs with
      | [], [] => Some []
      | a :: r, spc :: specs' =>
          match argc2 (is_expr_kind (a_kind spc)) (is_tok_kind (a_kind spc)) a, argsc r specs' with
          | Some c, Some cs => Some (c :: cs)
          | _, _ => None
          end
      | _, _ => None
      end.

  Definition doc_cores2 (d : doc2) : option (list core) :=
    match cores_items2 k0 (d_items2 d) with
    | Some st => Some (kclose st (d_trail2 d))
    | None => None
    end.

  Lemma cores_items_cons2 st j r :
    cores_items2 st (j :: r) = match kabsorb_item2 st j with Some st' => cores_items2 st' r | None => None end.
  Proof. destruct j; cbn [cores_items2 kabsorb_item2]; try reflexivity; destruct (core_of2 _); reflexivity. Qed.

  Lemma core_of_grp2 ws b tr : core_of2 (Grp2 ws b tr) = option_map KGroup (closed2 b tr).
  Proof. reflexivity. Qed.
  Lemma core_of_math2 ws k b tr :
    core_of2 (Math2 ws k b tr) =
    option_map (KMath (m_display k) (m_open k) (m_close k) (m_open k ++ unparse_items2 b ++ tr ++ m_close k))
               (closed2 b tr).
  Proof. reflexivity. Qed.
  Lemma core_of_env2 ws bws name args b tr ews sp l :
    get_env_spec cx name = Some sp -> sp_args sp = APStd l ->
    core_of2 (Env2 ws bws name args b tr ews) =
    if transparent_env lt name then option_map KEnvBody (closed2 b tr)
    else match wrap_env lt name with
         | Some (pre, post) => option_map (KEnvWrap pre post) (closed2 b tr)
         | None => None
         end.
  Proof. intros A B. cbn [core_of2]. rewrite A, B. reflexivity. Qed.
  Lemma core_of_mac2 ws name post args sp l :
    get_macro_spec cx name = Some sp -> sp_args sp = APStd l ->
    core_of2 (Mac2 ws name post args) =
    match macro_template lt name with
    | Some items =>
        if Nat.eqb (length args) (length l) && Nat.ltb (snd (legacy_idx (Some (map a_spec l, [])))) (length l)
        then match argsc2 args l with
             | Some cs => option_map KTransparent (fill items (pad_cores cs (length l)))
             | None => None
             end
        else None
    | None =>
        match args, l with
        | [], [] => option_map (fun r => KSymbol r post) (symbol_repl lt name)
        | [a], [spc] =>
            if str_eqb (a_spec spc) [123%N] then
              match accent_macro lt name with
              | Some comb => option_map (KAccent comb) (accarg2 (is_expr_kind (a_kind spc)) a)
              | None =>
                  if transparent_macro lt name
                  then option_map KTransparent (grpc2 (is_expr_kind (a_kind spc)) a)
                  else None
              end
            else if str_eqb (a_spec spc) [91%N] && item_macro lt name then
              match a with
              | Abs2 => Some (KSymbol item_text post)
              | Brk2 _ _ _ b tr =>
                  if kbg then None
                  else option_map (fun bd => KTransparent [KSpecials item_label_prefix; KTransparent bd]) (closed2 b tr)
              | _ => None
              end
            else None
        | _, _ => None
        end
    end.
  Proof. intros A B. cbn [core_of2]. rewrite A, B. reflexivity. Qed.
End DocCores2.

(** * The meaning of such a document is recognised, with the computed items *)
Section Rel2.
  Variable lt : l2tctx.
  Variable cx : context.
  Variable kbg : bool.
  Variable s : str.
  Notation abs := (abstract2 s lt cx kbg).
  Notation absl := (abstract2_items s lt cx kbg).
  Notation absb := (abs_body2 s lt cx kbg).
  Notation absa := (abs_arg2 s lt cx kbg).
  Notation absas := (abs_args2 s lt cx kbg).
  Notation co := (core_of2 lt cx kbg).
  Notation cis := (cores_items2 lt cx kbg).
  Notation closed := (closed2 lt cx kbg).

  Lemma absl_app na nb :
    absl (na ++ nb) = match absl na, absl nb with Some a, Some b => Some (a ++ b) | _, _ => None end.
  Proof.
    induction na as [|[n|] r IH]; cbn [app abstract2_items].
    - now destruct (absl nb).
    - destruct (abs n); [|reflexivity]. rewrite IH. destruct (absl r), (absl nb); reflexivity.
    - reflexivity.
  Qed.

  Definition KR2 (st : collstate) (k : kst) : Prop := absl (cs_acc st) = Some (fst k) /\ cs_pend st = snd k.

  Lemma kr2_empty : KR2 cs_empty k0. Proof. split; reflexivity. Qed.
  Lemma kr2_push_pending st k c p : KR2 st k -> KR2 (push_pending st c p) (kpush k c).
  Proof. intros [A B]. split; cbn [push_pending cs_acc cs_pend kpush fst snd]; [exact A | now rewrite B]. Qed.
  Lemma absl_snoc2 acc ks nd c : absl acc = Some ks -> abs nd = Some c -> absl (acc ++ [Some nd]) = Some (ks ++ [c]).
  Proof. intros A B. rewrite absl_app, A. cbn [abstract2_items]. now rewrite B. Qed.
  Lemma kr2_push_node st k nd c : KR2 st k -> abs nd = Some c -> KR2 (push_node st (Some nd)) (kpush_node k c).
  Proof.
    intros [A B] H. split; cbn [push_node cs_acc cs_pend kpush_node fst snd]; [|exact B]. now apply absl_snoc2.
  Qed.
  Lemma kr2_flush ps st k : KR2 st k -> KR2 (flush ps st) (kflush k).
  Proof.
    intros [A B]. unfold flush, kflush. rewrite <- B. destruct (cs_pend st) as [|c pd] eqn:Ep.
    - split; [exact A | now rewrite Ep].
    - split; cbn [cs_acc cs_pend fst snd]; [|reflexivity]. now apply absl_snoc2.
  Qed.
  Lemma kr2_pre_flush ps st k ws p : KR2 st k -> KR2 (pre_flush ps st ws p) (kpre_flush k ws).
  Proof.
    intros [A B]. unfold pre_flush, kpre_flush. rewrite <- B. destruct (cs_pend st) as [|c pd] eqn:Ep.
    - destruct ws as [|w ws]; [split; [exact A | now rewrite Ep]|].
      apply kr2_push_node; [split; [exact A | now rewrite Ep] | reflexivity].
    - apply (kr2_flush ps {| cs_acc := cs_acc st; cs_pend := (c :: pd) ++ ws; cs_ppos := cs_ppos st |}
                       (fst k, (c :: pd) ++ ws)).
      split; [exact A | reflexivity].
  Qed.
  Lemma kr2_close ps st k tr q : KR2 st k -> absl (cs_acc (close_state ps st tr q)) = Some (kclose k tr).
  Proof.
    intros H. unfold close_state, kclose. exact (proj1 (kr2_flush ps _ _ (kr2_push_pending st k tr q H))).
  Qed.

  (** one layer of [abstract2], any [kbg] *)
  Lemma abs_group p e m dl dr b :
    abs (NGroup p e m dl dr b) =
    if str_eqb dl [123%N] && str_eqb dr [125%N] then option_map KGroup (absb b) else None.
  Proof. reflexivity. Qed.
  Lemma abs_env p e m nm a b :
    abs (NEnv p e m nm a b) =
    if transparent_env lt nm then option_map KEnvBody (absb b)
    else match wrap_env lt nm with
         | Some (pre, post) => option_map (KEnvWrap pre post) (absb b)
         | None => None
         end.
  Proof. reflexivity. Qed.
  Lemma abs_math p e m d dl dr b :
    abs (NMath p e m d dl dr b) = option_map (KMath d dl dr (slice s p e)) (absb b).
  Proof. reflexivity. Qed.
  Lemma abs_macro p e m nm post a :
    abs (NMacro p e m nm post a) =
    match macro_template lt nm with
    | Some items =>
        match legacy_view a with
        | (None, []) => None
        | _ =>
            match absas (argn_of a) with
            | Some cs => option_map KTransparent (fill items (pad_cores cs (nslots_of (get_macro_spec cx nm))))
            | None => None
            end
        end
    | None =>
        match a with
        | Some (sp, [Some x]) =>
            if list_eqb str_eqb sp [[123%N]] then
              match accent_macro lt nm with
              | Some comb => option_map (KAccent comb) (abs x)
              | None =>
                  match x with
                  | NGroup _ _ _ _ _ b => if transparent_macro lt nm then option_map KTransparent (absb b) else None
                  | _ => None
                  end
              end
            else if list_eqb str_eqb sp [[91%N]] && item_macro lt nm && negb kbg then
              match x with
              | NGroup _ _ _ _ _ b =>
                  option_map (fun l => KTransparent [KSpecials item_label_prefix; KTransparent l]) (absb b)
              | _ => None
              end
            else None
        | Some (sp, [None]) =>
            if list_eqb str_eqb sp [[91%N]] && item_macro lt nm then Some (KSymbol item_text post) else None
        | _ => if no_arg_nodes a then option_map (fun r => KSymbol r post) (symbol_repl lt nm) else None
        end
    end.
  Proof. destruct a as [[sp l]|]; reflexivity. Qed.

  (** * The induction on document size *)
  Definition NodeN2 (n : nat) : Prop :=
    forall i k, isize2 i <= n -> co i = Some k -> arity2 cx i -> forall ps p0 fol,
    skipn p0 s = ibody2 i ++ fol ->
    exists nd, node_of2 cx ps p0 i = Some nd /\ abs nd = Some k.
  Definition ListN2 (n : nat) : Prop :=
    forall l k k', lsize2 l <= n -> cis k l = Some k' -> arity_items2 cx l -> forall ps p st fol,
    skipn p s = unparse_items2 l ++ fol -> KR2 st k -> KR2 (fst (absorb2 cx ps p st l)) k'.

  Lemma closed_sound n : ListN2 n -> forall b tr bd, lsize2 b <= n -> closed b tr = Some bd ->
    arity_items2 cx b -> forall ps p q fol, skipn p s = unparse_items2 b ++ fol ->
    absl (cs_acc (close_state ps (fst (absorb2 cx ps p cs_empty b)) tr q)) = Some bd.
  Proof.
    intros LN b tr bd SZ C A ps p q fol SK. unfold closed2 in C.
    destruct (cis k0 b) as [st'|] eqn:CB; [|discriminate]. injection C as <-.
    apply kr2_close. exact (LN b k0 st' SZ CB A ps p cs_empty fol SK kr2_empty).
  Qed.

  (** the node of a group-like argument and its contents *)
  Lemma grp_arg_sound n : ListN2 n -> forall a c ex tok, isize2 a <= n ->
    match a with Grp2 _ _ _ | Brk2 _ _ _ _ _ => True | _ => False end ->
    argc2 lt cx kbg ex tok a = Some c -> arity2 cx a -> forall ps p0 fol,
    skipn p0 s = ibody2 a ++ fol ->
    absa (node_of2 cx ps p0 a) = Some c.
  Proof.
    intros LN a c ex tok SZ SH C A ps p0 fol SK.
    destruct a as [|ws b tr| | | | | | | | |ws oc cc b tr| | |]; try contradiction;
      unfold ibody2 in SK; cbn [item_ws2 unparse_item2] in SK; rewrite skipn_len_app in SK;
      cbn [argc2] in C; cbn [isize2] in SZ; fold (lsize2 b) in SZ; cbn [arity2] in A; fold (arity_items2 cx b) in A.
    - rewrite node_of_grp2. cbn zeta. cbn [abs_arg2 abs_body2]. unfold gen_nodelist, mk_nodelist.
      cbn [app] in SK. apply skipn_S_of in SK.
      apply (closed_sound n LN b tr c ltac:(lia) C A ps (S p0) _ (tr ++ [125%N] ++ fol)).
      rewrite SK. unfold unparse_items2. now rewrite <- !app_assoc.
    - rewrite node_of_brk2. cbn zeta. cbn [abs_arg2 abs_body2]. unfold gen_nodelist, mk_nodelist.
      cbn [app] in SK. apply skipn_S_of in SK.
      apply (closed_sound n LN b tr c ltac:(lia) C A ps (S p0) _ (tr ++ [cc] ++ fol)).
      rewrite SK. unfold unparse_items2. now rewrite <- !app_assoc.
  Qed.

  (** a mandatory argument: comments, then a braced group or one character *)
  Lemma expr_sound n : ListN2 n -> forall a c, isize2 a <= n -> argc2 lt cx kbg true true a = Some c ->
    arity2 cx a -> forall aps p fol, skipn p s = unparse_item2 a ++ fol ->
    absa (expr_node2 cx aps p a) = Some c.
  Proof.
    intros LN a.
    induction a as [ws cs|ws b tr| | | | | | | | |ws oc cc b tr| | |ws tx post a0 IHa]; intros c SZ C A aps p fol SK;
      try discriminate C.
    - cbn [argc2] in C. injection C as <-. reflexivity.
    - cbn [expr_node2]. apply (grp_arg_sound n LN _ c true true SZ I C A aps _ fol). exact (skip_ws2 s p _ fol SK).
    - cbn [expr_node2]. apply (grp_arg_sound n LN _ c true true SZ I C A aps _ fol). exact (skip_ws2 s p _ fol SK).
    - cbn [argc2] in C. injection C as <-. reflexivity.
    - cbn [argc2] in C. cbn [isize2] in SZ. cbn [arity2] in A. cbn [expr_node2 item_ws2].
      apply (IHa c ltac:(lia) C A aps _ fol).
      replace (p + length ws + 1 + length tx + length post) with (p + length (ws ++ 37%N :: tx ++ post))
        by (rewrite app_length; cbn [length]; rewrite app_length; lia).
      apply skipn_shift. rewrite SK. cbn [unparse_item2]. rewrite <- !app_assoc. cbn [app]. now rewrite <- !app_assoc.
  Qed.

  Lemma arg_sound n : ListN2 n -> forall a c spc, isize2 a <= n ->
    argc2 lt cx kbg (is_expr_kind (a_kind spc)) (is_tok_kind (a_kind spc)) a = Some c ->
    arity2 cx a -> forall ps p fol, skipn p s = unparse_item2 a ++ fol ->
    absa (arg_node2 cx ps spc p a) = Some c.
  Proof.
    intros LN a c spc SZ C A ps p fol SK. unfold arg_node2.
    destruct (a_kind spc) as [sp0|od cd opt sp0|ch sp0 full|dv] eqn:K; cbn [is_expr_kind is_tok_kind] in C.
    - exact (expr_sound n LN a c SZ C A _ p fol SK).
    - destruct a; try discriminate C;
        try (apply (grp_arg_sound n LN _ c false false SZ I C A _ _ fol); exact (skip_ws2 s p _ fol SK)).
      cbn [argc2] in C. injection C as <-. reflexivity.
    - destruct a; try discriminate C;
        try (apply (grp_arg_sound n LN _ c false true SZ I C A _ _ fol); exact (skip_ws2 s p _ fol SK)).
      + cbn [argc2] in C. injection C as <-. destruct full; reflexivity.
      + cbn [argc2] in C. injection C as <-. reflexivity.
    - destruct a; try discriminate C;
        try (apply (grp_arg_sound n LN _ c false false SZ I C A _ _ fol); exact (skip_ws2 s p _ fol SK)).
      cbn [argc2] in C. injection C as <-. reflexivity.
  Qed.

  Lemma args_sound n : ListN2 n -> forall args l cs, lsize2 args <= n -> argsc2 lt cx kbg args l = Some cs ->
    arity_items2 cx args -> forall ps p fol, skipn p s = unparse_items2 args ++ fol ->
    absas (fst (arg_nodes2 cx ps p args l)) = Some cs.
  Proof.
    intros LN. induction args as [|a args IH]; intros l cs SZ C A ps p fol SK.
    - destruct l; [|discriminate C]. injection C as <-. reflexivity.
    - destruct l as [|spc l]; [discriminate C|]. cbn [argsc2] in C.
      destruct (argc2 lt cx kbg _ _ a) as [c|] eqn:Ca; [|discriminate C].
      destruct (argsc2 lt cx kbg args l) as [cs'|] eqn:Cr; [|discriminate C]. injection C as <-.
      rewrite lsize_cons2 in SZ. pose proof (isize_pos2 a). cbn [arity_items2] in A. destruct A as [A1 A2].
      unfold unparse_items2 in SK. cbn [flat_map] in SK. rewrite <- app_assoc in SK.
      cbn [arg_nodes2 fst abs_args2].
      rewrite (arg_sound n LN a c spc ltac:(lia) Ca A1 ps p _ SK).
      rewrite (IH l cs' ltac:(lia) Cr A2 ps (p + ilen2 a) fol); [reflexivity|].
      unfold ilen2. apply skipn_shift. exact SK.
  Qed.

  (** the single argument of a formatting / accent macro *)
  Lemma grp_node_sound n : ListN2 n -> forall a bd, isize2 a <= n ->
    match a with Grp2 _ _ _ | Brk2 _ _ _ _ _ => True | _ => False end ->
    grpc2 lt cx kbg false a = Some bd -> arity2 cx a -> forall ps p0 fol,
    skipn p0 s = ibody2 a ++ fol ->
    exists e m dl dr pp ee items,
      node_of2 cx ps p0 a = Some (NGroup p0 e m dl dr (Some (NList pp ee items))) /\ absl items = Some bd
      /\ (match a with Grp2 _ _ _ => dl = [123%N] /\ dr = [125%N] | _ => True end).
  Proof.
    intros LN a bd SZ SH C A ps p0 fol SK.
    pose proof (grp_arg_sound n LN a bd false false SZ SH) as G.
    destruct a as [|ws b tr| | | | | | | | |ws oc cc b tr| | |]; try contradiction; cbn [grpc2 argc2] in C, G;
      specialize (G C A ps p0 fol SK).
    - rewrite node_of_grp2 in G |- *. cbn zeta in G |- *. cbn [abs_arg2 abs_body2] in G.
      unfold gen_nodelist, mk_nodelist in G |- *. do 7 eexists. split; [reflexivity|]. split; [exact G|]. try split; reflexivity.
    - rewrite node_of_brk2 in G |- *. cbn zeta in G |- *. cbn [abs_arg2 abs_body2] in G.
      unfold gen_nodelist, mk_nodelist in G |- *. do 7 eexists. split; [reflexivity|]. split; [exact G|]. try split; reflexivity.
  Qed.

  Lemma grpc_expr_sound n : ListN2 n -> forall a bd, isize2 a <= n -> grpc2 lt cx kbg true a = Some bd ->
    arity2 cx a -> forall aps p fol, skipn p s = unparse_item2 a ++ fol ->
    exists gp e m dl dr pp ee items,
      expr_node2 cx aps p a = Some (NGroup gp e m dl dr (Some (NList pp ee items))) /\ absl items = Some bd.
  Proof.
    intros LN a.
    induction a as [ws cs|ws b tr| | | | | | | | |ws oc cc b tr| | |ws tx post a0 IHa]; intros bd SZ C A aps p fol SK;
      try discriminate C.
    - cbn [expr_node2].
      destruct (grp_node_sound n LN _ bd SZ I C A aps _ fol (skip_ws2 s p _ fol SK)) as (e & m & dl & dr & pp & ee & items & X1 & X2 & _).
      do 8 eexists. split; eassumption.
    - cbn [expr_node2].
      destruct (grp_node_sound n LN _ bd SZ I C A aps _ fol (skip_ws2 s p _ fol SK)) as (e & m & dl & dr & pp & ee & items & X1 & X2 & _).
      do 8 eexists. split; eassumption.
    - cbn [grpc2] in C. cbn [isize2] in SZ. cbn [arity2] in A. cbn [expr_node2 item_ws2].
      apply (IHa bd ltac:(lia) C A aps _ fol).
      replace (p + length ws + 1 + length tx + length post) with (p + length (ws ++ 37%N :: tx ++ post))
        by (rewrite app_length; cbn [length]; rewrite app_length; lia).
      apply skipn_shift. rewrite SK. cbn [unparse_item2]. rewrite <- !app_assoc. cbn [app]. now rewrite <- !app_assoc.
  Qed.

  Lemma grpc_arg_sound n : ListN2 n -> forall a bd spc, isize2 a <= n ->
    grpc2 lt cx kbg (is_expr_kind (a_kind spc)) a = Some bd -> arity2 cx a -> forall ps p fol,
    skipn p s = unparse_item2 a ++ fol ->
    exists gp e m dl dr pp ee items,
      arg_node2 cx ps spc p a = Some (NGroup gp e m dl dr (Some (NList pp ee items))) /\ absl items = Some bd.
  Proof.
    intros LN a bd spc SZ C A ps p fol SK. unfold arg_node2.
    destruct (a_kind spc) as [sp0|od cd opt sp0|ch sp0 full|dv] eqn:K; cbn [is_expr_kind] in C.
    - exact (grpc_expr_sound n LN a bd SZ C A _ p fol SK).
    - destruct a; try discriminate C;
        (destruct (grp_node_sound n LN _ bd SZ I C A (apply_adelta ps (a_delta spc)) _ fol (skip_ws2 s p _ fol SK))
           as (e & m & dl & dr & pp & ee & items & X1 & X2 & _); do 8 eexists; split; eassumption).
    - destruct a; try discriminate C;
        (destruct (grp_node_sound n LN _ bd SZ I C A (apply_adelta ps (a_delta spc)) _ fol (skip_ws2 s p _ fol SK))
           as (e & m & dl & dr & pp & ee & items & X1 & X2 & _); do 8 eexists; split; eassumption).
    - destruct a; try discriminate C;
        (destruct (grp_node_sound n LN _ bd SZ I C A (apply_adelta ps (a_delta spc)) _ fol (skip_ws2 s p _ fol SK))
           as (e & m & dl & dr & pp & ee & items & X1 & X2 & _); do 8 eexists; split; eassumption).
  Qed.

  Lemma accarg_expr_sound n : ListN2 n -> forall a k, isize2 a <= n -> accarg2 lt cx kbg true a = Some k ->
    arity2 cx a -> forall aps p fol, skipn p s = unparse_item2 a ++ fol ->
    exists x, expr_node2 cx aps p a = Some x /\ abs x = Some k.
  Proof.
    intros LN a.
    induction a as [ws cs|ws b tr| | | | | | | | | | | |ws tx post a0 IHa]; intros kk SZ C A aps p fol SK;
      try discriminate C.
    - cbn [accarg2] in C. injection C as <-. eexists. split; reflexivity.
    - cbn [accarg2] in C. destruct (closed b tr) as [bd|] eqn:CB; [|discriminate C]. injection C as <-.
      cbn [expr_node2].
      destruct (grp_node_sound n LN (Grp2 ws b tr) bd SZ I CB A aps _ fol (skip_ws2 s p _ fol SK))
        as (e & m & dl & dr & pp & ee & items & X1 & X2 & -> & ->).
      eexists. split; [exact X1|]. rewrite abs_group. cbn [str_eqb list_eqb N.eqb Pos.eqb andb abs_body2].
      rewrite X2. reflexivity.
    - cbn [accarg2] in C. cbn [isize2] in SZ. cbn [arity2] in A. cbn [expr_node2 item_ws2].
      apply (IHa kk ltac:(lia) C A aps _ fol).
      replace (p + length ws + 1 + length tx + length post) with (p + length (ws ++ 37%N :: tx ++ post))
        by (rewrite app_length; cbn [length]; rewrite app_length; lia).
      apply skipn_shift. rewrite SK. cbn [unparse_item2]. rewrite <- !app_assoc. cbn [app]. now rewrite <- !app_assoc.
  Qed.

  Lemma accarg_arg_sound n : ListN2 n -> forall a k spc, isize2 a <= n ->
    accarg2 lt cx kbg (is_expr_kind (a_kind spc)) a = Some k -> arity2 cx a -> forall ps p fol,
    skipn p s = unparse_item2 a ++ fol ->
    exists x, arg_node2 cx ps spc p a = Some x /\ abs x = Some k.
  Proof.
    intros LN a k spc SZ C A ps p fol SK. unfold arg_node2.
    destruct (a_kind spc) as [sp0|od cd opt sp0|ch sp0 full|dv] eqn:K; cbn [is_expr_kind] in C;
      [exact (accarg_expr_sound n LN a k SZ C A _ p fol SK)| | |];
      (destruct a as [|ws b tr| | | | | | | | | | | |]; try discriminate C;
       cbn [accarg2] in C; destruct (closed b tr) as [bd|] eqn:CB; [|discriminate C]; injection C as <-;
       destruct (grp_node_sound n LN (Grp2 ws b tr) bd SZ I CB A (apply_adelta ps (a_delta spc)) _ fol (skip_ws2 s p _ fol SK))
         as (e & m & dl & dr & pp & ee & items & X1 & X2 & -> & ->);
       eexists; split; [exact X1|]; rewrite abs_group; cbn [str_eqb list_eqb N.eqb Pos.eqb andb abs_body2];
       rewrite X2; reflexivity).
  Qed.

  Lemma arg_nodes_len2 ps al : forall p specs, length al = length specs ->
    length (fst (arg_nodes2 cx ps p al specs)) = length specs.
  Proof.
    induction al as [|a al IH]; intros p [|spc specs] L; try discriminate; [reflexivity|].
    cbn [arg_nodes2 fst length]. f_equal. apply IH. cbn [length] in L. lia.
  Qed.

  Lemma legacy_view_not_bare (a : option pargs) {A} (X : A) (N : A) :
    snd (legacy_view a) <> [] ->
    match legacy_view a with (None, []) => N | _ => X end = X.
  Proof. destruct (legacy_view a) as [[c|] [|y r]]; cbn [snd]; try reflexivity. intros H. now contradiction H. Qed.

  Lemma legacy_view_snd sp (l : list (option node)) :
    snd (legacy_view (Some (sp, l))) = skipn (snd (legacy_idx (Some (sp, [])))) l.
  Proof.
    unfold legacy_view. change (legacy_idx (Some (sp, l))) with (legacy_idx (Some (sp, []))).
    destruct (legacy_idx (Some (sp, []))) as [[i|] off]; reflexivity.
  Qed.

  Lemma skipn_nonempty {A} k (l : list A) : k < length l -> skipn k l <> [].
  Proof.
    revert l. induction k as [|k IH]; intros [|x l] H; cbn in *; try lia; [discriminate|]. apply IH. lia.
  Qed.

  Lemma node_step_k2 n : NodeN2 n -> ListN2 n -> NodeN2 (S n).
  Proof.
    intros NN LN i k SZ C A ps p0 fol SK.
    destruct i as [ws cs|ws b tr|ws name post args|ws kd b tr|ws text post|ws mid|ws bws name args b tr ews
                  |ws chars args|ws name post dc text|ws bws name oarg text|ws oc cc b tr| |vw od cd vt|pw ptx ppost pa0];
      try discriminate C;
      unfold ibody2 in SK; cbn [item_ws2 unparse_item2] in SK; rewrite ?skipn_len_app in SK.
    - (* group *)
      rewrite core_of_grp2 in C. destruct (closed b tr) as [bd|] eqn:CB; [|discriminate]. injection C as <-.
      cbn [isize2] in SZ. fold (lsize2 b) in SZ. cbn [arity2] in A. fold (arity_items2 cx b) in A.
      rewrite node_of_grp2. cbn zeta. eexists. split; [reflexivity|].
      rewrite abs_group. cbn [str_eqb list_eqb N.eqb Pos.eqb andb abs_body2]. unfold gen_nodelist, mk_nodelist.
      cbn [app] in SK. apply skipn_S_of in SK.
      rewrite (closed_sound n LN b tr bd ltac:(lia) CB A ps (S p0) _ (tr ++ [125%N] ++ fol)); [reflexivity|].
      rewrite SK. unfold unparse_items2. now rewrite <- !app_assoc.
    - (* macro *)
      destruct (get_macro_spec cx name) as [sp|] eqn:GS; [|cbn [core_of2] in C; rewrite GS in C; discriminate].
      destruct (sp_args sp) as [l|lk] eqn:SA; [|cbn [core_of2] in C; rewrite GS, SA in C; discriminate].
      rewrite (core_of_mac2 lt cx kbg ws name post args sp l GS SA) in C.
      rewrite (node_of_mac2 cx ps p0 ws name post args sp l GS SA). cbn zeta.
      cbn [isize2] in SZ. fold (lsize2 args) in SZ. cbn [arity2] in A. fold (arity_items2 cx args) in A.
      set (q := p0 + 1 + length name + length post).
      assert (SKa : skipn q s = unparse_items2 args ++ fol).
      { unfold q. replace (p0 + 1 + length name + length post) with (p0 + length (92%N :: name ++ post))
          by (cbn [length]; rewrite app_length; lia).
        apply skipn_shift. rewrite SK. cbn [app]. unfold unparse_items2. now rewrite <- !app_assoc. }
      eexists. split; [reflexivity|]. rewrite abs_macro.
      destruct (macro_template lt name) as [items|] eqn:MT.
      + (* %-template *)
        destruct (Nat.eqb (length args) (length l)) eqn:EL; [|discriminate C]. apply Nat.eqb_eq in EL.
        destruct (Nat.ltb (snd (legacy_idx (Some (map a_spec l, [])))) (length l)) eqn:EB; [|discriminate C].
        apply Nat.ltb_lt in EB. cbn [andb] in C.
        destruct (argsc2 lt cx kbg args l) as [cs|] eqn:CA; [|discriminate C].
        rewrite legacy_view_not_bare.
        2:{ rewrite legacy_view_snd. apply skipn_nonempty. rewrite (arg_nodes_len2 ps args q l EL). exact EB. }
        cbn [argn_of]. rewrite (args_sound n LN args l cs ltac:(lia) CA A ps q fol SKa).
        unfold nslots_of. rewrite GS, SA. exact C.
      + destruct args as [|a [|a2 args]]; destruct l as [|spc [|spc2 l]]; try discriminate C.
        * (* bare symbol macro *) cbn [arg_nodes2 fst map no_arg_nodes]. exact C.
        * (* one argument *)
          cbn [arg_nodes2 fst map]. cbn [lsize2 fold_right] in SZ. cbn [arity_items2] in A. destruct A as [A _].
          unfold unparse_items2 in SKa. cbn [flat_map] in SKa. rewrite app_nil_r in SKa.
          destruct (str_eqb (a_spec spc) [123%N]) eqn:ES.
          -- apply str_eqb_eq in ES. rewrite ES. cbn [list_eqb str_eqb N.eqb Pos.eqb andb].
             destruct (accent_macro lt name) as [comb|] eqn:AM.
             ++ destruct (accarg2 lt cx kbg (is_expr_kind (a_kind spc)) a) as [ka|] eqn:CA; [|discriminate C].
                injection C as <-.
                destruct (accarg_arg_sound n LN a ka spc ltac:(lia) CA A ps q fol SKa) as (x & X1 & X2).
                rewrite X1. cbv beta iota. rewrite X2. reflexivity.
             ++ destruct (transparent_macro lt name) eqn:TM; [|discriminate C].
                destruct (grpc2 lt cx kbg (is_expr_kind (a_kind spc)) a) as [bd|] eqn:CA; [|discriminate C].
                injection C as <-.
                destruct (grpc_arg_sound n LN a bd spc ltac:(lia) CA A ps q fol SKa)
                  as (gp & ge & gm & dl & dr & pp & ee & items & X1 & X2).
                rewrite X1. cbv beta iota. cbn [abs_body2]. rewrite X2. reflexivity.
          -- destruct (str_eqb (a_spec spc) [91%N]) eqn:ES2; [|discriminate C].
             destruct (item_macro lt name) eqn:IM; [|discriminate C]. cbn [andb] in C.
             apply str_eqb_eq in ES2. rewrite ES2.
             destruct a as [| | | | | | | | | |aws oc cc ab atr| | |]; try discriminate C.
             ++ (* the label *)
                assert (C' : kbg = false
                             /\ option_map (fun bd => KTransparent [KSpecials item_label_prefix; KTransparent bd])
                                           (closed ab atr) = Some k).
                { revert C. generalize (closed ab atr). intros oc0 C.
                  destruct kbg; [discriminate C|]. split; [reflexivity|exact C]. }
                clear C. destruct C' as [KB C].
                destruct (closed ab atr) as [bd|] eqn:CB; [|discriminate C]. injection C as <-.
                assert (G : arg_node2 cx ps spc q (Brk2 aws oc cc ab atr)
                            = node_of2 cx (apply_adelta ps (a_delta spc)) (q + length aws) (Brk2 aws oc cc ab atr)).
                { unfold arg_node2. destruct (a_kind spc); reflexivity. }
                rewrite G, node_of_brk2. cbn zeta.
                cbn [list_eqb str_eqb N.eqb Pos.eqb andb].
                replace (negb kbg) with true by (rewrite KB; reflexivity). cbn [andb]. cbv beta iota. cbn [abs_body2].
                unfold gen_nodelist, mk_nodelist.
                cbn [isize2] in SZ. fold (lsize2 ab) in SZ. cbn [arity2] in A. fold (arity_items2 cx ab) in A.
                pose proof (skip_ws2 s q _ fol SKa) as SKb. unfold ibody2 in SKb.
                cbn [item_ws2 unparse_item2] in SKb. rewrite skipn_len_app in SKb. cbn [app] in SKb.
                apply skipn_S_of in SKb.
                rewrite (closed_sound n LN ab atr bd ltac:(lia) CB A _ _ _ (atr ++ [cc] ++ fol)); [reflexivity|].
                rewrite SKb. unfold unparse_items2. now rewrite <- !app_assoc.
             ++ (* absent *)
                injection C as <-.
                assert (G : arg_node2 cx ps spc q Abs2 = None).
                { unfold arg_node2. destruct (a_kind spc); reflexivity. }
                rewrite G. cbn [list_eqb str_eqb N.eqb Pos.eqb andb]. reflexivity.
    - (* math *)
      rewrite core_of_math2 in C. destruct (closed b tr) as [bd|] eqn:CB; [|discriminate]. injection C as <-.
      cbn [isize2] in SZ. fold (lsize2 b) in SZ. cbn [arity2] in A. fold (arity_items2 cx b) in A.
      rewrite node_of_math2. cbn zeta. eexists. split; [reflexivity|].
      rewrite abs_math, absorb_pos2. cbn [abs_body2]. unfold gen_nodelist, mk_nodelist.
      rewrite (closed_sound n LN b tr bd ltac:(lia) CB A _ (p0 + length (m_open kd)) _ (tr ++ m_close kd ++ fol)).
      2:{ apply skipn_shift. rewrite SK. unfold unparse_items2. now rewrite <- !app_assoc. }
      cbn [option_map]. do 2 f_equal.
      replace (p0 + length (m_open kd) + length (unparse_items2 b) + length tr + length (m_close kd))
        with (p0 + length (m_open kd ++ unparse_items2 b ++ tr ++ m_close kd)) by (rewrite !app_length; lia).
      apply (slice_of_skipn s p0 _ fol). rewrite SK. unfold unparse_items2. now rewrite <- !app_assoc.
    - (* comment *)
      cbn [core_of2] in C. injection C as <-. eexists. split; reflexivity.
    - (* paragraph break *)
      cbn [core_of2] in C. cbn [node_of2]. destruct (par_spec_ok cx); [|discriminate].
      destruct (assoc (lt_specials lt) [10; 10]%N) eqn:AS; [discriminate|]. injection C as <-.
      eexists. split; [reflexivity|]. cbn [abstract2]. rewrite AS. reflexivity.
    - (* environment *)
      destruct (get_env_spec cx name) as [sp|] eqn:GS; [|cbn [core_of2] in C; rewrite GS in C; discriminate].
      destruct (sp_args sp) as [l|lk] eqn:SA; [|cbn [core_of2] in C; rewrite GS, SA in C; discriminate].
      rewrite (core_of_env2 lt cx kbg ws bws name args b tr ews sp l GS SA) in C.
      rewrite (node_of_env2 cx ps p0 ws bws name args b tr ews sp l GS SA). cbn zeta.
      cbn [isize2] in SZ. fold (lsize2 args) in SZ. fold (lsize2 b) in SZ.
      cbn [arity2] in A. rewrite GS, SA in A. fold (arity_items2 cx args) in A. fold (arity_items2 cx b) in A.
      destruct A as (AL & _ & AB).
      rewrite (arg_nodes_pos2 cx ps args _ l AL).
      assert (SKb : skipn (p0 + length (begin_str bws name) + length (unparse_items2 args)) s
                    = unparse_items2 b ++ tr ++ end_str ews name ++ fol).
      { rewrite <- Nat.add_assoc, <- app_length. apply skipn_shift. rewrite SK.
        unfold unparse_items2. now rewrite <- !app_assoc. }
      eexists. split; [reflexivity|]. rewrite abs_env. cbn [abs_body2]. unfold gen_nodelist, mk_nodelist.
      destruct (transparent_env lt name).
      + destruct (closed b tr) as [bd|] eqn:CB; [|discriminate C]. injection C as <-.
        rewrite (closed_sound n LN b tr bd ltac:(lia) CB AB _ _ _ _ SKb). reflexivity.
      + destruct (wrap_env lt name) as [[pre post]|]; [|discriminate C].
        destruct (closed b tr) as [bd|] eqn:CB; [|discriminate C]. injection C as <-.
        rewrite (closed_sound n LN b tr bd ltac:(lia) CB AB _ _ _ _ SKb). reflexivity.
    - (* specials *)
      cbn [core_of2] in C.
      destruct (get_specials_spec cx chars) as [sp|] eqn:GS; [|discriminate C].
      destruct (sp_args sp) as [l|lk] eqn:SA; [|discriminate C].
      rewrite (node_of_spc2 cx ps p0 ws chars args sp l GS SA). cbn zeta.
      eexists. split; [reflexivity|]. cbn [abstract2]. exact C.
  Qed.

  Lemma list_step_k2 n : NodeN2 (S n) -> ListN2 n -> ListN2 (S n).
  Proof.
    intros NN LN l k k' SZ C A ps p st fol SK R.
    destruct l as [|i l]; [cbn in C; injection C as <-; exact R|].
    rewrite lsize_cons2 in SZ. pose proof (isize_pos2 i). rewrite cores_items_cons2 in C.
    destruct (kabsorb_item2 lt cx kbg k i) as [k1|] eqn:KA; [|discriminate].
    cbn [arity_items2] in A. destruct A as [A1 A2].
    rewrite absorb_cons2.
    unfold unparse_items2 in SK. cbn [flat_map] in SK. rewrite <- app_assoc in SK.
    assert (SK' : skipn (p + ilen2 i) s = unparse_items2 l ++ fol) by (unfold ilen2; apply skipn_shift; exact SK).
    apply (LN l k1 k' ltac:(lia) C A2 ps _ _ fol SK').
    pose proof (skip_ws2 s p i _ SK) as SKi.
    destruct i; cbn [kabsorb_item2] in KA; cbn [absorb_item2];
      try (injection KA as <-; apply kr2_push_pending; exact R);
      try (match type of KA with context [co ?it] =>
             destruct (co it) as [c|] eqn:CO; [|discriminate KA]; injection KA as <-;
             destruct (NN it c ltac:(lia) CO A1 ps _ _ SKi) as (nd & N1 & N2); rewrite N1;
             apply kr2_push_node; [apply kr2_pre_flush; exact R | exact N2]
           end).
  Qed.

  Lemma cores_all2 n : NodeN2 n /\ ListN2 n.
  Proof.
    induction n as [|n [NN LN]].
    - split.
      + intros i k SZ. pose proof (isize_pos2 i). lia.
      + intros l k k' SZ C A ps p st fol SK R. destruct l as [|i l]; [cbn in C; injection C as <-; exact R|].
        rewrite lsize_cons2 in SZ. pose proof (isize_pos2 i). lia.
    - pose proof (node_step_k2 n NN LN) as NN'. split; [exact NN'|apply list_step_k2; assumption].
  Qed.
End Rel2.

(** the tree a document means is recognised, with the computed items; [s] is any string in which
    the document is written at offset [pos] *)
Theorem tree_cores2 lt cx kbg s ps pos fol d ks : doc_cores2 lt cx kbg d = Some ks ->
  arity_items2 cx (d_items2 d) ->
  skipn pos s = unparse2 d ++ fol ->
  abstract2_items s lt cx kbg (fst (tree_of2 cx ps pos d)) = Some ks.
Proof.
  unfold doc_cores2. intros C A SK. destruct (cores_items2 lt cx kbg k0 (d_items2 d)) as [st'|] eqn:CI; [|discriminate].
  injection C as <-. unfold tree_of2. cbn [fst].
  assert (R : KR2 lt cx kbg s (fst (absorb2 cx ps pos cs_empty (d_items2 d))) st').
  { apply (proj2 (cores_all2 lt cx kbg s (lsize2 (d_items2 d))) _ _ _ (le_n _) CI A ps pos cs_empty (d_trail2 d ++ fol));
      [|apply kr2_empty]. rewrite SK. unfold unparse2. now rewrite <- app_assoc. }
  unfold eos_state. destruct (d_trail2 d) as [|c w] eqn:ET.
  - unfold kclose, kpush. rewrite app_nil_r. destruct st' as [a pd]. cbn [fst snd].
    exact (proj1 (kr2_flush lt cx kbg s ps _ _ R)).
  - exact (kr2_close lt cx kbg s ps _ _ (c :: w) _ R).
Qed.

(** * End to end under the default databases, syntactic side condition *)
Theorem doc_cores_tree2 : forall kbg d ks,
  ok_doc2 cx0 d = true -> doc_cores2 lt0 cx0 kbg d = Some ks -> doc_tree_cores2 kbg d = Some ks.
Proof.
  intros kbg d ks O C. unfold doc_tree_cores2.
  apply (tree_cores2 lt0 cx0 kbg (unparse2 d) (walker_state cx0) 0 [] d ks C (ok_doc_arity2 cx0 d O)).
  cbn [skipn]. now rewrite app_nil_r.
Qed.

Theorem end_to_end2_doc : forall d o ks,
  ok_doc2 cx0 d = true -> doc_cores2 lt0 cx0 (o_kbg o) d = Some ks ->
  latex_to_text o (unparse2 d) false = Some (render (nfc_accent lt0) o (o_sls o) ks, d0).
Proof. intros d o ks O C. apply end_to_end2; [exact O|]. now apply doc_cores_tree2. Qed.
