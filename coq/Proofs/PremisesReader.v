(** C16: the two READER premises of the legacy-arguments equivalence
    ([Proofs/LegacyArgs.v: reader_premises]) hold of every string, every context
    and EVERY parsing state (no well-formedness assumption at all):

    - a strict expression parse (the '{' argument) never yields "no node";
    - an absent optional group (the '[' argument) leaves the reader where it was.

    Both are read off the definition of [run] with three token facts that hold of
    the tokenizer model for every state: a token read at [p] starts at
    [p + |pre_space|]; the first-character dispatch never reports the end of the
    stream; where one state reads a brace token without leading whitespace, no
    state reports the end of the stream. *)
From Coq Require Import NArith ZArith List Bool Arith Lia.
From PLV Require Import Base.PyStr Tok.PState Tok.Tokenizer Parse.Nodes Parse.Parser Parse.ParseWire
     Parse.Legacy Proofs.PyStrFacts Proofs.TokProofs Proofs.ParserTok Proofs.ParserSpansTok
     Proofs.LegacyProofs Proofs.LegacyArgs.
Import ListNotations.

(** * Token facts that need no assumption on the state *)

Lemma math_go_pos rest pos pre l t : math_go rest pos pre l = Some t -> tpos t = pos /\ tpre t = pre.
Proof.
  induction l as [|[d k] l IH]; cbn [math_go]; [discriminate|].
  destruct (startswith rest d); [intros H; injection H as <-; split; reflexivity | exact IH].
Qed.

Lemma stage_math_pos ps rest pos pre c r : stage_math ps rest pos pre c = Some r ->
  exists t, r = TokOk t /\ tpos t = pos /\ tpre t = pre.
Proof.
  unfold stage_math. destruct (_ && _); [|discriminate].
  destruct (read_math ps rest pos pre) as [t|] eqn:E; [|discriminate].
  intros H. injection H as <-. exists t. split; [reflexivity|].
  rewrite read_math_go in E. destruct (f_in_math _).
  - destruct (c_expect_close _) as [[cd k]|].
    + destruct (startswith rest cd); [injection E as <-; split; reflexivity | eapply math_go_pos; eassumption].
    + eapply math_go_pos; eassumption.
  - eapply math_go_pos; eassumption.
Qed.

Definition res_at (pos : nat) (pre : str) (r : tokres) : Prop :=
  match r with
  | TokOk t => tpos t = pos /\ tpre t = pre
  | TokEOS _ => False
  | TokErr _ => True
  end.

Lemma read_macro_at ps s pos pre : res_at pos pre (read_macro ps s pos pre).
Proof.
  unfold read_macro. destruct (skipn (S pos) s) as [|d r0]; [exact I|].
  destruct (mem_c d _); [destruct (post_space_at s _)|]; split; reflexivity.
Qed.
Lemma read_environment_at ps s pos b pre : res_at pos pre (read_environment ps s pos b pre).
Proof.
  unfold read_environment. destruct (match_envname _) as [[nm len]|]; [split; reflexivity | exact I].
Qed.

Lemma stage_escape_at ps s pos pre c r : stage_escape ps s pos pre c = Some r -> res_at pos pre r.
Proof.
  pose proof (read_macro_at ps s pos pre) as M.
  pose proof (read_environment_at ps s pos) as En.
  unfold stage_escape. destruct (str_eqb [c] _); [|discriminate].
  destruct (f_en_envs (ps_f ps)).
  - destruct (startswith _ kw_begin).
    + destruct (char_at s _) as [d|]; [destruct (mem_c d _)|].
      * destruct (f_en_macros _); [|discriminate]. intros H. injection H as <-. exact M.
      * intros H. injection H as <-. apply En.
      * intros H. injection H as <-. apply En.
    + destruct (startswith _ kw_end).
      * destruct (char_at s _) as [d|]; [destruct (mem_c d _)|].
        -- destruct (f_en_macros _); [|discriminate]. intros H. injection H as <-. exact M.
        -- intros H. injection H as <-. apply En.
        -- intros H. injection H as <-. apply En.
      * destruct (f_en_macros _); [|discriminate]. intros H. injection H as <-. exact M.
  - destruct (f_en_macros _); [|discriminate]. intros H. injection H as <-. exact M.
Qed.

Lemma stage_comment_at ps s rest pos pre c r : stage_comment ps s rest pos pre c = Some r -> res_at pos pre r.
Proof.
  unfold stage_comment. destruct (f_comment _) as [|c0 cr]; [discriminate|].
  destruct (_ && _); [|discriminate]. intros H. injection H as <-. unfold read_comment.
  destruct (find_from s _ _) as [sp|]; [destruct (post_space_at s sp)|]; split; reflexivity.
Qed.

Lemma stage_group_at ps pos pre c r : stage_group ps pos pre c = Some r -> res_at pos pre r.
Proof.
  unfold stage_group. destruct (f_en_groups _); [|discriminate].
  destruct (existsb _ (c_group_open _)); [intros H; injection H as <-; split; reflexivity|].
  destruct (existsb _ (c_group_close _)); [intros H; injection H as <-; split; reflexivity|discriminate].
Qed.

Lemma stage_specials_at ps rest pos pre r : stage_specials ps rest pos pre = Some r -> res_at pos pre r.
Proof.
  unfold stage_specials. destruct (f_ctx_specials _) as [l|]; [|discriminate].
  destruct (f_en_specials _); [|discriminate]. destruct (test_specials l rest None); [|discriminate].
  intros H. injection H as <-. split; reflexivity.
Qed.

Lemma char_token_at ps c pos pre : res_at pos pre (char_token ps c pos pre).
Proof. unfold char_token. destruct (mem_c c _); [exact I | split; reflexivity]. Qed.

(** the first-character dispatch: a token sits at the dispatch position with the
    given leading whitespace; the end of the stream is never reported *)
Lemma dispatch_at ps s rest pos pre c : res_at pos pre (dispatch ps s rest pos pre c).
Proof.
  unfold dispatch, orelse.
  destruct (stage_math ps rest pos pre c) as [r|] eqn:E1.
  { destruct (stage_math_pos _ _ _ _ _ _ E1) as (t & -> & A). exact A. }
  destruct (stage_escape ps s pos pre c) as [r|] eqn:E2; [eapply stage_escape_at; exact E2|].
  destruct (stage_comment ps s rest pos pre c) as [r|] eqn:E3; [eapply stage_comment_at; exact E3|].
  destruct (stage_group ps pos pre c) as [r|] eqn:E4; [eapply stage_group_at; exact E4|].
  destruct (stage_specials ps rest pos pre) as [r|] eqn:E5; [eapply stage_specials_at; exact E5|].
  apply char_token_at.
Qed.

(** a token read with the reader at [p] starts at [p + |pre_space|] — for every state *)
Theorem impl_peek_pos_any ps s p t : impl_peek ps s p = TokOk t -> tpos t = p + length (tpre t).
Proof.
  unfold impl_peek, peek_space. destruct (span is_space (skipn p s)) as [pre0 b]. cbn [fst].
  destruct (_ && _).
  - intros H. injection H as <-. unfold par_token. pose proof (find_nl_le pre0) as F.
    destruct (match f_ctx_specials _ with Some _ => _ | None => _ end); cbn [tpos tpre mk];
      rewrite firstn_length; lia.
  - destruct (skipn (p + length pre0) s) as [|c rest]; [discriminate|].
    pose proof (dispatch_at ps s (c :: rest) (p + length pre0) pre0 c) as D.
    intros E. rewrite E in D. destruct D as [D1 D2]. rewrite D1, D2. reflexivity.
Qed.

Lemma peek_tok_back s ps p t : peek_tok s false ps p = TokOk t -> tpos t - length (tpre t) = p.
Proof. rewrite peek_tok_strict. intros H. apply impl_peek_pos_any in H. lia. Qed.
Lemma next_tok_back s ps p t : next_tok s false ps p = TokOk t -> tpos t - length (tpre t) = p.
Proof. rewrite next_tok_strict. intros H. apply impl_peek_pos_any in H. lia. Qed.

(** where SOME state reads a token that is not a char / specials token, without
    leading whitespace, NO state reports the end of the stream *)
Lemma impl_peek_not_eos ps1 ps2 s p t fin :
  impl_peek ps1 s p = TokOk t -> tk t <> TkChar -> tk t <> TkSpecials -> tpre t = [] ->
  impl_peek ps2 s (tpos t) = TokEOS fin -> False.
Proof.
  intros H1 K1 K2 Hpre. pose proof (impl_peek_pos_any _ _ _ _ H1) as TP. rewrite Hpre in TP.
  cbn [length] in TP. rewrite Nat.add_0_r in TP. rewrite TP. clear TP. revert H1.
  unfold impl_peek, peek_space. destruct (span is_space (skipn p s)) as [pre0 b]. cbn [fst].
  destruct (f_en_dnp (ps_f ps1) && _) eqn:G1.
  - intros H. injection H as <-. exfalso. unfold par_token in K1, K2.
    destruct (match f_ctx_specials _ with Some _ => _ | None => _ end); cbn [tk mk] in *; congruence.
  - destruct (skipn (p + length pre0) s) as [|c rest] eqn:R; [discriminate|].
    intros E. pose proof (dispatch_at ps1 s (c :: rest) (p + length pre0) pre0 c) as D.
    rewrite E in D. destruct D as [_ D2]. rewrite Hpre in D2. subst pre0.
    cbn [count_c Nat.leb]. rewrite andb_false_r.
    pose proof (dispatch_at ps2 s (c :: rest) (p + length (@nil N)) [] c) as D.
    intros E2. rewrite E2 in D. exact D.
Qed.

(** * The delimited-group parser *)
Section Reader.
  Variable s : str.
  Variable cx : context.
  Local Notation R := (run s false cx).
  Local Notation pc := (parse_content false).

  Lemma pc_not_reos x p : pc x <> REOS p.
  Proof. destruct x as [[?| |]?| | | |]; cbn; discriminate. Qed.

  Definition gps_of (ps : pstate) (d : gdelims) : pstate :=
    match d with GDPair o c => ps_add_group ps o c | _ => ps end.

  (** a mandatory group never yields "no node" *)
  Lemma group_mandatory_some f ps d aps pos p :
    R f (TGroup ps d false aps pos) <> Ok (ONode None) p.
  Proof.
    destruct f as [|f]; cbn [run]; [discriminate|].
    repeat match goal with
           | |- match ?x with _ => _ end <> _ => destruct x
           | |- (if ?x then _ else _) <> _ => destruct x
           end; discriminate.
  Qed.

  (** the end of the stream escapes from a group parser only at its first token *)
  Lemma group_reos f ps d opt aps pos p :
    R f (TGroup ps d opt aps pos) = REOS p ->
    p = pos /\ exists fin, impl_peek (gps_of ps d) s pos = TokEOS fin.
  Proof.
    destruct f as [|f]; cbn [run]; [discriminate|].
    change (match d with GDPair o c => ps_add_group ps o c | _ => ps end) with (gps_of ps d).
    rewrite next_tok_strict.
    destruct (impl_peek (gps_of ps d) s pos) as [t|fin|e] eqn:E.
    3: discriminate.
    2: { intros H. injection H as <-. eauto. }
    destruct (negb _); [destruct opt; discriminate|].
    destruct (match d with GDNone => _ | GDStr _ => _ | GDPair _ _ => _ end) as [[od cd]|]; [|discriminate].
    destruct (parse_content false _) as [[?| |]?| | | |] eqn:EP; try discriminate.
    intros _. exfalso. exact (pc_not_reos _ _ EP).
  Qed.

  (** an absent OPTIONAL group leaves the reader where it was *)
  Lemma group_absent_in_place f ps d aps pos p :
    pc (R f (TGroup ps d true aps pos)) = Ok (ONode None) p -> p = pos.
  Proof.
    destruct (R f (TGroup ps d true aps pos)) as [[[n|]| |] q|e q|q|k|] eqn:E; cbn [parse_content];
      try discriminate.
    - (* Ok (ONode None) q : the rewind position *)
      intros H. injection H as <-. revert E.
      destruct f as [|f]; cbn [run]; [discriminate|].
      change (match d with GDPair o c => ps_add_group ps o c | _ => ps end) with (gps_of ps d).
      destruct (next_tok s false (gps_of ps d) pos) as [t|fin|e] eqn:ET; try discriminate.
      apply next_tok_back in ET.
      destruct (negb _).
      + intros H. injection H as <-. exact ET.
      + destruct (match d with GDNone => _ | GDStr _ => _ | GDPair _ _ => _ end) as [[od cd]|]; [|discriminate].
        destruct (parse_content false _) as [[?| |]?| | | |]; discriminate.
    - (* REOS q *)
      intros H. injection H as <-. apply group_reos in E. tauto.
  Qed.

  (** * The expression parser in strict mode never yields "no node" *)
  Definition no_node (r : res out) : Prop :=
    match r with Ok (ONode None) _ => True | REOS _ => True | _ => False end.

  Lemma expr_never_none f : forall ps acc pos r,
    R f (TExpr ps true true false true acc pos) = r ->
    (forall x, In x acc -> x <> None) -> no_node r -> False.
  Proof.
    induction f as [|f IH]; intros ps acc pos r; cbn [run]; [intros <- _ []|].
    intros H Hacc. revert H.
    destruct (next_tok s false (sub_context ps [UEnEnvs false]) pos) as [t|fin|e] eqn:ENT;
      try (intros <- []).
    assert (Hacc' : forall y, forall x, In x (acc ++ [Some y]) -> x <> None).
    { intros y x Hx. apply in_app_or in Hx. destruct Hx as [Hx|[Hx|[]]]; [auto|]. subst x. discriminate. }
    destruct (tk t) eqn:Etk; cbn [andb orb].
    all: repeat match goal with
                | |- match rev (?a ++ [?x]) with _ => _ end = _ -> _ => rewrite (rev_unit a x)
                | |- match ?x with _ => _ end = _ -> _ =>
                    lazymatch x with
                    | context [TExpr] => fail
                    | context [TGroup] => fail
                    | _ => destruct x eqn:?
                    end
                | |- (if ?x then _ else _) = _ -> _ => destruct x eqn:?
                end.
    all: try (intros <- []; fail).
    all: try (intros H; eapply IH; [exact H | apply Hacc']; fail).
    all: try (intros H; eapply IH; [exact H | exact Hacc]; fail).
    (* the group case *)
    all: destruct (R f (TGroup _ _ _ _ _)) as [[[g|]| |] q|e q|q|k|] eqn:EG; cbn [parse_content];
      rewrite ?rev_unit; try (intros <- []; fail).
    - exfalso. eapply group_mandatory_some. exact EG.
    - exfalso. apply group_reos in EG. destruct EG as (_ & fin & EG). cbn [gps_of] in EG.
      rewrite next_tok_strict in ENT.
      eapply (impl_peek_not_eos _ _ _ _ _ _ ENT); try eassumption; rewrite Etk; discriminate.
  Qed.

  Theorem reader_premises_hold ps : reader_premises s cx ps.
  Proof.
    split.
    - intros F p p' H.
      destruct (R F (TExpr ps true true false true [] p)) as [[[n|]| |] q|e q|q|k|] eqn:E;
        cbn [parse_content] in H; try discriminate.
      + eapply (expr_never_none F ps [] p _ E); [intros x []|exact I].
      + eapply (expr_never_none F ps [] p _ E); [intros x []|exact I].
    - intros F p p'. apply group_absent_in_place.
  Qed.
End Reader.
