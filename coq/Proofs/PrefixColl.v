(** C06 (prefix) — the tolerant nodes collector never loses a node it has
    finished: whatever the rest of the input is, the nodes accumulated so far
    are a prefix of the nodes it returns, or of the recovery nodes of the error
    it raises.  By induction on the fuel, for every collector, state and
    position; nothing is assumed about the nested parsers. *)
From Coq Require Import NArith List Bool Arith Lia.
From PLV Require Import Base.PyStr Tok.PState Tok.Tokenizer Parse.Nodes Parse.Parser Parse.ParseWire
                        Proofs.ParserSpansStep.
Import ListNotations.

Definition extends (st st1 : collstate) : Prop := exists m, cs_acc st1 = cs_acc st ++ m.

Lemma extends_refl st : extends st st. Proof. exists []. rewrite app_nil_r. reflexivity. Qed.
Lemma extends_trans a b c : extends a b -> extends b c -> extends a c.
Proof. intros [m E] [m' E']. exists (m ++ m'). rewrite E', E, app_assoc. reflexivity. Qed.
Lemma extends_flush ps st : extends st (flush ps st).
Proof. unfold flush. destruct (cs_pend st); [apply extends_refl|]. eexists. reflexivity. Qed.
Lemma extends_push_pending st c p : extends st (push_pending st c p).
Proof. exists []. cbn [push_pending cs_acc]. rewrite app_nil_r. reflexivity. Qed.
Lemma extends_push_node st n : extends st (push_node st n).
Proof. eexists. reflexivity. Qed.

(** what is claimed of a collector result, relative to the state [st] *)
Definition keeps_acc (st : collstate) (r : res out) : Prop :=
  match r with
  | Ok (OColl st' _ _ _) _ => extends st st'
  | PErr e _ => exists m, pe_nodes e = Some (NList None None (cs_acc st ++ m))
  | _ => True
  end.

Lemma keeps_ext st st1 r : extends st st1 -> keeps_acc st1 r -> keeps_acc st r.
Proof.
  intros E. destruct r as [[n|st' a b c|a] p|e p|p|k|]; cbn [keeps_acc]; auto.
  - intros E'. eapply extends_trans; eassumption.
  - destruct E as [m E]. intros [m' H]. exists (m ++ m'). rewrite H, E, app_assoc. reflexivity.
Qed.

Section Coll.
  Variable s : str.
  Variable cx : context.
  Notation R := (run s true cx).

  Lemma pre_result_ext ps o st t : extends st (fst (c_pre_result ps o st t)).
  Proof.
    unfold c_pre_result. destruct (cs_pend st) as [|c0 r0] eqn:E.
    - destruct (tpre t); cbn [fst]; [apply extends_refl | apply extends_push_node].
    - cbn [fst]. unfold flush. cbn [cs_pend cs_acc]. destruct ((c0 :: r0) ++ tpre t) eqn:E2; [discriminate|].
      eexists. reflexivity.
  Qed.

  Lemma push_check_keeps rec ps o st1 n p1 p2 :
    (forall st2 p, keeps_acc st2 (rec (TCollect ps o st2 p))) ->
    keeps_acc st1 (c_push_check rec ps o st1 n p1 p2).
  Proof.
    intros IH. unfold c_push_check. destruct (nl_stop_met _ _).
    - cbn [c_finish keeps_acc]. apply extends_push_node.
    - eapply keeps_ext; [apply extends_push_node | apply IH].
  Qed.

  Lemma fail_keeps ps st1 t w : keeps_acc st1 (c_fail ps st1 t w).
  Proof. cbn [c_fail keeps_acc mkerr pe_nodes]. destruct (extends_flush ps st1) as [m E]. exists m. rewrite E. reflexivity. Qed.

  Theorem coll_keeps : forall f ps o st pos, keeps_acc st (R f (TCollect ps o st pos)).
  Proof.
    induction f as [|f IH]; intros ps o st pos; [exact I|].
    rewrite run_collect. unfold collect_step.
    destruct (next_tok s true ps pos) as [t|fin|e].
    - destruct (stop_matches (g_stop o) t).
      + unfold c_stop, c_finish. cbn [keeps_acc].
        eapply extends_trans; [|apply extends_flush]. destruct (g_incl_pre o); [apply extends_push_pending | apply extends_refl].
      + assert (NC : keeps_acc st
                  (let pre_result := c_pre_result ps o st t in
                   let st1 := fst pre_result in
                   if snd pre_result then c_finish st1 None true false (tpos t)
                   else c_dispatch true cx (R f) ps o st1 t)).
        { cbn zeta. pose proof (pre_result_ext ps o st t) as E.
          destruct (snd (c_pre_result ps o st t)); [exact E|].
          eapply keeps_ext; [exact E|]. set (st1 := fst (c_pre_result ps o st t)). clearbody st1. clear E.
          assert (PC : forall n p1 p2, keeps_acc st1 (c_push_check (R f) ps o st1 n p1 p2))
            by (intros; apply push_check_keeps; intros; apply IH).
          unfold c_dispatch. destruct (tk t).
          - exact I.
          - (* macro *)
            destruct (get_macro_spec cx (targ t)); [|apply IH].
            destruct (R f (TCall (child_state o ps t) (c_tok0 t) c (tend t))) as [[[n|]|? ? ? ?|?] p|e p|p|k|];
              cbn [parse_content]; try exact I; try apply PC; try apply IH.
            destruct (pe_nodes e); [apply PC | apply IH].
          - (* begin *)
            destruct (get_env_spec cx (targ t)); [|apply IH].
            destruct (R f (TCall (child_state o ps t) (c_tok0 t) c (tend t))) as [[[n|]|? ? ? ?|?] p|e p|p|k|];
              cbn [parse_content]; try exact I; try apply PC; try apply IH.
            destruct (pe_nodes e); [apply PC | apply IH].
          - apply fail_keeps.
          - apply PC.
          - (* brace open *)
            destruct (R f (TGroup (child_state o ps t) (GDStr (targ t)) false false (tpos t)))
              as [[n|? ? ? ?|?] p|e p|p|k|]; cbn [parse_content]; try exact I; apply PC.
          - apply fail_keeps.
          - (* math inline *)
            destruct (negb (by_open_has ps (targ t))); [apply fail_keeps|].
            destruct (R f (TMath (child_state o ps t) (targ t) (tpos t))) as [[[n|]|? ? ? ?|?] p|e p|p|k|];
              cbn [parse_content]; try exact I; try apply PC; try apply IH.
            destruct (pe_nodes e); [apply PC | apply IH].
          - destruct (negb (by_open_has ps (targ t))); [apply fail_keeps|].
            destruct (R f (TMath (child_state o ps t) (targ t) (tpos t))) as [[[n|]|? ? ? ?|?] p|e p|p|k|];
              cbn [parse_content]; try exact I; try apply PC; try apply IH.
            destruct (pe_nodes e); [apply PC | apply IH].
          - (* specials *)
            destruct (get_specials_spec cx (targ t)); [|apply IH].
            destruct (R f (TCall (child_state o ps t) (c_tok0 t) c (tend t))) as [[[n|]|? ? ? ?|?] p|e p|p|k|];
              cbn [parse_content]; try exact I; try apply PC; try apply IH.
            destruct (pe_nodes e); [apply PC | apply IH]. }
        destruct (tk t); try exact NC.
        eapply keeps_ext; [apply extends_push_pending | apply IH].
    - destruct fin as [|c fin].
      + unfold c_finish. cbn [keeps_acc]. apply extends_flush.
      + eapply keeps_ext; [apply extends_push_pending | apply IH].
    - cbn [keeps_acc mkerr pe_nodes]. destruct (extends_flush ps st) as [m E]. exists m. rewrite E. reflexivity.
  Qed.
End Coll.
