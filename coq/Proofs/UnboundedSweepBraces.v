(** C13 / C08, unbounded composition — sweep for protection scheme [PBraces] over
    BOTH regenerated encoder tables: the chunk of every entry (except the
    unicode-xml known findings) is read by [chunk_atoms] as atoms whose written
    form is the chunk, whose structured items are in the sub-grammar, satisfy
    the side conditions of the extended document grammar when followed by the
    rest of the chunk, and are closed / guarded by a stopper in the rest of the
    chunk ([atoms_okb]); a math item only if the replacement contains [$].
    Finite sweeps by [vm_compute]; an offending key is named in the error
    message.  One file per scheme so that [make -j] runs them in parallel. *)
From Coq Require Import NArith List Bool.
From PLV Require Import Base.PyStr Enc.Encoder Enc.RoundTrip Proofs.UnboundedChunks.
Import ListNotations.

Lemma defaults : bad_chunks false PBraces = [].
Proof. vm_compute. reflexivity. Qed.

Lemma unicode_xml : bad_chunks true PBraces = [].
Proof. vm_compute. reflexivity. Qed.
